"""Shared machinery of ./check : Lean build / audit / driver, evidence, known findings, verdict.

Exit codes: 0 = property held on everything explored (KNOWN-FINDING lines allowed); 1 = VIOLATION printed;
2 = internal error / timeout of the machinery (never a verdict).
"""
import fcntl
import hashlib
import json
import os
import random
import re
import subprocess
import sys
import time
import traceback

VERIF = os.path.dirname(os.path.dirname(os.path.abspath(__file__)))
REPO = os.environ.get("VERIF_REPO", "/repo")
LEAN_ROOT = os.path.join(VERIF, "lean", "PPVerif")
LEAN_SRC = os.path.join(LEAN_ROOT, "PPVerif")
GEN_DIR = os.path.join(LEAN_SRC, "Generated")
EVIDENCE_DIR = os.path.join(VERIF, "evidence")
REPLAY_DIR = os.path.join(VERIF, "replays")
KNOWN_FILE = os.path.join(VERIF, "KNOWN_FINDINGS.txt")
ALLOWED_AXIOMS = {"propext", "Classical.choice", "Quot.sound"}
FORBIDDEN = re.compile(r"\bsorry\b|\badmit\b|^\s*axiom\s|native_decide|bv_decide|implemented_by|\bunsafe\s|maxHeartbeats\s+0\b")

TRUSTED_BASE = [
    "Lean 4.33.0 kernel (thorough tier: also leanchecker); Mathlib v4.33.0 only as kernel-checked library",
    "axioms allowed in property theorems: propext, Classical.choice, Quot.sound (audited by #print-axioms-equivalent on every run)",
    "Lean interpreter (`lake env lean --run`) executing the model definitions in the correspondence runs",
    "translators in /verif/translate (Python ast -> Lean), refusing on unrecognised source shapes",
    "correspondence harness in /verif/harness: generators, canonicalisation, tolerances, direct property oracles",
    "numerical kernels (NumPy/SciPy, Newton-Raphson, PIPS, numba JIT), pandas, networkx: modelled as contracts, not verified",
]


class InternalError(Exception):
    pass


def tree_hash(paths):
    h = hashlib.sha256()
    for p in paths:
        with open(p, "rb") as f:
            h.update(f.read())
    return h.hexdigest()[:16]


# ----------------------------------------------------------------------------------------------------------------
# Lean side
# ----------------------------------------------------------------------------------------------------------------

class _Lock:
    def __enter__(self):
        os.makedirs(os.path.join(LEAN_ROOT, ".lake"), exist_ok=True)
        self.f = open(os.path.join(LEAN_ROOT, ".lake", "verif.lock"), "w")
        fcntl.flock(self.f, fcntl.LOCK_EX)
        return self

    def __exit__(self, *a):
        fcntl.flock(self.f, fcntl.LOCK_UN)
        self.f.close()


def write_generated(name, text):
    """write Generated/<name>.lean if its content changed; returns True when changed"""
    os.makedirs(GEN_DIR, exist_ok=True)
    path = os.path.join(GEN_DIR, name + ".lean")
    old = None
    if os.path.exists(path):
        with open(path, encoding="utf-8") as f:
            old = f.read()
    if old != text:
        with _Lock():
            with open(path, "w", encoding="utf-8") as f:
                f.write(text)
        return True
    return False


def lake_build(target, timeout=1500):
    """returns (ok, output)"""
    with _Lock():
        p = subprocess.run(["lake", "build", target], cwd=LEAN_ROOT, capture_output=True, text=True, timeout=timeout)
    return p.returncode == 0, (p.stdout + p.stderr)


def lean_audit(prop):
    """Elaborate Audit/<prop>.lean afresh; returns list of (theorem, [axioms])."""
    path = os.path.join(LEAN_SRC, "Audit", prop + ".lean")
    if not os.path.exists(path):
        with open(path, "w") as f:
            f.write(f"import PPVerif.Audit.Tool\nimport PPVerif.Props.{prop}\n#audit_module PPVerif.Props.{prop}\n")
    p = subprocess.run(["lake", "env", "lean", path], cwd=LEAN_ROOT, capture_output=True, text=True, timeout=600)
    if p.returncode != 0:
        raise InternalError("audit failed: " + p.stdout + p.stderr)
    out = []
    count = None
    for line in p.stdout.splitlines():
        m = re.search(r"AUDIT (\S+) ::\s*(.*)$", line)
        if m:
            out.append((m.group(1), m.group(2).split()))
        m = re.search(r"AUDIT-COUNT (\d+)", line)
        if m:
            count = int(m.group(1))
    if count is None or count != len(out):
        raise InternalError("audit output malformed: " + p.stdout)
    return out


def strip_comments(text):
    # remove /- ... -/ (nested not handled beyond one level of -/) and -- comments
    out = []
    depth = 0
    i = 0
    n = len(text)
    while i < n:
        if text.startswith("/-", i):
            depth += 1
            i += 2
        elif depth > 0 and text.startswith("-/", i):
            depth -= 1
            i += 2
        elif depth > 0:
            if text[i] == "\n":
                out.append("\n")
            i += 1
        elif text.startswith("--", i):
            while i < n and text[i] != "\n":
                i += 1
        else:
            out.append(text[i])
            i += 1
    return "".join(out)


def scan_forbidden(modules):
    """textual scan of the given lean module files (paths relative to LEAN_SRC) for forbidden constructs"""
    hits = []
    for rel in modules:
        path = os.path.join(LEAN_SRC, rel)
        if not os.path.exists(path):
            continue
        with open(path, encoding="utf-8") as f:
            txt = strip_comments(f.read())
        for ln, line in enumerate(txt.splitlines(), 1):
            if FORBIDDEN.search(line):
                hits.append(f"{rel}:{ln}: {line.strip()}")
    return hits


def module_closure(prop):
    """all PPVerif.* lean files imported (transitively) by Props/<prop>.lean"""
    seen = []
    todo = [f"Props/{prop}.lean"]
    while todo:
        rel = todo.pop()
        if rel in seen:
            continue
        path = os.path.join(LEAN_SRC, rel)
        if not os.path.exists(path):
            continue
        seen.append(rel)
        with open(path, encoding="utf-8") as f:
            for line in f:
                m = re.match(r"\s*import\s+PPVerif\.(\S+)", line)
                if m:
                    todo.append(m.group(1).replace(".", "/") + ".lean")
    return seen


def lean_driver(driver, lines, timeout=900):
    """pipe request lines through Driver/<driver>.lean; returns list of response lines (same length)"""
    path = os.path.join(LEAN_SRC, "Driver", driver + ".lean")
    inp = "".join(l.rstrip("\n") + "\n" for l in lines)
    p = subprocess.run(["lake", "env", "lean", "--run", path], cwd=LEAN_ROOT, input=inp, capture_output=True,
                       text=True, timeout=timeout)
    if p.returncode != 0:
        raise InternalError(f"driver {driver} failed: {p.stdout[-2000:]}{p.stderr[-2000:]}")
    out = p.stdout.splitlines()
    if len(out) != len(lines):
        raise InternalError(f"driver {driver}: {len(lines)} requests, {len(out)} responses")
    return out


def leanchecker(prop, timeout=3000):
    mods = [m[:-5].replace("/", ".") for m in module_closure(prop)]
    mods = ["PPVerif." + m for m in mods]
    p = subprocess.run(["lake", "env", "leanchecker"] + mods, cwd=LEAN_ROOT, capture_output=True, text=True,
                       timeout=timeout)
    return p.returncode == 0, (p.stdout + p.stderr)[-3000:]


# ----------------------------------------------------------------------------------------------------------------
# known findings
# ----------------------------------------------------------------------------------------------------------------

def load_known():
    """returns dict (prop, key) -> description for `finding:` lines"""
    known = {}
    if os.path.exists(KNOWN_FILE):
        with open(KNOWN_FILE, encoding="utf-8") as f:
            for line in f:
                line = line.strip()
                m = re.match(r"finding:\s*property=(\S+)\s+key=(\S+)\s*::\s*(.*)$", line)
                if m:
                    known[(m.group(1), m.group(2))] = m.group(3)
    return known


# ----------------------------------------------------------------------------------------------------------------
# context of one check run
# ----------------------------------------------------------------------------------------------------------------

class Ctx:
    def __init__(self, prop, tier, seed):
        self.prop = prop
        self.tier = tier
        self.seed = seed
        self.rng = random.Random((seed * 1000003) ^ int(hashlib.sha256(prop.encode()).hexdigest()[:8], 16))
        self.t0 = time.time()
        self.tie_breaks = []          # list of dict(name, detail)
        self.failures = []            # concrete failing inputs on the implementation: dict(key, what, replay)
        self.known = load_known()
        self.cov = {"samples": [], "evaluations": 0, "distinct_nontrivial": 0, "rule": ""}
        self.obligations = []         # (theorem, axioms)
        self.assumptions = []
        self.notes = []
        self._distinct = set()
        self.level = "proof"

    # ---- budgets
    def budget(self, quick, thorough):
        return thorough if self.tier == "thorough" else quick

    # ---- coverage bookkeeping
    def count(self, case_repr, nontrivial=True):
        self.cov["evaluations"] += 1
        if nontrivial:
            h = hashlib.sha256(repr(case_repr).encode()).hexdigest()
            self._distinct.add(h)
            self.cov["distinct_nontrivial"] = len(self._distinct)

    def sample(self, obj, cap=6):
        if len(self.cov["samples"]) < cap:
            self.cov["samples"].append(obj)

    def hist(self, name, key):
        d = self.cov.setdefault("distribution", {}).setdefault(name, {})
        d[str(key)] = d.get(str(key), 0) + 1

    # ---- proof side
    def regenerate(self, name, translator):
        """translator() -> lean text, may raise Untranslatable"""
        from translate.pyexpr import Untranslatable
        try:
            text = translator()
        except Untranslatable as e:
            self.tie_break(f"translator:{name}", f"source shape not recognised: {e}")
            return False
        except (SyntaxError, FileNotFoundError, KeyError, IndexError, AttributeError, ValueError) as e:
            self.tie_break(f"translator:{name}", f"translator could not read the source: {type(e).__name__}: {e}")
            return False
        write_generated(name, text)
        return True

    def prove(self, prop=None):
        """build Props/<prop>, audit axioms, scan for forbidden constructs. Records obligations / tie breaks."""
        prop = prop or self.prop
        ok, out = lake_build(f"PPVerif.Props.{prop}")
        if not ok:
            errs = [l for l in out.splitlines() if "error" in l.lower()][:12]
            failing = sorted(set(re.findall(r"(C\d\d_\w+)", "\n".join(self._failing_decls(out, prop)))))
            self.tie_break(f"lean-build:Props.{prop}", "proof obligations no longer check: " +
                           (", ".join(failing) if failing else "") + " | " + " ; ".join(errs)[:1500])
            self.cov["lean_build_failed"] = True
            return False
        audit = lean_audit(prop)
        self.obligations = audit
        bad = [(t, [a for a in ax if a not in ALLOWED_AXIOMS]) for t, ax in audit]
        bad = [(t, a) for t, a in bad if a]
        if bad:
            self.tie_break(f"axiom-audit:{prop}", f"theorems depend on non-allowed axioms: {bad}")
        hits = scan_forbidden(module_closure(prop))
        if hits:
            self.tie_break(f"forbidden-scan:{prop}", "; ".join(hits[:10]))
        if self.tier == "thorough":
            ok2, out2 = leanchecker(prop)
            self.cov["leanchecker"] = "ok" if ok2 else out2
            if not ok2:
                self.tie_break(f"leanchecker:{prop}", out2[-800:])
        return not bad and not hits

    def _failing_decls(self, out, prop):
        """names of declarations around the error lines of Props/<prop>.lean"""
        path = os.path.join(LEAN_SRC, "Props", prop + ".lean")
        try:
            src = open(path, encoding="utf-8").read().splitlines()
        except OSError:
            return []
        names = []
        for m in re.finditer(r"Props/%s\.lean:(\d+):\d+" % prop, out):
            ln = int(m.group(1))
            for i in range(min(ln, len(src)) - 1, -1, -1):
                mm = re.match(r"\s*(theorem|lemma|def|example|instance)\s+(\S+)", src[i])
                if mm:
                    names.append(mm.group(2))
                    break
        return names

    # ---- verdict pieces
    def tie_break(self, name, detail):
        self.tie_breaks.append({"name": name, "detail": detail})

    def failure(self, key, what, replay):
        """a concrete failing input on the implementation. key = canonical class of the failing input."""
        self.failures.append({"key": key, "what": what, "replay": replay})

    def note(self, s):
        self.notes.append(s)

    # ---- finish
    def finish(self):
        os.makedirs(EVIDENCE_DIR, exist_ok=True)
        import glob
        for old in glob.glob(os.path.join(REPLAY_DIR, f"{self.prop}-{self.seed}-*.json")):   # stale replays of this (prop, seed)
            os.remove(old)
        lines = []
        exit_code = 0
        known_hit = {}
        unknown = []
        for f in self.failures:
            k = (self.prop, f["key"])
            if k in self.known:
                known_hit.setdefault(f["key"], f)
            else:
                unknown.append(f)
        for key, f in sorted(known_hit.items()):
            lines.append(f"KNOWN-FINDING: property={self.prop} {self.known[(self.prop, key)]} [key={key}]")
        n_viol = 0
        if unknown:
            # group by key: one replay per key
            seen = set()
            for i, f in enumerate(unknown):
                if f["key"] in seen:
                    continue
                seen.add(f["key"])
                path = self._write_replay(f"{self.prop}-{self.seed}-{len(seen) - 1}.json",
                                          {"property": self.prop, "key": f["key"], "what": f["what"],
                                           "replay": f["replay"], "tie_breaks": self.tie_breaks,
                                           "how": f"./check {self.prop} --replay <this file>"})
                lines.append(f"VIOLATION property={self.prop} replay={path}")
                n_viol += 1
            exit_code = 1
        elif self.tie_breaks:
            path = self._write_replay(f"{self.prop}-{self.seed}-tie.json",
                                      {"property": self.prop, "no_failing_input_found": True,
                                       "no_longer_checks": self.tie_breaks,
                                       "searched": {"evaluations": self.cov["evaluations"],
                                                    "known_findings_seen": sorted(known_hit)}})
            lines.append(f"VIOLATION property={self.prop} replay={path} no-failing-input-found")
            n_viol += 1
            exit_code = 1
        ev = self._evidence(n_viol, sorted(known_hit))
        with open(os.path.join(EVIDENCE_DIR, self.prop + ".json"), "w") as f:
            json.dump(ev, f, indent=1, default=str)
        for n in self.notes:
            print("note:", n)
        print(f"{self.prop}: tier={self.tier} seed={self.seed} obligations={ev['coverage'].get('obligations', 0)} "
              f"discharged={ev['coverage'].get('discharged', 0)} evaluations={self.cov['evaluations']} "
              f"distinct_nontrivial={self.cov['distinct_nontrivial']} tie_breaks={len(self.tie_breaks)} "
              f"failures={len(self.failures)} wall={ev['wall_s']}s")
        for l in lines:
            print(l)
        sys.stdout.flush()
        return exit_code

    def _write_replay(self, name, obj):
        os.makedirs(REPLAY_DIR, exist_ok=True)
        path = os.path.join(REPLAY_DIR, name)
        obj = dict(obj, seed=self.seed, tier=self.tier)
        with open(path, "w") as f:
            json.dump(obj, f, indent=1, default=str)
        return os.path.relpath(path, VERIF)

    def _evidence(self, n_viol, known_keys):
        disch = [t for t, ax in self.obligations if all(a in ALLOWED_AXIOMS for a in ax)]
        cov = dict(self.cov)
        if disch:
            cov["obligations"] = len(self.obligations)
            cov["discharged"] = len(disch)
        else:
            # nothing discharged (the Lean build broke): the proof-level keys would be a lie; the schema's
            # generic fall-back keys (evaluations / distinct_nontrivial) describe what the search explored
            cov["obligations_not_discharged"] = "lean build or audit failed; see tie_breaks"
        cov["checker_cmd"] = (f"cd lean/PPVerif && lake build PPVerif.Props.{self.prop} && "
                              f"lake env lean PPVerif/Audit/{self.prop}.lean")
        cov["trusted_base"] = TRUSTED_BASE
        cov["theorems"] = [{"name": t, "axioms": ax} for t, ax in self.obligations]
        cov["tie_breaks"] = self.tie_breaks
        cov["known_findings_reproduced"] = known_keys
        if not cov["samples"]:
            cov["samples"] = [{"theorem": t} for t, _ in self.obligations[:3]] or ["<none>"]
        return {"property_id": self.prop, "tier": self.tier, "seed": self.seed, "level": self.level,
                "coverage": cov, "assumptions": self.assumptions, "wall_s": round(time.time() - self.t0, 2),
                "violations": n_viol}


import contextlib
import io


@contextlib.contextmanager
def quiet():
    """swallow print() noise of the implementation (never the verdict lines, which are printed by finish())"""
    buf = io.StringIO()
    with contextlib.redirect_stdout(buf):
        yield buf


def frac(x):
    """exact rational text of a python float / int / Fraction for the line protocol"""
    from fractions import Fraction
    f = Fraction(x)
    return f"{f.numerator}/{f.denominator}" if f.denominator != 1 else str(f.numerator)


def parse_rat(s):
    from fractions import Fraction
    return Fraction(s)


def generic_replay(mod, prop, path):
    """replay for checks without a case-level replay: the run is a deterministic function of (VERIF_SEED, tier), both recorded
    in the replay file: re-run the check's exploration against /repo and report whether the recorded failure class reappears."""
    with open(path) as f:
        rec = json.load(f)
    m = re.match(r"C\d\d-(\d+)-", os.path.basename(path))
    seed = rec.get("seed", int(m.group(1)) if m else 0)
    tier = rec.get("tier", "quick")
    key = rec.get("key")
    print(f"replaying {prop} with VERIF_SEED={seed} tier={tier}, looking for failure class [{key}]")
    ctx = Ctx(prop, tier, seed)
    mod.run(ctx)
    if key is None:          # a tie break without failing input: does the tie still break?
        for t in ctx.tie_breaks:
            print("tie break:", t)
        return 1 if ctx.tie_breaks else 0
    hits = [f for f in ctx.failures if f["key"] == key]
    for f in hits[:3]:
        print("reproduced:", f["what"][:400])
    if not hits:
        print("not reproduced" + (f" (other failure classes: {sorted(set(f['key'] for f in ctx.failures))})" if ctx.failures else ""))
    return 1 if hits else 0


def main(argv):
    import argparse
    import importlib
    ap = argparse.ArgumentParser()
    ap.add_argument("prop")
    ap.add_argument("--tier", default=os.environ.get("VERIF_TIER", "quick"))
    ap.add_argument("--replay", default=None)
    a = ap.parse_args(argv)
    tier = a.tier if a.tier in ("quick", "thorough") else "quick"
    seed = int(os.environ.get("VERIF_SEED", "0") or 0)
    prop = a.prop.upper()
    try:
        mod = importlib.import_module(f"harness.props.{prop.lower()}")
    except ModuleNotFoundError as e:
        print(f"no check for {prop}: {e}")
        return 2
    ctx = Ctx(prop, tier, seed)
    import logging
    import warnings
    logging.disable(logging.CRITICAL)
    warnings.filterwarnings("ignore")
    try:
        if a.replay:
            rc = mod.replay(ctx, a.replay)
            if rc == 2:
                rc = generic_replay(mod, prop, a.replay)
            return rc
        mod.run(ctx)
        return ctx.finish()
    except subprocess.TimeoutExpired as e:
        print(f"internal: timeout {e}")
        return 2
    except Exception:
        traceback.print_exc()
        print("internal: error in the verification machinery (exit 2, not a verdict)")
        return 2


if __name__ == "__main__":
    sys.exit(main(sys.argv[1:]))
