"""Exact snapshots of the user-visible *input* state of a pandapower net (for C08 / C28 / C30).

A snapshot covers every DataFrame of the net whose name does not start with `res_` or `_`, with index, column
names, dtypes and values (NaN == NaN), plus std_types and user_pf_options.  `diff` lists what changed."""
import copy
import numpy as np
import pandas as pd


def _is_input_table(name, val):
    return isinstance(val, pd.DataFrame) and not name.startswith("res_") and not name.startswith("_")


def snapshot(net):
    snap = {}
    for name in list(net.keys()):
        val = net[name]
        if _is_input_table(name, val):
            snap[name] = val.copy(deep=True)
    snap["__std_types__"] = copy.deepcopy(net.get("std_types", None))
    snap["__user_pf_options__"] = copy.deepcopy(net.get("user_pf_options", None))
    snap["__scalars__"] = {k: net[k] for k in ("sn_mva", "f_hz", "name") if k in net}
    return snap


def _cell_equal(a, b):
    if a is b:
        return True
    try:
        if isinstance(a, float) and isinstance(b, float) and np.isnan(a) and np.isnan(b):
            return True
        if pd.isna(a) is True and pd.isna(b) is True:
            return True
    except (TypeError, ValueError):
        pass
    try:
        r = a == b
        if isinstance(r, (bool, np.bool_)):
            return bool(r)
        return bool(np.all(r))
    except Exception:
        return repr(a) == repr(b)


def diff(before, net, ignore_dtype=False, max_items=12):
    """list of human-readable differences between a snapshot and the current state of net"""
    out = []
    after = snapshot(net)
    for name in sorted(set(before) | set(after)):
        if name.startswith("__"):
            if name == "__std_types__":
                if before[name] != after[name]:
                    out.append("std_types changed")
            elif before.get(name) != after.get(name):
                out.append(f"{name} changed: {before.get(name)!r} -> {after.get(name)!r}")
            continue
        if name not in before:
            if len(after[name]) > 0:
                out.append(f"table {name} appeared with {len(after[name])} rows")
            continue
        if name not in after:
            out.append(f"table {name} disappeared")
            continue
        b, a = before[name], after[name]
        if list(b.index) != list(a.index):
            added = [i for i in a.index if i not in set(b.index)]
            removed = [i for i in b.index if i not in set(a.index)]
            out.append(f"{name}: index changed (added {added[:5]}, removed {removed[:5]}, "
                       f"len {len(b)} -> {len(a)})")
            continue
        if list(b.columns) != list(a.columns):
            # a new column that is entirely null carries no value: not counted as a change of input data
            added = [c for c in a.columns if c not in b.columns and not a[c].isnull().all()]
            removed = [c for c in b.columns if c not in a.columns]
            if added or removed:
                out.append(f"{name}: columns changed (added {added}, removed {removed})")
        for col in b.columns:
            if col not in a.columns:
                continue
            if not ignore_dtype and str(b[col].dtype) != str(a[col].dtype):
                out.append(f"{name}.{col}: dtype {b[col].dtype} -> {a[col].dtype}")
            bv, av = b[col].values, a[col].values
            for i, (x, y) in enumerate(zip(bv, av)):
                if not _cell_equal(x, y):
                    out.append(f"{name}.{col}[{b.index[i]}]: {x!r} -> {y!r}")
                    break
        if len(out) >= max_items:
            break
    return out
