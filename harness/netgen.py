"""Structured random network generator shared by the checks.

Every random choice derives from the `random.Random` passed in.  Parameters are short decimals (exact rationals).
Networks are small radial/meshed MV/LV grids around one feeding point, built to converge in the vast majority of
cases; every supported element kind can be requested through `kinds`.
"""
import math


def dec(rng, lo, hi, nd=3):
    return round(rng.uniform(lo, hi), nd)


DEFAULT_KINDS = ("line", "trafo", "load", "sgen", "gen", "shunt", "ward", "xward", "impedance", "switch",
                 "storage", "motor", "trafo3w", "zip", "oos")


def random_net(rng, n_bus=None, kinds=DEFAULT_KINDS, meshed=True, hv=True, allow_oos=True, slack_gen=False,
               n_ext=1, dcline=False, b2b=False, shared_bus_bias=0.5):
    """returns a pandapower net"""
    import pandapower as pp
    kinds = set(kinds)
    net = pp.create_empty_network(sn_mva=rng.choice([1, 10, 100]))
    n_mv = n_bus or rng.randint(3, 9)
    mv = [pp.create_bus(net, 20., name=f"mv{i}") for i in range(n_mv)]
    hvb = None
    if hv and "trafo" in kinds:
        hvb = pp.create_bus(net, 110., name="hv")
        pp.create_ext_grid(net, hvb, vm_pu=dec(rng, 0.99, 1.04, 2), va_degree=rng.choice([0., 0., 5., -10.]))
        _trafo(rng, pp, net, hvb, mv[0], 110., 20., sn=rng.choice([25., 40., 63.]))
        if rng.random() < 0.3:
            _trafo(rng, pp, net, hvb, mv[0], 110., 20., sn=25.)
    else:
        pp.create_ext_grid(net, mv[0], vm_pu=dec(rng, 0.99, 1.04, 2))
    for _ in range(n_ext - 1):
        pp.create_ext_grid(net, hvb if hvb is not None else mv[0], vm_pu=net.ext_grid.vm_pu.iloc[0],
                           va_degree=net.ext_grid.va_degree.iloc[0])
    # spanning tree of lines over the MV buses
    for i in range(1, n_mv):
        j = rng.randrange(0, i)
        _line(rng, pp, net, mv[j], mv[i])
    if meshed and n_mv > 3:
        for _ in range(rng.randint(0, 2)):
            a, b = rng.sample(range(n_mv), 2)
            _line(rng, pp, net, mv[a], mv[b])
    # LV part through a transformer
    lv = []
    if "trafo" in kinds and rng.random() < 0.7:
        for _ in range(rng.randint(1, 2)):
            b = pp.create_bus(net, 0.4, name=f"lv{len(lv)}")
            lv.append(b)
            _trafo(rng, pp, net, rng.choice(mv), b, 20., 0.4, sn=rng.choice([0.4, 0.63]))
    if "trafo3w" in kinds and rng.random() < 0.4 and hvb is not None:
        b_mv = rng.choice(mv)
        b_lv = pp.create_bus(net, 10., name="t3lv")
        pp.create_transformer3w_from_parameters(
            net, hvb, b_mv, b_lv, 110., 20., 10., 40., 25., 15.,
            vk_hv_percent=dec(rng, 9, 12, 1), vk_mv_percent=dec(rng, 9, 12, 1), vk_lv_percent=dec(rng, 9, 12, 1),
            vkr_hv_percent=dec(rng, 0.2, 0.5, 2), vkr_mv_percent=dec(rng, 0.2, 0.5, 2),
            vkr_lv_percent=dec(rng, 0.2, 0.5, 2), pfe_kw=dec(rng, 0, 30, 0), i0_percent=dec(rng, 0, 0.1, 2),
            shift_mv_degree=0., shift_lv_degree=0., tap_side=rng.choice(["hv", "mv", "lv"]),
            tap_neutral=0, tap_min=-8, tap_max=8, tap_step_percent=1.25, tap_pos=rng.randint(-3, 3),
            tap_changer_type="Ratio")
        pp.create_load(net, b_lv, dec(rng, 0.5, 3, 2), dec(rng, 0.1, 1, 2))
    load_buses = mv[1:] + lv
    hot = rng.sample(load_buses, max(1, int(len(load_buses) * shared_bus_bias)))   # buses that collect several elements

    def pick():
        return rng.choice(hot) if rng.random() < 0.6 else rng.choice(load_buses)

    def scale(b):
        return 0.05 if net.bus.vn_kv.at[b] < 1 else 1.0
    if "load" in kinds:
        for _ in range(rng.randint(2, 5)):
            b = pick()
            kw = {}
            if "zip" in kinds and rng.random() < 0.5:
                zp, ip = rng.choice([(100, 0), (0, 100), (30, 20), (50, 50), (10, 0)])
                zq, iq = rng.choice([(zp, ip), (0, 0), (40, 10)])
                kw = dict(const_z_p_percent=zp, const_i_p_percent=ip, const_z_q_percent=zq, const_i_q_percent=iq)
            pp.create_load(net, b, dec(rng, 0.1, 2.5, 2) * scale(b), dec(rng, -0.3, 1.0, 2) * scale(b),
                           scaling=rng.choice([1., 1., 0.8, 1.3]), **kw)
    if "sgen" in kinds:
        for _ in range(rng.randint(0, 3)):
            b = pick()
            pp.create_sgen(net, b, dec(rng, 0.1, 2, 2) * scale(b), dec(rng, -0.5, 0.5, 2) * scale(b),
                           scaling=rng.choice([1., 0.5, 1.2]))
    if "storage" in kinds and rng.random() < 0.4:
        b = pick()
        pp.create_storage(net, b, dec(rng, -1, 1, 2) * scale(b), max_e_mwh=10, q_mvar=dec(rng, -0.2, 0.2, 2) * scale(b),
                          scaling=rng.choice([1., 0.7]))
    if "motor" in kinds and rng.random() < 0.3:
        b = pick()
        pp.create_motor(net, b, pn_mech_mw=dec(rng, 0.05, 0.5, 2) * scale(b), cos_phi=0.9, efficiency_percent=95.,
                        loading_percent=80., scaling=1.)
    if "gen" in kinds:
        for _ in range(rng.randint(0, 2)):
            b = rng.choice(mv[1:])
            if b in set(net.gen.bus.values) and rng.random() < 0.5:
                vm = net.gen.vm_pu[net.gen.bus == b].iloc[0]
            elif b in set(net.gen.bus.values):
                continue
            else:
                vm = dec(rng, 0.99, 1.03, 2)
            pp.create_gen(net, b, dec(rng, 0.2, 2, 2), vm_pu=vm, min_q_mvar=-dec(rng, 0.5, 3, 1),
                          max_q_mvar=dec(rng, 0.5, 3, 1), scaling=rng.choice([1., 0.9]),
                          slack=False)
    if slack_gen and len(net.gen) == 0:
        pp.create_gen(net, rng.choice(mv[1:]), 0.5, vm_pu=1.01, slack=True)
    if "shunt" in kinds and rng.random() < 0.5:
        b = pick()
        pp.create_shunt(net, b, q_mvar=dec(rng, -0.6, 0.6, 2), p_mw=dec(rng, 0, 0.05, 3),
                        vn_kv=rng.choice([None, net.bus.vn_kv.at[b], net.bus.vn_kv.at[b] * 1.05]),
                        step=rng.choice([1, 1, 2]), max_step=3)
    if "ward" in kinds and rng.random() < 0.4:
        b = pick()
        pp.create_ward(net, b, ps_mw=dec(rng, -0.3, 0.5, 2), qs_mvar=dec(rng, -0.2, 0.2, 2),
                       pz_mw=dec(rng, 0, 0.3, 2), qz_mvar=dec(rng, -0.2, 0.2, 2))
    if "xward" in kinds and rng.random() < 0.4:
        b = rng.choice(mv[1:])
        pp.create_xward(net, b, ps_mw=dec(rng, -0.3, 0.5, 2), qs_mvar=dec(rng, -0.2, 0.2, 2),
                        pz_mw=dec(rng, 0, 0.3, 2), qz_mvar=dec(rng, -0.2, 0.2, 2), r_ohm=dec(rng, 0.1, 2, 2),
                        x_ohm=dec(rng, 1, 8, 2), vm_pu=dec(rng, 0.99, 1.02, 2))
    if "impedance" in kinds and rng.random() < 0.4 and n_mv >= 3:
        a, b = rng.sample(mv, 2)
        pp.create_impedance(net, a, b, rft_pu=dec(rng, 0.01, 0.05, 3), xft_pu=dec(rng, 0.02, 0.1, 3), sn_mva=10.,
                            rtf_pu=dec(rng, 0.01, 0.05, 3), xtf_pu=dec(rng, 0.02, 0.1, 3))
    if dcline and n_mv >= 3:
        a, b = rng.sample(mv[1:], 2)

        def vset(bus, default):
            g = net.gen.vm_pu[net.gen.bus == bus]
            return float(g.iloc[0]) if len(g) else default
        pp.create_dcline(net, a, b, p_mw=dec(rng, 0.1, 1, 2), loss_percent=dec(rng, 0, 3, 1), loss_mw=dec(rng, 0, 0.02, 3),
                         vm_from_pu=vset(a, 1.01), vm_to_pu=vset(b, 1.0))
    if "switch" in kinds:
        # bus-bus switches: split a load bus into two busbars
        for _ in range(rng.randint(0, 2)):
            b = rng.choice(load_buses)
            nb = pp.create_bus(net, net.bus.vn_kv.at[b], name="bb")
            pp.create_switch(net, b, nb, et="b", closed=rng.random() < 0.75, z_ohm=rng.choice([0., 0., 0.05]))
            pp.create_load(net, nb, dec(rng, 0.05, 0.5, 2) * scale(b), 0.01)
        for _ in range(rng.randint(0, 2)):
            l = rng.choice(list(net.line.index))
            side = rng.choice(["from_bus", "to_bus"])
            pp.create_switch(net, net.line.at[l, side], l, et="l", closed=rng.random() < 0.6)
        if len(net.trafo) and rng.random() < 0.3:
            t = rng.choice(list(net.trafo.index))
            side = rng.choice(["hv_bus", "lv_bus"])
            pp.create_switch(net, net.trafo.at[t, side], t, et="t", closed=rng.random() < 0.6)
        if len(net.trafo3w) and rng.random() < 0.5:
            t = rng.choice(list(net.trafo3w.index))
            side = rng.choice(["hv_bus", "mv_bus", "lv_bus"])
            pp.create_switch(net, net.trafo3w.at[t, side], t, et="t3", closed=rng.random() < 0.5)
    if allow_oos and "oos" in kinds:
        for tab in ("line", "load", "sgen", "trafo", "shunt", "gen"):
            if len(net[tab]) > 1 and rng.random() < 0.25:
                idx = rng.choice(list(net[tab].index))
                if tab == "trafo" and net.trafo.at[idx, "hv_bus"] == hvb and (net.trafo.hv_bus == hvb).sum() < 2:
                    continue
                net[tab].at[idx, "in_service"] = False
        if rng.random() < 0.15 and len(load_buses) > 1:
            net.bus.at[rng.choice(load_buses), "in_service"] = False
    return net


def _line(rng, pp, net, a, b):
    pp.create_line_from_parameters(
        net, a, b, length_km=dec(rng, 0.3, 4, 2), r_ohm_per_km=dec(rng, 0.1, 0.5, 3),
        x_ohm_per_km=dec(rng, 0.1, 0.4, 3), c_nf_per_km=dec(rng, 0, 300, 0), max_i_ka=dec(rng, 0.2, 0.6, 2),
        g_us_per_km=rng.choice([0., 0., dec(rng, 0, 5, 1)]), parallel=rng.choice([1, 1, 1, 2]),
        df=rng.choice([1., 1., 0.9]))


def _trafo(rng, pp, net, hv, lv, vn_hv, vn_lv, sn):
    tct = rng.choice(["Ratio", "Ratio", "Symmetrical", "Ideal", None])
    kw = {}
    if tct is not None:
        kw = dict(tap_side=rng.choice(["hv", "lv"]), tap_neutral=0, tap_min=-9, tap_max=9,
                  tap_step_percent=rng.choice([1.5, 2.5]) if tct != "Ideal" else 0.,
                  tap_step_degree=rng.choice([0., 0.]) if tct != "Ideal" else rng.choice([1., 2.]),
                  tap_pos=rng.randint(-4, 4), tap_changer_type=tct)
    pp.create_transformer_from_parameters(
        net, hv, lv, sn_mva=sn, vn_hv_kv=vn_hv * rng.choice([1., 1., 1.05]), vn_lv_kv=vn_lv * rng.choice([1., 1.05]),
        vkr_percent=dec(rng, 0.2, 1.2, 2), vk_percent=dec(rng, 4, 14, 1), pfe_kw=dec(rng, 0, 20, 1) * (sn / 40.),
        i0_percent=dec(rng, 0, 0.3, 2), shift_degree=rng.choice([0., 0., 30., 150., -30.]) if vn_hv > 50 else rng.choice([0., 150.]),
        parallel=rng.choice([1, 1, 2]), df=1., **kw)


FAULTS = ("overload", "zero_line", "xward_zero_x", "tiny_trafo_vk", "impedance_zero", "open_all_switches",
          "huge_capacitance", "no_ext_grid", "swapped_trafo_voltages", "extreme_load_q", "disconnected_bus")


def inject_fault(rng, net, fault=None):
    """make the net 'sick' in one of the ways the diagnostic tool / failure paths are written for; returns name"""
    import pandapower as pp
    fault = fault or rng.choice(FAULTS)
    if fault == "overload":
        net.load["p_mw"] = net.load.p_mw * 400
    elif fault == "zero_line" and len(net.line):
        i = rng.choice(list(net.line.index))
        net.line.loc[i, ["r_ohm_per_km", "x_ohm_per_km"]] = 0.0
    elif fault == "xward_zero_x":
        if len(net.xward) == 0:
            b = rng.choice(list(net.bus.index[net.bus.vn_kv == 20.][1:]))
            pp.create_xward(net, b, 0.1, 0.05, 0.1, 0.0, r_ohm=0.5, x_ohm=0.0, vm_pu=1.0)
        else:
            net.xward.loc[net.xward.index[0], "x_ohm"] = 0.0
        net.load["p_mw"] = net.load.p_mw * 300          # and make the power flow fail
    elif fault == "tiny_trafo_vk" and len(net.trafo):
        i = rng.choice(list(net.trafo.index))
        net.trafo.loc[i, ["vk_percent", "vkr_percent"]] = [1e-7, 1e-8]
        if len(net.line):
            net.line.loc[net.line.index[0], ["r_ohm_per_km", "x_ohm_per_km"]] = 0.0
        net.load["p_mw"] = net.load.p_mw * 300
    elif fault == "impedance_zero":
        mv = list(net.bus.index[net.bus.vn_kv == 20.])
        if len(mv) >= 2:
            pp.create_impedance(net, mv[0], mv[-1], rft_pu=0.0, xft_pu=0.0, sn_mva=10.)
            net.load["p_mw"] = net.load.p_mw * 300
    elif fault == "open_all_switches" and len(net.switch):
        net.switch["closed"] = False
    elif fault == "huge_capacitance" and len(net.line):
        net.line["c_nf_per_km"] = net.line.c_nf_per_km * 1e5 + 1e6
    elif fault == "no_ext_grid":
        net.ext_grid["in_service"] = False
    elif fault == "swapped_trafo_voltages" and len(net.trafo):
        i = net.trafo.index[0]
        hv, lv = net.trafo.at[i, "vn_hv_kv"], net.trafo.at[i, "vn_lv_kv"]
        net.trafo.loc[i, ["vn_hv_kv", "vn_lv_kv"]] = [lv, hv]
    elif fault == "extreme_load_q":
        net.load["q_mvar"] = net.load.q_mvar * 500 + 50
    elif fault == "disconnected_bus":
        b = pp.create_bus(net, 20.)
        pp.create_load(net, b, 0.3, 0.1)
    return fault


def run_ok(net, **kw):
    """runpp returning True when converged (LoadflowNotConverged -> False); other exceptions propagate"""
    import pandapower as pp
    from pandapower.powerflow import LoadflowNotConverged
    try:
        pp.runpp(net, **kw)
    except LoadflowNotConverged:
        return False
    return bool(net.converged)
