"""Independent evaluation of the documented element models at reported bus voltages (used by C02, C03, C05, C23).

Everything is computed in per unit on the net base from the element tables only (doc/elements/*.rst): no pandapower
calculation code is imported.  Complex voltage of a bus: vm_pu * exp(j va_degree).
Returned per element: dict of the result columns the documentation defines.
"""
import cmath
import math

import numpy as np

SQ3 = math.sqrt(3.0)


def bus_v(net, b):
    vm, va = float(net.res_bus.vm_pu.at[b]), float(net.res_bus.va_degree.at[b])
    return vm * cmath.exp(1j * math.radians(va))


def two_port(vf, vt, ys_f, ys_t, yc_f, yc_t, ratio=1.0 + 0j):
    """pi two-port with series admittance seen from f / t, shunt halves yc_f/2, yc_t/2 and complex ratio at the from side"""
    vf_ = vf / ratio
    i_f = (ys_f * (vf_ - vt) + yc_f / 2 * vf_) / ratio.conjugate()
    i_t = ys_t * (vt - vf_) + yc_t / 2 * vt
    return vf * i_f.conjugate(), vt * i_t.conjugate(), i_f, i_t


def has_open_switch(net, et, i):
    sw = net.switch
    return bool(len(sw)) and bool(((sw.et == et) & (sw.element == i) & (~sw.closed.astype(bool))).any())


def line_results(net, i, f_hz=None):
    ln = net.line.loc[i]
    if not bool(ln.in_service) or has_open_switch(net, "l", i):
        return None
    f_hz = f_hz or net.f_hz
    vn = float(net.bus.vn_kv.at[ln.from_bus])
    zb = vn ** 2 / net.sn_mva
    par = float(ln.parallel)
    z = complex(ln.r_ohm_per_km, ln.x_ohm_per_km) * ln.length_km / par / zb
    g = float(ln.get("g_us_per_km", 0.) or 0.)
    y = complex(g * 1e-6, 2 * math.pi * f_hz * ln.c_nf_per_km * 1e-9) * ln.length_km * par * zb
    vf, vt = bus_v(net, ln.from_bus), bus_v(net, ln.to_bus)
    if any(math.isnan(abs(v)) for v in (vf, vt)):
        return None
    ys = 1 / z
    sf, st, i_f, i_t = two_port(vf, vt, ys, ys, y, y)
    ib = net.sn_mva / (SQ3 * vn)
    ifk, itk = abs(i_f) * ib, abs(i_t) * ib
    ik = max(ifk, itk)
    return {"p_from_mw": sf.real * net.sn_mva, "q_from_mvar": sf.imag * net.sn_mva, "p_to_mw": st.real * net.sn_mva,
            "q_to_mvar": st.imag * net.sn_mva, "pl_mw": (sf + st).real * net.sn_mva, "ql_mvar": (sf + st).imag * net.sn_mva,
            "i_from_ka": ifk, "i_to_ka": itk, "i_ka": ik,
            "loading_percent": ik / (float(ln.max_i_ka) * float(ln.df) * par) * 100.}


def trafo_tap(tr, calc_angles):
    """adjusted rated voltages and total phase shift (degrees) of a two-winding transformer per the tap changer docs"""
    vnh, vnl = float(tr.vn_hv_kv), float(tr.vn_lv_kv)
    shift = float(tr.shift_degree) if calc_angles else 0.0
    for t in ("", "2"):
        typ = tr.get(f"tap{t}_changer_type")
        pos = tr.get(f"tap{t}_pos")
        if typ is None or (isinstance(typ, float) and math.isnan(typ)) or pos is None or (isinstance(pos, float) and math.isnan(pos)):
            continue
        if bool(tr.get("tap_dependency_table", False)) and t == "":
            return None          # table-driven taps: covered by C31
        diff = float(pos) - float(tr[f"tap{t}_neutral"])
        side = tr[f"tap{t}_side"]
        step = tr.get(f"tap{t}_step_percent")
        step = 0.0 if step is None or (isinstance(step, float) and math.isnan(step)) else float(step)
        deg = tr.get(f"tap{t}_step_degree")
        deg = 0.0 if deg is None or (isinstance(deg, float) and math.isnan(deg)) else float(deg)
        direction = 1 if side == "hv" else -1
        if typ == "Ideal":
            if deg != 0:
                shift += direction * diff * deg
            else:
                shift += direction * 2 * math.degrees(math.asin(diff * step / 100 / 2))
        elif typ in ("Ratio", "Symmetrical"):
            u1 = vnh if side == "hv" else vnl
            du = u1 * step * diff / 100
            new = math.hypot(u1 + du * math.cos(math.radians(deg)), du * math.sin(math.radians(deg)))
            shift += math.degrees(math.atan(direction * du * math.sin(math.radians(deg)) / (u1 + du * math.cos(math.radians(deg)))))
            if side == "hv":
                vnh = new
            else:
                vnl = new
    return vnh, vnl, shift


def trafo_results(net, i, trafo_model="t", trafo_loading="current", calc_angles=True):
    tr = net.trafo.loc[i]
    if not bool(tr.in_service) or has_open_switch(net, "t", i):
        return None
    tap = trafo_tap(tr, calc_angles)
    if tap is None:
        return None
    vnh, vnl, shift = tap
    vbh, vbl = float(net.bus.vn_kv.at[tr.hv_bus]), float(net.bus.vn_kv.at[tr.lv_bus])
    par = float(tr.parallel)
    sn_t = float(tr.sn_mva)
    # short-circuit impedance referred to the lv side, in pu of the net base at the lv bus
    k = (vnl / vbl) ** 2 * net.sn_mva / sn_t
    z = float(tr.vk_percent) / 100 * k
    r = float(tr.vkr_percent) / 100 * k
    x = math.copysign(math.sqrt(max(z * z - r * r, 0.0)), z)
    zs = complex(r, x) / par
    # magnetising branch
    pfe = float(tr.pfe_kw) * 1e-3
    ym = float(tr.i0_percent) / 100 * sn_t
    bm = -math.sqrt(max(ym * ym - pfe * pfe, 0.0))
    y_m = complex(pfe, bm) / net.sn_mva * par / (vnl / vbl) ** 2 * 1.0
    ratio_mag = (vnh / vnl) / (vbh / vbl)
    ratio = ratio_mag * cmath.exp(1j * math.radians(shift))
    vf, vt = bus_v(net, tr.hv_bus), bus_v(net, tr.lv_bus)
    if any(math.isnan(abs(v)) for v in (vf, vt)):
        return None
    vf_ = vf / ratio
    if trafo_model == "pi" or y_m == 0:
        ys = 1 / zs
        i_f_ = ys * (vf_ - vt) + y_m / 2 * vf_
        i_t = ys * (vt - vf_) + y_m / 2 * vt
    else:
        rr = tr.get("leakage_resistance_ratio_hv", 0.5)
        xr = tr.get("leakage_reactance_ratio_hv", 0.5)
        rr = 0.5 if rr is None or (isinstance(rr, float) and math.isnan(rr)) else float(rr)
        xr = 0.5 if xr is None or (isinstance(xr, float) and math.isnan(xr)) else float(xr)
        za = complex(zs.real * rr, zs.imag * xr)
        zb = complex(zs.real * (1 - rr), zs.imag * (1 - xr))
        # T circuit solved through its star point
        ya, yb = (1 / za if za != 0 else None), (1 / zb if zb != 0 else None)
        if ya is None or yb is None:
            return None
        vc = (vf_ * ya + vt * yb) / (ya + yb + y_m)
        i_f_ = (vf_ - vc) * ya
        i_t = (vt - vc) * yb
    i_f = i_f_ / ratio.conjugate()
    sf, st = vf * i_f.conjugate(), vt * i_t.conjugate()
    ih = abs(i_f) * net.sn_mva / (SQ3 * vbh)
    il = abs(i_t) * net.sn_mva / (SQ3 * vbl)
    df = float(tr.get("df", 1.0) if not (isinstance(tr.get("df", 1.0), float) and math.isnan(tr.get("df", 1.0))) else 1.0)
    if trafo_loading == "current":
        ld = max(ih * float(tr.vn_hv_kv), il * float(tr.vn_lv_kv)) * SQ3 / sn_t / par / df * 100.     # rated (nameplate) voltages
    else:
        ld = max(abs(sf), abs(st)) * net.sn_mva / sn_t / par / df * 100.
    return {"p_hv_mw": sf.real * net.sn_mva, "q_hv_mvar": sf.imag * net.sn_mva, "p_lv_mw": st.real * net.sn_mva,
            "q_lv_mvar": st.imag * net.sn_mva, "pl_mw": (sf + st).real * net.sn_mva, "ql_mvar": (sf + st).imag * net.sn_mva,
            "i_hv_ka": ih, "i_lv_ka": il, "loading_percent": ld}


def impedance_results(net, i):
    im = net.impedance.loc[i]
    if not bool(im.in_service):
        return None
    k = net.sn_mva / float(im.sn_mva)
    zft = complex(im.rft_pu, im.xft_pu) * k
    ztf = complex(im.rtf_pu, im.xtf_pu) * k

    def opt(c):
        v = im.get(c, 0.)
        return 0. if v is None or (isinstance(v, float) and math.isnan(v)) else float(v)
    yf = complex(opt("gf_pu"), opt("bf_pu")) / k
    yt = complex(opt("gt_pu"), opt("bt_pu")) / k
    vf, vt = bus_v(net, im.from_bus), bus_v(net, im.to_bus)
    if any(math.isnan(abs(v)) for v in (vf, vt)):
        return None
    i_f = (vf - vt) / zft + yf / 2 * vf if False else (vf / zft - vt / zft) + yf / 2 * vf
    i_t = (vt - vf) / ztf + yt / 2 * vt
    sf, st = vf * i_f.conjugate(), vt * i_t.conjugate()
    return {"p_from_mw": sf.real * net.sn_mva, "q_from_mvar": sf.imag * net.sn_mva, "p_to_mw": st.real * net.sn_mva,
            "q_to_mvar": st.imag * net.sn_mva}


def shunt_results(net, i):
    sh = net.shunt.loc[i]
    vm = float(net.res_bus.vm_pu.at[sh.bus])
    if not bool(sh.in_service) or math.isnan(vm):
        return None
    vn_b = float(net.bus.vn_kv.at[sh.bus])
    vn = sh.get("vn_kv")
    vn = vn_b if vn is None or (isinstance(vn, float) and math.isnan(vn)) else float(vn)
    fac = float(sh.step) * (vm * vn_b / vn) ** 2
    return {"p_mw": float(sh.p_mw) * fac, "q_mvar": float(sh.q_mvar) * fac}


def ward_results(net, i):
    w = net.ward.loc[i]
    vm = float(net.res_bus.vm_pu.at[w.bus])
    if not bool(w.in_service) or math.isnan(vm):
        return None
    return {"p_mw": float(w.ps_mw) + float(w.pz_mw) * vm ** 2, "q_mvar": float(w.qs_mvar) + float(w.qz_mvar) * vm ** 2}


def trafo3w_loading(net, i, trafo_loading="current"):
    t = net.trafo3w.loc[i]
    r = net.res_trafo3w.loc[i]
    if not bool(t.in_service) or math.isnan(float(r.p_hv_mw)):
        return None
    if trafo_loading == "current":
        vals = [float(r[f"i_{s}_ka"]) * float(t[f"vn_{s}_kv"]) * SQ3 / float(t[f"sn_{s}_mva"]) for s in ("hv", "mv", "lv")]
    else:
        vals = [math.hypot(float(r[f"p_{s}_mw"]), float(r[f"q_{s}_mvar"])) / float(t[f"sn_{s}_mva"]) for s in ("hv", "mv", "lv")]
    return max(vals) * 100.


def compare(res_row, want, rtol=1e-6, atol=1e-7):
    """list of (column, reported, model)"""
    bad = []
    for c, v in want.items():
        if c not in res_row:
            continue
        got = float(res_row[c])
        if math.isnan(got) and math.isnan(v):
            continue
        if not abs(got - v) <= atol + rtol * max(abs(got), abs(v)):
            bad.append((c, got, v))
    return bad
