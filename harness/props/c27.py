"""C27 — group operations behave as set operations on group membership.

proof:   Props/C27.lean: for create/attach (new and existing row, index- and reference-column-linked), detach, drop_group,
         set in/out of service: membership after the operation = the set operation applied to the membership before,
         other groups untouched; rows never empty after detach; at most one row per (group, type) preserved; toolbox drop
         order and "fresh list on attach" regenerated from source.
tie:     translator + correspondence: random operation sequences on a real net vs the stateful Lean model
         (group_element_index for every (group, type) after every operation; net.group rows at the end).
oracle:  an abstract dict-of-sets model in Python applied to the same sequence (incl. group copies sharing list objects,
         element drops through four toolbox functions, name re-use after drops, reindexing, in/out of service, res sums).
"""
import copy
import json

import numpy as np
import pandas as pd

from harness import core
from translate import c27 as tr

ET = {"load": 0, "sgen": 1, "line": 2, "bus": 3}


def code(name):          # "n17" -> 17
    return int(name[1:])


def build_net(rng):
    import pandapower as pp
    net = pp.create_empty_network()
    nb = rng.randint(4, 6)
    buses = list(pp.create_buses(net, nb, 20., name=[f"n{100 + k}" for k in range(nb)]))
    pp.create_ext_grid(net, buses[0])
    for k in range(1, nb):
        pp.create_line_from_parameters(net, buses[k - 1], buses[k], 1., 0.3, 0.3, 10, 0.4, name=f"n{200 + k}")
    pp.create_line_from_parameters(net, buses[0], buses[-1], 2., 0.3, 0.3, 10, 0.4, name="n299")
    for k in range(rng.randint(4, 6)):
        pp.create_load(net, rng.choice(buses[1:]), 0.2, 0.05, name=f"n{300 + k}", index=2 * k + 1)
    for k in range(rng.randint(3, 5)):
        pp.create_sgen(net, rng.choice(buses[1:]), 0.1, 0.0, name=f"n{400 + k}", index=3 * k)
    return net


class Abstract:
    """the specification: (gid, et) -> set of element indices"""

    def __init__(self):
        self.m = {}

    def attach(self, gid, et, idxs):
        self.m.setdefault((gid, et), set()).update(idxs)

    def detach(self, et, idxs, gids=None):
        for (g, e) in list(self.m):
            if e == et and (gids is None or g in gids):
                self.m[(g, e)] -= set(idxs)
                if not self.m[(g, e)]:
                    del self.m[(g, e)]

    def drop_group(self, gid):
        for k in [k for k in self.m if k[0] == gid]:
            del self.m[k]

    def groups(self):
        return sorted({g for g, _ in self.m})


def run_sequence(ctx, rng, n_ops, with_model=True):
    """returns (model request lines, expectations, failures?)"""
    import pandapower as pp
    from pandapower import groups as G
    from pandapower.toolbox import grid_modification as gm
    net = build_net(rng)
    spec = Abstract()
    mode = {}          # (gid, et) -> bycol
    reqs, expect = ["reset"], [("ok", None)]
    log = []
    dropped = []

    def table_lines():
        for et, c in ET.items():
            if et == "bus":
                continue
            rows = " ".join(f"{int(i)} {code(net[et].name.at[i])} {int(bool(net[et].in_service.at[i]))}" for i in net[et].index)
            reqs.append(f"tbl {c} {len(net[et])} {rows}".rstrip())
            expect.append(("ok", None))
    table_lines()

    def observe(tag):
        """after every operation: real membership vs spec (direct oracle) and vs model (requests)"""
        real = {}
        try:
            for g in sorted(set(net.group.index)):
                for et in set(net.group.loc[[g], "element_type"]):
                    idx = sorted(int(i) for i in G.group_element_index(net, g, et))
                    if idx:
                        real[(g, et)] = idx
                    else:
                        ctx.failure("row-without-members", f"after `{tag}` net.group keeps a {et} row of group {g} that has no "
                                                           f"members: {net.group.loc[[g]].to_dict('records')}", {"ops": log[:]})
                        return False
        except Exception as e:       # noqa
            ctx.failure("raises:group_element_index", f"after `{tag}` group_element_index raised {type(e).__name__}: {e}; "
                                                      f"net.group = {net.group.to_dict('records')}", {"ops": log[:]})
            return False
        want = {k: sorted(v) for k, v in spec.m.items() if v}
        if real != want:
            ctx.failure("membership:" + tag.split(" ")[0], f"after `{tag}` the groups report {real}, the set model gives {want}",
                        {"ops": log[:], "net_json": None})
            return False
        for (g, et), idx in sorted(want.items()):
            if et in ET and et != "bus":
                reqs.append(f"members {g} {ET[et]}")
                expect.append((" ".join(map(str, idx)), tag))
        return True

    ok = True
    for k in range(n_ops):
        groups = spec.groups()
        ops = ["create", "create"] if not groups else ["create", "attach", "attach", "detach", "detach_all", "drop_group", "drop_elems",
                                                       "drop_elems", "service", "copy", "reuse_name", "reuse_name", "drop_line"]
        op = rng.choice(ops)
        et = rng.choice(["load", "sgen", "line"])
        tab = net[et]
        if len(tab) == 0:
            continue
        some = sorted(rng.sample(list(map(int, tab.index)), rng.randint(1, min(3, len(tab)))))
        try:
            if op == "create":
                bycol = rng.random() < 0.4
                elems = [tab.name.at[i] for i in some] if bycol else some
                lst = list(elems)
                gid = int(pp.create_group(net, [et], [lst], name=f"g{k}", reference_columns=("name" if bycol else None)))
                spec.attach(gid, et, some)
                mode[(gid, et)] = bycol
                log.append(f"create_group {gid} {et} {elems} bycol={bycol}")
                reqs.append(f"attach {gid} {ET[et]} {int(bycol)} {len(some)} " + " ".join(str(code(e) if bycol else e) for e in elems))
                expect.append(("ok", None))
            elif op == "attach":
                gid = rng.choice(groups)
                exists = (gid, et) in spec.m
                bycol = mode[(gid, et)] if exists else rng.random() < 0.4
                give_bycol = bycol if rng.random() < 0.6 else not bycol       # often in the other link mode
                elems = [tab.name.at[i] for i in some] if give_bycol else some
                G.attach_to_group(net, gid, [et], [list(elems)], reference_columns=("name" if give_bycol else None))
                spec.attach(gid, et, some)
                if not exists:
                    bycol = give_bycol
                mode[(gid, et)] = bycol
                log.append(f"attach_to_group {gid} {et} {elems}")
                melems = [code(tab.name.at[i]) for i in some] if bycol else some
                reqs.append(f"attach {gid} {ET[et]} {int(bycol)} {len(some)} " + " ".join(map(str, melems)))
                expect.append(("ok", None))
            elif op in ("detach", "detach_all"):
                gids = None if op == "detach_all" else [rng.choice(groups)]
                if gids is None:
                    G.detach_from_groups(net, et, some)
                else:
                    G.detach_from_group(net, gids[0], et, some)
                spec.detach(et, some, gids)
                log.append(f"{op} {et} {some} {gids}")
                reqs.append(f"detach {ET[et]} {len(some)} " + " ".join(map(str, some)) + (" all" if gids is None else f" 1 {gids[0]}"))
                expect.append(("ok", None))
            elif op == "drop_group":
                gid = rng.choice(groups)
                G.drop_group(net, gid)
                spec.drop_group(gid)
                log.append(f"drop_group {gid}")
                reqs.append(f"dropgroup {gid}")
                expect.append(("ok", None))
            elif op == "drop_elems" and et in ("load", "sgen"):
                named = [(g, e) for (g, e), bc in mode.items() if bc and e == et and (g, e) in spec.m]
                if named and rng.random() < 0.6:        # drop every member of a name-linked row
                    some = sorted(spec.m[rng.choice(named)])
                dropped.extend((et, i, net[et].name.at[i]) for i in some)
                gm.drop_elements_simple(net, et, some)
                spec.detach(et, some, None)
                log.append(f"drop_elements_simple {et} {some}")
                reqs.append(f"dropelems drop_elements_simple {ET[et]} {len(some)} " + " ".join(map(str, some)))
                expect.append(("ok", None))
            elif op == "drop_line":
                et = "line"
                some = [int(rng.choice(list(net.line.index)))]
                gm.drop_lines(net, some)
                spec.detach("line", some, None)
                log.append(f"drop_lines {some}")
                reqs.append(f"dropelems drop_lines {ET['line']} 1 {some[0]}")
                expect.append(("ok", None))
            elif op == "reuse_name" and et in ("load", "sgen"):
                # a new element that re-uses the name of an element dropped earlier must not become a member of anything
                cand = [d for d in dropped if d[0] == et]
                if not cand:
                    continue
                _, old, name = cand[-1]
                dropped.remove(cand[-1])               # names stay unique in the table
                new = int((pp.create_load if et == "load" else pp.create_sgen)(net, int(net.bus.index[1]), 0.1, 0.0, name=name))
                log.append(f"create {et} {new} name={name} (name of dropped {old})")
                reqs.append("noop")
                expect.append(("bad-op", None))
                table_lines()
            elif op == "service":
                gid = rng.choice(groups)
                v = rng.random() < 0.5
                before = {e: net[e].in_service.copy() for e in ("load", "sgen", "line")}
                (G.set_group_in_service if v else G.set_group_out_of_service)(net, gid)
                log.append(f"set_group_{'in' if v else 'out_of'}_service {gid}")
                for e in ("load", "sgen", "line"):
                    mem = spec.m.get((gid, e), set())
                    for i in net[e].index:
                        want = v if int(i) in mem else bool(before[e].at[i])
                        if bool(net[e].in_service.at[i]) != want:
                            ctx.failure("service", f"set_group_{'in' if v else 'out_of'}_service({gid}) left {e}[{i}].in_service="
                                                   f"{net[e].in_service.at[i]}, members of the group for {e}: {sorted(mem)}", {"ops": log[:]})
                            ok = False
                reqs.append(f"setservice {gid} {int(v)}")
                expect.append(("ok", None))
                for e in ("load", "sgen", "line"):
                    reqs.append(f"service {ET[e]}")
                    expect.append((" ".join(f"{int(i)}:{int(bool(net[e].in_service.at[i]))}" for i in net[e].index) or "-", "service"))
            elif op == "copy":
                # copy a group the documented way: the new rows receive the SAME list objects
                gid = rng.choice(groups)
                lists = G.group_element_lists(net, gid)
                new = int(pp.create_group(net, lists[0], lists[1], name=f"copy{k}", reference_columns=lists[2]))
                for (g, e), mem in list(spec.m.items()):
                    if g == gid:
                        spec.attach(new, e, set(mem))
                        mode[(new, e)] = mode[(g, e)]
                log.append(f"copy group {gid} -> {new}")
                for e, elems, rc in zip(*lists):
                    if e in ET and e != "bus":
                        bc = rc is not None and not (isinstance(rc, float) and np.isnan(rc))
                        reqs.append(f"attach {new} {ET[e]} {int(bc)} {len(elems)} " + " ".join(str(code(x) if bc else int(x)) for x in elems))
                        expect.append(("ok", None))
            else:
                continue
        except Exception as e:       # noqa
            ctx.failure("raises:" + op, f"{op} raised {type(e).__name__}: {e}", {"ops": log[:]})
            return reqs, expect, False
        if not observe(log[-1]):
            return reqs, expect, False
    # rows at the end: no empty rows, one row per (group, type)
    for g, grp in net.group.groupby(level=0):
        if grp.element_type.duplicated().any():
            ctx.failure("rows", f"group {g} has several rows for one element type", {"ops": log[:]})
        for _, r in grp.iterrows():
            if not len(r.element_index):
                ctx.failure("rows", f"group {g} keeps an empty {r.element_type} row", {"ops": log[:]})
    # result sums act on exactly the members
    if len(net.group):
        try:
            with core.quiet():
                pp.runpp(net)
            for g in sorted(set(net.group.index)):
                want = 0.0
                for (gg, e), mem in spec.m.items():
                    if gg == g:
                        col = "pl_mw" if e == "line" else "p_mw"
                        sign = -1.0 if e == "sgen" else 1.0
                        want += sign * float(net["res_" + e].loc[sorted(mem), col].sum())
                got = float(G.group_res_p_mw(net, g))
                if abs(got - want) > 1e-9:
                    ctx.failure("res_sum", f"group_res_p_mw({g}) = {got!r}, sum over the members = {want!r}", {"ops": log[:]})
        except Exception as e:   # noqa
            ctx.note(f"runpp / group_res_p_mw failed: {type(e).__name__}: {e}")
    ctx.count(json.dumps(log), nontrivial=len(log) >= 4)
    for l in log:
        ctx.hist("op", l.split(" ")[0])
    ctx.sample({"ops": log[:6]}, cap=3)
    return reqs, expect, ok


def reindex_sequences(ctx, rng, n):
    """oracle only: membership follows the elements through reindex_elements / create_continuous_elements_index"""
    import pandapower as pp
    from pandapower import groups as G
    for k in range(n):
        net = build_net(rng)
        et = rng.choice(["load", "sgen", "line"])
        some = sorted(rng.sample(list(map(int, net[et].index)), 2))
        bycol = rng.random() < 0.4
        gid = int(pp.create_group(net, [et], [[net[et].name.at[i] for i in some] if bycol else some],
                                  reference_columns=("name" if bycol else None)))
        names = sorted(net[et].name.loc[some])
        old = list(net[et].index)
        new = [int(i) + 50 + 7 * j for j, i in enumerate(old)]
        try:
            pp.reindex_elements(net, et, new, old)
            got = sorted(net[et].name.loc[G.group_element_index(net, gid, et)])
        except Exception as e:   # noqa
            ctx.failure("raises:reindex", f"reindex_elements raised {type(e).__name__}: {e}", {"et": et, "members": some})
            continue
        if got != names:
            ctx.failure("membership:reindex", f"after reindex_elements the {et} group members are {got}, before {names}",
                        {"et": et, "members": some, "bycol": bycol})
        ctx.count(("reindex", k, et, tuple(some), bycol))


def run(ctx):
    ctx.cov["rule"] = ("case = random sequence of 6-14 group operations (create index-/name-linked, attach in either mode, detach "
                       "from one/all groups, drop_group, drop_elements_simple, drop_lines, name re-use after a drop, group copy "
                       "through group_element_lists, in/out of service) on a generated 4-6 bus net; membership of every (group, "
                       "type) compared after every operation; non-trivial = >= 4 effective operations")
    x = {}

    def translator():
        x.update(tr.extract(core.REPO))
        return tr.render(x)
    ctx.regenerate("C27", translator)
    ctx.prove()
    rng = ctx.rng
    all_reqs, all_exp = [], []
    for k in range(ctx.budget(40, 500)):
        reqs, expect, ok = run_sequence(ctx, rng, rng.randint(6, 14))
        if ok:
            all_reqs += reqs
            all_exp += expect
    reindex_sequences(ctx, rng, ctx.budget(12, 100))
    if ctx.cov.get("lean_build_failed") or not all_reqs:
        return
    resp = core.lean_driver("C27", all_reqs)
    dis = 0
    for rq, r, (want, tag) in zip(all_reqs, resp, all_exp):
        if r.strip() != want:
            dis += 1
            if dis <= 3:
                ctx.tie_break("correspondence:C27", f"request `{rq[:120]}` after `{tag}`: model {r!r}, implementation {want!r}")
    ctx.cov["correspondence_requests"] = len(all_reqs)
    ctx.cov["disagreements_checked"] = dis
    ctx.sample({"request": all_reqs[2][:160], "response": resp[2]})


def replay(ctx, path):
    print("C27 replays carry the operation log; re-run ./check C27 with the same VERIF_SEED")
    return 2
