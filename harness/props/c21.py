"""C21 — PYPOWER / MATPOWER conversion round trip preserves power flow results.

proof:   Props/C21.lean: the generated branch classification of from_ppc is a partition (phase shifters are transformers);
         generated line / impedance formulas of from_ppc composed with the generated per-unit formulas of build_branch are the
         identity on series and shunt values; the generated vk / vkr of from_ppc's transformers fed to the generated
         _calc_r_x_from_dataframe give back r and x (sign included); _ppc2mpc rewrites only the ratio column.
tie:     translator (classification, formulas, mpc columns; per-unit formulas shared with C23 and C02).
oracle:  generated nets within the documented scope (pi model, no asymmetric data) -> to_ppc -> from_ppc, and
         to_mpc (file) -> from_mpc; power flow on both: bus voltages, slack power, total losses.
"""
import json
import math
import os
import tempfile

import numpy as np

from harness import core, netgen


def scope_net(rng, pp):
    """what the converters document: lines, two-winding transformers (pi model), loads, static generators, gens, shunts"""
    net = netgen.random_net(rng, kinds=("line", "trafo", "load", "sgen", "gen", "shunt"), dcline=False, allow_oos=rng.random() < 0.3)
    for i in net.line.index:
        if rng.random() < 0.4:
            net.line.at[i, "g_us_per_km"] = rng.choice([0.5, 2.0, 8.0])
    # phase shifters also between equal voltage levels and at nominal ratio
    mv = [int(b) for b in net.bus.index[net.bus.vn_kv == 20.]]
    if len(mv) >= 3 and rng.random() < 0.6:
        a, b = rng.sample(mv, 2)
        pp.create_transformer_from_parameters(net, a, b, 10., 20., 20., 0.4, 6., 0., 0., shift_degree=rng.choice([8., -12., 30.]),
                                              tap_pos=rng.choice([0, 0, 1]), tap_neutral=0, tap_step_percent=1.5, tap_side="hv",
                                              tap_min=-2, tap_max=2, tap_changer_type="Ratio")
    for i in net.trafo.index:
        if rng.random() < 0.4:
            net.trafo.at[i, "tap_pos"] = net.trafo.at[i, "tap_neutral"] if not math.isnan(net.trafo.at[i, "tap_neutral"]) else 0
    # buses whose active power sums to exactly zero while reactive power remains (either sign), and a pure reactive load
    free = [int(b) for b in net.bus.index if net.bus.in_service.at[b] and b not in set(net.ext_grid.bus) | set(net.gen.bus)]
    if free and rng.random() < 0.5:
        b = rng.choice(free)
        for tab in ("load", "sgen"):
            net[tab] = net[tab][net[tab].bus != b]
        kind = rng.choice(["cancel+", "cancel-", "q-only"])
        if kind == "q-only":
            pp.create_load(net, b, 0., rng.choice([0.4, -0.3]))
        else:
            pp.create_load(net, b, 0.5, 0.6 if kind == "cancel+" else 0.1)
            pp.create_sgen(net, b, 0.5, 0.2 if kind == "cancel+" else -0.3)
    # cost data and a controllable static generator at a voltage-controlled bus: to_ppc(mode=None) then converts in OPF mode
    if rng.random() < 0.3:
        pp.create_poly_cost(net, int(net.ext_grid.index[0]), "ext_grid", cp1_eur_per_mw=1.)
        vb = [int(b) for b in net.gen.bus[net.gen.in_service]] + [int(b) for b in net.ext_grid.bus[net.ext_grid.in_service]]
        b = rng.choice(vb)
        for tab, col in (("gen", "vm_pu"), ("ext_grid", "vm_pu")):
            net[tab].loc[net[tab].bus == b, col] = rng.choice([1.01, 1.02, 0.99])
        pp.create_sgen(net, b, 0.3, 0.1, controllable=True, min_p_mw=0., max_p_mw=0.6, min_q_mvar=-0.2, max_q_mvar=0.2)
        for et in ("gen", "ext_grid"):
            net[et]["min_p_mw"], net[et]["max_p_mw"] = -1000., 1000.
            net[et]["min_q_mvar"], net[et]["max_q_mvar"] = -1000., 1000.
        net.bus["min_vm_pu"], net.bus["max_vm_pu"] = 0.8, 1.2
    return net


def summary(net):
    losses = 0.0
    for t, cols in (("res_line", ("pl_mw",)), ("res_trafo", ("pl_mw",))):
        if len(net[t]):
            losses += float(np.nansum(net[t].pl_mw.values))
    if len(net.impedance):
        losses += float(np.nansum(net.res_impedance.p_from_mw.values + net.res_impedance.p_to_mw.values))
    p = float(np.nansum(net.res_ext_grid.p_mw.values))
    q = float(np.nansum(net.res_ext_grid.q_mvar.values))
    if len(net.gen) and "slack" in net.gen and net.gen.slack.any():
        p += float(np.nansum(net.res_gen.p_mw.values[net.gen.slack.values.astype(bool)]))
    return p, q, losses


def run(ctx):
    import pandapower as pp
    from pandapower.converter.pypower.to_ppc import to_ppc
    from pandapower.converter.pypower.from_ppc import from_ppc
    from pandapower.converter.matpower.to_mpc import to_mpc
    from pandapower.converter.matpower.from_mpc import from_mpc
    from translate import c21 as tr, c23 as tr23
    ctx.cov["rule"] = ("case = generated net within the converters' scope (pi transformers incl. phase shifters between equal voltage "
                       "levels and at nominal ratio, lines with conductance, out-of-service elements) x {PYPOWER, MATPOWER file} x "
                       "calculate_voltage_angles; non-trivial = original and converted net converged")
    ctx.regenerate("C23", lambda: tr23.render(tr23.extract(core.REPO)))
    ctx.regenerate("C21", lambda: tr.render(tr.extract(core.REPO)))
    from translate import c02 as tr02
    ctx.regenerate("C02", lambda: tr02.render(tr02.extract(core.REPO)))
    ctx.prove()
    rng = ctx.rng
    tmp = tempfile.mkdtemp(prefix="c21_")
    for k in range(ctx.budget(24, 300)):
        net = scope_net(rng, pp)
        angles = rng.random() < 0.7
        opts = dict(trafo_model="pi", calculate_voltage_angles=angles, voltage_depend_loads=False)
        if not angles:
            # without voltage angles a converted shift_degree is ignored, the phase shift of a tap changer is not: ratio taps only
            net.trafo.loc[~net.trafo.tap_changer_type.isna(), "tap_changer_type"] = "Ratio"
            if "tap_step_degree" in net.trafo:
                net.trafo["tap_step_degree"] = 0.
        path = ["ppc", "mpc"][k % 2]
        if path == "mpc":
            # the MATPOWER branch format has no conductance column: iron losses and line conductance are outside its scope
            net.trafo["pfe_kw"] = 0.
            net.line["g_us_per_km"] = 0.
        case = {"path": path, "options": opts, "net_json": pp.to_json(net)}
        try:
            with core.quiet():
                pp.runpp(net, **opts)
        except Exception as e:       # noqa
            ctx.hist("run", "original:" + type(e).__name__)
            continue
        try:
            with core.quiet():
                if path == "ppc":
                    ppc = to_ppc(net, init="flat", trafo_model="pi", calculate_voltage_angles=angles)
                    n2 = from_ppc(ppc, f_hz=net.f_hz)
                else:
                    fn = os.path.join(tmp, f"c{k}.mat")
                    to_mpc(net, fn, init="flat", trafo_model="pi", calculate_voltage_angles=angles)
                    n2 = from_mpc(fn, f_hz=net.f_hz)
                    os.remove(fn)
                pp.runpp(n2, **opts)
        except Exception as e:       # noqa
            ctx.count(case["net_json"] + path, nontrivial=True)
            ctx.failure(f"raises:{path}", f"round trip through {path} raised {type(e).__name__}: {str(e)[:160]}", case)
            continue
        ctx.hist("run", path)
        ctx.count(case["net_json"] + path + str(angles), nontrivial=True)
        # buses keep their order; compare in-service, supplied buses
        v1 = net.res_bus.sort_index()
        v2 = n2.res_bus.sort_index()
        if len(v1) != len(v2):
            ctx.failure(f"buses:{path}", f"{len(v1)} buses before, {len(v2)} after the {path} round trip", case)
            continue
        ok = True
        for (b1, r1), (b2, r2) in zip(v1.iterrows(), v2.iterrows()):
            if math.isnan(r1.vm_pu) or math.isnan(r2.vm_pu):
                continue
            if abs(r1.vm_pu - r2.vm_pu) > 1e-6 or (angles and abs(r1.va_degree - r2.va_degree) > 1e-4):
                ctx.failure(f"voltage:{path}", f"bus {b1}: vm {r1.vm_pu!r} -> {r2.vm_pu!r}, va {r1.va_degree!r} -> {r2.va_degree!r} after the "
                                               f"{path} round trip ({len(net.line)} lines / {len(n2.line)}, {len(net.trafo)} trafos / {len(n2.trafo)}, "
                                               f"{len(n2.impedance)} impedances)", case)
                ok = False
                break
        if ok:
            s1, s2 = summary(net), summary(n2)
            if any(abs(a - b) > 1e-5 * max(1.0, abs(a)) for a, b in zip(s1, s2)):
                ctx.failure(f"slack-losses:{path}", f"slack p, q, losses {s1} -> {s2} after the {path} round trip", case)
        ctx.sample({"path": path, "angles": angles}, cap=4)
    try:
        os.rmdir(tmp)
    except OSError:
        pass
    ctx.assumptions.append("scope as documented by the converters: transformer pi model, no asymmetric branch data, no three-winding "
                           "transformers / wards / xwards / dclines; MATPOWER files carry no branch conductance (pfe_kw = 0, g_us_per_km = 0 on that path); transformer magnetising values and tap data are compared through the "
                           "power flow results only (their formulas contain square roots and signs; no Lean statement)")


def replay(ctx, path):
    print("C21 replays carry net_json and the conversion path; re-run ./check C21 with the same VERIF_SEED")
    return 2
