"""C23 — result-preserving toolbox transformations preserve power flow results.

proof:   Props/C23.lean: generated conversion formulas (line <-> impedance, xward -> impedance, merge_parallel_line,
         ward -> load + shunt) give the same per-unit two-port parameters / result laws as the generated build_branch
         formulas; disjoint union, re-indexing, inert elements on the network model.
tie:     translator + correspondence: generated functions evaluated over Q vs what the toolbox really writes into the tables
         and what build_branch really writes into the ppc.
oracle:  metamorphic: calculated net vs transformed net recalculated, through the bus / element maps.
"""
import copy
import json
import math

import numpy as np
import pandas as pd

from harness import core, netgen

TOL = 1e-6


def bus_res(net):
    return {int(b): (float(net.res_bus.vm_pu.at[b]), float(net.res_bus.va_degree.at[b])) for b in net.bus.index}


def slack_pq(net):
    p = float(np.nansum(net.res_ext_grid.p_mw.values)) if len(net.ext_grid) else 0.0
    q = float(np.nansum(net.res_ext_grid.q_mvar.values)) if len(net.ext_grid) else 0.0
    if len(net.gen) and "slack" in net.gen:
        m = net.gen.slack.values.astype(bool) & net.gen.in_service.values.astype(bool)
        p += float(np.nansum(net.res_gen.p_mw.values[m]))
        q += float(np.nansum(net.res_gen.q_mvar.values[m]))
    return p, q


def compare_buses(a, b, bus_map, tol=TOL):
    """a: bus results before, b: after, bus_map: old -> new label"""
    for old, (vm, va) in a.items():
        new = bus_map.get(old, old)
        if new not in b:
            return f"bus {old} -> {new} missing after the transformation"
        vm2, va2 = b[new]
        if math.isnan(vm) and math.isnan(vm2):
            continue
        if math.isnan(vm) != math.isnan(vm2) or abs(vm - vm2) > tol or abs((va - va2 + 180.) % 360. - 180.) > tol * 100:
            return f"bus {old} (now {new}): vm_pu {vm!r} -> {vm2!r}, va_degree {va!r} -> {va2!r}"
    return None


def angle_shift_only(net, before, after):
    """all magnitudes equal, all angles shifted by the (single) ext_grid's va_degree"""
    va = float(net.ext_grid.va_degree.iloc[0])
    if va == 0:
        return False
    for b, (vm, a) in before.items():
        vm2, a2 = after.get(b, (float("nan"), float("nan")))
        if math.isnan(vm) and math.isnan(vm2):
            continue
        if math.isnan(vm) != math.isnan(vm2) or abs(vm - vm2) > TOL or abs(((a - va) - a2 + 180.) % 360. - 180.) > 1e-4:
            return False
    return True


# ---- transformations: (net) -> (bus_map or None if not applicable, info) -------------------------------------------------

def t_continuous_index(rng, pp, net):
    # make the indices sparse first
    old = [int(b) for b in net.bus.index]
    new = [3 * b + 7 for b in old]
    pp.reindex_buses(net, dict(zip(old, new)))
    before = list(net.bus.index)
    pp.create_continuous_bus_index(net, start=rng.choice([0, 5]))
    pp.create_continuous_elements_index(net)
    after = list(net.bus.index)
    m1 = dict(zip(old, new))
    m2 = dict(zip(before, after))
    return {o: int(m2[m1[o]]) for o in old}, {}


def t_line_impedance_round_trip(rng, pp, net):
    idx = [int(i) for i in net.line.index if float(net.line.c_nf_per_km.at[i]) == 0 and float(net.line.g_us_per_km.at[i]) == 0
           and not (len(net.switch) and ((net.switch.et == "l") & (net.switch.element == i)).any())]
    if not idx:
        return None, {}
    sn = rng.choice([None, 7.5, 40.])
    new = pp.replace_line_by_impedance(net, idx, sn_mva=sn)
    if rng.random() < 0.5:
        pp.replace_impedance_by_line(net, new)
    return {}, {"replaced_lines": idx}


def t_impedance_to_line(rng, pp, net):
    if not len(net.impedance):
        return None, {}
    pp.replace_impedance_by_line(net)
    return {}, {}


def t_ext_grid_to_gen(rng, pp, net):
    if len(net.ext_grid) != 1:
        return None, {}
    pp.replace_ext_grid_by_gen(net, slack=True)
    return {}, {}


def t_ward(rng, pp, net):
    if not len(net.ward):
        return None, {}
    pp.replace_ward_by_internal_elements(net)
    return {}, {}


def t_xward(rng, pp, net):
    if not len(net.xward):
        return None, {}
    pp.replace_xward_by_internal_elements(net)
    return {}, {}


def t_drop_inactive(rng, pp, net):
    if rng.random() < 0.5:
        pp.drop_out_of_service_elements(net)
    else:
        pp.drop_inactive_elements(net)
    return {}, {"may_drop_buses": True}


def t_fuse(rng, pp, net):
    sw = net.switch[(net.switch.et == "b") & net.switch.closed & ~(net.switch.z_ohm > 0)] if len(net.switch) else []
    if not len(sw):
        return None, {}
    s = sw.iloc[0]
    b1, b2 = int(s.bus), int(s.element)
    if not (bool(net.bus.in_service.at[b1]) and bool(net.bus.in_service.at[b2])):
        return None, {}
    pp.fuse_buses(net, b1, [b2])
    return {b2: b1}, {}


def t_merge_parallel(rng, pp, net):
    idx = [int(i) for i in net.line.index if int(net.line.parallel.at[i]) > 1]
    if not idx:
        return None, {}
    for i in idx:
        pp.merge_parallel_line(net, i)
    return {}, {}


def t_select_subnet(rng, pp, net):
    import pandapower.topology as top
    mg = top.create_nxgraph(net, respect_switches=True)
    import networkx as nx
    comps = [c for c in nx.connected_components(mg) if any(int(b) in c for b in net.ext_grid.bus[net.ext_grid.in_service])]
    if not comps:
        return None, {}
    island = set(int(b) for b in comps[0])
    # branches energised from one end only (open switch / out-of-service bus at the other end) stay part of the island:
    # pandapower models them as open-ended branches with their charging
    buses = set(island)
    for tab, cols in (("line", ("from_bus", "to_bus")), ("trafo", ("hv_bus", "lv_bus")), ("trafo3w", ("hv_bus", "mv_bus", "lv_bus")),
                      ("impedance", ("from_bus", "to_bus"))):
        for i, r in net[tab].iterrows():
            ends = [int(r[c]) for c in cols]
            if any(e in island for e in ends):
                buses.update(ends)
    sub = pp.select_subnet(net, sorted(buses), include_switch_buses=False)
    return {}, {"new_net": sub, "only_buses": island}


TRANSFORMS = {"continuous_index": t_continuous_index, "line_impedance": t_line_impedance_round_trip,
              "impedance_to_line": t_impedance_to_line, "ext_grid_to_gen": t_ext_grid_to_gen, "ward": t_ward, "xward": t_xward,
              "drop_inactive": t_drop_inactive, "fuse": t_fuse, "merge_parallel": t_merge_parallel, "select_subnet": t_select_subnet,
              "merge_nets": None}


def special_net(rng, pp, name):
    kw = {}
    net = netgen.random_net(rng, dcline=False, allow_oos=(name in ("drop_inactive", "select_subnet")) or rng.random() < 0.3)
    if rng.random() < (0.6 if name in ("select_subnet", "merge_nets") else 0.3):
        net.f_hz = 60.          # (line charging depends on the frequency of the net object)
    if name == "line_impedance":
        for i in net.line.index:
            if rng.random() < 0.6:
                net.line.at[i, "c_nf_per_km"] = 0.
                net.line.at[i, "g_us_per_km"] = 0.
    if name == "impedance_to_line" and len(net.bus) >= 3:
        mv = [int(b) for b in net.bus.index[net.bus.vn_kv == 20.]]
        for _ in range(2):
            a, b = rng.sample(mv, 2)
            sym = rng.random() < 0.6
            r, x = rng.choice([0.01, 0.03]), rng.choice([0.04, 0.08])
            pp.create_impedance(net, a, b, rft_pu=r, xft_pu=x, sn_mva=rng.choice([10., 25.]),
                                rtf_pu=r if sym or rng.random() < 0.5 else r * 1.5, xtf_pu=x if sym else x * 1.4)
    if name == "merge_parallel" and len(net.line):
        for i in net.line.index:
            if rng.random() < 0.5:
                net.line.at[i, "parallel"] = rng.choice([2, 3])
                net.line.at[i, "g_us_per_km"] = rng.choice([0., 0.8, 2.5])
    if name == "ward" and not len(net.ward):
        pp.create_ward(net, int(rng.choice(list(net.load.bus))), 0.2, 0.1, 0.15, -0.1)
    if name == "xward" and not len(net.xward):
        mv = [int(b) for b in net.bus.index[net.bus.vn_kv == 20.]]
        pp.create_xward(net, rng.choice(mv[1:]), 0.2, 0.1, 0.15, -0.1, r_ohm=0.5, x_ohm=4., vm_pu=1.0)
    return net


def run(ctx):
    import pandapower as pp
    from translate import c23 as tr, c04 as tr4
    ctx.cov["rule"] = ("case = generated net (made applicable for the transformation), calculated, one of 11 toolbox transformations "
                       "applied to a copy, recalculated; compared on bus voltages through the bus map, slack power and total "
                       "losses; non-trivial = transformation applicable and both runs converged")
    ctx.regenerate("C04", lambda: tr4.render(tr4.extract(core.REPO)))
    ctx.regenerate("C23", lambda: tr.render(tr.extract(core.REPO)))
    ctx.prove()
    rng = ctx.rng
    names = sorted(TRANSFORMS)
    reqs, want = [], []
    for k in range(ctx.budget(44, 660)):
        name = names[k % len(names)]
        net = special_net(rng, pp, name)
        opts = dict(voltage_depend_loads=False, calculate_voltage_angles=True, trafo_model=rng.choice(["t", "pi"]))
        try:
            with core.quiet():
                pp.runpp(net, **opts)
        except Exception as e:       # noqa
            ctx.hist("run", "base:" + type(e).__name__)
            continue
        case = {"transform": name, "options": opts, "net_json": pp.to_json(net)}
        before = bus_res(net)
        p0, q0 = slack_pq(net)
        net2 = copy.deepcopy(net)
        try:
            with core.quiet():
                if name == "merge_nets":
                    other = netgen.random_net(rng, dcline=False, allow_oos=False, kinds=("line", "trafo", "load", "sgen", "gen", "shunt"))
                    other.sn_mva = net.sn_mva
                    other.f_hz = net.f_hz
                    try:
                        pp.runpp(other, **opts)
                    except pp.LoadflowNotConverged:
                        ctx.hist("transform", "merge_nets:second-net-not-converged")
                        continue
                    ob = bus_res(other)
                    n1 = len(net.bus)
                    merged = pp.merge_nets(net2, other, validate=False, merge_results=False)
                    # net1 keeps its bus labels; net2's buses are appended
                    new_labels = [int(b) for b in merged.bus.index if int(b) not in before]
                    bmap, info = {}, {"new_net": merged, "other": (ob, dict(zip([int(b) for b in other.bus.index], new_labels)))}
                else:
                    bmap, info = TRANSFORMS[name](rng, pp, net2)
        except Exception as e:       # noqa
            ctx.failure(f"raises:{name}", f"{name} raised {type(e).__name__}: {e}", case)
            continue
        if bmap is None:
            ctx.hist("transform", name + ":not-applicable")
            continue
        net2 = info.get("new_net", net2)
        try:
            with core.quiet():
                pp.runpp(net2, **opts)
        except Exception as e:       # noqa
            ctx.failure(f"recalc:{name}", f"power flow after {name} raised {type(e).__name__}: {e}", case)
            continue
        ctx.hist("transform", name)
        ctx.count(json.dumps([name]) + case["net_json"], nontrivial=True)
        after = bus_res(net2)
        sel = {b: v for b, v in before.items() if "only_buses" not in info or b in info["only_buses"]}
        if info.get("may_drop_buses"):
            sel = {b: v for b, v in sel.items() if bmap.get(b, b) in after or not math.isnan(v[0])}
        d = compare_buses(sel, after, bmap)
        if d and name == "ext_grid_to_gen" and angle_shift_only(net, before, after):
            ctx.failure("ext-grid-angle-lost", f"after {name}: {d}", case)
            d = "known"
        elif d:
            ctx.failure(f"differs:{name}", f"after {name}: {d}", case)
        elif "other" in info:
            ob, om = info["other"]
            d = compare_buses(ob, after, om)
            if d:
                ctx.failure(f"differs:{name}", f"after {name} (second net): {d}", case)
        if name not in ("merge_nets", "select_subnet") and not d:
            p1, q1 = slack_pq(net2)
            if abs(p1 - p0) > 1e-5 or abs(q1 - q0) > 1e-5:
                ctx.failure(f"slack:{name}", f"after {name}: slack power {p0!r}, {q0!r} -> {p1!r}, {q1!r}", case)
        ctx.sample({"transform": name}, cap=6)
        # correspondence of the generated formulas with what the toolbox / build_branch really wrote
        if name == "line_impedance" and len(net2.impedance) and len(reqs) < 200:
            from pandapower.pypower.idx_brch import BR_R
            f, t = net2._pd2ppc_lookups["branch"]["impedance"]
            for j, (i, im) in enumerate(net2.impedance.iterrows()):
                reqs.append(f"f impR {core.frac(float(im.rft_pu))} {core.frac(float(im.sn_mva))} {core.frac(float(net2.sn_mva))}")
                want.append(float(net2._ppc["branch"][f + j, BR_R].real))
        if name in ("line_impedance", "merge_parallel") and len(net.line) and len(reqs) < 200:
            from pandapower.pypower.idx_brch import BR_R
            f, t = net._pd2ppc_lookups["branch"]["line"]
            for j, (i, ln) in enumerate(net.line.iterrows()):
                vn = float(net.bus.vn_kv.at[ln.from_bus])
                reqs.append(f"f lineR {core.frac(float(ln.r_ohm_per_km))} {core.frac(float(ln.length_km))} {core.frac(float(ln.parallel))} "
                            f"{core.frac(vn)} {core.frac(float(net.sn_mva))}")
                want.append(float(net._ppc["branch"][f + j, BR_R].real))
        if name == "xward" and len(net.xward):
            xw = net.xward.iloc[0]
            vn = float(net.bus.vn_kv.at[xw.bus])
            reqs.append(f"f xw2iR {core.frac(float(xw.r_ohm))} {core.frac(vn)} {core.frac(float(net.sn_mva))}")
            want.append(float(net2.impedance.rft_pu.iloc[-1]))
    # direct table-level correspondence of l2iR / i2lR
    for _ in range(ctx.budget(6, 40)):
        net = pp.create_empty_network(sn_mva=rng.choice([1., 10.]))
        vn = rng.choice([20., 110.])
        b = [pp.create_bus(net, vn) for _ in range(2)]
        r, l, p = rng.choice([0.1, 0.642]), rng.choice([1., 3.7]), rng.choice([1, 2, 3])
        pp.create_line_from_parameters(net, b[0], b[1], l, r, 0.3, 0., 0.4, parallel=p)
        sni = rng.choice([5., 40.])
        pp.replace_line_by_impedance(net, sn_mva=sni)
        reqs.append(f"f l2iR {core.frac(r)} {core.frac(l)} {core.frac(float(p))} {core.frac(vn)} {core.frac(sni)}")
        want.append(float(net.impedance.rft_pu.iloc[0]))
        rft = float(net.impedance.rft_pu.iloc[0])
        pp.replace_impedance_by_line(net)
        reqs.append(f"f i2lR {core.frac(rft)} {core.frac(vn)} {core.frac(sni)}")
        want.append(float(net.line.r_ohm_per_km.iloc[0]))
    if ctx.cov.get("lean_build_failed") or not reqs:
        return
    resp = core.lean_driver("C23", reqs)
    dis = 0
    for rq, r, w in zip(reqs, resp, want):
        try:
            got = float(core.parse_rat(r))
        except Exception:       # noqa
            got = None
        if got is None or abs(got - w) > 1e-12 + 1e-9 * abs(w):
            dis += 1
            ctx.tie_break("correspondence:C23", f"generated function: {rq} -> {r}, implementation wrote {w!r}")
    ctx.cov["correspondence"] = {"requests": len(reqs), "disagreements": dis}
    ctx.assumptions.append("runs with voltage_depend_loads=False (C01 findings); replace_line_by_impedance only for lines without "
                           "capacitance / conductance (documented scope; the forced replacement doubles the shunt, theorem "
                           "C23_line_to_impedance_shunt_doubled); fuse_buses has no model theorem (oracle only)")


def replay(ctx, path):
    print("C23 replays carry net_json and the transformation name; re-run ./check C23 with the same VERIF_SEED")
    return 2
