"""C10 — distributed slack shares the balancing power in proportion to the weights.

proof:   Props/C10.lean: with the solver equation (bus power = sum of set points + sum of weights * Delta, from the generated
         mismatch of _evaluate_Fx) the generated split of _split_p_for_gens_at_same_bus gives every generator
         set point + weight * Delta; non-participants keep their set points; the powers handed out add up to the bus power;
         normalised weights sum to one and keep ratios.
tie:     translator (split arithmetic, mismatch, normalisation) + correspondence: every real call of
         _split_p_for_gens_at_same_bus replayed through the model on exact rationals; the solver equation (hypothesis of the
         theorem) checked on the recorded bus powers: one Delta for all participating buses.
oracle:  result tables only: (p - set point) / weight equal for all participating ext_grids, gens and xwards, set points
         kept by non-participants, nodal balance; also after recycled runs with changed weights.
"""
import json
import math

import numpy as np

from harness import core
from harness.props import c01


def ds_net(rng):
    import pandapower as pp
    net = pp.create_empty_network(sn_mva=rng.choice([1., 10., 100., 1000.]))
    n = rng.randint(4, 8)
    b = [pp.create_bus(net, 110.) for _ in range(n)]
    for i in range(n - 1):
        pp.create_line_from_parameters(net, b[i], b[i + 1], rng.choice([5., 12., 20.]), 0.1, 0.3, 10., 1.)
    if rng.random() < 0.5:
        pp.create_line_from_parameters(net, b[-1], b[rng.randint(0, n - 3)], 15., 0.1, 0.3, 10., 1.)
    w = lambda: rng.choice([0., 0.5, 1., 2., 3.])           # noqa
    pp.create_ext_grid(net, b[0], rng.choice([1.0, 1.02]), slack_weight=rng.choice([0.5, 1., 2.]))
    if rng.random() < 0.25:
        pp.create_ext_grid(net, b[0], float(net.ext_grid.vm_pu.iloc[0]), slack_weight=w())
    free = b[1:]
    rng.shuffle(free)
    ng = rng.randint(1, min(3, len(free) - 1))
    for g in range(ng):
        pp.create_gen(net, free[g], rng.choice([10., 30., 55.]), vm_pu=rng.choice([1.0, 1.01, 1.03]), slack_weight=w(),
                      scaling=rng.choice([1., 0.8]))
    if rng.random() < 0.35:          # second generator at a generator bus / at the ext_grid bus
        at = rng.choice([free[0], b[0]])
        vm = float(net.gen.vm_pu[net.gen.bus == at].iloc[0]) if at != b[0] else float(net.ext_grid.vm_pu.iloc[0])
        pp.create_gen(net, at, 12., vm_pu=vm, slack_weight=w())
    if rng.random() < 0.3:
        # a reference generator (slack=True) that does not participate (weight 0) but has a dispatch, at the ext_grid bus
        pp.create_gen(net, b[0], rng.choice([15., 30.]), vm_pu=float(net.ext_grid.vm_pu.iloc[0]), slack=True, slack_weight=0.)
    rest = free[ng:]
    for bb in rest:
        if rng.random() < 0.8:
            pp.create_load(net, bb, rng.choice([20., 45., 70.]), rng.choice([5., 12.]), scaling=rng.choice([1., 0.9]))
        if rng.random() < 0.3:
            pp.create_sgen(net, bb, rng.choice([5., 15.]), 1., scaling=rng.choice([1., 0.5]))
    nxw = rng.choice([0, 0, 1, 1, 2])
    same_bus = rng.random() < 0.5          # two xwards at one bus
    for k in range(min(nxw, len(rest))):
        pp.create_xward(net, rest[0 if same_bus else k], ps_mw=rng.choice([5., 8.]), qs_mvar=1., pz_mw=rng.choice([0., 2.]), qz_mvar=0.5, r_ohm=0.,
                        x_ohm=5., vm_pu=1.0, slack_weight=rng.choice([0., 1., 2.]))
    return net


def participants(net):
    """(kind, index, set point as generation, weight, result as generation)"""
    out = []
    vm = net.res_bus.vm_pu
    for i, e in net.ext_grid[net.ext_grid.in_service].iterrows():
        out.append(("ext_grid", i, 0.0, float(e.slack_weight), float(net.res_ext_grid.p_mw.at[i])))
    for i, g in net.gen[net.gen.in_service].iterrows():
        out.append(("gen", i, float(g.p_mw * g.scaling), float(g.slack_weight), float(net.res_gen.p_mw.at[i])))
    for i, x in net.xward[net.xward.in_service].iterrows():
        sp = float(x.ps_mw) + float(x.pz_mw) * float(vm.at[x.bus]) ** 2
        out.append(("xward", i, -sp, float(x.slack_weight), -float(net.res_xward.p_mw.at[i])))
    return out


def oracle(ctx, net, case, tag=""):
    ps = participants(net)
    wsum = sum(p[3] for p in ps)
    if wsum <= 0:
        return
    dev = [(k, i, r - sp, w) for k, i, sp, w, r in ps]
    delta = sum(d for _k, _i, d, _w in dev) / wsum
    scale = max(1.0, abs(delta))
    for k, i, d, w in dev:
        # xward: the internal impedance makes the set point itself slightly state dependent
        tol = (2e-4 if k == "xward" else 1e-6) * max(1.0, abs(d), scale * max(w, 1.0))
        if abs(d - w * delta) > tol:
            what = "keeps" if w == 0 else "shares"
            ctx.failure(f"share:{k}{tag}", f"{k} {i} (weight {w}): deviation from set point {d!r} MW, weight * common value = {w * delta!r} MW "
                                          f"(all deviations/weights: {[(k2, i2, round(d2, 6), w2) for k2, i2, d2, w2 in dev]})", case)
            break
    acc, rep = c01.node_balance(net)
    for node, (p, q, _info) in acc.items():
        if math.isnan(float(net.res_bus.vm_pu.at[node])):
            continue
        if abs(p) > 1e-5 * max(1.0, abs(delta)) or abs(q) > 1e-5 * max(1.0, abs(delta)):
            ctx.failure(f"balance{tag}", f"node {node}: {p!r} MW / {q!r} Mvar unbalanced with distributed slack", case)
            break


def run(ctx):
    import pandapower as pp
    import pandapower.pypower.pfsoln as pfs
    from pandapower.pypower.idx_gen import PG, SL_FAC, GEN_BUS
    from translate import c10 as tr
    ctx.cov["rule"] = ("case = generated 110 kV net with 1-2 ext_grids, 1-4 gens (also sharing buses), 0-2 xwards, weights incl. "
                       "zero, sn_mva 1..1000, x numba x recycled second run with changed weights; non-trivial = converged "
                       "with >= 2 participants of positive weight")
    ctx.regenerate("C10", lambda: tr.render(tr.extract(core.REPO)))
    ctx.prove()
    rng = ctx.rng
    reqs, meta = [], []
    calls = []
    orig = pfs._split_p_for_gens_at_same_bus

    def spy(gen, p_bus, gens_at_bus, ref_gens):
        before = gen[:, [PG, SL_FAC]].copy()
        orig(gen, p_bus, gens_at_bus, ref_gens)
        calls.append((before, float(p_bus), [int(g) for g in gens_at_bus], set(int(g) for g in ref_gens), gen[:, PG].copy(),
                      gen[:, GEN_BUS].copy()))
    for k in range(ctx.budget(40, 500)):
        net = ds_net(rng)
        opts = dict(distributed_slack=True, voltage_depend_loads=False, numba=rng.random() < 0.5,
                    calculate_voltage_angles=rng.random() < 0.7, tolerance_mva=1e-9)      # the shares are compared to 1e-6 MW
        case = {"options": opts, "net_json": pp.to_json(net), "second": None}
        del calls[:]
        pfs._split_p_for_gens_at_same_bus = spy
        try:
            with core.quiet():
                pp.runpp(net, **opts)
        except NotImplementedError as e:
            ctx.hist("run", "NotImplementedError")
            continue
        except Exception as e:       # noqa
            ctx.hist("run", type(e).__name__)
            continue
        finally:
            pfs._split_p_for_gens_at_same_bus = orig
        ps = participants(net)
        npos = sum(1 for p in ps if p[3] > 0)
        ctx.hist("run", "ok")
        ctx.hist("participants", npos)
        ctx.hist("xwards", int((net.xward.slack_weight > 0).sum()) if len(net.xward) else 0)
        ctx.count(case["net_json"] + json.dumps(opts), nontrivial=npos >= 2)
        oracle(ctx, net, case)
        ctx.sample({"options": opts, "participants": [(p[0], p[3]) for p in ps]}, cap=4)
        # correspondence + hypothesis of C10_share on the recorded calls (last pfsoln call of the run)
        deltas = []
        for before, p_bus, gab, refg, after, gbus in calls:
            toks = ["bus", core.frac(p_bus), str(len(gab))]
            for g in gab:
                toks += [core.frac(float(before[g, 0])), core.frac(float(before[g, 1])), "1" if g in refg else "0"]
            reqs.append(" ".join(toks))
            meta.append(([float(after[g]) for g in gab], case))
            wb = sum(float(before[g, 1]) for g in gab)
            if wb > 0:
                deltas.append((p_bus - sum(float(before[g, 0]) for g in gab)) / wb)
        if len(deltas) >= 2 and max(deltas) - min(deltas) > 1e-5 * max(1.0, abs(deltas[0])):
            ctx.failure("solver-equation", f"bus power - set points divided by the bus weight differs between participating buses: {deltas}",
                        case)
        # recycled second run with changed weights / set points
        if rng.random() < 0.4 and len(net.gen):
            rec = {"bus_pq": True, "trafo": False, "gen": True}
            try:
                with core.quiet():
                    pp.runpp(net, recycle=rec, **opts)
                    changes = []
                    for i in net.gen.index:
                        if rng.random() < 0.7:
                            net.gen.at[i, "slack_weight"] = rng.choice([0., 1., 2.5, 4.])
                            changes.append(("gen", int(i), float(net.gen.at[i, "slack_weight"])))
                    net.ext_grid.at[net.ext_grid.index[0], "slack_weight"] = rng.choice([0.5, 1., 3.])
                    changes.append(("ext_grid", int(net.ext_grid.index[0]), float(net.ext_grid.slack_weight.iloc[0])))
                    pp.runpp(net, recycle=rec, **opts)
            except Exception as e:       # noqa
                ctx.hist("recycle", type(e).__name__)
            else:
                ctx.hist("recycle", "ok")
                case2 = dict(case, second={"recycle": rec, "weight_changes": changes})
                oracle(ctx, net, case2, tag=":recycled")
    if ctx.cov.get("lean_build_failed") or not reqs:
        return
    resp = core.lean_driver("C10", reqs)
    dis = 0
    for rq, r, (want, case) in zip(reqs, resp, meta):
        try:
            got = [float(core.parse_rat(t)) for t in r.split()]
        except Exception:       # noqa
            got = None
        if got is None or len(got) != len(want) or any(abs(a - b_) > 1e-9 * max(1.0, abs(b_)) for a, b_ in zip(got, want)):
            dis += 1
            ctx.tie_break("correspondence:C10-split", f"model {r!r} vs implementation {want} for request {rq}")
    ctx.cov["correspondence"] = {"requests": len(reqs), "disagreements": dis}
    ctx.assumptions.append("runs with voltage_depend_loads=False (C01 findings); one island (several zones raise NotImplementedError by "
                           "design); weights >= 0; xward set point = ps_mw + pz_mw * vm^2, compared with 2e-4 relative tolerance "
                           "because of its internal impedance")


def replay(ctx, path):
    import pandapower as pp
    with open(path) as f:
        case = json.load(f)["replay"]
    net = pp.from_json_string(case["net_json"])
    with core.quiet():
        pp.runpp(net, **case["options"])
        if case.get("second"):
            rec = case["second"]["recycle"]
            pp.runpp(net, recycle=rec, **case["options"])
            for kind, i, w in case["second"]["weight_changes"]:
                net[kind].at[i, "slack_weight"] = w
            pp.runpp(net, recycle=rec, **case["options"])

    class C:
        failures = []

        def failure(self, key, what, replay):
            self.failures.append((key, what))
    c = C()
    oracle(c, net, case)
    for k, w in c.failures:
        print("differs:", k, w)
    return 1 if c.failures else 0
