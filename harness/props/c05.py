"""C05 — power flow results are invariant under equivalent re-representations.

proof:   Props/C05.lean on the network model of C01: base-power change (mismatch scales by a real factor for every V, MW flows
         unchanged), row permutation, inert elements, parallel = n vs n copies, from/to swap (flows swap ends), injective
         relabelling of nodes, splitting a load with equal ZIP fractions.
tie:     the hypotheses of the theorems are checked on the implementation on every run (ppc admittances of the re-represented
         net = factor x those of the original net / the same multiset through the node map); the model itself is tied to the
         implementation by C01's and C02's correspondences.
oracle:  metamorphic: generated net, one random transformation applied to the ALREADY CALCULATED net, then both nets are
         recalculated (runpp fresh / init='results' / rundcpp) and compared through the bus / element maps.
"""
import copy
import json
import math

import numpy as np
import pandas as pd

from harness import core, netgen


def t_snmva(rng, net):
    net.sn_mva = float(net.sn_mva) * rng.choice([0.1, 10., 7.3])
    return {}


def t_perm(rng, net):
    for tab in ("load", "line", "sgen", "trafo", "shunt"):
        if len(net[tab]) > 1:
            order = list(net[tab].index)
            rng.shuffle(order)
            net[tab] = net[tab].loc[order]
    return {}


def t_split_load(rng, net):
    import pandapower as pp
    if not len(net.load):
        return None
    i = int(rng.choice(list(net.load.index)))
    r = net.load.loc[i]
    k = rng.choice([2, 3])
    w = [rng.choice([0.2, 0.5, 1.0]) for _ in range(k)]
    s = sum(w)
    net.load.at[i, "p_mw"] = float(r.p_mw) * w[0] / s
    net.load.at[i, "q_mvar"] = float(r.q_mvar) * w[0] / s
    for j in range(1, k):
        kw = {c: r[c] for c in ("const_z_p_percent", "const_i_p_percent", "const_z_q_percent", "const_i_q_percent") if c in r and not pd.isna(r[c])}
        pp.create_load(net, int(r.bus), float(r.p_mw) * w[j] / s, float(r.q_mvar) * w[j] / s, scaling=float(r.scaling),
                       in_service=bool(r.in_service), **kw)
    return {"skip_tables": ["res_load"]}


def t_parallel(rng, net):
    import pandapower as pp
    cand = [int(i) for i in net.line.index if int(net.line.parallel.at[i]) >= 2 and bool(net.line.in_service.at[i])
            and not (len(net.switch) and ((net.switch.et == "l") & (net.switch.element == i)).any())]
    if not cand:
        return None
    i = rng.choice(cand)
    r = net.line.loc[i]
    n = int(r.parallel)
    net.line.at[i, "parallel"] = 1
    for _ in range(n - 1):
        pp.create_line_from_parameters(net, int(r.from_bus), int(r.to_bus), float(r.length_km), float(r.r_ohm_per_km), float(r.x_ohm_per_km),
                                       float(r.c_nf_per_km), float(r.max_i_ka), g_us_per_km=float(r.g_us_per_km), df=float(r.df))
    return {"skip_tables": ["res_line"], "line_split": (i, n)}


def t_swap_line(rng, net):
    cand = [int(i) for i in net.line.index if not (len(net.switch) and ((net.switch.et == "l") & (net.switch.element == i)).any())]
    if not cand:
        return None
    i = rng.choice(cand)
    f, t = int(net.line.from_bus.at[i]), int(net.line.to_bus.at[i])
    net.line.at[i, "from_bus"], net.line.at[i, "to_bus"] = t, f
    return {"swapped_line": i}


def t_inert(rng, net):
    import pandapower as pp
    mv = [int(b) for b in net.bus.index[(net.bus.vn_kv == 20.) & net.bus.in_service]]
    if len(mv) < 2:
        return None
    a, b = rng.sample(mv, 2)
    pp.create_line_from_parameters(net, a, b, 1.0, 0.1, 0.1, 10., 0.3, in_service=False)
    pp.create_load(net, a, 0., 0.)
    pp.create_sgen(net, b, 0.5, 0.1, in_service=False)
    pp.create_load(net, b, 3., 1., scaling=0.)
    return {"skip_extra_rows": True}


def t_relabel(rng, net):
    import pandapower as pp
    old = [int(b) for b in net.bus.index]
    new = [b + 40 + 3 * k for k, b in enumerate(old)]
    rng.shuffle(new)
    pp.reindex_buses(net, dict(zip(old, new)))
    return {"bus_map": dict(zip(old, new))}


def t_fuse(rng, net):
    import pandapower as pp
    cand = [int(b) for b in set(net.load.bus) if bool(net.bus.in_service.at[b])]
    if not cand:
        return None
    b = rng.choice(cand)
    nb = int(pp.create_bus(net, float(net.bus.vn_kv.at[b])))
    pp.create_switch(net, b, nb, et="b", closed=True, z_ohm=0.)
    ids = list(net.load.index[net.load.bus == b])
    net.load.loc[ids[:max(1, len(ids) // 2)], "bus"] = nb
    return {"fused": (b, nb), "skip_tables": ["res_bus_pq"]}


TRANSFORMS = {"snmva": t_snmva, "perm": t_perm, "split_load": t_split_load, "parallel": t_parallel, "swap_line": t_swap_line,
              "inert": t_inert, "relabel": t_relabel, "fuse": t_fuse}


def compare(net, net2, info, tol=1e-6):
    bm = {int(k_): int(v_) for k_, v_ in (info.get("bus_map") or {int(b): int(b) for b in net.bus.index}).items()}
    out = []
    for b in net.bus.index:
        b2 = bm[int(b)]
        for c in ("vm_pu", "va_degree"):
            x, y = float(net.res_bus.at[b, c]), float(net2.res_bus.at[b2, c])
            if (math.isnan(x) != math.isnan(y)) or (not math.isnan(x) and abs(x - y) > tol * max(1.0, abs(x))):
                out.append(f"res_bus.{c}[{b}]: {x!r} vs {y!r}")
                break
        if out:
            break
    if "fused" in info:
        a, nb = info["fused"]
        for c in ("vm_pu", "va_degree"):
            x, y = float(net2.res_bus.at[a, c]), float(net2.res_bus.at[nb, c])
            if not (math.isnan(x) and math.isnan(y)) and abs(x - y) > 1e-9:
                out.append(f"fused buses {a}/{nb} report different {c}: {x!r} vs {y!r}")
    skip = set(info.get("skip_tables", []))
    for tab, cols in (("res_line", ["p_from_mw", "q_from_mvar", "p_to_mw", "q_to_mvar", "i_ka", "loading_percent"]),
                      ("res_trafo", ["p_hv_mw", "q_hv_mvar", "p_lv_mw", "q_lv_mvar", "loading_percent"]),
                      ("res_load", ["p_mw", "q_mvar"]), ("res_sgen", ["p_mw", "q_mvar"]), ("res_ext_grid", ["p_mw", "q_mvar"]),
                      ("res_gen", ["p_mw", "q_mvar"]), ("res_shunt", ["p_mw", "q_mvar"]), ("res_trafo3w", ["p_hv_mw", "p_mv_mw", "p_lv_mw"])):
        if tab in skip or not len(net[tab]):
            continue
        for i in net[tab].index:
            if i not in net2[tab].index:
                out.append(f"{tab}[{i}] missing")
                break
            row, row2 = net[tab].loc[i], net2[tab].loc[i]
            cc = list(cols)
            if tab == "res_line" and info.get("swapped_line") == i:
                m = {"p_from_mw": "p_to_mw", "p_to_mw": "p_from_mw", "q_from_mvar": "q_to_mvar", "q_to_mvar": "q_from_mvar"}
                pairs = [(c, m.get(c, c)) for c in cc]
            else:
                pairs = [(c, c) for c in cc]
            for c, c2 in pairs:
                x, y = float(row[c]), float(row2[c2])
                # absolute part: what the solver tolerance (1e-8 MVA mismatch) allows on small ratings
                atol = 1e-3 if c.startswith("loading") else 1e-5
                if (math.isnan(x) != math.isnan(y)) or (not math.isnan(x) and abs(x - y) > atol + tol * abs(x)):
                    out.append(f"{tab}.{c}[{i}]: {x!r} vs {y!r}")
                    break
            if out:
                break
        if out:
            break
    if "line_split" in info and not out:
        i, n = info["line_split"]
        new_idx = list(net2.line.index[-(n - 1):]) + [i]
        tot = float(net2.res_line.p_from_mw.loc[new_idx].sum())
        if abs(tot - float(net.res_line.p_from_mw.at[i])) > tol * max(1.0, abs(tot)):
            out.append(f"line {i} with parallel={n}: p_from {net.res_line.p_from_mw.at[i]!r}, the {n} single lines carry {tot!r}")
    return out


def run(ctx):
    import pandapower as pp
    ctx.cov["rule"] = ("case = generated net, calculated, then one of 8 re-representations (sn_mva, row permutation, load split, "
                       "parallel -> copies, line from/to swap, inert elements, bus relabelling, fusing through a closed bus-bus "
                       "switch) applied to the calculated net, both recalculated in one of 3 modes (fresh runpp, init='results', "
                       "rundcpp); non-trivial = transformation applicable and both runs converged")
    ctx.prove()
    rng = ctx.rng
    names = sorted(TRANSFORMS)
    for k in range(ctx.budget(40, 600)):
        net = netgen.random_net(rng, dcline=False, allow_oos=rng.random() < 0.5)
        if rng.random() < 0.5:
            net.sn_mva = rng.choice([1., 10., 100., 0.1])
        name = names[k % len(names)]
        if rng.random() < (0.8 if name == "row permutation" or "perm" in name else 0.3) and len(net.line) >= 3:
            # an out-of-service bus at the end of an in-service line, and an out-of-service line stored after it (a row permutation
            # changes which of the two comes first)
            li = [int(i) for i in net.line.index]
            a_ = li[0]
            dead = pp.create_bus(net, float(net.bus.vn_kv.at[net.line.from_bus.at[a_]]), in_service=False)
            pp.create_line_from_parameters(net, int(net.line.from_bus.at[a_]), dead, 1.2, 0.2, 0.3, 40., 0.4, index=min(li) - 1 if min(li) > 0 else None)
            net.line.at[li[-1], "in_service"] = False
            net.line.sort_index(inplace=True)
        mode = ["fresh", "init_results", "dc"][(k // len(names)) % 3]        # every transformation meets every mode
        opts = dict(voltage_depend_loads=False, calculate_voltage_angles=True, trafo_model=rng.choice(["t", "pi"]))
        try:
            with core.quiet():
                pp.runpp(net, **opts)
        except Exception as e:       # noqa
            ctx.hist("run", "base:" + type(e).__name__)
            continue
        net2 = copy.deepcopy(net)
        info = TRANSFORMS[name](rng, net2)
        if info is None:
            ctx.hist("transform", name + ":not-applicable")
            continue
        case = {"transform": name, "mode": mode, "options": opts, "net_json": pp.to_json(net), "net2_json": pp.to_json(net2),
                "info": info}

        def calc(n_):
            if mode == "dc":
                pp.rundcpp(n_, calculate_voltage_angles=True, trafo_model=opts["trafo_model"])
            elif mode == "init_results":
                pp.runpp(n_, init="results", **opts)
            else:
                pp.runpp(n_, **opts)
        try:
            with core.quiet():
                calc(net)
                calc(net2)
        except Exception as e:       # noqa
            msg = f"{type(e).__name__}: {e}"
            if "index of result table" in msg:       # init='results' is documented to need results for every element
                ctx.hist("run", "second:init-results-not-applicable")
                continue
            if "LoadflowNotConverged" in msg:
                ctx.hist("run", "second:LoadflowNotConverged")
                continue
            ctx.failure(f"raises:{name}:{mode}", f"recalculation after '{name}' ({mode}) raised {msg}", case)
            continue
        ctx.hist("transform", name + ":" + mode)
        ctx.count(json.dumps([name, mode]) + case["net_json"], nontrivial=True)
        diffs = compare(net, net2, info, tol=1e-6 if mode != "dc" else 1e-7)
        for d in diffs[:1]:
            ctx.failure(f"{name}:{mode}", f"after '{name}' ({mode}): {d}", case)
        ctx.sample({"transform": name, "mode": mode}, cap=4)
        # hypothesis of C05_snmva on the implementation: every per-unit admittance scales with sn/sn'
        if name == "snmva" and mode == "fresh" and "Ybus" in net._ppc["internal"] and "Ybus" in net2._ppc["internal"]:
            y1, y2 = (y.toarray() if hasattr(y, "toarray") else np.asarray(y)
                      for y in (net._ppc["internal"]["Ybus"], net2._ppc["internal"]["Ybus"]))
            kf = float(net.sn_mva) / float(net2.sn_mva)
            if y1.shape != y2.shape or not np.allclose(y2, kf * y1, rtol=1e-9, atol=1e-12):
                ctx.tie_break("hypothesis:C05_snmva", f"Ybus of the net with sn_mva {net2.sn_mva} is not {kf} x Ybus of the net with {net.sn_mva}")
    ctx.assumptions.append("runs with voltage_depend_loads=False: with the recorded C01 ZIP findings an added zero-power load changes the "
                           "bus-averaged fractions; the model is tied to the implementation by C01 / C02 correspondences, C05 checks the "
                           "theorems' hypotheses on the implementation and the conclusions metamorphically")


def replay(ctx, path):
    import pandapower as pp
    with open(path) as f:
        case = json.load(f)["replay"]
    net, net2 = pp.from_json_string(case["net_json"]), pp.from_json_string(case["net2_json"])
    opts, mode = case["options"], case["mode"]
    for n_ in (net, net2):
        with core.quiet():
            if mode == "dc":
                pp.rundcpp(n_, calculate_voltage_angles=True, trafo_model=opts["trafo_model"])
            elif mode == "init_results":
                pp.runpp(n_, init="results", **opts)
            else:
                pp.runpp(n_, **opts)
    diffs = compare(net, net2, case.get("info") or {}, tol=1e-6 if mode != "dc" else 1e-7)
    for d in diffs[:5]:
        print("differs:", d)
    return 1 if diffs else 0
