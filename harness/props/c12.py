"""C12 — time-series results equal a fresh power flow at every time step.

proof:   Props/C12.lean: recycled ppc = fresh ppc whenever the unflagged parts have no changed dependency (any number of parts);
         the flags of ConstControl.set_recycle (evaluated from its source over all table x column pairs) only recycle columns of
         tables the flagged builders read; batch-eligible variables are provided by the batch reader.
tie:     translator (set_recycle evaluated from the source; builder reads; batch eligibility / provision) + correspondence:
         net.controller.recycle of real controllers vs the generated table.
oracle:  run_timeseries with ConstControl / tap controllers on random columns and random logged variables vs a loop that
         writes the same values into a fresh copy and runs a plain power flow; all logged values compared.
"""
import copy
import json
import math
import os
import tempfile

import numpy as np
import pandas as pd

from harness import core, netgen

LOGS = [("res_bus", "vm_pu"), ("res_bus", "va_degree"), ("res_bus", "p_mw"), ("res_line", "loading_percent"), ("res_line", "i_ka"),
        ("res_line", "p_from_mw"), ("res_line", "pl_mw"), ("res_trafo", "loading_percent"), ("res_trafo", "i_hv_ka"),
        ("res_trafo", "p_hv_mw"), ("res_load", "p_mw"), ("res_ext_grid", "p_mw"), ("res_trafo3w", "loading_percent"),
        ("res_trafo3w", "p_hv_mw"), ("res_gen", "q_mvar")]
CONTROLLED = [("load", "p_mw"), ("load", "q_mvar"), ("load", "scaling"), ("sgen", "p_mw"), ("sgen", "scaling"), ("gen", "p_mw"),
              ("gen", "vm_pu"), ("ext_grid", "vm_pu"), ("trafo", "tap_pos"), ("trafo3w", "tap_pos"), ("line", "r_ohm_per_km"),
              ("line", "in_service"), ("load", "in_service"), ("trafo", "in_service"), ("shunt", "q_mvar"), ("line", "length_km")]


def profile(rng, net, tab, col, n_steps, idx):
    base = net[tab].loc[idx, col]
    rows = []
    for t in range(n_steps):
        if col == "in_service":
            rows.append([bool(rng.random() < 0.7) for _ in idx])
        elif col == "tap_pos":
            rows.append([float(np.clip((0 if pd.isna(b) else b) + rng.choice([-1, 0, 1, 2]), -2, 2)) for b in base])
        elif col == "vm_pu":
            rows.append([round(float(b) + rng.choice([-0.01, 0., 0.01]), 3) for b in base])
        elif col == "scaling":
            rows.append([rng.choice([0.5, 1.0, 1.2]) for _ in idx])
        else:
            rows.append([float(b) * rng.choice([0.6, 1.0, 1.3]) for b in base])
    return pd.DataFrame(rows, columns=[f"{tab}.{col}.{i}" for i in idx])


def run(ctx):
    import pandapower as pp
    from pandapower.control import ConstControl
    from pandapower.timeseries import DFData, OutputWriter, run_timeseries
    from translate import c12 as tr
    ctx.cov["rule"] = ("case = generated net, 1-3 ConstControl controllers on random (table, column) pairs out of 16 with random profiles "
                       "over 3-4 steps, 1-4 logged variables out of 15, recycle left to run_timeseries; vs the same values written into "
                       "a fresh copy step by step with a plain runpp; non-trivial = all steps converged in the reference")
    x = None

    def gen():
        nonlocal x
        x = tr.extract(core.REPO)
        return tr.render(x)
    ctx.regenerate("C12", gen)
    ctx.prove()
    rng = ctx.rng
    dis = 0
    ncorr = 0
    for k in range(ctx.budget(24, 300)):
        net = netgen.random_net(rng, dcline=rng.random() < 0.4, allow_oos=False,
                                kinds=("line", "trafo", "trafo3w", "load", "sgen", "gen", "shunt", "switch"))
        n_steps = rng.randint(3, 4)
        # power flow options handed to run_timeseries (and to the reference loop)
        pf_kw = {"trafo_loading": rng.choice(["current", "power"])}
        if rng.random() < 0.3:
            pf_kw["calculate_voltage_angles"] = rng.random() < 0.5
        # every third case aims at the batch reader: recyclable controllers only, batch-readable variables logged for the whole table
        batch_case = (k % 3 == 2)
        if len(net.trafo) and (batch_case or rng.random() < 0.4):
            # generation behind a transformer: power flows from its lv to its hv side
            ti = rng.choice(list(net.trafo.index))
            pp.create_sgen(net, int(net.trafo.lv_bus.at[ti]), 0.6 * float(net.trafo.sn_mva.at[ti]), 0.2 * float(net.trafo.sn_mva.at[ti]))
        ctrl_specs = []
        first = CONTROLLED[k % len(CONTROLLED)]
        extra = rng.sample(CONTROLLED, rng.randint(0, 2))
        if batch_case:
            first = rng.choice(CONTROLLED[:5])
            extra = rng.sample(CONTROLLED[:5], rng.randint(0, 2))
        if len(net.trafo3w) and rng.random() < 0.6 and not batch_case:
            extra.append(("trafo3w", "tap_pos"))
        diverge_step = rng.randrange(n_steps - 1) if rng.random() < 0.25 and not batch_case else None
        for tab, col in [first] + extra:
            if not len(net[tab]) or (tab, col) in [(a, b) for a, b, *_ in ctrl_specs]:
                continue
            idx = [int(i) for i in rng.sample(list(net[tab].index), min(len(net[tab]), rng.randint(1, 2)))]
            if col == "tap_pos" and any(pd.isna(net[tab].at[i, "tap_pos"]) for i in idx):
                continue
            if tab == "trafo" and col == "in_service" and len(net.trafo) < 2:
                continue
            ctrl_specs.append((tab, col, idx, profile(rng, net, tab, col, n_steps, idx)))
        if not ctrl_specs:
            continue
        if diverge_step is not None and len(net.load):
            i0 = int(net.load.index[0])
            prof = pd.DataFrame([[float(net.load.p_mw.at[i0]) * (400. if t == diverge_step else 1.)] for t in range(n_steps)],
                                columns=[f"load.p_mw.div.{i0}"])
            ctrl_specs = [c for c in ctrl_specs if (c[0], c[1]) != ("load", "p_mw")] + [("load", "p_mw", [i0], prof)]
        logs = rng.sample(LOGS, rng.randint(1, 4))
        if batch_case:
            logs = [("res_trafo", "loading_percent")] + rng.sample([("res_bus", "vm_pu"), ("res_line", "loading_percent"), ("res_line", "i_ka"),
                                                                    ("res_trafo", "i_hv_ka"), ("res_trafo3w", "loading_percent")], rng.randint(0, 2))
        logs = [lv for lv in logs if len(net[lv[0][4:]])]
        if rng.random() < 0.4 and ("res_line", "loading_percent") in logs and ("res_line", "i_ka") not in logs:
            logs.append(("res_line", "i_ka"))
        if not logs:
            logs = [("res_bus", "vm_pu")]
        # explicit element indices for some logged variables (any order, also a full permutation of the table)
        log_index = {}
        for lv in logs:
            if rng.random() < 0.4 and not batch_case:
                idx_all = [int(i) for i in net[lv[0][4:]].index]
                pick = rng.sample(idx_all, rng.choice([len(idx_all), max(1, len(idx_all) // 2)]))
                log_index[lv] = pick
        case = {"log_index": {f"{a}.{b}": v for (a, b), v in log_index.items()}, "diverge_step": diverge_step, "net_json": pp.to_json(net), "controllers": [(t, c, i, p.values.tolist()) for t, c, i, p in ctrl_specs], "logs": logs,
                "steps": n_steps, "pf_options": pf_kw}
        # reference: plain loop on a copy
        ref = copy.deepcopy(net)
        want = {lv: [] for lv in logs}
        ok = True
        for t in range(n_steps):
            for tab, col, idx, prof in ctrl_specs:
                for j, i in enumerate(idx):
                    v = prof.iloc[t, j]
                    ref[tab].at[i, col] = bool(v) if col == "in_service" else float(v)
            try:
                with core.quiet():
                    pp.runpp(ref, **pf_kw)
            except pp.LoadflowNotConverged:
                if diverge_step is None:
                    ok = False
                    break
                for tab, var in logs:      # a diverged step has no result to compare with (continue_on_divergence=True)
                    want[(tab, var)].append(np.full(len(log_index.get((tab, var), ref[tab[4:]].index)), np.inf))
                continue
            except Exception:       # noqa
                ok = False
                break
            for tab, var in logs:
                col = ref[tab][var] if (tab, var) not in log_index else ref[tab][var].loc[log_index[(tab, var)]]
                want[(tab, var)].append(col.values.astype(float).copy())
        if not ok:
            ctx.hist("reference", "not-converged")
            continue
        # run_timeseries on the original
        ts = copy.deepcopy(net)
        for tab, col, idx, prof in ctrl_specs:
            ConstControl(ts, tab, col, element_index=idx, profile_name=list(prof.columns), data_source=DFData(prof))
        # correspondence: recycle entry of the real controllers vs the generated table
        table = {(e, c): f for e, c, f in x["flags"]} if x else {}
        for ci, (tab, col, *_r) in zip(ts.controller.index, ctrl_specs):
            real = ts.controller.at[ci, "recycle"]
            real_t = tuple(bool(real[p]) for p in tr.PARTS) if isinstance(real, dict) else None
            if (tab, col) in table:
                ncorr += 1
                if table[(tab, col)] != real_t:
                    dis += 1
                    ctx.tie_break("correspondence:C12", f"controller on {tab}.{col}: recycle {real_t}, generated table {table[(tab, col)]}")
        tmp = tempfile.mkdtemp(prefix="c12_")
        # plain (table, variable) pairs handed to the constructor keep the batch reading after the loop available; log_variable()
        # stores longer tuples, which switch it off
        plain = not log_index and (batch_case or rng.random() < 0.5)
        ow = OutputWriter(ts, time_steps=range(n_steps), output_path=None, log_variables=[tuple(lv) for lv in logs] if plain else [])
        for tab, var in ([] if plain else logs):
            if (tab, var) in log_index:
                ow.log_variable(tab, var, index=log_index[(tab, var)])
            else:
                ow.log_variable(tab, var)
        ow.remove_log_variable("res_bus", "vm_pu") if ("res_bus", "vm_pu") not in logs and not plain else None
        try:
            with core.quiet():
                run_timeseries(ts, time_steps=range(n_steps), verbose=False, continue_on_divergence=diverge_step is not None, **pf_kw)
        except Exception as e:       # noqa
            ctx.count(case["net_json"] + json.dumps(case["controllers"]) + json.dumps(logs), nontrivial=True)
            ctx.failure(f"raises:{type(e).__name__}", f"run_timeseries with controllers {[(a, b) for a, b, *_ in ctrl_specs]} logging {logs} raised "
                                                      f"{type(e).__name__}: {str(e)[:160]}", case)
            continue
        finally:
            try:
                os.rmdir(tmp)
            except OSError:
                pass
        ctx.hist("controllers", "+".join(sorted(f"{a}.{b}" for a, b, *_ in ctrl_specs)))
        ctx.count(case["net_json"] + json.dumps(case["controllers"]) + json.dumps(logs), nontrivial=True)
        for tab, var in logs:
            key = f"{tab}.{var}"
            if key not in ow.output:
                ctx.failure(f"missing:{key}", f"run_timeseries did not record {key} (recorded: {sorted(ow.output)[:8]})", case)
                continue
            got = ow.output[key].values.astype(float)
            w = np.vstack(want[(tab, var)])
            if got.shape != w.shape:
                ctx.failure(f"shape:{key}", f"{key}: recorded shape {got.shape}, reference {w.shape}", case)
                continue
            with np.errstate(invalid="ignore"):
                # loading_percent = 100 * current / rating: the solver tolerance (1e-8 MVA) shows up amplified for small ratings
                tol_ = 1e-4 if var == "loading_percent" else 1e-6
                bad = ~((np.isnan(got) & np.isnan(w)) | np.isinf(w) | (np.abs(got - w) <= tol_ * np.maximum(1.0, np.abs(w))))
                if var == "loading_percent":
                    # a branch in an unsupplied island: runpp itself reports NaN (trafo_loading='current', lines) or 0.0
                    # (trafo_loading='power'); both mean 'no loading'
                    bad &= ~((np.isnan(got) & (w == 0)) | (np.isnan(w) & (got == 0)))
            if bad.any():
                t_, j_ = [int(v[0]) for v in np.nonzero(bad)]
                ctx.failure(f"differs:{'+'.join(sorted(set(a for a, b, *_ in ctrl_specs)))}",
                            f"{key} at step {t_}, column {j_}: run_timeseries {got[t_, j_]!r}, fresh power flow {w[t_, j_]!r} "
                            f"(controllers {[(a, b) for a, b, *_ in ctrl_specs]})", case)
                break
        ctx.sample({"controllers": [(a, b) for a, b, *_ in ctrl_specs], "logs": logs}, cap=5)
    ctx.cov["correspondence"] = {"requests": ncorr, "disagreements": dis}
    ctx.assumptions.append("loading_percent of branches in unsupplied islands: NaN and 0.0 are treated alike (runpp reports either, depending on trafo_loading); controllers are ConstControl with DFData profiles (the recycle decision is theirs); the reference applies the "
                           "same values in the same order and runs runpp with default options; cases whose reference does not converge "
                           "at some step are skipped")


def replay(ctx, path):
    print("C12 replays carry net_json, the controller profiles and the logged variables; re-run ./check C12 with the same VERIF_SEED")
    return 2
