"""C03 — energy conservation and non-negative losses of passive branches.

proof:   Props/C03.lean: sum over all nodes of V conj(Ybus V) = sum of branch losses + shunt powers (every network, every
         voltage vector); loss of a pi branch = conj(y_s)|V_f/tap - V_t|^2 + conj(y_c/2)(|V_f/tap|^2 + |V_t|^2); over C: active
         loss >= 0 whenever Re y_s >= 0 and Re y_c >= 0, and r >= 0 gives Re(1/z) >= 0.
tie:     correspondence: per-branch losses and the global sum recomputed by the model over Q[i] from the implementation's
         admittances and voltages vs ppc PF + PT.
oracle:  result tables only: generation - consumption = sum of reported losses; pl = p_from + p_to; pl >= 0 for every passive
         branch; DC: zero losses and generation = consumption.
"""
import json
import math

import numpy as np

from harness import core, netgen
from harness.props import c01


def run(ctx):
    import pandapower as pp
    from pandapower.pypower.makeYbus import branch_vectors
    from pandapower.pypower.idx_brch import F_BUS, T_BUS, PF, PT, QF, QT
    from pandapower.pypower.idx_bus import GS, BS
    ctx.cov["rule"] = ("case = generated passive net (r, g, pfe >= 0; phase shifters; arbitrary reactive elements; voltage-independent "
                       "loads - the voltage-dependent-load findings are C01's) x AC/DC x options; non-trivial = converged with >= 3 "
                       "loss-carrying branches")
    ctx.prove()
    rng = ctx.rng
    reqs, expect = [], []
    for k in range(ctx.budget(30, 500)):
        variant = rng.choice(["full", "full", "full", "single-slack-resistive", "gen-at-slack"])
        if variant == "single-slack-resistive":
            # one ext_grid, no gens / xwards, purely conductive bus admittances: the fast single-slack result routine applies
            net = netgen.random_net(rng, kinds=("line", "trafo", "load", "sgen", "switch"), dcline=False, n_ext=1, allow_oos=False)
            b = int(rng.choice(list(net.load.bus)))
            if rng.random() < 0.5:
                pp.create_shunt(net, b, q_mvar=0., p_mw=rng.choice([0.2, 0.41]))
            else:
                pp.create_ward(net, b, ps_mw=0.1, qs_mvar=0.05, pz_mw=rng.choice([0.31, 0.15]), qz_mvar=0.)
        else:
            net = netgen.random_net(rng, dcline=False, slack_gen=rng.random() < 0.2, n_ext=rng.choice([1, 2]))
            if variant == "gen-at-slack":
                pp.create_gen(net, int(net.ext_grid.bus.iloc[0]), p_mw=rng.choice([5., 20.]), vm_pu=float(net.ext_grid.vm_pu.iloc[0]))
        if rng.random() < 0.3:
            # a conductance directly at the slack bus
            sb = int(net.ext_grid.bus.iloc[0])
            if rng.random() < 0.5:
                pp.create_shunt(net, sb, q_mvar=rng.choice([0., -0.2]), p_mw=rng.choice([0.5, 1.15]))
            else:
                pp.create_ward(net, sb, ps_mw=0., qs_mvar=0., pz_mw=rng.choice([0.4, 0.9]), qz_mvar=0.)
        ctx.hist("variant", variant)
        dc = rng.random() < (0.25 if variant != "gen-at-slack" else 0.6)
        opts = dict(trafo_model=rng.choice(["t", "pi"]), calculate_voltage_angles=rng.random() < 0.8,
                    numba=(rng.random() < 0.5 or variant == "single-slack-resistive"))
        if not dc:
            opts["voltage_depend_loads"] = False          # (the default is True; the ZIP findings are C01's)
            if rng.random() < 0.3:
                opts.update(algorithm=rng.choice(["bfsw", "iwamoto_nr", "fdbx"]), max_iteration=200)
            mv_ = [int(b_) for b_ in net.bus.index[(net.bus.vn_kv == 20.) & net.bus.in_service]]
            if rng.random() < 0.3 and len(mv_) >= 2 and variant == "full":
                # a phase-shifting transformer fed from its lv side (step-up to a 110 kV bus with a load), solved by the sweep
                # solver in half of these cases
                hb_ = pp.create_bus(net, 110.)
                pp.create_transformer_from_parameters(net, hb_, rng.choice(mv_[1:]), 25., 110., 20., 0.3, 10., 15., 0.04,
                                                      shift_degree=rng.choice([150, 30, -30]))
                pp.create_load(net, hb_, 1.5, 0.4)
                if rng.random() < 0.5:
                    opts.update(algorithm="bfsw", max_iteration=300, calculate_voltage_angles=True)
        case = {"options": opts, "dc": dc, "net_json": pp.to_json(net)}
        try:
            with core.quiet():
                (pp.rundcpp if dc else pp.runpp)(net, **opts)
        except Exception as e:       # noqa
            ctx.hist("run", type(e).__name__)
            continue
        if net.res_ext_grid.p_mw[net.ext_grid.in_service.values].isna().any():
            ctx.hist("run", "no-result-for-the-slack (singular system)")       # nothing was solved: no balance to check
            continue
        ctx.hist("run", "dc" if dc else "ac")
        bfsw_t3 = opts.get("algorithm") == "bfsw" and len(net.trafo3w) and bool(net.trafo3w.in_service.any())

        def kf(key_):
            return "bfsw-trafo3w" if bfsw_t3 else key_
        total = 0.0
        for tab, sign in c01.BUS_ELEMENTS:
            if len(net[tab]):
                total -= sign * float(np.nansum(net["res_" + tab].p_mw.values))
        losses, n_br = 0.0, 0
        for tab, ends in c01.BRANCHES:
            if not len(net[tab]):
                continue
            r = net["res_" + tab]
            s = np.zeros(len(r))
            for _b, pcol, _q in ends:
                s = s + np.nan_to_num(r[pcol].values)
            losses += float(s.sum())
            n_br += int((np.abs(s) > 0).sum())
            if "pl_mw" in r:
                pl = np.nan_to_num(r.pl_mw.values)
                if not np.allclose(pl, s, atol=1e-9):
                    j = int(np.argmax(np.abs(pl - s)))
                    ctx.failure(kf(f"pl-def:{tab}"), f"{tab} {r.index[j]}: pl_mw = {pl[j]!r}, sum of terminal powers = {s[j]!r}", case)
                if dc and np.any(np.abs(pl) > 1e-9):
                    ctx.failure(f"dc-loss:{tab}", f"rundcpp: {tab} reports losses {pl[np.abs(pl) > 1e-9][:3].tolist()}", case)
                if not dc:
                    ok_passive = np.ones(len(pl), dtype=bool)
                    if tab == "impedance":      # only reciprocal impedances are passive two-ports
                        t_ = net.impedance
                        ok_passive = (np.isclose(t_.rft_pu.values, t_.rtf_pu.values) & np.isclose(t_.xft_pu.values, t_.xtf_pu.values))
                    neg = np.flatnonzero((pl < -1e-9) & ok_passive)
                    if len(neg):
                        ctx.failure(kf(f"negative-loss:{tab}"), f"{tab} {r.index[neg[0]]}: pl_mw = {pl[neg[0]]!r} < 0 for a passive branch", case)
        if len(net.switch) and "res_switch" in net and "p_from_mw" in net.res_switch:
            rs = net.res_switch
            m = (net.switch.et == "b").values & ~np.isnan(rs.p_from_mw.values)
            losses += float((rs.p_from_mw.values[m] + rs.p_to_mw.values[m]).sum())
        ctx.count(case["net_json"] + json.dumps(opts), nontrivial=n_br >= 3)
        if abs(total - losses) > 1e-5 * max(1.0, len(net.bus)):
            key = "dc-conservation" if dc else "conservation"
            if dc:
                # the recorded finding has a definite size: constant-impedance parts at voltage-controlled buses are reported with
                # the set-point voltage while the DC solution balances them at 1 pu
                exp = 0.0
                vmb = net.res_bus.vm_pu
                for tab, col in (("shunt", None), ("ward", "pz_mw"), ("xward", "pz_mw")):
                    for i, r_ in net[tab].iterrows():
                        vm = float(vmb.at[r_.bus]) if r_.bus in vmb.index else float("nan")
                        if not bool(r_.in_service) or math.isnan(vm):
                            continue
                        if col is None:
                            exp += float(net.res_shunt.p_mw.at[i]) * (1 - 1 / vm ** 2)
                        else:
                            exp += float(r_[col]) * (vm ** 2 - 1)
                if abs(abs(total - losses) - abs(exp)) <= 1e-6 * max(1.0, len(net.bus)) and abs(exp) > 0:
                    key = "dc-shunt-at-pv-bus"
            ctx.failure(kf(key), f"generation - consumption = {total!r} MW, sum of the reported branch losses = {losses!r} MW", case)
        ctx.sample({"options": opts, "dc": dc, "total": total, "losses": losses}, cap=3)
        if dc or "algorithm" in opts:
            continue          # (the correspondence reads the Newton-Raphson solver's internal voltage vector)
        ppci = net._ppc["internal"]
        if not all(k2 in ppci for k2 in ("branch", "bus", "V")) or ppci["branch"].shape[0] > 14 or len(reqs) >= ctx.budget(10, 60):
            continue
        br, bus, V = ppci["branch"], ppci["bus"], ppci["V"]
        base = float(ppci["baseMVA"])
        Ytt, Yff, Yft, Ytf = branch_vectors(br, br.shape[0])
        toks = [str(br.shape[0])]
        for j in range(br.shape[0]):
            toks += [str(int(br[j, F_BUS].real)), str(int(br[j, T_BUS].real)), c01.cfrac(Yff[j]), c01.cfrac(Yft[j]), c01.cfrac(Ytf[j]), c01.cfrac(Ytt[j])]
        toks.append(str(bus.shape[0]))
        for i in range(bus.shape[0]):
            toks += [str(i), c01.cfrac(V[i]), c01.cfrac((bus[i, GS] + 1j * bus[i, BS]) / base)]
        reqs.append("net " + " ".join(toks))
        expect.append(([(br[j, PF].real + br[j, PT].real) / base for j in range(br.shape[0])], br.shape[0]))
    if ctx.cov.get("lean_build_failed") or not reqs:
        return
    resp = core.lean_driver("PF", reqs)
    dis = 0
    for rq, r, (want, nb) in zip(reqs, resp, expect):
        vals = [float(core.parse_rat(p)) for p in r.split()]
        loss = [vals[4 * j] + vals[4 * j + 2] for j in range(nb)]
        node = vals[4 * nb:]
        s_calc = sum(node[6 * i] for i in range(len(node) // 6))
        s_sh = sum(node[6 * i + 2] for i in range(len(node) // 6))
        if any(abs(a - b) > 1e-9 * max(1, abs(b)) for a, b in zip(loss, want)) or abs(s_calc - sum(loss) - s_sh) > 1e-9:
            dis += 1
            if dis <= 3:
                ctx.tie_break("correspondence:C03", f"branch losses: model {loss[:4]}, implementation {want[:4]}")
    ctx.cov["correspondence_requests"] = len(reqs)
    ctx.cov["disagreements_checked"] = dis
    ctx.sample({"request": reqs[0][:160], "response": resp[0][:160]})
    ctx.assumptions.append("the T-model transformer is covered through its pi parameters (C02_wye_delta_equiv): non-negativity of its "
                           "loss is checked by the oracle, the theorem is stated for pi branches")


def replay(ctx, path):
    print("C03 replays carry net_json + options; re-run ./check C03 with the same VERIF_SEED")
    return 2
