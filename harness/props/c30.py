"""C30 — diagnostics are side-effect free and stateless.

proof:   Props/C30.lean — refinement of the Diagnostic heap model (binding semantics regenerated from source) to
         a per-instance abstract model, for every history.
tie:     translator (alias/copy/sticky classification) + correspondence over random histories: the functions and
         kwargs each diagnose_network call really works with (recorded by patching DiagnosticFunction.diagnostic)
         vs the Lean model driven with the same ops.
oracle:  (a) abstract per-instance model in Python (independent), (b) net snapshot before/after real diagnostics.
"""
import copy
import json
from unittest import mock

from harness import core, netgen, snapshot
from translate import c30 as tr

EXTRA_KEYS = ["extra_a", "extra_b"]


class _Recorder:
    def __init__(self):
        self.calls = []


def _setup():
    import importlib
    dfm = importlib.import_module("pandapower.diagnostic.diagnostic_functions")
    from pandapower.diagnostic.diagnostic_helpers import DiagnosticFunction
    # the pristine module-level defaults, read from a *fresh* import state (module reloaded)
    importlib.reload(dfm)
    dm = importlib.import_module("pandapower.diagnostic.diagnostic")
    dm = importlib.reload(dm)
    return dm, dfm, DiagnosticFunction


def run_history_impl(ops, net):
    """executes ops on the real Diagnostic class; returns list of observations (None | (fn names, kwargs dict))"""
    dm, dfm, DiagnosticFunction = _setup()
    default_names = [n for n, _, _ in dfm.default_diagnostic_functions]
    default_kw = dict(dfm.default_argument_values)

    class Probe(DiagnosticFunction):
        def __init__(self, ident):
            self.ident = ident

        def diagnostic(self, net, **kwargs):
            return None

        def report(self, error, results):
            return None

    insts = []
    obs = []
    for op in ops:
        if op[0] == "new":
            insts.append(dm.Diagnostic(add_default_functions=bool(op[1])))
            obs.append(None)
        elif op[0] == "register":
            i, f = op[1], op[2]
            if i < len(insts):
                insts[i].register_function(Probe(f), None, f"probe{f}")
            obs.append(None)
        elif op[0] == "diagnose":
            i, kw = op[1], op[2]
            if i >= len(insts):
                obs.append(None)
                continue
            d = insts[i]
            rec = []
            classes = {type(fn) for _, fn, _ in d._functions} | {type(fn) for _, fn, _ in dfm.default_diagnostic_functions}
            patches = []
            for cls in classes:
                def make(cls):
                    def diagnostic(self, net, **kwargs):
                        rec.append((self, dict(kwargs)))
                        return None
                    return diagnostic
                p = mock.patch.object(cls, "diagnostic", make(cls))
                p.start()
                patches.append(p)
            try:
                with core.quiet():
                    d.diagnose_network(net, report_style=None, **kw)
            finally:
                for p in patches:
                    p.stop()
            # names in the order run; kwargs as received by functions registered with argument_names=None
            names = []
            allkw = None
            by_obj = {id(fn): (n, an) for n, fn, an in d._functions}
            for fnobj, kwargs in rec:
                n, an = by_obj.get(id(fnobj), ("?", None))
                names.append(n)
                if an is None and allkw is None:
                    allkw = kwargs
            obs.append((names, allkw))
    return obs, default_names, default_kw


def abstract_history(ops, default_names, default_kw):
    """independent Python oracle: per-instance state only"""
    insts = []
    out = []
    for op in ops:
        if op[0] == "new":
            insts.append((bool(op[1]), []))
            out.append(None)
        elif op[0] == "register":
            if op[1] < len(insts):
                insts[op[1]][1].append(f"probe{op[2]}")
            out.append(None)
        else:
            i, kw = op[1], op[2]
            if i >= len(insts):
                out.append(None)
                continue
            ad, regs = insts[i]
            names = (list(default_names) if ad else []) + list(regs)
            args = dict(default_kw) if ad else {}
            args.update(kw)
            out.append((names, args))
    return out


def gen_history(rng, n_ops):
    ops = [("new", 1 if rng.random() < 0.75 else 0)]
    n_inst = 1
    for _ in range(n_ops - 1):
        r = rng.random()
        if r < 0.2:
            ops.append(("new", 1 if rng.random() < 0.7 else 0))
            n_inst += 1
        elif r < 0.45:
            ops.append(("register", rng.randrange(n_inst + (1 if rng.random() < 0.05 else 0)), rng.randint(1, 6)))
        else:
            kw = {}
            for k in rng.sample(["overload_scaling_factor", "min_r_ohm", "nominal_voltage_tolerance"] + EXTRA_KEYS,
                                rng.randint(0, 3)):
                kw[k] = rng.randint(2, 9)
            ops.append(("diagnose", rng.randrange(n_inst), kw))
    return ops


def to_requests(ops, default_names, default_kw, keyuni):
    name_id = {n: i + 1 for i, n in enumerate(default_names)}
    # default kwargs values are floats in the source; the model only needs *identity* of values: code them
    codes = {k: 1000 + i for i, k in enumerate(sorted(default_kw))}
    req = ["reset %d %s %d %s %d %s" % (len(keyuni), " ".join(keyuni), len(default_kw),
                                        " ".join(f"{k} {codes[k]}" for k in sorted(default_kw)),
                                        len(default_names), " ".join(str(name_id[n]) for n in default_names))]
    for op in ops:
        if op[0] == "new":
            req.append(f"new {op[1]}")
        elif op[0] == "register":
            req.append(f"register {op[1]} {100 + op[2]}")
        else:
            kw = op[2]
            req.append("diagnose %d %d %s" % (op[1], len(kw), " ".join(f"{k} {v}" for k, v in sorted(kw.items()))))
    return req, name_id, codes


def canon_obs(o, name_id, codes, keyuni):
    if o is None:
        return "none"
    names, kw = o
    ids = []
    for n in names:
        ids.append(str(name_id[n]) if n in name_id else str(100 + int(n.replace("probe", ""))))
    if kw is None:
        return "fns " + " ".join(ids) + " | args ?"
    parts = []
    for k in keyuni:
        if k in kw:
            v = kw[k]
            parts.append(f"{k}={v if isinstance(v, int) else codes.get(k, '?')}")
    return "fns " + " ".join(ids) + " | args " + " ".join(parts)


def run(ctx):
    import pandapower as pp
    import pandapower.networks as pn
    ctx.cov["rule"] = ("histories of Diagnostic(), register_function, diagnose_network(**kwargs) over up to 4 instances; "
                       "observation = functions run and kwargs received per call; non-trivial = history with >=2 "
                       "diagnose calls and (>=2 instances or a registration); distinct by op list. Plus real "
                       "diagnostic runs on generated nets with exact input-table snapshots before/after.")
    ctx.assumptions += ["observation by patching DiagnosticFunction.diagnostic (the functions' own logic is replaced "
                        "while recording, and run for real in the snapshot part)",
                        "'network unchanged' is decided by snapshot comparison on executed cases (no Lean model of "
                        "the 18 diagnostic functions' bodies)"]
    x = {}

    def translator():
        x.update(tr.extract(core.REPO))
        return tr.render(x)
    ctx.regenerate("C30", translator)
    ctx.prove()

    small = pn.example_simple()
    n_hist = ctx.budget(40, 600)
    fixed = [
        [("new", 1), ("new", 1), ("diagnose", 0, {"overload_scaling_factor": 5}), ("diagnose", 1, {})],
        [("new", 1), ("diagnose", 0, {"min_r_ohm": 5}), ("diagnose", 0, {})],
        [("new", 1), ("new", 1), ("register", 0, 3), ("diagnose", 1, {}), ("diagnose", 0, {})],
        [("new", 0), ("register", 0, 2), ("diagnose", 0, {"extra_a": 4}), ("new", 1), ("diagnose", 1, {}),
         ("diagnose", 0, {})],
        # custom instances (no default functions): registrations and kwargs of one must not reach another, present or later
        [("new", 0), ("new", 0), ("register", 0, 3), ("diagnose", 1, {}), ("diagnose", 0, {})],
        [("new", 0), ("register", 0, 2), ("diagnose", 0, {"extra_a": 4}), ("new", 0), ("register", 1, 1), ("diagnose", 1, {}),
         ("diagnose", 0, {})],
    ]
    histories = fixed + [gen_history(ctx.rng, ctx.rng.randint(4, 12)) for _ in range(n_hist)]
    all_requests, expect = [], []
    disagreements = 0
    for ops in histories:
        obs, dnames, dkw = run_history_impl(ops, small)
        keyuni = sorted(dkw) + EXTRA_KEYS
        spec = abstract_history(ops, dnames, dkw)
        n_diag = sum(1 for o in ops if o[0] == "diagnose")
        n_inst = sum(1 for o in ops if o[0] == "new")
        n_reg = sum(1 for o in ops if o[0] == "register")
        ctx.count(ops, nontrivial=n_diag >= 2 and (n_inst >= 2 or n_reg >= 1))
        ctx.hist("instances", n_inst)
        ctx.hist("ops", len(ops))
        req, name_id, codes = to_requests(ops, dnames, dkw, keyuni)
        all_requests += req
        expect.append("ok")
        # direct oracle on the implementation
        for k, (o, s) in enumerate(zip(obs, spec)):
            expect.append(canon_obs(o, name_id, codes, keyuni) if ops[k][0] == "diagnose" else "ok")
            if ops[k][0] != "diagnose" or o is None:
                continue
            names, kw = o
            ok = names == s[0] and (kw is None or kw == s[1])
            if not ok:
                what = "other-instance" if n_inst >= 2 else "later-call"
                ctx.failure("state-leak",
                            f"diagnose_network call #{k} ran {names} with {kw}; per-instance specification: {s}",
                            {"ops": ops, "step": k, "kind": what,
                             "repro": "execute ops on pandapower.diagnostic.Diagnostic; compare functions/kwargs of "
                                      "each diagnose_network call with defaults + own registrations + own kwargs"})
                break
        ctx.sample({"ops": ops}, cap=3)
    if not ctx.cov.get("lean_build_failed"):
        resp = core.lean_driver("C30", all_requests)
        for rq, r, e in zip(all_requests, resp, expect):
            if e.endswith("args ?"):
                if not r.startswith(e[:-6]):
                    disagreements += 1
            elif r != e:
                disagreements += 1
                if disagreements <= 3:
                    ctx.tie_break("correspondence:C30", f"request {rq!r}: model {r!r} vs implementation {e!r}")
        ctx.cov["correspondence_requests"] = len(all_requests)
        ctx.cov["disagreements_checked"] = disagreements
        ctx.sample({"request": all_requests[4] if len(all_requests) > 4 else "", "response": resp[4] if len(resp) > 4 else ""})

    # (b) net unchanged by real diagnostics
    n_nets = ctx.budget(8, 60)
    from pandapower.diagnostic import Diagnostic
    for k in range(n_nets):
        net = netgen.random_net(ctx.rng, kinds=netgen.DEFAULT_KINDS, dcline=(k % 3 == 2))
        # the tool is written for sick networks: most of its repair experiments only run on them
        faults = []
        if k >= 1:
            for _ in range(1 if k % 2 else 2):
                faults.append(netgen.inject_fault(ctx.rng, net, netgen.FAULTS[(k * 3 + len(faults)) % len(netgen.FAULTS)]))
        ctx.hist("snapshot_faults", "+".join(sorted(faults)) or "healthy")
        if k % 2 == 0:
            try:
                netgen.run_ok(net)
            except Exception:       # noqa  a sick net may raise; the state after diagnostics is what counts
                pass
        before = snapshot.snapshot(net)
        net_json_before = pp.to_json(net)
        kw = {} if k % 2 else {"overload_scaling_factor": 0.5}
        try:
            with core.quiet():
                Diagnostic().diagnose_network(net, report_style=None, **kw)
        except Exception as e:      # the tool itself raising is not a C30 matter, the net state afterwards is
            ctx.note(f"diagnose_network raised {type(e).__name__}: {e}")
        d = snapshot.diff(before, net)
        ctx.count(("snapshot", k, len(net.bus), len(net.line)), nontrivial=True)
        ctx.hist("snapshot_nets", "changed" if d else "unchanged")
        if d:
            ctx.failure("net-changed", f"diagnose_network changed the net: {d[:5]}",
                        {"net_json_before": net_json_before, "faults": faults, "diff": d, "kwargs": kw,
                         "repro": "net = pp.from_json_string(net_json_before); Diagnostic().diagnose_network(net, "
                                  "report_style=None, **kwargs); compare input tables"})


    # statelessness of the reported results: a second call on the same instance and net reports what a fresh instance reports
    small2 = pn.example_simple()
    for trig in ({"max_x_ohm": 1e-3}, {"min_r_ohm": 50.}, {"overload_scaling_factor": 1e-6}):
        try:
            with core.quiet():
                dg = Diagnostic()
                r1 = dg.diagnose_network(small2, report_style=None, **trig)
                r2 = dg.diagnose_network(small2, report_style=None)
                rf = Diagnostic().diagnose_network(small2, report_style=None)
        except Exception as e:      # noqa
            ctx.note(f"repeated diagnose_network raised {type(e).__name__}: {e}")
            continue
        ctx.count(("repeat", json.dumps(trig)), nontrivial=sorted(r1 or {}) != sorted(rf or {}))
        if sorted(r2 or {}) != sorted(rf or {}):
            ctx.failure("state-leak", f"second diagnose_network call of one instance (first call with {trig}) reports {sorted(r2 or {})}, a fresh "
                                      f"instance reports {sorted(rf or {})}",
                        {"ops": [["new", 1], ["diagnose", 0, trig], ["diagnose", 0, {}]], "step": 2, "kind": "later-call-results",
                         "repro": "d = Diagnostic(); d.diagnose_network(net, **trig); compare d.diagnose_network(net) with Diagnostic().diagnose_network(net)"})


def replay(ctx, path):
    import pandapower.networks as pn
    with open(path) as f:
        r = json.load(f)["replay"]
    ops = [tuple(o) for o in r["ops"]]
    obs, dn, dk = run_history_impl(ops, pn.example_simple())
    spec = abstract_history(ops, dn, dk)
    bad = 0
    for k, (o, s) in enumerate(zip(obs, spec)):
        if ops[k][0] == "diagnose" and o is not None and (o[0] != s[0] or (o[1] is not None and o[1] != s[1])):
            print("step", k, "impl", o, "spec", s)
            bad += 1
    print("REPLAY", "FAILS" if bad else "holds")
    return 1 if bad else 0
