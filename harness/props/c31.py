"""C31 — tabular tap dependency uses each transformer's own table row.

proof:   Props/C31.lean — the dict-based look-up (key mode regenerated from build_branch.py) equals the (id, step)
         row look-up for every table with unique keys and every set of transformers; independent of the others.
tie:     translator (merge columns, dict key, copy vs view) + correspondence: _get_vk_values_from_table and
         _calc_tap_from_dataframe called on generated nets vs the model's look-ups.
oracle:  net with table == net with the row's values entered directly (2W incl. second tap changer, 3W), same runpp
         results; the user's trafo table unchanged by the calculation.
"""
import copy
import json

import numpy as np
import pandas as pd

from harness import core, snapshot
from translate import c31 as tr


def make_table(rng, ids, steps=range(-4, 5)):
    rows = []
    for cid in ids:
        k = rng.choice([0.01, 0.0125, 0.02])
        ang = rng.choice([0., 0., 0.3, -0.5])
        dvk = round(rng.uniform(0.02, 0.2), 3)
        for st in steps:
            rows.append(dict(id_characteristic=cid, step=st, voltage_ratio=round(1 + k * st, 6),
                             angle_deg=round(ang * st, 4), vk_percent=round(10 + dvk * st + 0.3 * cid, 4),
                             vkr_percent=round(0.4 + 0.01 * st + 0.02 * cid, 4),
                             vk_hv_percent=round(10 + dvk * st, 4), vkr_hv_percent=round(0.3 + 0.01 * st, 4),
                             vk_mv_percent=round(11 + dvk * st, 4), vkr_mv_percent=round(0.31 + 0.01 * st, 4),
                             vk_lv_percent=round(12 - dvk * st, 4), vkr_lv_percent=round(0.32 - 0.01 * st, 4)))
    rng.shuffle(rows)        # the table order must not matter
    return pd.DataFrame(rows)


def make_net(rng, n_tr, share, with_tap2, with_3w):
    """returns (net with table, description of transformers)"""
    import pandapower as pp
    net = pp.create_empty_network()
    hv = pp.create_bus(net, 110.)
    pp.create_ext_grid(net, hv, vm_pu=1.02)
    n_ids = 1 if share == "all" else (max(1, n_tr // 2) if share == "some" else n_tr)
    ids = list(range(n_ids))
    for i in range(n_tr):
        b = pp.create_bus(net, 20.)
        cid = ids[i % n_ids]
        side = rng.choice(["hv", "lv"])
        kw = {}
        if with_tap2 and rng.random() < 0.7:
            kw = dict(tap2_side=rng.choice(["hv", "lv"]), tap2_neutral=0, tap2_min=-3, tap2_max=3,
                      tap2_step_percent=rng.choice([0.5, 1.0]), tap2_step_degree=0., tap2_pos=rng.randint(-3, 3),
                      tap2_changer_type="Ratio")
        pp.create_transformer_from_parameters(
            net, hv, b, sn_mva=rng.choice([25., 40.]), vn_hv_kv=110., vn_lv_kv=20., vkr_percent=0.4, vk_percent=10.,
            pfe_kw=10., i0_percent=0.05, shift_degree=rng.choice([0., 150.]), tap_side=side, tap_neutral=0,
            tap_min=-4, tap_max=4, tap_step_percent=1.5, tap_step_degree=0., tap_pos=rng.randint(-4, 4),
            tap_changer_type=rng.choice(["Ratio", "Symmetrical", "Ideal"]), tap_dependency_table=(rng.random() < 0.85),
            id_characteristic_table=cid, **kw)
        pp.create_load(net, b, round(rng.uniform(4, 14), 1), round(rng.uniform(0.5, 4), 1))
    n3 = 0
    if with_3w:
        for j in range(rng.randint(1, 2)):
            bm, bl = pp.create_bus(net, 20.), pp.create_bus(net, 10.)
            pp.create_transformer3w_from_parameters(
                net, hv, bm, bl, 110., 20., 10., 63., 40., 25., 10., 11., 12., 0.3, 0.31, 0.32, 30., 0.05,
                shift_mv_degree=0., shift_lv_degree=0., tap_side=rng.choice(["hv", "mv", "lv"]), tap_neutral=0, tap_min=-4,
                tap_max=4, tap_step_percent=1.2, tap_pos=rng.randint(-4, 4), tap_changer_type="Ratio",
                tap_at_star_point=rng.random() < 0.3, tap_dependency_table=True,
                id_characteristic_table=ids[(j) % n_ids])
            pp.create_load(net, bm, 8., 2.)
            pp.create_load(net, bl, 4., 1.)
            n3 += 1
    net["trafo_characteristic_table"] = make_table(rng, ids)
    return net


def direct_net(net):
    """the same net with every table-dependent transformer's row values entered directly"""
    d = copy.deepcopy(net)
    tab = net.trafo_characteristic_table

    def row(cid, pos):
        r = tab[(tab.id_characteristic == cid) & (tab.step == pos)]
        return r.iloc[0] if len(r) else None
    for i in d.trafo.index:
        if not bool(d.trafo.at[i, "tap_dependency_table"]):
            continue
        r = row(d.trafo.at[i, "id_characteristic_table"], d.trafo.at[i, "tap_pos"])
        if r is None:
            continue
        side = d.trafo.at[i, "tap_side"]
        d.trafo.at[i, "tap_dependency_table"] = False
        d.trafo.at[i, "tap_pos"] = d.trafo.at[i, "tap_neutral"]          # first tap changer: no effect any more
        col = "vn_hv_kv" if side == "hv" else "vn_lv_kv"
        d.trafo.at[i, col] = d.trafo.at[i, col] * r.voltage_ratio
        d.trafo.at[i, "shift_degree"] = d.trafo.at[i, "shift_degree"] + (r.angle_deg if side == "hv" else -r.angle_deg)
        d.trafo.at[i, "vk_percent"] = r.vk_percent
        d.trafo.at[i, "vkr_percent"] = r.vkr_percent
    for i in d.trafo3w.index:
        if not bool(d.trafo3w.at[i, "tap_dependency_table"]):
            continue
        r = row(d.trafo3w.at[i, "id_characteristic_table"], d.trafo3w.at[i, "tap_pos"])
        if r is None:
            continue
        if abs(r.angle_deg) > 0:
            return None       # 3W with table angles: no direct-entry equivalent through the shift_* columns
        # direct entry for a 3W transformer: the ordinary (linear) tap model with the step size that yields the
        # table's ratio at this position (vn_hv_kv cannot be scaled: it is shared by the three equivalent branches)
        delta = d.trafo3w.at[i, "tap_pos"] - d.trafo3w.at[i, "tap_neutral"]
        d.trafo3w.at[i, "tap_dependency_table"] = False
        d.trafo3w.at[i, "tap_changer_type"] = "Ratio"
        d.trafo3w.at[i, "tap_step_degree"] = 0.
        if delta == 0:
            if abs(r.voltage_ratio - 1) > 1e-12:
                return None
        else:
            d.trafo3w.at[i, "tap_step_percent"] = (r.voltage_ratio - 1) * 100. / delta
        for s in ("hv", "mv", "lv"):
            d.trafo3w.at[i, f"vk_{s}_percent"] = r[f"vk_{s}_percent"]
            d.trafo3w.at[i, f"vkr_{s}_percent"] = r[f"vkr_{s}_percent"]
    return d


def compare_results(a, b):
    for tab, cols in (("res_bus", ["vm_pu", "va_degree", "p_mw", "q_mvar"]),
                      ("res_trafo", ["p_hv_mw", "q_hv_mvar", "p_lv_mw", "q_lv_mvar", "pl_mw", "ql_mvar", "i_hv_ka", "i_lv_ka"]),
                      ("res_trafo3w", ["p_hv_mw", "q_hv_mvar", "p_mv_mw", "p_lv_mw", "pl_mw", "ql_mvar"])):
        if tab not in a or len(a[tab]) == 0:
            continue
        for c in cols:
            x, y = a[tab][c].values.astype(float), b[tab][c].values.astype(float)
            if not np.allclose(x, y, rtol=1e-6, atol=1e-7, equal_nan=True):
                k = int(np.nanargmax(np.abs(x - y)))
                return f"{tab}.{c}[{a[tab].index[k]}]: with table {x[k]!r}, values entered directly {y[k]!r}"
    return None


def run(ctx):
    import pandapower as pp
    from pandapower.build_branch import _get_vk_values_from_table, _calc_tap_from_dataframe
    ctx.cov["rule"] = ("case = net with 2-6 two-winding (and optionally three-winding) transformers using the "
                       "characteristic table, sharing ids (all / some / none), random tap positions, optional second tap "
                       "changer, shuffled table; non-trivial = >=2 table-dependent transformers at different positions; "
                       "distinct by transformer rows")
    x = {}

    def translator():
        x.update(tr.extract(core.REPO))
        return tr.render(x)
    ctx.regenerate("C31", translator)
    ctx.prove()
    rng = ctx.rng
    reqs, expect = [], []
    for k in range(ctx.budget(24, 400)):
        n_tr = rng.randint(2, 6)
        share = ["all", "some", "none"][k % 3]
        with_tap2 = (k % 4 == 1)
        with_3w = (k % 4 == 2)
        net = make_net(rng, n_tr, share, with_tap2, with_3w)
        case = {"k": k, "share": share, "tap2": with_tap2, "trafo3w": with_3w,
                "trafos": net.trafo[["tap_side", "tap_pos", "tap_dependency_table", "id_characteristic_table"]].to_dict("records")}
        dep = net.trafo[net.trafo.tap_dependency_table.astype(bool)]
        ctx.count(json.dumps(case, default=str), nontrivial=len(set(dep.tap_pos)) >= 2)
        ctx.hist("share", share)
        ctx.hist("n_table_trafos", len(dep))
        before = snapshot.snapshot(net)
        net_json = pp.to_json(net)
        try:
            with core.quiet():
                pp.runpp(net, calculate_voltage_angles=True)
        except Exception as e:       # noqa
            ctx.note(f"runpp failed on generated C31 net: {type(e).__name__}: {e}")
            continue
        d = snapshot.diff(before, net)
        if d:
            ctx.failure("table-write-through", f"runpp changed the user's tables: {d[:3]}", {"net_json": net_json})
        direct = direct_net(net)
        if direct is not None:
            try:
                with core.quiet():
                    pp.runpp(direct, calculate_voltage_angles=True)
                diff = compare_results(net, direct)
            except Exception as e:   # noqa
                diff = f"runpp on the direct-entry net failed: {type(e).__name__}: {e}"
            if diff:
                shared = share != "none" and len(dep) != len(set(zip(dep.id_characteristic_table, dep.tap_pos))) or True
                ctx.failure("like-direct", f"net with characteristic table differs from the net with the row's values "
                                           f"entered directly: {diff}", {"case": case, "net_json": net_json})
        ctx.sample(case, cap=3)
        # correspondence of the two look-up functions
        tab = net.trafo_characteristic_table
        tdf = net.trafo
        mask = tdf.tap_dependency_table.values.astype(bool)
        trs = [(int(i), int(p)) for i, p in zip(tdf.id_characteristic_table.values[mask], tdf.tap_pos.values[mask])]
        try:
            vk, vkr = _get_vk_values_from_table(tdf, tab)
            vnh, vnl, shift = _calc_tap_from_dataframe(net, tdf)
        except Exception as e:       # noqa
            ctx.tie_break("correspondence:C31", f"look-up functions raised {type(e).__name__}: {e}")
            continue
        for col, obs_arr, which, dflt in (("vk_percent", vk, "vk", 1), ("vkr_percent", vkr, "vk", 1)):
            rows = " ".join(f"{int(r.id_characteristic)} {int(r.step)} {core.frac(float(r[col]))}" for _, r in tab.iterrows())
            for j, (ti, dep_j) in enumerate(zip(tdf.index, mask)):
                if not dep_j:
                    continue
                q = (int(tdf.id_characteristic_table.at[ti]), int(tdf.tap_pos.at[ti]))
                reqs.append(f"lookup {which} {len(tab)} {rows} {len(trs)} " + " ".join(f"{a} {b}" for a, b in trs) +
                            f" {q[0]} {q[1]} {dflt}")
                expect.append((float(obs_arr[j]), case, col))
        # ratio through vn: vn_side_after / vn_side_before (first tap changer only when there is no tap2 data)
        if not with_tap2:
            rows = " ".join(f"{int(r.id_characteristic)} {int(r.step)} {core.frac(float(r.voltage_ratio))}" for _, r in tab.iterrows())
            for j, (ti, dep_j) in enumerate(zip(tdf.index, mask)):
                if not dep_j:
                    continue
                side = tdf.tap_side.at[ti]
                ratio = (vnh[j] / tdf.vn_hv_kv.at[ti]) if side == "hv" else (vnl[j] / tdf.vn_lv_kv.at[ti])
                q = (int(tdf.id_characteristic_table.at[ti]), int(tdf.tap_pos.at[ti]))
                reqs.append(f"lookup tap {len(tab)} {rows} {len(trs)} " + " ".join(f"{a} {b}" for a, b in trs) +
                            f" {q[0]} {q[1]} 1")
                expect.append((float(ratio), case, "voltage_ratio"))
    if ctx.cov.get("lean_build_failed") or not reqs:
        return
    resp = core.lean_driver("C31", reqs)
    dis = 0
    for rq, r, (obs, case, col) in zip(reqs, resp, expect):
        parts = r.split()
        if len(parts) != 2:
            ctx.tie_break("correspondence:C31", f"driver answered {r!r}")
            break
        code = float(core.parse_rat(parts[0]))
        if abs(code - obs) > 1e-9 * max(1, abs(obs)):
            dis += 1
            if dis <= 3:
                ctx.tie_break("correspondence:C31", f"{col}: model look-up {code!r}, implementation {obs!r} in case {case}")
    ctx.cov["correspondence_requests"] = len(reqs)
    ctx.cov["disagreements_checked"] = dis
    ctx.sample({"request": reqs[0][:200], "response": resp[0]})


def replay(ctx, path):
    import pandapower as pp
    with open(path) as f:
        r = json.load(f)["replay"]
    net = pp.from_json_string(r["net_json"])
    with core.quiet():
        pp.runpp(net, calculate_voltage_angles=True)
    d = direct_net(net)
    with core.quiet():
        pp.runpp(d, calculate_voltage_angles=True)
    diff = compare_results(net, d)
    print(diff or "results agree")
    print("REPLAY", "FAILS" if diff else "holds")
    return 1 if diff else 0
