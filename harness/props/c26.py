"""C26 — topology graphs represent exactly the energizing connections (shared topology machinery with C07).

proof:   Props/C26.lean: exact characterisation of the adjacency of create_nxgraph's result (model TopoDefs.lean) for every
         net and option set; open line/trafo switch interrupts; open t3 switch interrupts exactly the side pairs at its own
         bus of its own transformer; symmetry without notravbuses; node set; weights; search soundness; shape facts of
         create_graph.py / graph_searches.py regenerated.
tie:     translator + correspondence: mg._adj of the real graph (all keys, weights, directions) and its node set vs the model
         over generated nets x random option combinations.
oracle:  independent derivation of the edge multiset straight from the tables; connected_components is a partition whose
         blocks are the BFS closures; calc_distance_to_bus vs an own Dijkstra over the independently derived edges.
"""
import heapq
import json

import numpy as np

from harness import core
from translate import c26 as tr

KINDS = ["line", "impedance", "tcsc", "dcline", "trafo", "trafo3w", "switch"]
INCL = {"line": "include_lines", "impedance": "include_impedances", "tcsc": "include_tcsc", "dcline": "include_dclines",
        "trafo": "include_trafos", "trafo3w": "include_trafo3ws", "switch": "include_switches"}


def topo_net(rng, dcline=True):
    import pandapower as pp
    net = pp.create_empty_network()
    hv = [pp.create_bus(net, 110., index=i) for i in (0, 4)]
    n = rng.randint(4, 7)
    mv = [pp.create_bus(net, 20.) for _ in range(n)]
    pp.create_ext_grid(net, hv[0], vm_pu=1.01)
    if rng.random() < 0.4:
        pp.create_ext_grid(net, hv[1], vm_pu=1.01, in_service=rng.random() < 0.7)
    pp.create_line_from_parameters(net, hv[0], hv[1], 12.5, 0.06, 0.3, 9., 0.5)

    def trafo(a, b):
        return pp.create_transformer_from_parameters(net, a, b, 25., 110., 20., 0.4, 10., 14., 0.05)
    trafo(hv[0], mv[0])
    if rng.random() < 0.5:
        trafo(hv[1], mv[1])
    for k in range(1, n):
        j = rng.randrange(0, k)
        ln = rng.choice([0.5, 1.25, 2., 7.5])
        pp.create_line_from_parameters(net, mv[j], mv[k], ln, 0.3, 0.3, 10., 0.4)
        if rng.random() < 0.3:     # a parallel line of different length, created later
            pp.create_line_from_parameters(net, mv[j], mv[k], ln * rng.choice([0.4, 2., 3.75]), 0.3, 0.3, 10., 0.4)
    for _ in range(rng.randint(0, 2)):
        a, b = rng.sample(mv, 2)
        pp.create_line_from_parameters(net, a, b, rng.choice([1., 3.]), 0.3, 0.3, 10., 0.4)
    n3 = rng.choice([0, 1, 2, 2])
    t3_lv = []
    for k in range(n3):
        lv = pp.create_bus(net, 10.)
        t3_lv.append(lv)
        pp.create_transformer3w_from_parameters(net, hv[0], rng.choice(mv[:2]) if k else mv[0], lv, 110., 20., 10., 40., 25., 15., 10., 11., 12.,
                                                0.3, 0.31, 0.32, 20., 0.05)
        pp.create_load(net, lv, 1., 0.2)
    if rng.random() < 0.4:
        a, b = rng.sample(mv, 2)
        pp.create_impedance(net, a, b, 0.02, 0.05, 10.)
    if dcline and rng.random() < 0.3:
        a, b = rng.sample(mv[1:], 2)
        pp.create_dcline(net, a, b, 0.3, 1., 0.01, 1.0, 1.0)
    if rng.random() < 0.4:
        pp.create_gen(net, rng.choice(mv[1:]), 0.5, vm_pu=1.0, slack=rng.random() < 0.6)
    for b in mv[1:]:
        pp.create_load(net, b, rng.choice([0.3, 1.2]), 0.1)
        if rng.random() < 0.3:
            pp.create_sgen(net, b, 0.4, 0.0)
    # switches of all four kinds
    for _ in range(rng.randint(0, 2)):
        b = rng.choice(mv[1:])
        nb = pp.create_bus(net, 20.)
        pp.create_switch(net, b, nb, et="b", closed=rng.random() < 0.6, z_ohm=rng.choice([0., 0., 0.1]))
        pp.create_load(net, nb, 0.2, 0.05)
    for _ in range(rng.randint(1, 4)):
        l = int(rng.choice(list(net.line.index)))
        pp.create_switch(net, int(net.line.at[l, rng.choice(["from_bus", "to_bus"])]), l, et="l", closed=rng.random() < 0.5)
    for _ in range(rng.randint(0, 2)):
        t = int(rng.choice(list(net.trafo.index)))
        pp.create_switch(net, int(net.trafo.at[t, rng.choice(["hv_bus", "lv_bus"])]), t, et="t", closed=rng.random() < 0.5)
    for t in net.trafo3w.index:
        for side in rng.sample(["hv_bus", "mv_bus", "lv_bus"], rng.randint(0, 2)):
            pp.create_switch(net, int(net.trafo3w.at[t, side]), int(t), et="t3", closed=rng.random() < 0.4)
    # in_service flags
    for tab in ("line", "trafo", "trafo3w", "impedance"):
        for i in net[tab].index:
            if rng.random() < 0.12:
                net[tab].at[i, "in_service"] = False
    if rng.random() < 0.4:
        net.bus.at[int(rng.choice(mv[1:])), "in_service"] = False
    return net


def encode_net(net):
    t = [str(len(net.bus))]
    for i in net.bus.index:
        t += [str(int(i)), str(int(bool(net.bus.in_service.at[i])))]
    rows = []
    for kind, f, tt in (("line", "from_bus", "to_bus"), ("impedance", "from_bus", "to_bus"), ("dcline", "from_bus", "to_bus"),
                        ("trafo", "hv_bus", "lv_bus")):
        for i in net[kind].index:
            w = int(round(float(net.line.length_km.at[i]) * 1000)) if kind == "line" else 0
            rows.append([kind, int(i), int(net[kind].at[i, f]), int(net[kind].at[i, tt]), int(bool(net[kind].in_service.at[i])), w])
    t.append(str(len(rows)))
    for r in rows:
        t += [str(v) for v in r]
    t.append(str(len(net.trafo3w)))
    for i in net.trafo3w.index:
        r = net.trafo3w.loc[i]
        t += [str(int(i)), str(int(r.hv_bus)), str(int(r.mv_bus)), str(int(r.lv_bus)), str(int(bool(r.in_service)))]
    t.append(str(len(net.switch)))
    for i in net.switch.index:
        r = net.switch.loc[i]
        t += [str(int(i)), str(int(r.bus)), str(int(r.element)), str(r.et), str(int(bool(r.closed)))]
    return " ".join(t)


def encode_opts(o):
    t = [str(int(o["respect_switches"]))] + [str(int(o[INCL[k]])) for k in KINDS] + [str(int(o["include_out_of_service"]))]
    for key in ("nogobuses", "notravbuses"):
        v = o[key] or []
        t += [str(len(v))] + [str(int(b)) for b in v]
    for key in ("trafo_length_km", "switch_length_km"):
        t.append("-" if o[key] is None else str(int(o[key] * 1000)))
    return " ".join(t)


def real_dump(mg):
    es = []
    for u, nb in mg._adj.items():
        for v, keyd in nb.items():
            for key, data in keyd.items():
                es.append(f"{int(u)}>{int(v)}:{key[0]}:{int(key[1])}:{int(round(float(data.get('weight', 0)) * 1000))}")
    return " ".join(sorted(es)) + " | " + " ".join(str(x) for x in sorted(int(n) for n in mg.nodes()))


def own_edges(net, o):
    """independent derivation (per element, straight from the property text); undirected entries (u, v, kind, idx, w)"""
    E = []
    sw = net.switch
    opened = lambda et, el: bool(((sw.et == et) & (sw.element == el) & (~sw.closed.astype(bool))).any())
    ok_el = lambda tab, i: o["include_out_of_service"] or bool(net[tab].in_service.at[i])
    for kind, f, t, et in (("line", "from_bus", "to_bus", "l"), ("impedance", "from_bus", "to_bus", None),
                           ("dcline", "from_bus", "to_bus", None), ("trafo", "hv_bus", "lv_bus", "t")):
        if not o[INCL[kind]]:
            continue
        for i in net[kind].index:
            if not ok_el(kind, i):
                continue
            if o["respect_switches"] and et and opened(et, i):
                continue
            w = float(net.line.length_km.at[i]) if kind == "line" else (o["trafo_length_km"] or 0.) if kind == "trafo" else 0.
            E.append((int(net[kind].at[i, f]), int(net[kind].at[i, t]), kind, int(i), w))
    if o[INCL["trafo3w"]]:
        for i in net.trafo3w.index:
            if not ok_el("trafo3w", i):
                continue
            b = {s: int(net.trafo3w.at[i, s + "_bus"]) for s in ("hv", "mv", "lv")}
            open_at = {int(r.bus) for _, r in sw[(sw.et == "t3") & (sw.element == i) & (~sw.closed.astype(bool))].iterrows()}
            for s1, s2 in (("hv", "mv"), ("hv", "lv"), ("mv", "lv")):
                if o["respect_switches"] and (b[s1] in open_at or b[s2] in open_at):
                    continue
                E.append((b[s1], b[s2], "trafo3w", int(i), o["trafo_length_km"] or 0.))
    if o[INCL["switch"]]:
        for i in sw.index:
            if sw.et.at[i] == "b" and (bool(sw.closed.at[i]) or not o["respect_switches"]):
                E.append((int(sw.bus.at[i]), int(sw.element.at[i]), "switch", int(i), o["switch_length_km"] or 0.))
    gone = set(o["nogobuses"] or [])
    if not o["include_out_of_service"]:
        gone |= {int(b) for b in net.bus.index[~net.bus.in_service.values.astype(bool)]}
    E = [e for e in E if e[0] not in gone and e[1] not in gone]
    nodes = {int(b) for b in net.bus.index} - gone
    return E, nodes


def random_opts(rng, net):
    o = {"respect_switches": rng.random() < 0.7, "include_out_of_service": rng.random() < 0.2,
         "nogobuses": None, "notravbuses": None, "trafo_length_km": rng.choice([None, None, 2.]),
         "switch_length_km": rng.choice([None, None, 1.])}
    for k in KINDS:
        o[INCL[k]] = rng.random() < 0.85
    buses = [int(b) for b in net.bus.index]
    if rng.random() < 0.3:
        o["nogobuses"] = rng.sample(buses, rng.randint(1, 2))
    if rng.random() < 0.3:
        o["notravbuses"] = rng.sample([b for b in buses if b not in (o["nogobuses"] or [])], rng.randint(1, 2))
    return o


def run(ctx):
    import pandapower as pp
    import pandapower.topology as top
    ctx.cov["rule"] = ("case = generated 110/20/10 kV net (parallel lines of different length, 0-2 trafo3w sharing buses, impedance, "
                       "dcline, 2 ext grids / slack gen, switches of all four kinds open and closed, random in_service) x random "
                       "option combination (respect_switches, 7 include_*, include_out_of_service, nogobuses, notravbuses, "
                       "trafo/switch length); non-trivial = >= 1 open switch and >= 10 adjacency entries")
    x = {}

    def translator():
        x.update(tr.extract(core.REPO))
        return tr.render(x)
    ctx.regenerate("C26", translator)
    ctx.prove()
    rng = ctx.rng
    reqs, expect = [], []
    for k in range(ctx.budget(40, 500)):
        net = topo_net(rng)
        o = random_opts(rng, net)
        case = {"opts": o, "net": encode_net(net)}
        try:
            mg = top.create_nxgraph(net, **o)
        except Exception as e:       # noqa
            ctx.failure("raises:create_nxgraph", f"create_nxgraph raised {type(e).__name__}: {e}", case)
            continue
        dump = real_dump(mg)
        reqs.append(f"graph {encode_opts(o)} {encode_net(net)}")
        expect.append((dump, case))
        ctx.count(json.dumps(case, default=str), nontrivial=(not net.switch.closed.all()) and dump.count(">") >= 10)
        ctx.hist("respect_switches", o["respect_switches"])
        ctx.hist("n_trafo3w", len(net.trafo3w))
        ctx.sample({"opts": o, "n_adj": dump.count(">")}, cap=3)
        # ---- direct oracle 1: edges exactly
        E, nodes = own_edges(net, o)
        want = []
        notrav = set(o["notravbuses"] or [])
        for (u, v, kind, i, w) in E:
            for a, b in ((u, v), (v, u)):
                if a not in notrav:
                    want.append(f"{a}>{b}:{kind}:{i}:{int(round(w * 1000))}")
        want = " ".join(sorted(set(want))) + " | " + " ".join(str(n) for n in sorted(nodes))
        if want != dump:
            a, b = set(want.split(" | ")[0].split()), set(dump.split(" | ")[0].split())
            ctx.failure("edges", f"graph differs from the energizing connections: missing {sorted(a - b)[:6]}, extra {sorted(b - a)[:6]}; "
                                 f"nodes want {want.split(' | ')[1]} got {dump.split(' | ')[1]}", case)
            continue
        # ---- direct oracle 2: components partition the node set (no notravbuses) and are the BFS closures
        if not o["notravbuses"]:
            comps = [set(int(b) for b in c) for c in top.connected_components(mg)]
            allb = [b for c in comps for b in c]
            if sorted(allb) != sorted(nodes):
                ctx.failure("components", f"connected_components is not a partition of the nodes: {comps} vs nodes {sorted(nodes)}", case)
            adjm = {}
            for (u, v, *_r) in E:
                adjm.setdefault(u, set()).add(v)
                adjm.setdefault(v, set()).add(u)
            for c in comps:
                seen, todo = set(), [next(iter(c))]
                while todo:
                    b = todo.pop()
                    if b in seen:
                        continue
                    seen.add(b)
                    todo += list(adjm.get(b, ()))
                if seen != c:
                    ctx.failure("components", f"component {sorted(c)} is not the set of buses connected to {sorted(c)[0]}: {sorted(seen)}", case)
                    break
        # ---- direct oracle 3: distances are shortest-path lengths
        src = int(net.ext_grid.bus.iloc[0])
        kw = {"respect_switches": o["respect_switches"], "nogobuses": o["nogobuses"], "notravbuses": o["notravbuses"]}
        if src not in (o["nogobuses"] or []) and bool(net.bus.in_service.at[src]):
            try:
                dist = top.calc_distance_to_bus(net, src, **kw)
            except Exception as e:   # noqa
                ctx.failure("raises:calc_distance_to_bus", f"{type(e).__name__}: {e}", case)
                continue
            o2 = dict(o, **kw)
            o2.update({INCL[k2]: True for k2 in KINDS})
            o2.update(include_out_of_service=False, trafo_length_km=None, switch_length_km=None)
            E2, nodes2 = own_edges(net, o2)
            best = {src: 0.0}
            heap = [(0.0, src)]
            nt = set(kw["notravbuses"] or [])
            while heap:
                d, b = heapq.heappop(heap)
                if d > best.get(b, 1e99) or (b in nt and b != src and False):
                    continue
                if b in nt:
                    continue          # adjacency leaving a notrav bus is removed (also for the source)
                for (u, v, _k, _i, w) in E2:
                    for a, c in ((u, v), (v, u)):
                        if a == b and d + w < best.get(c, 1e99) - 1e-12:
                            best[c] = d + w
                            heapq.heappush(heap, (d + w, c))
            got = {int(b): float(v) for b, v in dist.items()}
            if set(got) != set(best) or any(abs(got[b] - best[b]) > 1e-9 for b in got):
                bad = [(b, got.get(b), best.get(b)) for b in sorted(set(got) | set(best)) if got.get(b) is None or best.get(b) is None
                       or abs(got[b] - best[b]) > 1e-9][:5]
                ctx.failure("distance", f"calc_distance_to_bus from {src}: (bus, reported, shortest path) {bad}", case)
    if ctx.cov.get("lean_build_failed") or not reqs:
        return
    resp = core.lean_driver("C26", reqs)
    dis = 0
    for rq, r, (dump, case) in zip(reqs, resp, expect):
        if r.strip() != dump.strip():
            dis += 1
            if dis <= 3:
                a, b = set(r.split(" | ")[0].split()), set(dump.split(" | ")[0].split())
                ctx.tie_break("correspondence:C26", f"model-only {sorted(a - b)[:5]} implementation-only {sorted(b - a)[:5]} "
                                                    f"nodes {r.split(' | ')[-1]} / {dump.split(' | ')[-1]} for opts {case['opts']}")
    ctx.cov["correspondence_requests"] = len(reqs)
    ctx.cov["disagreements_checked"] = dis
    ctx.sample({"request": reqs[0][:200], "response": resp[0][:200]})
    ctx.assumptions.append("networkx.single_source_dijkstra_path_length and nx.connected_components are library contracts; "
                           "what is proved is the graph handed to them (edges, weights, nodes)")


def replay(ctx, path):
    print("C26 replays carry the encoded net and options; re-run ./check C26 with the same VERIF_SEED")
    return 2
