"""C08 — calculations never corrupt the user's network, even when they fail.

proof:   Props/C08.lean: every safe driver shape restores the user's gen table for every number of dclines, every table and
         every outcome (success, exception at any stage, non-convergence at any stage); all drivers found in the source are
         safe (generated, decide); the assignments into input tables on the calculation path are exactly the reviewed ones.
tie:     translator (driver shapes, static write scan) + correspondence: real runs ending in success / injected exception /
         non-convergence vs the model's prediction of the remaining rows of net.gen.
oracle:  exact snapshots of every input table around real calculations (AC / DC power flow with all algorithms, OPF, three-phase
         power flow, short circuit 3ph / 2ph / 1ph, contingency analysis), with an exception injected at a random executed line of
         the pandapower code (sys.settrace), at several points per calculation.
"""
import copy
import json
import math
import os
import sys

import numpy as np
import pandas as pd

from harness import core, netgen


class Injected(Exception):
    pass


def snapshot(net):
    out = {}
    for k, v in net.items():
        if isinstance(v, pd.DataFrame) and not k.startswith(("res_", "_")):
            out[k] = v.copy(deep=True)
    return out


def diff(snap, net):
    """pre-existing values changed, rows added / removed"""
    out = []
    for k, old in snap.items():
        new = net[k] if k in net else None
        if new is None or not isinstance(new, pd.DataFrame):
            out.append(f"table {k} disappeared")
            continue
        if list(old.index) != list(new.index):
            out.append(f"{k}: rows {list(old.index)[:12]} -> {list(new.index)[:12]}")
            continue
        for c in old.columns:
            if c not in new.columns:
                out.append(f"{k}.{c}: column removed")
                continue
            a, b = old[c], new[c]
            for i in old.index:
                x, y = a.at[i], b.at[i]
                same = (x is y) or (isinstance(x, float) and isinstance(y, float) and math.isnan(x) and math.isnan(y))
                if not same:
                    try:
                        same = bool(pd.isna(x)) and bool(pd.isna(y))
                    except (TypeError, ValueError):
                        same = False
                if not same:
                    try:
                        same = bool(x == y) if not hasattr(x, "__len__") or isinstance(x, str) else (repr(x) == repr(y))
                    except Exception:       # noqa
                        same = repr(x) == repr(y)
                if not same:
                    out.append(f"{k}.{c}[{i}]: {x!r} -> {y!r}")
                    break
    return out


class Tracer:
    """counts executed lines of the pandapower package; raises Injected at the chosen one"""

    def __init__(self, root, at=None):
        self.root, self.at, self.n, self.where = root, at, 0, None

    def _local(self, frame, event, arg):
        if event == "line":
            self.n += 1
            if self.at is not None and self.n == self.at:
                # a second fault inside the clean-up / handler code itself is not what the property is about: move on
                f = frame
                while f is not None:
                    if f.f_code.co_name in ("_drop_auxiliary_elements_after_failure", "_clean_up"):
                        self.at += 1
                        return self._local
                    f = f.f_back
                self.where = f"{os.path.relpath(frame.f_code.co_filename, self.root)}:{frame.f_lineno} ({frame.f_code.co_name})"
                raise Injected(self.where)
        return self._local

    def _global(self, frame, event, arg):
        fn = frame.f_code.co_filename
        if fn.startswith(self.root) and "/test/" not in fn:
            return self._local
        return None

    def __enter__(self):
        sys.settrace(self._global)
        return self

    def __exit__(self, *a):
        sys.settrace(None)
        return False


def calculations(rng, pp):
    import pandapower.shortcircuit as sc
    from pandapower.contingency import run_contingency
    algs = ["nr", "nr", "iwamoto_nr", "bfsw", "gs", "fdbx", "fdxb"]
    return [
        ("runpp", "powerflow", lambda n: pp.runpp(n, algorithm=rng.choice(algs), calculate_voltage_angles=rng.random() < 0.5,
                                                 enforce_q_lims=rng.random() < 0.3, max_iteration=rng.choice([10, 30, 2]))),
        ("runpp_bfsw_pv", "powerflow", lambda n: pp.runpp(n, algorithm="bfsw", max_iter_pv=rng.choice([1, 2, 20]), tolerance_mva_pv=1e-9)),
        ("rundcpp", "powerflow", lambda n: pp.rundcpp(n)),
        ("runopp", "opf", lambda n: pp.runopp(n, calculate_voltage_angles=False)),
        ("rundcopp", "opf", lambda n: pp.rundcopp(n)),
        ("runpp_3ph", "pf_3ph", lambda n: pp.runpp_3ph(n)),
        ("calc_sc_3ph", "sc", lambda n: sc.calc_sc(n, fault="3ph", case=rng.choice(["max", "min"]), ip=True, branch_results=rng.random() < 0.5)),
        ("calc_sc_2ph", "sc", lambda n: sc.calc_sc(n, fault="2ph", case="max")),
        ("calc_sc_1ph", "sc_1ph", lambda n: sc.calc_sc(n, fault="1ph", case="max")),
        ("contingency", "powerflow", lambda n: run_contingency(n, {"line": {"index": [int(i) for i in list(n.line.index)[:3]]}},
                                                              raise_errors=rng.random() < 0.5)),
        # an N-1 case whose evaluation raises, with raise_errors=True: the exception leaves run_contingency
        ("contingency_raise", "powerflow", lambda n: run_contingency(
            n, {"line": {"index": [int(i) for i in list(n.line.index[n.line.in_service])[:3]]}}, raise_errors=True,
            contingency_evaluation_function=_failing_eval(pp, int(n.line.in_service.sum())))),
    ]


def bfsw_net(rng, pp):
    """single-voltage meshed net fed at bus 0 with a dcline and user generators: the sweep solver's PV loop is exercised"""
    net = pp.create_empty_network()
    n = rng.randint(4, 7)
    b = [pp.create_bus(net, 110.) for _ in range(n)]
    pp.create_ext_grid(net, b[0], 1.02)
    for i in range(n - 1):
        pp.create_line_from_parameters(net, b[i], b[i + 1], rng.choice([5., 15.]), 0.1, 0.3, 10., 1.)
    if rng.random() < 0.7:
        pp.create_line_from_parameters(net, b[-1], b[0], 20., 0.1, 0.3, 10., 1.)
    for i in range(1, n):
        if rng.random() < 0.7:
            pp.create_load(net, b[i], rng.choice([10., 30.]), 5.)
    pp.create_gen(net, b[rng.randint(1, n - 1)], 20., vm_pu=rng.choice([1.0, 1.03]))
    a, c = rng.sample(b[1:], 2)
    pp.create_dcline(net, a, c, p_mw=rng.choice([5., 15.]), loss_percent=1., loss_mw=0.1, vm_from_pu=rng.choice([1.0, 1.02]), vm_to_pu=1.01)
    return net


def _failing_eval(pp, n_in_service):
    """evaluation function for run_contingency: the base case is solved, every case with a line out raises"""
    def ev(net, **kwargs):
        if int(net.line.in_service.sum()) < n_in_service:
            raise pp.LoadflowNotConverged("N-1 case fails (injected by the harness)")
        pp.runpp(net, **kwargs)
    return ev


def add_hvdc(rng, pp, net):
    """a bipolar HVDC interconnection with four back-to-back VSCs in a separate 380 kV part with its own ext_grids (the net of
    the library's own b2b test): every power flow converts each b2b_vsc into two temporary rows of net.vsc"""
    b = [pp.create_bus(net, 380.) for _ in range(8)]
    pp.create_ext_grid(net, b[0], vm_pu=1.0)
    pp.create_ext_grid(net, b[1], vm_pu=1.0)
    for f, t in ((0, 2), (1, 3), (4, 6), (5, 7)):
        pp.create_line_from_parameters(net, b[f], b[t], 1, 0.0487, 0.13823, 160, 0.664)
    pp.create_load(net, b[6], rng.choice([100., 60.]))
    pp.create_load(net, b[7], rng.choice([150., 80.]))
    d = [pp.create_bus_dc(net, 380.) for _ in range(6)]
    pp.create_line_dc_from_parameters(net, d[0], d[3], length_km=100, r_ohm_per_km=0.0212, max_i_ka=0.963)
    pp.create_line_dc_from_parameters(net, d[2], d[5], length_km=100, r_ohm_per_km=0.0212, max_i_ka=0.963)
    pp.create_line_dc_from_parameters(net, d[1], d[4], length_km=100, r_ohm_per_km=0.0212, max_i_ka=0.963, in_service=False)
    pp.create_b2b_vsc(net, b[2], d[0], d[1], 0.2, 10, 0.3, control_mode_ac='vm_pu', control_value_ac=1, control_mode_dc="vm_pu", control_value_dc=1.)
    pp.create_b2b_vsc(net, b[3], d[1], d[2], 0.2, 10, 0.3, control_mode_ac='vm_pu', control_value_ac=1, control_mode_dc="vm_pu", control_value_dc=1.)
    pp.create_b2b_vsc(net, b[4], d[3], d[4], 0.2, 10, 0.3, control_mode_ac='slack', control_value_ac=1, control_mode_dc="p_mw", control_value_dc=1.5)
    pp.create_b2b_vsc(net, b[5], d[4], d[5], 0.2, 10, 0.3, control_mode_ac='slack', control_value_ac=1, control_mode_dc="p_mw", control_value_dc=0.5)
    if rng.random() < 0.5:
        # a user's own VSC rows must survive the removal of the temporary ones
        pp.create_vsc(net, b[2], d[0], 0.1, 5., 0.15, control_mode_ac="vm_pu", control_value_ac=1., control_mode_dc="vm_pu", control_value_dc=1.,
                      in_service=False, name="user vsc")


def calc_net(rng, pp, name):
    net = _calc_net(rng, pp, name)
    if name in ("runpp", "rundcpp", "runopp", "contingency"):
        if rng.random() < 0.4:
            add_hvdc(rng, pp, net)
    return net


def _calc_net(rng, pp, name):
    if name == "runpp_bfsw_pv":
        return bfsw_net(rng, pp)
    if name.startswith("calc_sc") or name == "runpp_3ph":
        kinds = ("line", "trafo", "load", "sgen", "switch", "shunt", "oos") + (("gen",) if name != "runpp_3ph" else ())
        net = netgen.random_net(rng, kinds=kinds, dcline=rng.random() < 0.7 and name != "runpp_3ph", allow_oos=rng.random() < 0.4)
        if name == "runpp_3ph" and rng.random() < 0.6 and len(net.bus) > 3:
            # (the three-phase power flow ignores dclines; user generators must survive it)
            b = [int(x) for x in net.bus.index[net.bus.vn_kv == 20.]]
            pp.create_dcline(net, b[1], b[2], p_mw=0.1, loss_percent=1., loss_mw=0.01, vm_from_pu=1.0, vm_to_pu=1.0, in_service=False)
    else:
        net = netgen.random_net(rng, dcline=rng.random() < 0.7, allow_oos=rng.random() < 0.4)
    # inputs that the calculation paths are known to normalise: NaN shunt voltages, missing tap-table flags, tap tables
    if len(net.shunt) and rng.random() < 0.6:
        net.shunt["vn_kv"] = net.shunt.vn_kv.astype(float)
        net.shunt.loc[net.shunt.index[0], "vn_kv"] = np.nan
    if len(net.trafo) and rng.random() < 0.5:
        net.trafo["tap_dependency_table"] = net.trafo["tap_dependency_table"].astype(object) if "tap_dependency_table" in net.trafo else None
        net.trafo.loc[net.trafo.index[0], "tap_dependency_table"] = rng.choice([np.nan, None])
    if len(net.trafo3w) and rng.random() < 0.5 and "tap_dependency_table" in net.trafo3w:
        net.trafo3w["tap_dependency_table"] = net.trafo3w["tap_dependency_table"].astype(object)
        net.trafo3w.loc[net.trafo3w.index[0], "tap_dependency_table"] = np.nan
    if name in ("runopp", "rundcopp"):
        pp.create_poly_cost(net, int(net.ext_grid.index[0]), "ext_grid", 1.0)
        for i in net.gen.index:
            net.gen.loc[i, ["min_p_mw", "max_p_mw", "controllable"]] = [0., 3., True]
        net.bus["min_vm_pu"], net.bus["max_vm_pu"] = 0.9, 1.1
    if name.startswith("calc_sc") or name == "runpp_3ph":
        if len(net.sgen):
            net.sgen["sn_mva"] = 1.0
        net.ext_grid["s_sc_max_mva"], net.ext_grid["s_sc_min_mva"] = 1000., 800.
        net.ext_grid["rx_max"], net.ext_grid["rx_min"] = 0.1, 0.1
        net.ext_grid["x0x_max"], net.ext_grid["r0x0_max"] = 1.0, 0.1
        net.line["endtemp_degree"] = 80.
        for c, v in (("r0_ohm_per_km", 0.4), ("x0_ohm_per_km", 1.2), ("c0_nf_per_km", 5.)):
            net.line[c] = v
        if len(net.sgen):
            net.sgen["k"] = 1.2
        if len(net.gen):
            net.gen["vn_kv"], net.gen["xdss_pu"], net.gen["rdss_ohm"], net.gen["cos_phi"], net.gen["sn_mva"] = 20., 0.2, 0.01, 0.9, 5.
        for t in ("trafo",):
            net[t]["vector_group"] = "Dyn"
            net[t]["vk0_percent"], net[t]["vkr0_percent"] = net[t].vk_percent, net[t].vkr_percent
            net[t]["mag0_percent"], net[t]["mag0_rx"], net[t]["si0_hv_partial"] = 100., 0., 0.9
    return net


def run(ctx):
    import pandapower as pp
    from translate import c08 as tr
    root = os.path.dirname(os.path.dirname(os.path.abspath(pp.__file__))) + os.sep
    ctx.cov["rule"] = ("case = generated net (dclines in 70 %, NaN shunt voltages, missing tap-table flags) x 10 calculations x "
                       "{no fault, exception injected at a random executed line of the pandapower code (3-5 points per calculation)}; "
                       "non-trivial = the calculation ran at least to the injection point; every input table compared exactly")
    ctx.regenerate("C08", lambda: tr.render(tr.extract(core.REPO)))
    ctx.prove()
    rng = ctx.rng
    reqs, want = [], []
    for k in range(ctx.budget(20, 200)):
        calcs = calculations(rng, pp)
        name, driver, fn = calcs[k % len(calcs)]
        net0 = calc_net(rng, pp, name)
        case = {"calculation": name, "net_json": pp.to_json(net0), "inject_at": None}
        # counting run (also the no-fault case)
        net = copy.deepcopy(net0)
        snap = snapshot(net)
        tr0 = Tracer(root)
        outcome = "ok"
        try:
            with core.quiet(), tr0:
                fn(net)
        except Exception as e:       # noqa
            outcome = "nc" if type(e).__name__ in ("LoadflowNotConverged", "OPFNotConverged") else "raise:" + type(e).__name__
            ctx.hist("own-error", f"{name}:{type(e).__name__}:{str(e)[:60]}")
        total = tr0.n
        ctx.hist("calculation", f"{name}:{outcome.split(':')[0]}")
        ctx.count(case["net_json"] + name, nontrivial=total > 50)
        d = diff(snap, net)
        if d:
            ctx.failure(f"changed:{name}:{outcome.split(':')[0]}", f"{name} ({outcome}) changed the input tables: {d[:3]}", case)
        ndc = int(len(net0.dcline))
        if ndc and len(reqs) < 300:
            reqs.append(f"run {driver} {ndc} {'ok' if outcome == 'ok' else ('nc' if outcome == 'nc' else 'raise')} {len(net0.gen)} " +
                        " ".join(str(int(i)) for i in net0.gen.index))
            want.append((" ".join(str(int(i)) if int(i) in set(net0.gen.index) and pos < len(net0.gen) else "a"
                                  for pos, i in enumerate(net.gen.index)) or "-", case))
        if total < 50:
            continue
        # injected faults
        for j in range(ctx.budget(3, 5)):
            at = rng.randint(1, total) if j else max(1, total - rng.randint(0, 30))
            net = copy.deepcopy(net0)
            snap = snapshot(net)
            trj = Tracer(root, at=at)
            raised = None
            try:
                with core.quiet(), trj:
                    fn(net)
            except Injected as e:
                raised = str(e)
            except Exception as e:       # noqa   (an own error before the injection point)
                raised = None
            if raised is None:
                continue
            ctx.hist("injected", raised.split(":")[0])
            ctx.count(case["net_json"] + name + str(at), nontrivial=True)
            d = diff(snap, net)
            if d:
                ctx.failure(f"changed:{name}:injected", f"{name} with an exception at {raised} changed the input tables: {d[:3]}",
                            dict(case, inject_at=at, where=raised))
            if ndc and len(reqs) < 300:
                reqs.append(f"run {driver} {ndc} raise {len(net0.gen)} " + " ".join(str(int(i)) for i in net0.gen.index))
                want.append((" ".join(str(int(i)) if pos < len(net0.gen) else "a" for pos, i in enumerate(net.gen.index)) or "-",
                             dict(case, inject_at=at)))
        ctx.sample({"calculation": name, "outcome": outcome, "lines": total}, cap=6)
    if ctx.cov.get("lean_build_failed") or not reqs:
        return
    resp = core.lean_driver("C08", reqs)
    dis = 0
    for rq, r, (w, case) in zip(reqs, resp, want):
        if r != w:
            dis += 1
            ctx.tie_break("correspondence:C08", f"{rq}: model predicts gen rows [{r}], implementation left [{w}] "
                          f"({case['calculation']}, injection {case.get('inject_at')})")
    ctx.cov["correspondence"] = {"requests": len(reqs), "disagreements": dis}
    ctx.assumptions.append("state estimation is not exercised (it raises AttributeError under the installed numpy before touching the net); "
                           "new helper columns added to input tables (short-circuit data columns, zero-sequence helper columns) are "
                           "allowed by the property (pre-existing values and rows are compared); exceptions are injected at Python "
                           "line granularity, not inside compiled numba / scipy code")


def replay(ctx, path):
    print("C08 replays carry net_json, the calculation name and the injection line count; re-run ./check C08 with the same VERIF_SEED")
    return 2
