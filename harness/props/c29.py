"""C29 — protection devices trip later for smaller currents, never earlier.

proof:   Props/C29.lean over stage lists / comparison operators / result fields regenerated from fuse.py and ocrelay.py:
         fuse and DTOC / IDMT / IDTOC relay times are non-increasing in the current under the grading hypotheses, trip
         exactly above the pick-up value; C32 supplies the piecewise monotonicity of the fuse's PCHIP characteristic.
tie:     translator + correspondence: real Fuse / OCRelay objects (built by their constructors on the example grids, with
         std-type and generated characteristics, automatic and manual settings) evaluated on fabricated switch currents
         vs the Lean model.
oracle:  pairwise monotonicity of trip_melt_time_s, trip <=> current above pick-up, reported activation value, both
         scenarios, settings as the USER gave them (manual DataFrames) - no model involved.
"""
import json
import math

import numpy as np
import pandas as pd

from harness import core
from translate import c29 as tr

INF = float("inf")


def set_currents(net, i_ka, scenario):
    tab = "res_switch_sc" if scenario == "sc" else "res_switch"
    col = "ikss_ka" if scenario == "sc" else "i_ka"
    net[tab] = pd.DataFrame({col: [i_ka] * len(net.switch)}, index=net.switch.index)
    other = "res_switch" if scenario == "sc" else "res_switch_sc"
    ocol = "i_ka" if scenario == "sc" else "ikss_ka"
    net[other] = pd.DataFrame({ocol: [i_ka * 3.7 + 0.011] * len(net.switch)}, index=net.switch.index)   # decoy


def monotone_check(ctx, key, name, pts, case):
    """pts = sorted list of (current, tripped, time)"""
    for (i0, tr0, t0), (i1, tr1, t1) in zip(pts, pts[1:]):
        if t1 > t0 * (1 + 1e-9) + 1e-12:
            ctx.failure(f"monotone:{key}", f"{name}: trip time {t0!r} s at {i0!r} kA but {t1!r} s at the larger current "
                                           f"{i1!r} kA", case)
            return False
        if tr0 and not tr1:
            ctx.failure(f"trip:{key}", f"{name}: trips at {i0!r} kA but not at {i1!r} kA", case)
            return False
    return True


def run(ctx):
    import pandapower as pp
    from pandapower.protection.example_grids import dtoc_relay_net, idmt_relay_net, idtoc_relay_net, three_radial_bus_net
    from pandapower.protection.protection_devices.ocrelay import OCRelay
    from pandapower.protection.protection_devices.fuse import Fuse
    ctx.cov["rule"] = ("case = one device (fuse from a std type or from a generated monotone point set; DTOC/IDMT/IDTOC relay "
                       "with automatic or manual DataFrame settings, all curve types) x 14 currents around its thresholds x "
                       "scenario sc/pp; non-trivial = the currents hit >= 2 regimes; distinct by settings")
    x = {}

    def translator():
        x.update(tr.extract(core.REPO))
        return tr.render(x)
    ctx.regenerate("C29", translator)
    ctx.prove()
    rng = ctx.rng
    reqs, expect = [], []
    fuse_types = None
    for k in range(ctx.budget(36, 400)):
        scenario = "sc" if k % 2 == 0 else "pp"
        kind = ["fuse_std", "fuse_gen", "DTOC", "IDMT", "IDTOC", "DTOC_manual", "IDMT_manual", "fuse_regen"][k % 8]
        case = {"kind": kind, "scenario": scenario}
        try:
            with core.quiet():
                if kind.startswith("fuse"):
                    net = three_radial_bus_net()
                    if fuse_types is None:
                        fuse_types = sorted(pp.available_std_types(net, "fuse").index)
                    sw = int(rng.choice(list(net.switch.index)))
                    if kind == "fuse_std":
                        ft = rng.choice(fuse_types)
                        dev = Fuse(net=net, switch_index=sw, fuse_type=ft, curve_select=rng.choice([0, 1]))
                        case["fuse_type"] = ft
                    else:
                        n = rng.randint(2, 7)
                        xs, x0 = [], rng.choice([20., 63., 400.])
                        for _ in range(n):
                            xs.append(round(x0, 2))
                            x0 *= rng.choice([1.3, 2.0, 3.5])
                        ys, y0 = [], rng.choice([3000., 100., 4.])
                        for _ in range(n):
                            ys.append(float(f"{y0:.4g}"))
                            y0 *= rng.choice([1.0, 0.5, 0.1, 0.02])
                        dev = Fuse(net=net, switch_index=sw, fuse_type=(rng.choice(fuse_types) if kind == "fuse_regen" else "none"))
                        if kind == "fuse_regen":
                            # a fuse that already has (and has used) a curve gets a new one
                            set_currents(net, dev.i_start_a * 1.5 / 1000, scenario)
                            dev.protection_function(net, scenario)
                        dev.create_characteristic(net, xs, ys)
                        case.update(xs=xs, ys=ys)
                    thresholds = [dev.i_start_a / 1000., dev.i_stop_a / 1000.]
                    user = None
                else:
                    typ = kind.split("_")[0]
                    net = {"DTOC": dtoc_relay_net, "IDMT": idmt_relay_net, "IDTOC": idtoc_relay_net}[typ]()
                    closed = [int(i) for i in net.switch.index[net.switch.closed]]
                    sw = rng.choice(closed)
                    curve = rng.choice(["standard_inverse", "very_inverse", "extremely_inverse", "long_inverse"])
                    user = None
                    if kind.endswith("manual"):
                        ids = list(net.switch.index)
                        if typ == "DTOC":
                            tgg = [round(rng.uniform(0.02, 0.1), 3) for _ in ids]
                            tg = [round(rng.uniform(0.3, 1.5), 3) for _ in ids]
                            ts = pd.DataFrame({"switch_id": ids, "t_gg": tgg, "t_g": tg})
                            ig = [round(rng.uniform(0.2, 0.6), 3) for _ in ids]
                            pc = pd.DataFrame({"switch_id": ids, "I_gg": [round(v * rng.choice([2, 4]), 3) for v in ig], "I_g": ig})
                            use_pc = rng.random() < 0.5
                            dev = OCRelay(net, switch_index=sw, oc_relay_type=typ, time_settings=ts,
                                          pickup_current_manual=pc if use_pc else None)
                            user = {"t_gg": tgg[ids.index(sw)], "t_g": tg[ids.index(sw)]}
                            if use_pc:
                                user["I_g"] = ig[ids.index(sw)]
                        else:
                            tms = [round(rng.uniform(0.5, 1.5), 2) for _ in ids]
                            tgr = [round(rng.uniform(0.1, 0.9), 2) for _ in ids]
                            ts = pd.DataFrame({"switch_id": ids, "tms": tms, "t_grade": tgr})
                            isv = [round(rng.uniform(0.15, 0.5), 3) for _ in ids]
                            pc = pd.DataFrame({"switch_id": ids, "I_s": isv})
                            use_pc = rng.random() < 0.5
                            dev = OCRelay(net, switch_index=sw, oc_relay_type=typ, time_settings=ts, curve_type=curve,
                                          pickup_current_manual=pc if use_pc else None)
                            user = {"tms": tms[ids.index(sw)], "t_grade": tgr[ids.index(sw)]}
                            if use_pc:
                                user["I_s"] = isv[ids.index(sw)]
                    else:
                        tset = {"DTOC": [0.07, 0.5, 0.3], "IDMT": [1, 0.5], "IDTOC": [0.07, 0.5, 0.3, 1, 0.5]}[typ]
                        tset = [round(v * rng.choice([1, 1, 0.8, 1.5]), 3) for v in tset]
                        dev = OCRelay(net, switch_index=sw, oc_relay_type=typ, time_settings=tset, curve_type=curve,
                                      overload_factor=rng.choice([1.2, 1.5]), inverse_overload_factor=rng.choice([1.2, 1.1]))
                    case.update(switch=sw, curve=curve, user=user,
                                settings={a: getattr(dev, a) for a in ("I_g", "I_gg", "I_s", "t_g", "t_gg", "tms", "t_grade")})
                    thresholds = [v for v in (dev.I_s, dev.I_g, dev.I_gg) if v is not None]
        except Exception as e:       # noqa
            ctx.failure(f"construct:{kind}", f"{kind} device could not be built: {type(e).__name__}: {e}", case)
            continue
        # currents around every threshold
        cur = set()
        for th in thresholds:
            for f in (0.5, 0.97, 1.0, 1.03, 1.6, 4.0):
                cur.add(float(f"{th * f:.6g}"))
        cur = sorted(c for c in cur if c > 0)
        pts = []
        ok = True
        for i in cur:
            set_currents(net, i, scenario)
            try:
                with core.quiet():
                    r = dev.protection_function(net, scenario)
            except Exception as e:   # noqa
                ctx.failure(f"evaluate:{kind}", f"{kind}: protection_function raised {type(e).__name__}: {e} at {i} kA", case)
                ok = False
                break
            t = float(r["trip_melt_time_s"])
            pts.append((i, bool(r["trip_melt"]), t))
            if float(r["activation_parameter_value"]) != i or r["switch_id"] != dev.switch_index:
                ctx.failure(f"activation:{kind}", f"{kind}: reported activation value {r['activation_parameter_value']!r} / switch "
                                                  f"{r['switch_id']!r}, the device's switch current in scenario {scenario} is {i!r}", case)
            if not bool(r["trip_melt"]) and t < INF:
                ctx.failure(f"trip:{kind}", f"{kind}: not tripped but finite time {t}", case)
        if not ok:
            continue
        ctx.count(json.dumps(case, default=str), nontrivial=len({(p[1], p[2] == 0) for p in pts}) >= 2)
        ctx.hist("kind", kind)
        ctx.hist("scenario", scenario)
        ctx.sample({"case": case, "points": pts[:4]}, cap=3)
        # ---- direct oracle
        graded = True
        if not kind.startswith("fuse"):
            s = case["settings"]
            typ = kind.split("_")[0]
            if user:        # the settings the device works with are the ones the user gave
                for a, v in user.items():
                    if abs(float(s[a]) - v) > 1e-12:
                        ctx.failure(f"settings:{kind}", f"{kind}: user setting {a}={v} for switch {case['switch']}, device uses {s[a]!r}", case)
            if typ in ("DTOC", "IDTOC"):
                graded = s["I_g"] <= s["I_gg"] and s["t_gg"] <= s["t_g"]
            if typ == "IDTOC" and graded:
                # t> must not be slower than the inverse curve where the definite stage takes over
                ig, is_ = s["I_g"], s["I_s"]
                graded = is_ <= ig and (ig <= is_ or s["t_g"] <= (s["tms"] * dev.k) / ((ig / is_) ** dev.alpha - 1) + s["t_grade"])
            if typ in ("IDMT", "IDTOC"):
                graded = graded and s["tms"] * dev.k >= 0 and s["I_s"] > 0
            ctx.hist("graded", graded)
            pick = min(v for v in thresholds)
            for (i, trp, t) in pts:
                if graded and trp != (i > pick):
                    ctx.failure(f"trip:{kind}", f"{kind}: tripped={trp} at {i} kA with lowest pick-up {pick}", case)
                    break
        else:
            for (i, trp, t) in pts:
                if abs(i * 1000 - dev.i_start_a) > 1e-6 * dev.i_start_a and trp != (i * 1000 > dev.i_start_a):
                    ctx.failure(f"trip:{kind}", f"{kind}: tripped={trp} at {i * 1000} A with i_start {dev.i_start_a}", case)
                    break
            if kind != "fuse_std":          # the curve passes through the given (monotone) points
                for xa, ya in zip(case["xs"], case["ys"]):
                    set_currents(net, xa / 1000., scenario)
                    t = float(dev.protection_function(net, scenario)["trip_melt_time_s"])
                    if abs(t - ya) > 1e-6 * ya:
                        ctx.failure(f"curve:{kind}", f"{kind}: melt time at the support current {xa} A is {t!r}, curve data {ya}", case)
                        break
        if graded:
            monotone_check(ctx, kind, kind, pts, case)
        # ---- correspondence
        for (i, trp, t) in pts:
            if kind.startswith("fuse"):
                c = net.characteristic.at[dev.characteristic_index, "object"]
                with np.errstate(all="ignore"):
                    cv = float(c(i * 1000))
                if not math.isfinite(cv):
                    continue
                reqs.append(f"fuse {core.frac(float(dev.i_start_a))} {core.frac(float(dev.i_stop_a))} {core.frac(i * 1000)} {core.frac(cv)}")
            else:
                s = case["settings"]
                typ = kind.split("_")[0]
                v = {a: (0.0 if s[a] is None else float(s[a])) for a in s}
                kk = float(getattr(dev, "k", 0))
                al = float(getattr(dev, "alpha", 1))
                rho = (i / v["I_s"]) ** al if v["I_s"] > 0 else 2.0
                if rho == 1.0:
                    continue
                reqs.append("relay " + typ + " " + " ".join(core.frac(z) for z in (
                    v["I_g"], v["I_gg"], v["I_s"], v["t_g"], v["t_gg"], v["tms"], kk, v["t_grade"], i, rho)))
            expect.append((trp, t, case, i))
    if ctx.cov.get("lean_build_failed") or not reqs:
        return
    resp = core.lean_driver("C29", reqs)
    dis = 0
    for rq, r, (trp, t, case, i) in zip(reqs, resp, expect):
        parts = r.split()
        if len(parts) != 2:
            ctx.tie_break("correspondence:C29", f"driver answered {r!r} to {rq}")
            break
        mt = INF if parts[1] == "inf" else float(core.parse_rat(parts[1]))
        if (parts[0] == "1") != trp or (mt != t and abs(mt - t) > 1e-9 * max(1.0, abs(t))):
            dis += 1
            if dis <= 3:
                ctx.tie_break("correspondence:C29", f"model {r}, implementation tripped={trp} time={t!r} at {i} kA for {case}")
    ctx.cov["correspondence_requests"] = len(reqs)
    ctx.cov["disagreements_checked"] = dis
    ctx.sample({"request": reqs[0], "response": resp[0]})
    ctx.assumptions.append("(i/I_s)**alpha and the fuse characteristic value are oracle values from the implementation's libraries; "
                           "the theorems assume r ** alpha > 1 and non-decreasing for r > 1 (alpha > 0 from the generated table) and "
                           "a non-increasing, non-negative characteristic between its end points (C32, piecewise)")


def replay(ctx, path):
    print("C29 replays carry the device settings / curve data; re-run ./check C29 with the same VERIF_SEED")
    return 2
