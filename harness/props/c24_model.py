"""Correspondence of the Lean Create model (std-type key lists, accept/reject) with the implementation."""
import copy

from harness import core

STR_SENTINELS = {"type": "ol", "tap_side": "lv", "tap2_side": "hv", "tap_changer_type": "Symmetrical",
                 "tap2_changer_type": "Ideal", "vector_group": "YNd11"}
DECOYS = ["q_mm2", "voltage_rating", "endtemp_degree", "verif_unknown_key"]

PAIRS = {
    "line": dict(single="create_line", batch="create_lines", table="line",
                 s_args=dict(from_bus=2, to_bus=3, length_km=1.0), b_args=dict(from_buses=[2], to_buses=[3], length_km=[1.0]),
                 required=["r_ohm_per_km", "x_ohm_per_km", "c_nf_per_km", "max_i_ka"]),
    "trafo": dict(single="create_transformer", batch="create_transformers", table="trafo",
                  s_args=dict(hv_bus=0, lv_bus=2), b_args=dict(hv_buses=[0], lv_buses=[2]),
                  required=["sn_mva", "vn_hv_kv", "vn_lv_kv", "vk_percent", "vkr_percent", "pfe_kw", "i0_percent"]),
    "trafo3w": dict(single="create_transformer3w", batch="create_transformers3w", table="trafo3w",
                    s_args=dict(hv_bus=0, mv_bus=2, lv_bus=6), b_args=dict(hv_buses=[0], mv_buses=[2], lv_buses=[6]),
                    required=[]),
}


def sentinel_type(keys):
    ty = {}
    for i, k in enumerate(sorted(keys)):
        if k in STR_SENTINELS:
            ty[k] = STR_SENTINELS[k]
        elif k.endswith(("_neutral", "_max", "_min")):
            ty[k] = {"_neutral": 1, "_max": 7 + i % 3, "_min": -6 - i % 3}["_" + k.rsplit("_", 1)[1]]
        elif k == "voltage_rating":
            ty[k] = "HV"
        elif "shift" in k:
            ty[k] = 30 * (1 + i % 5)
        else:
            ty[k] = round(0.137 + 0.0731 * (i + 1), 5)
    return ty


def observed_keys(pp, base, name, pair, ty, which):
    net = copy.deepcopy(base)
    pp.create_std_type(net, dict(ty), "verif_sentinel", name)
    before = set(net[pair["table"]].index)
    with core.quiet():
        if which == "single":
            getattr(pp, pair["single"])(net, std_type="verif_sentinel", **pair["s_args"])
        else:
            getattr(pp, pair["batch"])(net, std_type="verif_sentinel", **pair["b_args"])
    idx = [i for i in net[pair["table"]].index if i not in before][0]
    row = net[pair["table"]].loc[idx]
    got = []
    for k, v in ty.items():
        if k in row.index:
            x = row[k]
            try:
                same = (x == v) if isinstance(v, str) else abs(float(x) - float(v)) < 1e-12
            except (TypeError, ValueError):
                same = False
            if same:
                got.append(k)
    return sorted(got)


def correspond(ctx, pp, base):
    reqs = []
    for name in PAIRS:
        reqs += [f"keys {name} single", f"keys {name} batch"]
    # accept/reject cases
    rng = ctx.rng
    rej_cases = []
    n_rej = ctx.budget(60, 600)
    buses = [int(b) for b in base.bus.index]
    for _ in range(n_rej):
        kind = rng.choice(["load", "line", "poly_cost"])
        n = rng.randint(1, 4)
        if kind == "load":
            existing = [int(i) for i in base.load.index]
            explicit = rng.random() < 0.7
            rs = []
            for _k in range(n):
                bus = rng.choice(buses + [99]) if rng.random() < 0.2 else rng.choice(buses[2:6])
                key = rng.choice(existing + [20, 21, 22, 23]) if explicit else None
                rs.append(([bus], key))
        elif kind == "line":
            existing = [int(i) for i in base.line.index]
            explicit = rng.random() < 0.7
            rs = []
            for _k in range(n):
                fb = rng.choice([2, 3, 4, 98]) if rng.random() < 0.25 else rng.choice([2, 3])
                tb = rng.choice([3, 4])
                key = rng.choice(existing + [20, 21, 22]) if explicit else None
                rs.append(([fb, tb], key))
        else:
            # cost keys (element, et) coded as element*4 + et-code ; one pre-existing cost
            existing = [0 * 4 + 0]
            rs = []
            for _k in range(n):
                el, et = rng.choice([0, 1]), rng.choice([0, 1, 2])
                rs.append(([], el * 4 + et))
        rej_cases.append((kind, existing, rs))
        line = "rej %d %s %d %s %d" % (len(buses), " ".join(map(str, buses)), len(existing),
                                       " ".join(map(str, existing)), len(rs))
        for nodes, key in rs:
            line += " %d %s %s" % (len(nodes), " ".join(map(str, nodes)), "-" if key is None else key)
        reqs.append(" ".join(line.split()))
    resp = core.lean_driver("C24", reqs)
    dis = 0
    # (A) key lists
    for i, name in enumerate(PAIRS):
        pair = PAIRS[name]
        model_single, model_batch = resp[2 * i].split(), resp[2 * i + 1].split()
        ty = sentinel_type(set(model_single) | set(model_batch) | set(DECOYS) | set(pair["required"]))
        for which, model in (("single", model_single), ("batch", model_batch)):
            try:
                obs = observed_keys(pp, base, name, pair, ty, which)
            except Exception as e:     # noqa
                ctx.tie_break("correspondence:C24-keys", f"{name}/{which}: creation with sentinel type failed: "
                                                         f"{type(e).__name__}: {e}")
                dis += 1
                continue
            if sorted(model) != obs:
                dis += 1
                ctx.tie_break("correspondence:C24-keys",
                              f"{name}/{which}: model copies {sorted(set(model) - set(obs))} which the code does not; "
                              f"code copies {sorted(set(obs) - set(model))} which the model does not")
            ctx.count(("keys", name, which), nontrivial=True)
    ctx.sample({"request": reqs[0], "response": resp[0]}, cap=30)
    # (B) accept / reject
    et_names = ["gen", "load", "sgen"]
    off = 2 * len(PAIRS)
    for j, (kind, existing, rs) in enumerate(rej_cases):
        r = resp[off + j].split()
        if len(r) != 2:
            ctx.tie_break("correspondence:C24-reject", f"driver answered {resp[off + j]!r}")
            break
        m_single, m_batch = r[0] == "1", r[1] == "1"
        netS, netB = copy.deepcopy(base), copy.deepcopy(base)
        if kind == "poly_cost":
            for net in (netS, netB):
                pp.create_poly_cost(net, 0, "gen", 1.0)

        def single():
            for nodes, key in rs:
                if kind == "load":
                    pp.create_load(netS, nodes[0], 0.1, index=key)
                elif kind == "line":
                    pp.create_line_from_parameters(netS, nodes[0], nodes[1], 1., 0.1, 0.1, 10, 0.4, index=key)
                else:
                    pp.create_poly_cost(netS, key // 4, et_names[key % 4], 1.0)

        def batch():
            keys = [k for _, k in rs]
            idx = None if keys[0] is None else keys
            if kind == "load":
                pp.create_loads(netB, [n[0] for n, _ in rs], 0.1, index=idx)
            elif kind == "line":
                pp.create_lines_from_parameters(netB, [n[0] for n, _ in rs], [n[1] for n, _ in rs], 1., 0.1, 0.1, 10,
                                                0.4, index=idx)
            else:
                pp.create_poly_costs(netB, [k // 4 for k in keys], [et_names[k % 4] for k in keys], 1.0)
        from harness.props.c24 import outcome
        i_single, i_batch = outcome(single) == "ok", outcome(batch) == "ok"
        ctx.count(("rej", j, kind, str(rs)), nontrivial=not (m_single and m_batch))
        ctx.hist("rej_kind", f"{kind}:{'acc' if i_single else 'rej'}")
        if (m_single, m_batch) != (i_single, i_batch):
            dis += 1
            if dis <= 4:
                ctx.tie_break("correspondence:C24-reject",
                              f"{kind} existing={existing} requests={rs}: model single/batch accept = "
                              f"{m_single}/{m_batch}, implementation = {i_single}/{i_batch}")
        if i_single != i_batch:
            ctx.failure(f"accept-reject:{kind}:model-case", f"{kind} existing={existing} requests={rs}: singles "
                        f"{'accept' if i_single else 'reject'}, batch {'accepts' if i_batch else 'rejects'}",
                        {"kind": kind, "existing": existing, "requests": rs})
    ctx.cov["correspondence_requests"] = len(reqs)
    ctx.cov["disagreements_checked"] = dis
