"""C13 — the controller loop terminates with converged controllers and fresh results.

proof:   Props/C13.lean: get_controller_order model (levels ascending, per level exactly the in-service controllers by
         ascending order); the loop over ARBITRARY controllers and evaluation function: on return every controller of the
         level is converged on the returned state, which is untouched or the direct output of the evaluation; iteration
         cap; single-level full statement; witness for the recorded multi-level finding; tap controller expressions
         (regenerated from source): taps stay in [tap_min, tap_max], single step, convergence => NaN / in band / at the
         needed limit, progress while outside the band.
tie:     translator + correspondence: real get_controller_order on generated controller tables; real DiscreteTapControl
         control_step / is_converged on fabricated bus voltages vs the generated expressions.
oracle:  real run_control on generated nets with tap (2W both sides / 3W, discrete + continuous), const and characteristic
         controllers at random levels/orders/start taps: recorded trace (levels ascending, orders ascending, evaluate after
         every acting sweep, final sweep silent), all controllers converged, results == fresh power flow, taps in range,
         no legal tap step that would bring a discrete controller's voltage closer to its band.
"""
import copy
import json
import math

import numpy as np
import pandas as pd

from harness import core
from translate import c13 as tr


def make_net(rng):
    import pandapower as pp
    net = pp.create_empty_network()
    src = pp.create_bus(net, 110.)
    hv = pp.create_bus(net, 110.)            # not the ext_grid bus, so that hv-side control is not a no-op
    pp.create_ext_grid(net, src, vm_pu=rng.choice([0.97, 1.0, 1.03, 1.06]))
    pp.create_line_from_parameters(net, src, hv, rng.choice([10., 40.]), 0.06, 0.3, 9., 0.6)
    n = rng.randint(2, 3)
    for k in range(n):
        mv = pp.create_bus(net, 20.)
        side = rng.choice(["hv", "lv"])
        pp.create_transformer_from_parameters(net, hv, mv, 25., 110., 20., 0.4, 10., 14., 0.05, tap_side=side, tap_neutral=0,
                                              tap_min=-4, tap_max=4, tap_step_percent=rng.choice([1.5, 2.5]), tap_step_degree=0.,
                                              tap_pos=rng.choice([-4, -2, 0, 0, 3, 4]), tap_changer_type="Ratio")
        far = pp.create_bus(net, 20.)
        pp.create_line_from_parameters(net, mv, far, rng.choice([2., 6.]), 0.2, 0.3, 10., 0.4)
        pp.create_load(net, far, rng.choice([2., 6., 10.]), 1.)
        if rng.random() < 0.4:
            pp.create_sgen(net, far, rng.choice([1., 8.]), 0.)
    if rng.random() < 0.5:
        mv, lv = pp.create_bus(net, 20.), pp.create_bus(net, 10.)
        pp.create_transformer3w_from_parameters(net, hv, mv, lv, 110., 20., 10., 40., 25., 15., 10., 11., 12., 0.3, 0.31, 0.32, 20., 0.05,
                                                tap_side=rng.choice(["hv", "mv", "lv"]), tap_neutral=0, tap_min=-4, tap_max=4,
                                                tap_step_percent=1.5, tap_pos=rng.choice([-4, 0, 4]), tap_changer_type="Ratio")
        pp.create_load(net, mv, 6., 1.)
        pp.create_load(net, lv, 3., 1.)
    return net


def add_controllers(rng, net, multi_level):
    import pandapower.control as ct
    levels = [0] if not multi_level else [0, 1, rng.choice([0.5, 2])]
    made = []
    for t in net.trafo.index:
        r = rng.random()
        lvl = rng.choice(levels)
        order = rng.choice([0, 1, 2])
        side = rng.choice(["lv", "lv", "hv"])
        if r < 0.5:
            lo = rng.choice([0.97, 0.99, 1.01])
            made.append(ct.DiscreteTapControl(net, int(t), lo, lo + rng.choice([0.03, 0.05]), side=side, level=lvl, order=order))
        elif r < 0.75:
            made.append(ct.ContinuousTapControl(net, int(t), rng.choice([0.98, 1.0, 1.02]), tol=1e-4, side=side, level=lvl, order=order))
    for t in net.trafo3w.index:
        if rng.random() < 0.7:
            lo = rng.choice([0.98, 1.0])
            made.append(ct.DiscreteTapControl(net, int(t), lo, lo + 0.04, side=rng.choice(["mv", "lv"]), element="trafo3w",
                                              level=rng.choice(levels), order=rng.choice([0, 1])))
    if rng.random() < 0.6:
        from pandapower.timeseries.data_sources.frame_data import DFData
        ds = DFData(pd.DataFrame({"p": [rng.choice([1., 4., 9.])]}))
        made.append(ct.ConstControl(net, "load", "p_mw", int(net.load.index[0]), data_source=ds, profile_name="p",
                                    level=rng.choice(levels), order=rng.choice([0, 3])))
    if rng.random() < 0.3 and made:
        net.controller.at[rng.choice(list(net.controller.index)), "in_service"] = False
    return made


class Trace:
    """wraps is_converged / control_step of every controller object and the run function"""

    def __init__(self, net):
        self.events = []
        self.net = net
        for idx in net.controller.index:
            c = net.controller.object.at[idx]
            lvl, order = net.controller.level.at[idx], net.controller.order.at[idx]
            self._wrap(c, int(idx), lvl, order)

    def _wrap(self, c, idx, lvl, order):
        ic, cs = c.is_converged, c.control_step
        tr = self

        def is_converged(net, _ic=ic):
            r = bool(_ic(net))
            tr.events.append(("conv", idx, r))
            return r

        def control_step(net, _cs=cs):
            tr.events.append(("step", idx))
            return _cs(net)
        c.is_converged, c.control_step = is_converged, control_step

    def run(self, net, **kw):
        import pandapower as pp
        self.events.append(("pf",))
        kw.pop("recycle", None)
        kw.pop("only_v_results", None)
        return pp.runpp(net, **kw)


def check_trace(ctx, net, events, case, max_iter):
    lv = {int(i): net.controller.level.at[i] for i in net.controller.index}
    od = {int(i): net.controller.order.at[i] for i in net.controller.index}
    # split into sweeps: maximal runs of conv/step events between pf events
    seq = [e for e in events]
    cur_levels = []
    last_level = None
    sweeps = []
    cur = []
    for e in seq:
        if e[0] == "pf":
            if cur:
                sweeps.append(cur)
                cur = []
            sweeps.append("pf")
        else:
            cur.append(e)
    if cur:
        sweeps.append(cur)
    prev_level = None
    for sw in sweeps:
        if sw == "pf":
            continue
        ids = [e[1] for e in sw if e[0] == "conv"]
        # a block between power flows may contain several sweeps (a silent final sweep of one level followed by the next level)
        levels_here = []
        for i in ids:
            lvls = lv[i] if hasattr(lv[i], "__iter__") else [lv[i]]
            levels_here.append(min(lvls))
        # between two power flows every level is swept at most once: within a level the orders must not decrease
        for k in range(1, len(ids)):
            if levels_here[k] == levels_here[k - 1] and od[ids[k]] < od[ids[k - 1]]:
                ctx.failure("trace:order", f"controllers of level {levels_here[k]} called in the order "
                                           f"{[(i, int(od[i])) for i in ids]} (id, order)", case)
                return
        for a, b in zip(levels_here, levels_here[1:]):
            if b < a:
                ctx.failure("trace:level", f"levels executed in the order {levels_here} (must never decrease)", case)
                return
        if prev_level is not None and levels_here and levels_here[0] < prev_level:
            ctx.failure("trace:level", f"level {levels_here[0]} executed after level {prev_level}", case)
            return
        if levels_here:
            prev_level = levels_here[-1]
    # after the last step event there must be a power flow
    last_step = max([k for k, e in enumerate(seq) if e[0] == "step"], default=None)
    if last_step is not None and not any(e[0] == "pf" for e in seq[last_step + 1:]):
        ctx.failure("trace:stale", "a controller acted after the last power flow", case)


def run(ctx):
    import pandapower as pp
    import pandapower.control as ct
    from pandapower.control.run_control import get_controller_order, run_control
    ctx.cov["rule"] = ("oracle case = generated net (2-3 two-winding transformers tapped on hv or lv, optional trafo3w) with discrete / "
                       "continuous tap controllers on lv or hv side, ConstControl, random levels (single or three levels incl. a "
                       "fractional one), orders, out-of-service controllers, start taps at limits; non-trivial = at least one "
                       "controller acted")
    x = {}

    def translator():
        x.update(tr.extract(core.REPO))
        return tr.render(x)
    ctx.regenerate("C13", translator)
    ctx.prove()
    rng = ctx.rng
    reqs, expect = [], []
    for k in range(-1, ctx.budget(16, 400)):
        multi = (k % 3 == 2)
        if k == -1:
            # corpus case (recorded finding): a level-0 controller is satisfied, then a level-1 controller of the same
            # transformer (different target) moves the tap again; level 0 is not re-checked
            import random as _r
            net = make_net(_r.Random(5))
            with core.quiet():
                ct.DiscreteTapControl(net, int(net.trafo.index[0]), 0.99, 1.01, side="lv", level=0, order=0)
                ct.ContinuousTapControl(net, int(net.trafo.index[0]), 1.04, tol=1e-4, side="lv", level=1, order=0)
            multi = True
        else:
            net = make_net(rng)
            with core.quiet():
                add_controllers(rng, net, multi)
        if not len(net.controller) or not net.controller.in_service.any():
            continue
        case = {"multi_level": multi, "net_json": pp.to_json(net)}
        # ---- correspondence: controller order
        try:
            lvl_list, order = get_controller_order(net, net.controller)
            real = " ".join(f"{int(l) if float(l).is_integer() else l}:{','.join(str(int(c.index)) for c, _ in lo)}"
                            for l, lo in zip(lvl_list, order))
            levels_all = sorted({float(v) for lv in net.controller.level for v in (lv if hasattr(lv, '__iter__') else [lv])})
            code = {v: n for n, v in enumerate(levels_all)}            # order-preserving encoding of (fractional) levels
            rows = []
            for i in net.controller.index:
                lv = net.controller.level.at[i]
                lv = list(lv) if hasattr(lv, "__iter__") else [lv]
                rows.append(f"{int(i)} {int(net.controller.order.at[i])} {int(bool(net.controller.in_service.at[i]))} {len(lv)} " +
                            " ".join(str(code[float(v)]) for v in lv))
            reqs.append(f"order {len(rows)} " + " ".join(rows))
            real_enc = " ".join(f"{code[float(l)]}:{','.join(sorted((str(int(c.index)) for c, _ in lo), key=int) if False else [str(int(c.index)) for c, _ in lo])}"
                                for l, lo in zip(lvl_list, order))
            expect.append(("order", real_enc, {"net": net}))
            if list(lvl_list) != sorted(lvl_list):
                ctx.failure("order:levels", f"get_controller_order returns levels {list(lvl_list)}", case)
        except Exception as e:       # noqa
            ctx.tie_break("correspondence:C13", f"get_controller_order raised {type(e).__name__}: {e}")
        # ---- oracle: real run with trace
        tr_ = Trace(net)
        max_iter = 30
        try:
            with core.quiet():
                run_control(net, run=tr_.run, max_iter=max_iter)
        except Exception as e:       # noqa
            name = type(e).__name__
            ctx.hist("outcome", name)
            if name not in ("ControllerNotConverged", "NetCalculationNotConverged", "LoadflowNotConverged"):
                ctx.failure("raises", f"run_control raised {name}: {e}", case)
            continue
        ctx.hist("outcome", "returned")
        acted = any(e[0] == "step" for e in tr_.events)
        ctx.count(case["net_json"], nontrivial=acted)
        ctx.sample({"multi_level": multi, "events": [list(e) for e in tr_.events[:12]]}, cap=3)
        check_trace(ctx, net, tr_.events, case, max_iter)
        # all in-service controllers converged on the returned state
        max_level = max(float(min(lv) if hasattr(lv, "__iter__") else lv) for lv in net.controller.level[net.controller.in_service])
        for i in net.controller.index:
            if not bool(net.controller.in_service.at[i]):
                continue
            c = net.controller.object.at[i]
            lv = net.controller.level.at[i]
            lvmin = float(min(lv) if hasattr(lv, "__iter__") else lv)
            with core.quiet():
                conv = bool(type(c).is_converged(c, net))
            if not conv:
                if lvmin < max_level:
                    ctx.failure("multi-level-earlier-level-not-rechecked",
                                f"controller {i} ({type(c).__name__}, level {lvmin}) is not converged on return; a later level "
                                f"({max_level}) acted after its level had finished", case)
                else:
                    ctx.failure("not-converged", f"controller {i} ({type(c).__name__}, level {lvmin}) is not converged on return", case)
        # fresh results
        fresh = copy.deepcopy(net)
        fresh.controller = fresh.controller.iloc[0:0]
        with core.quiet():
            pp.runpp(fresh)
        for tab in ("res_bus", "res_trafo", "res_line"):
            a, b = net[tab].select_dtypes(float).values, fresh[tab].select_dtypes(float).values
            if a.shape != b.shape or not np.allclose(a, b, rtol=1e-7, atol=1e-8, equal_nan=True):
                ctx.failure("stale-results", f"{tab} on return differs from a fresh power flow of the final element state", case)
                break
        # taps in range / discrete post-condition by probing
        for tab in ("trafo", "trafo3w"):
            t = net[tab]
            if len(t) and ((t.tap_pos < t.tap_min - 1e-9) | (t.tap_pos > t.tap_max + 1e-9)).any():
                ctx.failure("tap-range", f"{tab}.tap_pos outside [tap_min, tap_max]: {t[['tap_pos', 'tap_min', 'tap_max']].to_dict('list')}", case)
        for i in net.controller.index:
            c = net.controller.object.at[i]
            if not bool(net.controller.in_service.at[i]) or type(c).__name__ != "DiscreteTapControl":
                continue
            lv = net.controller.level.at[i]
            if float(min(lv) if hasattr(lv, "__iter__") else lv) < max_level:
                continue
            bus = int(c.trafobus)
            vm = float(net.res_bus.vm_pu.at[bus])
            if math.isnan(vm) or c.vm_lower_pu < vm < c.vm_upper_pu:
                continue
            el, ti = c.element, int(c.element_index)
            tp = int(net[el].tap_pos.at[ti])
            dist = lambda v: max(c.vm_lower_pu - v, v - c.vm_upper_pu, 0.0)
            for d in (-1, 1):
                if not (net[el].tap_min.at[ti] <= tp + d <= net[el].tap_max.at[ti]):
                    continue
                probe = copy.deepcopy(fresh)
                probe[el].at[ti, "tap_pos"] = tp + d
                with core.quiet():
                    pp.runpp(probe)
                v2 = float(probe.res_bus.vm_pu.at[bus])
                # only a step with a real tap effect counts (>= 20 % of the nominal step size); second-order effects on a
                # stiff bus (hv-side control) are not "the needed direction" of the property
                if dist(v2) < dist(vm) - 0.2 * abs(float(net[el].tap_step_percent.at[ti])) / 100. and (vm < c.vm_lower_pu) == (v2 > vm):
                    ctx.failure("discrete-post", f"discrete tap controller {i}: voltage {vm:.4f} outside [{c.vm_lower_pu}, {c.vm_upper_pu}] "
                                                 f"at tap {tp}, but the legal step to {tp + d} gives {v2:.4f}", case)
                    break
    # ---- correspondence: discrete tap expressions on fabricated voltages
    net = make_net(rng)
    for side, tside in (("lv", "hv"), ("lv", "lv"), ("hv", "hv"), ("hv", "lv")):
        net.trafo.at[0, "tap_side"] = tside
        with core.quiet():
            net.controller = net.controller.iloc[0:0] if "controller" in net and len(net.controller) else net.controller
            c = ct.DiscreteTapControl(net, 0, 0.98, 1.02, side=side)
            c.initialize_control(net)
        d = int(np.all(c.tap_side_coeff * c.tap_sign == 1))
        for _ in range(ctx.budget(40, 400)):
            vm = rng.choice([float("nan"), 0.95, 0.98, 0.99, 1.0, 1.02, 1.05])
            tp = rng.choice([-4, -3, 0, 3, 4])
            net.trafo.at[0, "tap_pos"] = tp
            net["res_bus"] = pd.DataFrame({"vm_pu": [vm] * len(net.bus)}, index=net.bus.index)
            with core.quiet():
                conv = bool(c.is_converged(net))
                c.control_step(net)
            inc = int(net.trafo.tap_pos.at[0]) - tp
            reqs.append(f"disc {d} {'-' if math.isnan(vm) else core.frac(vm)} {core.frac(0.98)} {core.frac(1.02)} {tp} -4 4")
            expect.append(("disc", f"{inc} {int(conv)}", {"side": side, "tap_side": tside, "vm": vm, "tap": tp}))
    if ctx.cov.get("lean_build_failed") or not reqs:
        return
    resp = core.lean_driver("C13", reqs)
    dis = 0
    def canon_order(txt, case):
        """equal `order` values may run in either order (np.argsort is not stable): sort ids inside equal-order runs"""
        net = case["net"]
        out = []
        for part in txt.split():
            lvl, ids = part.split(":")
            ids = [int(i) for i in ids.split(",") if i != ""]
            ids = sorted(ids, key=lambda i: (int(net.controller.order.at[i]), i))
            out.append(f"{lvl}:{','.join(map(str, ids))}")
        return " ".join(out)
    for rq, r, (kind, want, info) in zip(reqs, resp, expect):
        if kind == "order":
            seq_r = [int(info["net"].controller.order.at[int(i)]) for part in r.split() for i in part.split(":")[1].split(",") if i]
            seq_w = [int(info["net"].controller.order.at[int(i)]) for part in want.split() for i in part.split(":")[1].split(",") if i]
            if seq_r == seq_w:          # same order values position by position: compare ids up to ties
                r, want = canon_order(r, info), canon_order(want, info)
        if r.strip() != want.strip():
            dis += 1
            if dis <= 3:
                ctx.tie_break("correspondence:C13", f"{kind}: model {r!r}, implementation {want!r} for " +
                              (str(info) if kind == "disc" else rq[:200]))
    for _k, _w, info in expect:
        if isinstance(info, dict):
            info.pop("net", None)
    ctx.cov["correspondence_requests"] = len(reqs)
    ctx.cov["disagreements_checked"] = dis
    ctx.sample({"request": reqs[0][:200], "response": resp[0]})
    ctx.assumptions.append("ContinuousTapControl's convergence (|1 - vset/vm| < tol) and the characteristic controllers are exercised by "
                           "the oracle only; equal `order` values within a level may run in either order (np.argsort is not stable)")


def replay(ctx, path):
    print("C13 replays carry the net with its controllers (net_json); re-run ./check C13 with the same VERIF_SEED")
    return 2
