"""C04 — power flow honours set points and element response laws.

proof:   Props/C04.lean: the Q-limit loop (violation tests / fixed values generated from run_newton_raphson_pf.py) ends within
         n+1 rounds for every power-flow function; at the end unlimited generators are within limits at a PV bus, limited
         ones report exactly the limit they violated; the load / shunt result laws generated from results_bus.py and the
         shunt admittance generated from build_bus.py equal the documented laws for all values.
tie:     translator (laws, loop shape) + correspondence: the rounds of the real loop (recorded around ppci_to_pfsoln) are
         replayed through the model: same limited set, same side, same reported reactive powers.
oracle:  result tables only: ext_grid / gen bus voltages vs set points, gen at limit or at set point, limits respected,
         p*scaling / q*scaling of gens, sgens, storages, ZIP law of loads at res_bus.vm_pu, shunt law, nodal balance at
         generator buses (the state behind a limited generator).
"""
import json
import math

import numpy as np

from harness import core, netgen
from harness.props import c01

TOL = 1e-6


def qlim_net(rng):
    """MV feeder / ring with several generators whose reactive ranges bind one after the other"""
    import pandapower as pp
    net = pp.create_empty_network(sn_mva=rng.choice([1., 10., 100.]))
    n = rng.randint(4, 8)
    buses = [pp.create_bus(net, 20.) for _ in range(n)]
    hv = pp.create_bus(net, 110.)
    pp.create_ext_grid(net, hv, vm_pu=rng.choice([1.0, 1.02, 0.99]), va_degree=rng.choice([0., 5., -20.]))
    pp.create_transformer_from_parameters(net, hv, buses[0], 40., 110., 20., 0.3, 12., 20., 0.06, shift_degree=rng.choice([0, 150]))
    for a, b in zip(buses, buses[1:]):
        pp.create_line_from_parameters(net, a, b, rng.choice([3., 6., 10.]), 0.2, 0.35, 10., 0.5)
    if rng.random() < 0.5:
        pp.create_line_from_parameters(net, buses[-1], buses[rng.randint(0, n - 3)], 8., 0.2, 0.35, 10., 0.5)
    for b in buses[1:]:
        if rng.random() < 0.8:
            kw = {}
            if rng.random() < 0.5:
                kw = dict(const_z_p_percent=rng.choice([0., 30.]), const_i_p_percent=rng.choice([0., 20.]),
                          const_z_q_percent=rng.choice([0., 25.]), const_i_q_percent=rng.choice([0., 40.]))
            pp.create_load(net, b, rng.choice([1., 2.5, 4.]), rng.choice([0.5, 1.5, 3., -1.]), scaling=rng.choice([1., 0.8, 1.3]), **kw)
    gb = rng.sample(buses[1:], rng.randint(2, min(4, n - 1)))
    for b in gb:
        qr = rng.choice([0.2, 0.5, 1.0, 2.0])
        pp.create_gen(net, b, rng.choice([0.5, 1.5, 3.]), vm_pu=rng.choice([1.0, 1.01, 1.03, 0.98]), min_q_mvar=-qr * rng.choice([1, 0.5]),
                      max_q_mvar=qr, scaling=rng.choice([1., 0.9]))
    if rng.random() < 0.3:       # second generator at a generator bus (same set point)
        b = gb[0]
        pp.create_gen(net, b, 1.0, vm_pu=float(net.gen.vm_pu[net.gen.bus == b].iloc[0]), min_q_mvar=-0.3, max_q_mvar=0.4)
    if rng.random() < 0.3:
        pp.create_gen(net, rng.choice([b for b in buses[1:] if b not in gb] or [buses[0]]), 0.5, vm_pu=1.0, slack=True,
                      min_q_mvar=-0.1, max_q_mvar=0.1)
    if rng.random() < 0.6:
        b = rng.choice(buses)
        pp.create_shunt(net, b, q_mvar=rng.choice([-0.8, 0.6]), p_mw=rng.choice([0., 0.05]), vn_kv=rng.choice([20., 21., 10.]),
                        step=rng.choice([1, 2, 3]), max_step=3)
    if rng.random() < 0.5:
        pp.create_sgen(net, rng.choice(buses), 0.7, 0.2, scaling=rng.choice([1., 0.5]))
    if rng.random() < 0.4:
        pp.create_storage(net, rng.choice(buses), -0.4, 1.0, q_mvar=0.1, scaling=rng.choice([1., 0.6]))
    return net


def record_rounds(pp, net, opts):
    """runs runpp(enforce_q_lims=True) recording every round of the real loop"""
    import pandapower.pf.run_newton_raphson_pf as nr
    from pandapower.pypower.idx_gen import QG, QMIN, QMAX, GEN_STATUS, GEN_BUS
    rec = {"rounds": []}
    orig_sol, orig_loop = nr.ppci_to_pfsoln, nr._run_ac_pf_with_qlims_enforced

    def sol(ppci, options, limited_gens=None):
        bus, gen, branch = orig_sol(ppci, options, limited_gens)
        lim = [] if limited_gens is None else [int(v) for v in np.asarray(limited_gens).ravel()]
        rec["rounds"].append((lim, gen[:, QG].copy(), gen[:, GEN_STATUS].copy()))
        return bus, gen, branch

    def loop(ppci, options):
        *_, ref_gens = nr._get_pf_variables_from_ppci(ppci)
        rec["ref_gens"] = [int(v) for v in np.asarray(ref_gens).ravel()]
        rec["gen0"] = ppci["gen"][:, [QMIN, QMAX, GEN_STATUS, GEN_BUS]].copy()
        rec["rounds"] = []
        out = orig_loop(ppci, options)
        rec["final_q"] = out[4][:, QG].copy()
        return out
    nr.ppci_to_pfsoln, nr._run_ac_pf_with_qlims_enforced = sol, loop
    try:
        with core.quiet():
            pp.runpp(net, enforce_q_lims=True, **opts)
    finally:
        nr.ppci_to_pfsoln, nr._run_ac_pf_with_qlims_enforced = orig_sol, orig_loop
    return rec


def model_request(rec):
    g0 = rec["gen0"]
    n = g0.shape[0]
    vals = sorted(set(float(v) for v in g0[:, :2].ravel()) | set(float(v) for r in rec["rounds"] for v in r[1]))
    rank = {v: i for i, v in enumerate(vals)}
    toks = ["qlim", str(n)]
    for i in range(n):
        toks += [str(rank[float(g0[i, 0])]), str(rank[float(g0[i, 1])]), "1" if i in rec["ref_gens"] else "0",
                 "1" if g0[i, 2] > 0 else "0", str(int(g0[i, 3]))]
    toks.append(str(len(rec["rounds"])))
    for lim, q, _st in rec["rounds"]:
        toks.append(str(len(lim)))
        toks += [str(rank[float(v)]) for v in q]
    return " ".join(toks), rank


def oracle(ctx, net, opts, case, enforce):
    """documented laws on the result tables only"""
    calc_ang = opts.get("calculate_voltage_angles", True)
    vdl = opts.get("voltage_depend_loads", True)
    rb = net.res_bus
    rep = c01.electrical_nodes(net)
    ref_nodes = {rep[int(b)] for b in net.ext_grid.bus[net.ext_grid.in_service]} | \
                {rep[int(b)] for b in net.gen.bus[net.gen.in_service & net.gen.slack]}

    def bad(key, what):
        ctx.failure(key, what, case)
    # ext_grid set points
    for i, e in net.ext_grid[net.ext_grid.in_service].iterrows():
        others = [j for j in net.ext_grid.index[net.ext_grid.in_service] if rep[int(net.ext_grid.bus.at[j])] == rep[int(e.bus)]]
        if len(others) > 1 or math.isnan(rb.vm_pu.at[e.bus]):
            continue
        if abs(rb.vm_pu.at[e.bus] - e.vm_pu) > 1e-9:
            bad("ext-grid-vm", f"ext_grid {i}: vm_pu set {e.vm_pu!r}, res_bus {rb.vm_pu.at[e.bus]!r}")
        if calc_ang and abs(rb.va_degree.at[e.bus] - e.va_degree) > 1e-9:
            bad("ext-grid-va", f"ext_grid {i}: va_degree set {e.va_degree!r}, res_bus {rb.va_degree.at[e.bus]!r}")
    # gens
    for i, g in net.gen[net.gen.in_service].iterrows():
        vm = float(rb.vm_pu.at[g.bus])
        if math.isnan(vm) or bool(g.slack):
            continue
        rg = net.res_gen.loc[i]
        if abs(rg.p_mw - g.p_mw * g.scaling) > TOL:
            bad("gen-p", f"gen {i}: p_mw*scaling = {g.p_mw * g.scaling!r}, res_gen.p_mw = {rg.p_mw!r}")
        if rep[int(g.bus)] in ref_nodes:
            continue
        same = net.gen[net.gen.in_service & (net.gen.bus.map(lambda b: rep[int(b)]) == rep[int(g.bus)])]
        if len(set(same.vm_pu)) > 1:
            continue
        at_set = abs(vm - g.vm_pu) <= 1e-8
        if not enforce:
            if not at_set:
                bad("gen-vm", f"gen {i}: vm_pu set {g.vm_pu!r}, res_bus {vm!r} (no Q limits enforced)")
            continue
        lo, hi = float(g.min_q_mvar), float(g.max_q_mvar)
        q = float(rg.q_mvar)
        if q > hi + TOL or q < lo - TOL:
            bad("gen-q-outside", f"gen {i}: q_mvar {q!r} outside [{lo}, {hi}] with enforce_q_lims")
        at_lim = abs(q - hi) <= 1e-7 or abs(q - lo) <= 1e-7
        if not at_set and not at_lim:
            bad("gen-neither", f"gen {i}: bus voltage {vm!r} is not the set point {g.vm_pu!r} and q_mvar {q!r} is not at a limit [{lo}, {hi}]")
    # constant-power elements
    for tab in ("sgen", "storage"):
        for i, r in net[tab].iterrows():
            vm = float(rb.vm_pu.at[r.bus])
            if not bool(r.in_service) or math.isnan(vm):
                continue
            res = net["res_" + tab].loc[i]
            if abs(res.p_mw - r.p_mw * r.scaling) > TOL or abs(res.q_mvar - r.q_mvar * r.scaling) > TOL:
                bad(f"{tab}-pq", f"{tab} {i}: p,q * scaling = {r.p_mw * r.scaling!r}, {r.q_mvar * r.scaling!r}; result {res.p_mw!r}, {res.q_mvar!r}")
    for i, r in net.load.iterrows():
        vm = float(rb.vm_pu.at[r.bus])
        if not bool(r.in_service) or math.isnan(vm):
            continue
        f = {c: (float(r[c]) / 100 if c in r and not math.isnan(float(r[c])) else 0.0)
             for c in ("const_z_p_percent", "const_i_p_percent", "const_z_q_percent", "const_i_q_percent")}
        if not vdl:
            fp = fq = 1.0
        else:
            fp = (1 - f["const_z_p_percent"] - f["const_i_p_percent"]) + f["const_i_p_percent"] * vm + f["const_z_p_percent"] * vm ** 2
            fq = (1 - f["const_z_q_percent"] - f["const_i_q_percent"]) + f["const_i_q_percent"] * vm + f["const_z_q_percent"] * vm ** 2
        res = net.res_load.loc[i]
        if abs(res.p_mw - r.p_mw * r.scaling * fp) > TOL or abs(res.q_mvar - r.q_mvar * r.scaling * fq) > TOL:
            bad("load-law", f"load {i} at v = {vm!r}: law gives {r.p_mw * r.scaling * fp!r}, {r.q_mvar * r.scaling * fq!r}; "
                            f"result {res.p_mw!r}, {res.q_mvar!r}")
    for i, r in net.shunt.iterrows():
        vm = float(rb.vm_pu.at[r.bus])
        if not bool(r.in_service) or math.isnan(vm):
            continue
        vn = float(r.vn_kv) if not math.isnan(float(r.vn_kv)) else float(net.bus.vn_kv.at[r.bus])
        k = float(r.step) * (vm * float(net.bus.vn_kv.at[r.bus]) / vn) ** 2
        res = net.res_shunt.loc[i]
        if abs(res.p_mw - r.p_mw * k) > TOL or abs(res.q_mvar - r.q_mvar * k) > TOL:
            bad("shunt-law", f"shunt {i} at v = {vm!r}: law gives {r.p_mw * k!r}, {r.q_mvar * k!r}; result {res.p_mw!r}, {res.q_mvar!r}")
    # the state behind the reported generator powers: nodal balance at generator nodes
    acc, rep2 = c01.node_balance(net)
    for b in set(net.gen.bus[net.gen.in_service]):
        node = rep2[int(b)]
        if node not in acc or math.isnan(float(rb.vm_pu.at[b])):
            continue
        if c01.classify(net, node, rep2, vdl) != "balance":
            continue          # (the recorded ZIP findings of C01)
        p, q = acc[node][0], acc[node][1]
        if abs(p) > 1e-5 or abs(q) > 1e-5:
            bad("gen-node-balance", f"generator node {node}: reported powers leave {p!r} MW / {q!r} Mvar unbalanced "
                                    f"(the network state does not contain the reported generator power)")


def run(ctx):
    import pandapower as pp
    from translate import c04 as tr
    ctx.cov["rule"] = ("case = generated net (feeders with 2-5 generators whose reactive ranges bind in sequence, ZIP loads with "
                       "scaling, stepped shunts with own rated voltage, sgens, storages; plus the general generator) x "
                       "enforce_q_lims on/off x options; non-trivial = converged with >= 1 generator limited (loop cases) "
                       "or >= 3 checked element laws")
    ctx.regenerate("C04", lambda: tr.render(tr.extract(core.REPO)))
    ctx.prove()
    rng = ctx.rng
    reqs, meta = [], []
    for k in range(ctx.budget(40, 600)):
        special = rng.random() < 0.7
        net = qlim_net(rng) if special else netgen.random_net(rng, dcline=False, slack_gen=rng.random() < 0.2)
        if rng.random() < 0.3 and len(net.ext_grid) == 1:
            # an out-of-service ext_grid stored before the in-service one, with another set point
            e0 = int(net.ext_grid.index[0])
            pp.create_ext_grid(net, int(net.ext_grid.bus.at[e0]), vm_pu=float(net.ext_grid.vm_pu.at[e0]), va_degree=float(net.ext_grid.va_degree.at[e0]))
            net.ext_grid.at[e0, "in_service"] = False
            net.ext_grid.at[e0, "vm_pu"] = 0.97 if float(net.ext_grid.vm_pu.at[e0]) > 1.0 else 1.04
        enforce = rng.random() < 0.7
        opts = dict(calculate_voltage_angles=rng.random() < 0.8, voltage_depend_loads=rng.random() < 0.6,
                    numba=rng.random() < 0.5, trafo_model=rng.choice(["t", "pi"]))
        case = {"options": opts, "enforce_q_lims": enforce, "net_json": pp.to_json(net)}
        rec = None
        try:
            if enforce:
                rec = record_rounds(pp, net, opts)
            else:
                with core.quiet():
                    pp.runpp(net, **opts)
        except Exception as e:       # noqa
            ctx.hist("run", type(e).__name__)
            continue
        n_lim = len(rec["rounds"][-1][0]) if rec and rec["rounds"] else 0
        ctx.hist("run", f"enforce={enforce}")
        if rec:
            ctx.hist("rounds", len(rec["rounds"]))
            ctx.hist("limited", n_lim)
        ctx.count(case["net_json"] + json.dumps(opts) + str(enforce), nontrivial=(n_lim >= 1) or not enforce)
        oracle(ctx, net, opts, case, enforce)
        ctx.sample({"options": opts, "enforce": enforce, "rounds": len(rec["rounds"]) if rec else None, "limited": n_lim}, cap=4)
        if rec and rec["rounds"]:
            rq, rank = model_request(rec)
            reqs.append(rq)
            meta.append((rec, rank, case))
    if ctx.cov.get("lean_build_failed") or not reqs:
        return
    resp = core.lean_driver("C04", reqs)
    dis = 0
    for rq, r, (rec, rank, case) in zip(reqs, resp, meta):
        g0 = rec["gen0"]
        lim_real = rec["rounds"][-1][0]
        fq = rec["final_q"]
        want_lim = sorted(f"{i}:{'M' if fq[i] == g0[i, 1] else ('m' if fq[i] == g0[i, 0] else '?')}" for i in lim_real)
        if not r.startswith("done"):
            dis += 1
            ctx.tie_break("correspondence:C04-qlim", f"model answers {r!r} where the implementation finished with limited = {want_lim}; request {rq}")
            continue
        parts = [p.strip() for p in r[4:].split("|")]
        got_lim = sorted(parts[0].split())
        # reported Q of every generator that is on and not reference (ranks are exact images of the floats)
        inv = {v: k_ for k_, v in rank.items()}
        rep_m = [inv[int(t)] for t in parts[1].split()]
        diff_q = [i for i in range(g0.shape[0]) if g0[i, 2] > 0 and i not in rec["ref_gens"] and rep_m[i] != float(fq[i])]
        if got_lim != want_lim or diff_q:
            dis += 1
            ctx.tie_break("correspondence:C04-qlim", f"limited sets: model {got_lim}, implementation {want_lim}; generators with a "
                          f"different reported Q: {diff_q}; request {rq}")
    ctx.cov["correspondence"] = {"requests": len(reqs), "disagreements": dis}
    ctx.assumptions.append("slack generators and generators at reference nodes are outside the Q-limit statement (the loop excludes "
                           "ref_gens); generators sharing a node with different set points are skipped; enforce_q_lims=True "
                           "(the one-at-a-time mode 2 of PYPOWER is not reachable through the documented bool option)")


def replay(ctx, path):
    import pandapower as pp
    with open(path) as f:
        case = json.load(f)["replay"]
    net = pp.from_json_string(case["net_json"])
    with core.quiet():
        pp.runpp(net, enforce_q_lims=case["enforce_q_lims"], **case["options"])

    class C:
        failures = []

        def failure(self, key, what, replay):
            self.failures.append((key, what))
    c = C()
    oracle(c, net, case["options"], case, case["enforce_q_lims"])
    for k, w in c.failures:
        print("differs:", k, w)
    return 1 if c.failures else 0
