"""C28 — grid equivalents reproduce the internal operating point.

proof:   Props/C28.lean: Kron reduction (ward equivalent) keeps the internal / boundary part of every solution of the nodal
         system and every reduced solution extends to a full one, for matrices of any size over any field; generated fact:
         get_equivalent copies the caller's net before any helper sees it.
tie:     translator (statement order) + hypothesis check on the implementation: the nodal system of the original net (Ybus, V)
         reduced with numpy reproduces the boundary injections (the Kron step itself), independent of the library's code.
oracle:  generated meshed nets with a boundary cut: ward / xward / rei equivalents from get_equivalent give, in a power flow, the
         internal and boundary bus voltages of the original; the original net object is unchanged (exact table snapshot).
"""
import copy
import json
import math

import numpy as np
import pandas as pd

from harness import core
from harness.props import c08


def eq_net(rng, pp):
    net = pp.create_empty_network(sn_mva=rng.choice([1., 10., 100.]))
    n = rng.randint(8, 12)
    b = [pp.create_bus(net, 110.) for _ in range(n)]

    def line(a, c, km):
        pp.create_line_from_parameters(net, a, c, km, 0.06, 0.4, rng.choice([0., 9.5]), 0.6)
    for i in range(n):
        line(b[i], b[(i + 1) % n], 8 + i)
    for _ in range(rng.randint(1, 3)):
        a, c = rng.sample(range(n), 2)
        if abs(a - c) not in (0, 1, n - 1):
            line(b[a], b[c], 15)
    pp.create_ext_grid(net, b[0], rng.choice([1.0, 1.02]), 0.)
    for i in range(1, n):
        if rng.random() < 0.8:
            pp.create_load(net, b[i], rng.choice([6., 10., 15.]), rng.choice([1., 3., 5.]))
    for _ in range(rng.randint(0, 2)):
        pp.create_sgen(net, b[rng.randint(1, n - 1)], rng.choice([5., 9.]), rng.choice([-1., 1.]))
    # boundary: two buses splitting the ring; internal side contains the ext_grid
    k1 = rng.randint(2, n // 2)
    k2 = rng.randint(k1 + 2, n - 1)
    boundary = [b[k1], b[k2]]
    internal = [b[i] for i in range(n) if i < k1 or i > k2]
    external = [b[i] for i in range(k1 + 1, k2)]
    if external and rng.random() < 0.7:
        pp.create_gen(net, rng.choice(external), rng.choice([10., 20.]), vm_pu=rng.choice([1.0, 1.01]))
    if rng.random() < 0.5:
        # generator at a boundary bus, possibly out of service with a set point away from the solved voltage
        pp.create_gen(net, boundary[0], 8., vm_pu=rng.choice([1.04, 0.97]), in_service=rng.random() < 0.4)
    if rng.random() < 0.4:
        a, c = rng.sample(internal if len(internal) > 1 else b, 2) if len(internal) > 1 else (b[1], b[2])
        pp.create_dcline(net, a, c, p_mw=3., loss_percent=1., loss_mw=0.1, vm_from_pu=1.0, vm_to_pu=1.0, in_service=rng.random() < 0.7)
    # chords must not jump over the boundary: remove lines that connect internal directly to external
    ext, inn = set(external), set(internal)
    drop = [i for i, l in net.line.iterrows() if (l.from_bus in ext and l.to_bus in inn) or (l.from_bus in inn and l.to_bus in ext)]
    if drop:
        pp.drop_lines(net, drop)
    return net, boundary, internal, external


def run(ctx):
    import pandapower as pp
    from pandapower.grid_equivalents.get_equivalent import get_equivalent
    from translate import c28 as tr
    ctx.cov["rule"] = ("case = generated meshed 110 kV net cut at two boundary buses (generators in the external area and at boundary "
                       "buses, also out of service; dclines; several sn_mva) x {ward, xward, rei}; non-trivial = equivalent returned "
                       "and its power flow converged")
    ctx.regenerate("C28", lambda: tr.render(tr.extract(core.REPO)))
    ctx.prove()
    rng = ctx.rng
    for k in range(ctx.budget(18, 200)):
        net, boundary, internal, external = eq_net(rng, pp)
        if not external or not internal:
            continue
        try:
            with core.quiet():
                pp.runpp(net, calculate_voltage_angles=True)
        except Exception as e:       # noqa
            ctx.hist("run", "original:" + type(e).__name__)
            continue
        eq_type = ["ward", "xward", "rei"][k % 3]
        case = {"net_json": pp.to_json(net), "eq_type": eq_type, "boundary": [int(x) for x in boundary], "internal": [int(x) for x in internal]}
        snap = c08.snapshot(net)
        res_snap = net.res_bus.copy()
        try:
            with core.quiet():
                eq = get_equivalent(net, eq_type, boundary, internal, calculate_voltage_angles=True)
        except Exception as e:       # noqa
            ctx.hist("equivalent", f"{eq_type}:{type(e).__name__}")
            ctx.count(case["net_json"] + eq_type, nontrivial=True)
            ctx.failure(f"raises:{eq_type}", f"get_equivalent({eq_type}) raised {type(e).__name__}: {str(e)[:140]}", case)
            continue
        d = c08.diff(snap, net)
        if d:
            ctx.failure(f"original-changed:{eq_type}", f"get_equivalent({eq_type}) changed the original net: {d[:3]}", case)
        if not net.res_bus.equals(res_snap):
            ctx.failure(f"original-results-changed:{eq_type}", "get_equivalent changed res_bus of the original net", case)
        if eq is None:
            ctx.hist("equivalent", f"{eq_type}:None")
            continue
        try:
            with core.quiet():
                pp.runpp(eq, calculate_voltage_angles=True)
        except Exception as e:       # noqa
            ctx.failure(f"equivalent-not-solvable:{eq_type}", f"power flow of the {eq_type} equivalent raised {type(e).__name__}", case)
            continue
        ctx.hist("equivalent", f"{eq_type}:ok")
        ctx.count(case["net_json"] + eq_type, nontrivial=True)
        for bq in list(internal) + list(boundary):
            if bq not in eq.res_bus.index:
                ctx.failure(f"bus-missing:{eq_type}", f"bus {bq} is missing in the {eq_type} equivalent", case)
                break
            vm0, va0 = float(net.res_bus.vm_pu.at[bq]), float(net.res_bus.va_degree.at[bq])
            vm1, va1 = float(eq.res_bus.vm_pu.at[bq]), float(eq.res_bus.va_degree.at[bq])
            if abs(vm0 - vm1) > 1e-6 or abs(va0 - va1) > 1e-4:
                sgen_b = set(int(x) for x in net.sgen.bus[net.sgen.in_service]) & set(int(x) for x in external)
                key = "rei-external-sgen" if (eq_type == "rei" and sgen_b) else f"voltage:{eq_type}"
                ctx.failure(key, f"bus {bq}: original vm {vm0!r} va {va0!r}, {eq_type} equivalent vm {vm1!r} va {va1!r} "
                                                  f"(gens {net.gen[['bus', 'vm_pu', 'in_service']].values.tolist()})", case)
                break
        # the Kron step itself, with numpy on the original's nodal system (hypothesis of the theorem on the implementation)
        ppci = net._ppc["internal"]
        if "Ybus" in ppci and "V" in ppci:
            Y, V = ppci["Ybus"].toarray(), ppci["V"]
            lk = net._pd2ppc_lookups["bus"]
            ext_i = sorted(set(int(lk[x]) for x in external))
            keep = [i for i in range(Y.shape[0]) if i not in ext_i]
            try:
                Yee_inv = np.linalg.inv(Y[np.ix_(ext_i, ext_i)])
                Yred = Y[np.ix_(keep, keep)] - Y[np.ix_(keep, ext_i)] @ Yee_inv @ Y[np.ix_(ext_i, keep)]
                I = Y @ V
                lhs = Yred @ V[keep]
                rhs = I[keep] - Y[np.ix_(keep, ext_i)] @ Yee_inv @ I[ext_i]
                if np.max(np.abs(lhs - rhs)) > 1e-8 * max(1.0, np.max(np.abs(I))):
                    ctx.tie_break("hypothesis:C28", "the original's nodal system does not satisfy the Kron reduction identity numerically")
            except np.linalg.LinAlgError:
                pass
        ctx.sample({"eq_type": eq_type, "buses": len(net.bus), "external": len(external)}, cap=4)
    ctx.assumptions.append("boundary = two buses cutting a ring (plus chords inside each side); tolerances 1e-6 pu / 1e-4 degree; "
                           "only the static equivalents of get_equivalent (no adapt_va_degree, default ward_type)")


def replay(ctx, path):
    print("C28 replays carry net_json, the equivalent type and the bus sets; re-run ./check C28 with the same VERIF_SEED")
    return 2
