"""C24 — batch creation equals repeated single creation.

proof:   Props/C24.lean — (a) std-type row model: batch row = single row for every std type and argument vector,
         from inclusion of the std-type key lists; (b) accept/reject model: the batch call rejects iff some single
         call of the sequence rejects (buses, indices, duplicate costs).
tie:     correspondence: model rows / model verdicts vs the implementation (both single and batch) on random
         std types (sentinel values) and random argument vectors.
oracle:  differential: batch call vs sequence of single calls on two copies of the same net; compare rows on all
         non-cosmetic columns and accept/reject.
"""
import copy
import json
import math

import numpy as np
import pandas as pd

from harness import core

COSMETIC = {"name", "geo", "coords"}


def _vals(rng, choices):
    return lambda: rng.choice(choices)


def base_net():
    import pandapower as pp
    net = pp.create_empty_network()
    for vn in (110., 110., 20., 20., 20., 0.4, 10.):
        pp.create_bus(net, vn)
    pp.create_bus(net, 20., index=12)
    pp.create_ext_grid(net, 0)
    # element tables are deliberately NOT densely indexed (gaps, indices above the row count)
    pp.create_line(net, 2, 3, 1.0, "NAYY 4x50 SE")
    pp.create_line(net, 3, 4, 1.0, "NAYY 4x50 SE")
    pp.create_line(net, 2, 4, 1.0, "NAYY 4x50 SE", index=6)
    pp.create_transformer(net, 0, 2, "25 MVA 110/20 kV", index=3)
    pp.create_transformer3w(net, 1, 4, 6, "63/25/38 MVA 110/20/10 kV", index=2)
    pp.create_gen(net, 3, 1.0)
    pp.create_gen(net, 4, 1.0)
    pp.create_load(net, 4, 1.0)
    pp.create_load(net, 5, 0.1, index=7)
    pp.create_sgen(net, 3, 0.5, index=4)
    pp.create_storage(net, 4, 0.1, 1.0, index=5)
    pp.create_shunt(net, 3, 0.1, index=3)
    pp.create_ward(net, 3, 0.1, 0.1, 0.1, 0.1, index=2)
    pp.create_impedance(net, 2, 3, 0.01, 0.01, 10., index=4)
    pp.create_switch(net, 2, 3, "b", index=9)
    pp.create_bus_dc(net, 100.) if hasattr(pp, "create_bus_dc") else None
    pp.create_bus_dc(net, 100.) if hasattr(pp, "create_bus_dc") else None
    return net


def specs(rng):
    """pair specifications. Each parameter: name -> generator of one per-element value."""
    r = rng
    f = lambda lo, hi, nd=3: (lambda: round(r.uniform(lo, hi), nd))
    c = lambda *xs: (lambda: r.choice(xs))
    mvbus = c(2, 3, 4)
    S = {}
    S["bus"] = dict(single="create_bus", batch="create_buses", table="bus", count="nr_buses", ren={},
                    req={"vn_kv": c(0.4, 10., 20., 110.)},
                    opt={"type": c("b", "n", "m"), "zone": c(None, "z1", 3), "in_service": c(True, False),
                         "max_vm_pu": f(1.05, 1.1, 2), "min_vm_pu": f(0.9, 0.95, 2)})
    S["line"] = dict(single="create_line", batch="create_lines", table="line",
                     ren={"from_bus": "from_buses", "to_bus": "to_buses"}, shared={"std_type"},
                     req={"from_bus": c(2, 3), "to_bus": c(3, 4), "length_km": f(0.1, 5, 2),
                          "std_type": c("NAYY 4x50 SE", "149-AL1/24-ST1A 110.0", "NA2XS2Y 1x240 RM/25 12/20 kV", "verif_line")},
                     opt={"df": f(0.5, 1, 2), "parallel": c(1, 2, 3), "in_service": c(True, False),
                          "max_loading_percent": f(50, 100, 0)})
    S["line_par"] = dict(single="create_line_from_parameters", batch="create_lines_from_parameters", table="line",
                         ren={"from_bus": "from_buses", "to_bus": "to_buses"},
                         req={"from_bus": c(2, 3), "to_bus": c(3, 4), "length_km": f(0.1, 5, 2),
                              "r_ohm_per_km": f(0.05, 0.6), "x_ohm_per_km": f(0.05, 0.4), "c_nf_per_km": f(0, 300, 0),
                              "max_i_ka": f(0.1, 0.9, 2)},
                         opt={"type": c("cs", "ol", None), "in_service": c(True, False), "df": f(0.5, 1, 2),
                              "parallel": c(1, 2), "g_us_per_km": f(0, 4, 1), "max_loading_percent": f(50, 100, 0),
                              "alpha": f(0.003, 0.005, 4), "temperature_degree_celsius": f(20, 80, 0),
                              "r0_ohm_per_km": f(0.1, 1), "x0_ohm_per_km": f(0.1, 1), "c0_nf_per_km": f(0, 300, 0),
                              "g0_us_per_km": f(0, 2, 1)})
    S["trafo"] = dict(single="create_transformer", batch="create_transformers", table="trafo",
                      ren={"hv_bus": "hv_buses", "lv_bus": "lv_buses"}, shared={"std_type"},
                      req={"hv_bus": c(0, 1), "lv_bus": mvbus,
                           "std_type": c("25 MVA 110/20 kV", "40 MVA 110/20 kV", "63 MVA 110/10 kV", "verif_trafo", "verif_trafo_tap2")},
                      opt={"tap_pos": c(-2, 0, 3), "in_service": c(True, False), "max_loading_percent": f(50, 100, 0),
                           "parallel": c(1, 2), "df": f(0.5, 1, 2), "tap_changer_type": c("Ratio", "Symmetrical", "Ideal"),
                           "pt_percent": f(0, 5, 1), "oltc": c(True, False), "xn_ohm": f(0, 1, 2), "tap2_pos": c(-1, 1)})
    S["trafo_par"] = dict(single="create_transformer_from_parameters", batch="create_transformers_from_parameters",
                          table="trafo", ren={"hv_bus": "hv_buses", "lv_bus": "lv_buses"},
                          req={"hv_bus": c(0, 1), "lv_bus": mvbus, "sn_mva": c(25., 40.), "vn_hv_kv": c(110., 115.),
                               "vn_lv_kv": c(20., 21.), "vkr_percent": f(0.2, 1, 2), "vk_percent": f(5, 15, 1),
                               "pfe_kw": f(0, 30, 0), "i0_percent": f(0, 0.2, 2)},
                          opt={"shift_degree": c(0, 30, 150), "tap_side": c("hv", "lv"), "tap_neutral": c(0,),
                               "tap_max": c(9,), "tap_min": c(-9,), "tap_step_percent": f(0.5, 2.5, 1),
                               "tap_step_degree": c(0., 1.), "tap_pos": c(-3, 0, 4),
                               "tap_changer_type": c("Ratio", "Symmetrical", "Ideal"), "in_service": c(True, False),
                               "vector_group": c("Dyn", "YNyn"), "max_loading_percent": f(50, 100, 0),
                               "parallel": c(1, 2), "df": f(0.5, 1, 2), "vk0_percent": f(5, 15, 1),
                               "vkr0_percent": f(0.2, 1, 2), "mag0_percent": f(10, 100, 0), "mag0_rx": f(0, 1, 1),
                               "si0_hv_partial": f(0.1, 0.9, 1), "pt_percent": f(0, 5, 1), "oltc": c(True, False),
                               "xn_ohm": f(0, 1, 2), "tap2_side": c("hv", "lv"), "tap2_neutral": c(0,),
                               "tap2_max": c(5,), "tap2_min": c(-5,), "tap2_step_percent": f(0.5, 2, 1),
                               "tap2_step_degree": c(0., 2.), "tap2_pos": c(-1, 2), "tap2_changer_type": c("Ratio", "Ideal")})
    S["trafo3w"] = dict(single="create_transformer3w", batch="create_transformers3w", table="trafo3w",
                        ren={"hv_bus": "hv_buses", "mv_bus": "mv_buses", "lv_bus": "lv_buses"}, shared={"std_type"},
                        req={"hv_bus": c(0, 1), "mv_bus": mvbus, "lv_bus": c(6,),
                             "std_type": c("63/25/38 MVA 110/20/10 kV", "63/25/38 MVA 110/10/10 kV", "verif_trafo3w")},
                        opt={"tap_pos": c(-2, 0, 3), "in_service": c(True, False), "max_loading_percent": f(50, 100, 0),
                             "tap_at_star_point": c(True, False), "tap_changer_type": c("Ratio", "Symmetrical", "Ideal")})
    S["load"] = dict(single="create_load", batch="create_loads", table="load", ren={"bus": "buses"},
                     req={"bus": c(2, 3, 4, 5), "p_mw": f(0, 3, 2)},
                     opt={"q_mvar": f(-1, 1, 2), "const_z_p_percent": c(0, 30, 100), "const_i_p_percent": c(0, 20),
                          "const_z_q_percent": c(0, 30), "const_i_q_percent": c(0, 20), "sn_mva": f(1, 4, 1),
                          "scaling": f(0.5, 1.5, 1), "in_service": c(True, False), "type": c("wye", "delta"),
                          "max_p_mw": f(3, 4, 1), "min_p_mw": f(0, 1, 1), "max_q_mvar": f(1, 2, 1),
                          "min_q_mvar": f(-2, -1, 1), "controllable": c(True, False)})
    S["sgen"] = dict(single="create_sgen", batch="create_sgens", table="sgen", ren={"bus": "buses"},
                     req={"bus": c(2, 3, 4, 5), "p_mw": f(0, 3, 2)},
                     opt={"q_mvar": f(-1, 1, 2), "sn_mva": f(1, 4, 1), "scaling": f(0.5, 1.5, 1),
                          "type": c("wye", "PV"), "in_service": c(True, False), "max_p_mw": f(3, 4, 1),
                          "min_p_mw": f(0, 1, 1), "max_q_mvar": f(1, 2, 1), "min_q_mvar": f(-2, -1, 1),
                          "controllable": c(True, False), "k": f(1, 1.5, 1), "rx": f(0.1, 0.5, 1),
                          "current_source": c(True, False), "max_ik_ka": f(0.1, 1, 1), "kappa": f(1, 2, 1),
                          "lrc_pu": f(3, 6, 0)})
    S["gen"] = dict(single="create_gen", batch="create_gens", table="gen", ren={"bus": "buses"},
                    req={"bus": c(2, 3, 4), "p_mw": f(0, 3, 2)},
                    opt={"vm_pu": f(0.98, 1.04, 2), "sn_mva": f(1, 4, 1), "max_q_mvar": f(1, 2, 1),
                         "min_q_mvar": f(-2, -1, 1), "min_p_mw": f(0, 1, 1), "max_p_mw": f(3, 4, 1),
                         "min_vm_pu": f(0.9, 0.95, 2), "max_vm_pu": f(1.05, 1.1, 2), "scaling": f(0.5, 1.5, 1),
                         "type": c("sync", None), "slack": c(True, False), "controllable": c(True, False),
                         "vn_kv": c(20., 21.), "xdss_pu": f(0.1, 0.3, 2), "rdss_ohm": f(0.01, 0.1, 2),
                         "cos_phi": f(0.8, 1, 2), "pg_percent": f(0, 10, 0), "in_service": c(True, False),
                         "slack_weight": f(0, 2, 1)})
    S["storage"] = dict(single="create_storage", batch="create_storages", table="storage", ren={"bus": "buses"},
                        req={"bus": c(2, 3, 4, 5), "p_mw": f(-1, 1, 2), "max_e_mwh": f(1, 10, 0)},
                        opt={"q_mvar": f(-1, 1, 2), "sn_mva": f(1, 4, 1), "soc_percent": f(0, 100, 0),
                             "min_e_mwh": f(0, 1, 1), "scaling": f(0.5, 1.5, 1), "type": c("bat", None),
                             "in_service": c(True, False), "max_p_mw": f(1, 2, 1), "min_p_mw": f(-2, -1, 1),
                             "max_q_mvar": f(1, 2, 1), "min_q_mvar": f(-2, -1, 1), "controllable": c(True, False)})
    S["shunt"] = dict(single="create_shunt", batch="create_shunts", table="shunt", ren={"bus": "buses"},
                      req={"bus": c(2, 3, 4, 5), "q_mvar": f(-1, 1, 2)},
                      opt={"p_mw": f(0, 0.1, 2), "vn_kv": c(20., 21., 0.4), "step": c(1, 2), "max_step": c(2, 3),
                           "in_service": c(True, False)})
    S["ward"] = dict(single="create_ward", batch="create_wards", table="ward", ren={"bus": "buses"},
                     req={"bus": c(2, 3, 4, 5), "ps_mw": f(-1, 1, 2), "qs_mvar": f(-1, 1, 2), "pz_mw": f(0, 1, 2),
                          "qz_mvar": f(-1, 1, 2)},
                     opt={"in_service": c(True, False)})
    S["switch_b"] = dict(single="create_switch", batch="create_switches", table="switch",
                         ren={"bus": "buses", "element": "elements"}, shared={"et"},
                         req={"bus": c(2, 3), "element": c(3, 4), "et": c("b",)},
                         opt={"closed": c(True, False), "type": c("CB", "LBS", None), "z_ohm": f(0, 0.1, 2),
                              "in_ka": f(0.1, 1, 1)})
    S["switch_l"] = dict(single="create_switch", batch="create_switches", table="switch",
                         ren={"bus": "buses", "element": "elements"}, shared={"et"},
                         req={"bus": c(3,), "element": c(0, 1), "et": c("l",)},
                         opt={"closed": c(True, False), "type": c("CB", None), "z_ohm": f(0, 0.1, 2)})
    S["impedance"] = dict(single="create_impedance", batch="create_impedances", table="impedance",
                          ren={"from_bus": "from_buses", "to_bus": "to_buses"},
                          req={"from_bus": c(2, 3), "to_bus": c(3, 4), "rft_pu": f(0.01, 0.1), "xft_pu": f(0.01, 0.1),
                               "sn_mva": c(10., 100.)},
                          opt={"rtf_pu": f(0.01, 0.1), "xtf_pu": f(0.01, 0.1), "in_service": c(True, False),
                               "rft0_pu": f(0.01, 0.1), "xft0_pu": f(0.01, 0.1), "gf_pu": f(0, 0.01), "bf_pu": f(0, 0.01),
                               "gt_pu": f(0, 0.01), "bt_pu": f(0, 0.01)})
    S["poly_cost"] = dict(single="create_poly_cost", batch="create_poly_costs", table="poly_cost",
                          ren={"element": "elements"}, shared=set(), distinct=("element", "et"),
                          req={"element": c(0, 1), "et": c("gen", "load", "sgen", "ext_grid"),
                               "cp1_eur_per_mw": f(-5, 20, 1)},
                          opt={"cp0_eur": f(0, 5, 1), "cq1_eur_per_mvar": f(0, 2, 1), "cq0_eur": f(0, 1, 1),
                               "cp2_eur_per_mw2": f(0, 1, 2), "cq2_eur_per_mvar2": f(0, 1, 2)})
    S["pwl_cost"] = dict(single="create_pwl_cost", batch="create_pwl_costs", table="pwl_cost",
                         ren={"element": "elements"}, shared=set(), distinct=("element", "et"),
                         req={"element": c(0, 1), "et": c("gen", "load", "sgen"),
                              "points": c([[0, 1, 2.0], [1, 3, 4.0]], [[-5, 5, 1.5]], [[0, 2, 1.0], [2, 4, 3.0], [4, 6, 5.0]])},
                         opt={"power_type": c("p", "q")})
    return S


def add_custom_types(net):
    """std types with values on *every* key the single-creation functions know (sentinel-like, distinct values)"""
    import pandapower as pp
    pp.create_std_type(net, {"r_ohm_per_km": 0.211, "x_ohm_per_km": 0.123, "c_nf_per_km": 211., "max_i_ka": 0.321,
                             "g_us_per_km": 1.5, "type": "cs", "q_mm2": 150., "alpha": 0.00403, "voltage_rating": "MV",
                             "r0_ohm_per_km": 0.611, "x0_ohm_per_km": 0.523, "c0_nf_per_km": 98.,
                             "endtemp_degree": 250.}, "verif_line", "line")
    t = {"sn_mva": 31.5, "vn_hv_kv": 112., "vn_lv_kv": 21., "vk_percent": 11.7, "vkr_percent": 0.37, "pfe_kw": 17.,
         "i0_percent": 0.07, "shift_degree": 150, "vector_group": "Dyn5", "tap_side": "hv", "tap_neutral": 1,
         "tap_min": -8, "tap_max": 10, "tap_step_degree": 0.5, "tap_step_percent": 1.3, "tap_changer_type": "Ratio",
         "vk0_percent": 10.1, "vkr0_percent": 0.31, "mag0_percent": 90., "mag0_rx": 0.4, "si0_hv_partial": 0.7}
    pp.create_std_type(net, dict(t), "verif_trafo", "trafo")
    t2 = dict(t)
    t2.update({"tap2_side": "lv", "tap2_neutral": 0, "tap2_min": -3, "tap2_max": 3, "tap2_step_percent": 0.9,
               "tap2_step_degree": 0., "tap2_changer_type": "Ratio"})
    pp.create_std_type(net, t2, "verif_trafo_tap2", "trafo")
    pp.create_std_type(net, {"sn_hv_mva": 60., "sn_mv_mva": 30., "sn_lv_mva": 30., "vn_hv_kv": 112., "vn_mv_kv": 21.,
                             "vn_lv_kv": 10.5, "vk_hv_percent": 10.3, "vk_mv_percent": 10.7, "vk_lv_percent": 10.9,
                             "vkr_hv_percent": 0.27, "vkr_mv_percent": 0.33, "vkr_lv_percent": 0.36, "pfe_kw": 33.,
                             "i0_percent": 0.08, "shift_mv_degree": 30, "shift_lv_degree": 150,
                             "vector_group": "YN0yn0d5", "tap_side": "hv", "tap_neutral": 1, "tap_min": -7,
                             "tap_max": 9, "tap_step_percent": 1.1, "tap_step_degree": 0.3,
                             "tap_changer_type": "Ratio", "vk0_hv_percent": 9.1, "vk0_mv_percent": 9.2,
                             "vk0_lv_percent": 9.3, "vkr0_hv_percent": 0.21, "vkr0_mv_percent": 0.22,
                             "vkr0_lv_percent": 0.23}, "verif_trafo3w", "trafo3w")


def gen_case(rng, spec, n):
    """returns (list of per-element kwargs for the single calls, batch kwargs)"""
    shared = spec.get("shared", set())
    req = dict(spec["req"])
    elems = []
    chosen_opt = [k for k in spec["opt"] if rng.random() < 0.35]
    shared_vals = {k: req[k]() for k in shared}
    scalar_opt = {k: spec["opt"][k]() for k in chosen_opt if rng.random() < 0.3}   # passed as scalar to the batch call
    seen = set()
    for i in range(n):
        for _ in range(20):
            kw = {}
            for k, g in req.items():
                kw[k] = shared_vals[k] if k in shared else g()
            d = spec.get("distinct")
            key = tuple(repr(kw[x]) for x in d) if d else None
            if d is None or key not in seen:
                seen.add(key)
                break
        for k in chosen_opt:
            kw[k] = scalar_opt[k] if k in scalar_opt else spec["opt"][k]()
        elems.append(kw)
    ren = spec["ren"]
    batch = {}
    for k in elems[0]:
        bk = ren.get(k, k)
        if k in shared:
            batch[bk] = elems[0][k]
        elif k in scalar_opt:
            batch[bk] = scalar_opt[k]
        else:
            batch[bk] = [e[k] for e in elems]
    if "count" in spec:
        batch[spec["count"]] = n
    return elems, batch


def call_single(pp, net, spec, elems, index=None):
    fn = getattr(pp, spec["single"])
    for i, kw in enumerate(elems):
        kw = dict(kw)
        if index is not None:
            kw["index"] = index[i]
        fn(net, **kw)


def call_batch(pp, net, spec, batch, index=None):
    fn = getattr(pp, spec["batch"])
    kw = dict(batch)
    if index is not None:
        kw["index"] = list(index)
    fn(net, **kw)


def _norm(v):
    if isinstance(v, np.generic):
        v = v.item()
    if v is None or v is pd.NA or v is pd.NaT:
        return None
    if isinstance(v, float) and math.isnan(v):
        return None
    if isinstance(v, bool):
        return v
    if isinstance(v, (int, float)):
        return float(v)
    if isinstance(v, (list, tuple, np.ndarray)):
        return json.dumps(np.asarray(v, dtype=object).tolist(), default=str)
    return v


def new_rows(net, table, old_index):
    df = net[table]
    rows = df.loc[[i for i in df.index if i not in old_index]]
    out = []
    for idx, r in rows.iterrows():
        out.append((idx, {c: _norm(r[c]) for c in df.columns if c not in COSMETIC}))
    return out


# values that mean the same: documented defaults written by one variant and left absent by the other
EQUIV = {("sgen", "generator_type"): (None, "current_source"),      # None is treated as current_source everywhere
         ("switch_b", "type"): (None, ""), ("switch_l", "type"): (None, "")}   # switch type is a label, not electrical


def rows_diff(rs, rb, pair=""):
    """compare lists of (idx, rowdict); absent column == None; False == None for booleans created as default"""
    diffs = []
    if [i for i, _ in rs] != [i for i, _ in rb]:
        return [f"indices differ: single {[i for i, _ in rs]} batch {[i for i, _ in rb]}"]
    for (i, a), (_, b) in zip(rs, rb):
        for col in sorted(set(a) | set(b)):
            x, y = a.get(col), b.get(col)
            if x == y:
                continue
            if isinstance(x, float) and isinstance(y, float) and abs(x - y) <= 1e-12 * max(1, abs(x), abs(y)):
                continue
            if (x is None and y is False) or (x is False and y is None):
                continue       # optional boolean column: absent/NaN vs default False is the same electrical meaning
            eq = EQUIV.get((pair, col))
            if eq and x in eq and y in eq:
                continue
            diffs.append(f"row {i} column {col}: single={x!r} batch={y!r}")
    return diffs


def outcome(fn):
    try:
        with core.quiet():
            fn()
        return "ok"
    except Exception as e:   # noqa
        return "reject:" + type(e).__name__


REJECT_MODES = ["none", "none", "none", "missing_bus", "dup_index", "existing_index", "existing_cost", "dup_cost"]


def run_case(pp, base, name, spec, rng, mode, case_id):
    """returns (record, failure or None)"""
    n = rng.randint(1, 4)
    elems, batch = gen_case(rng, spec, n)
    index = None
    table = spec["table"]
    busparams = [k for k in spec["req"] if "bus" in k and k in spec["ren"]]
    if mode == "missing_bus":
        if not busparams:
            mode = "none"
        else:
            k = rng.choice(busparams)
            j = rng.randrange(n)
            elems[j][k] = 99
            b = batch[spec["ren"][k]]
            if isinstance(b, list):
                b[j] = 99
            else:
                batch[spec["ren"][k]] = 99
    if mode in ("dup_index", "existing_index"):
        free = int(base[table].index.max() + 1) if len(base[table]) else 0
        index = [free + 10 + i for i in range(n)]
        if mode == "dup_index":
            if n == 1:
                mode = "existing_index"
            else:
                index[-1] = index[0]
        if mode == "existing_index":
            if len(base[table]) == 0:
                mode = "none"
                index = None
            else:
                index[rng.randrange(n)] = int(rng.choice(list(base[table].index)))
    netS, netB = copy.deepcopy(base), copy.deepcopy(base)
    if mode in ("existing_cost", "dup_cost"):
        if "cost" not in name:
            mode = "none"
        elif mode == "existing_cost":
            for net in (netS, netB):
                e0 = elems[rng.randrange(n)] if False else elems[0]
                other = "create_pwl_cost" if rng.random() < 0.5 else "create_poly_cost"
                if other == "create_poly_cost":
                    pp.create_poly_cost(net, e0["element"], e0["et"], 1.0)
                else:
                    pp.create_pwl_cost(net, e0["element"], e0["et"], [[0, 1, 1.0]], power_type=e0.get("power_type", "p"))
            if rng.random() < 0.6:
                batch["et"] = [e["et"] for e in elems]          # element types given per element (the list branch of the check)
        elif mode == "dup_cost":
            if n == 1:
                mode = "none"
            else:
                elems[-1]["element"], elems[-1]["et"] = elems[0]["element"], elems[0]["et"]
                if "power_type" in elems[0]:
                    elems[-1]["power_type"] = elems[0]["power_type"]
                batch["elements"] = [e["element"] for e in elems]
                batch["et"] = [e["et"] for e in elems]
                if "power_type" in batch and isinstance(batch["power_type"], list):
                    batch["power_type"] = [e["power_type"] for e in elems]
    elif "cost" in name:
        batch["et"] = [e["et"] for e in elems]
    old = set(base[table].index)
    oS = outcome(lambda: call_single(pp, netS, spec, elems, index))
    oB = outcome(lambda: call_batch(pp, netB, spec, batch, index))
    rec = {"pair": name, "mode": mode, "n": n, "single": oS, "batch": oB}
    fail = None
    replay = {"pair": name, "mode": mode, "elems": elems, "batch": batch, "index": index, "case_id": case_id}
    if oS.startswith("reject") != oB.startswith("reject"):
        fail = [("accept-reject:" + name + ":" + mode + ":" + oS.replace("reject:", "") + "/" + oB.replace("reject:", ""),
                 f"{spec['single']} sequence -> {oS}, {spec['batch']} -> {oB} (mode {mode})", replay)]
    elif oS == "ok":
        d = rows_diff(new_rows(netS, table, old), new_rows(netB, table, old), name)
        if d:
            fail = [("row-diff:" + name + ":" + col, "; ".join(x for x in d if f"column {col}:" in x or "indices" in x)[:600],
                     replay)
                    for col in sorted({x.split("column ")[1].split(":")[0] if "column " in x else "index" for x in d})]
    return rec, fail


def run(ctx):
    import pandapower as pp
    ctx.cov["rule"] = ("case = (create pair, n in 1..4 argument vectors with random optional parameters, reject mode in "
                       "{none, missing bus, duplicate index, existing index, existing cost, duplicate cost}); batch call "
                       "vs sequence of single calls on copies of one base net; non-trivial = both accepted with >=1 "
                       "optional parameter, or a reject mode; distinct by (pair, args)")
    proved = ctx.prove()
    base = base_net()
    add_custom_types(base)
    S = specs(ctx.rng)
    per_pair = ctx.budget(14, 250)
    for name, spec in S.items():
        for k in range(per_pair):
            mode = REJECT_MODES[k % len(REJECT_MODES)] if k >= 4 else "none"
            rec, fail = run_case(pp, base, name, spec, ctx.rng, mode, k)
            ctx.count((name, k, rec["mode"], rec["n"], rec["single"]), nontrivial=True)
            ctx.hist("pair", name)
            ctx.hist("mode", rec["mode"])
            ctx.hist("outcome", rec["single"].split(":")[0] + "/" + rec["batch"].split(":")[0])
            for f in (fail or []):
                ctx.failure(f[0], f[1], f[2])
            if k == 0:
                ctx.sample(rec, cap=20)
    corr(ctx, pp, base)


def corr(ctx, pp, base):
    """correspondence of the Lean std-type row model and reject model with the implementation"""
    if ctx.cov.get("lean_build_failed"):
        return
    from harness.props import c24_model
    c24_model.correspond(ctx, pp, base)


def replay(ctx, path):
    import pandapower as pp
    with open(path) as f:
        r = json.load(f)["replay"]
    base = base_net()
    add_custom_types(base)
    S = specs(ctx.rng)
    spec = S[r["pair"]]
    netS, netB = copy.deepcopy(base), copy.deepcopy(base)
    old = set(base[spec["table"]].index)
    oS = outcome(lambda: call_single(pp, netS, spec, r["elems"], r["index"]))
    oB = outcome(lambda: call_batch(pp, netB, spec, r["batch"], r["index"]))
    print("single:", oS, "batch:", oB)
    bad = oS.startswith("reject") != oB.startswith("reject")
    if oS == "ok" and oB == "ok":
        d = rows_diff(new_rows(netS, spec["table"], old), new_rows(netB, spec["table"], old), r["pair"])
        print("\n".join(d))
        bad = bool(d)
    print("REPLAY", "FAILS" if bad else "holds")
    return 1 if bad else 0
