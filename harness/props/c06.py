"""C06 — all power flow algorithms and back-ends agree on the solution.

proof:   Props/C06.lean: on every rooted tree the fixed points of the backward/forward sweep are exactly the solutions of the
         nodal equations (Kirchhoff + Ohm); the Gauss-Seidel update generated from gausspf and every 'solve with the mismatch'
         step (Newton, Iwamoto, fast-decoupled) is zero iff the power balance holds; generated facts: every documented algorithm is dispatched, the fast single-slack
         result routine is only selected under its preconditions, the sweep solver maps buses to columns by position.
tie:     translator; hypothesis check: the model's sweep equations evaluated on the implementation's converged bfsw voltages of
         radial nets (branch currents by Ohm's law satisfy the backward equation).
oracle:  every alternative configuration (iwamoto_nr, bfsw, gs, fdbx, fdxb, numba on/off, init flat / dc / results, lightsim2grid
         if installed) that returns without raising vs default Newton-Raphson; bfsw must solve radial / weakly meshed nets with
         one slack per island that Newton-Raphson solves.
"""
import copy
import json
import math

import numpy as np

from harness import core, netgen
from harness.props import c01

COLS = {"res_bus": ["vm_pu", "va_degree"], "res_line": ["p_from_mw", "q_from_mvar", "i_ka"], "res_ext_grid": ["p_mw", "q_mvar"],
        "res_trafo": ["p_hv_mw", "q_hv_mvar"], "res_gen": ["p_mw", "q_mvar"]}


def compare(a, b, tol):
    for tab, cols in COLS.items():
        if not len(a[tab]):
            continue
        for c in cols:
            x, y = a[tab][c].values.astype(float), b[tab][c].values.astype(float)
            # flows over short branches amplify voltage differences within the solvers' tolerance
            t_ = tol if tab == "res_bus" else max(tol * 100, 1e-4)
            bad = ~((np.isnan(x) & np.isnan(y)) | (np.abs(x - y) <= t_ * np.maximum(1.0, np.abs(x))))
            if bad.any():
                i = int(np.flatnonzero(bad)[0])
                return f"{tab}.{c}[{a[tab].index[i]}]: default {x[i]!r}, alternative {y[i]!r}"
    return None


def has_parallel_branches(net):
    ppc = net._ppc
    br = ppc["branch"][ppc["branch"][:, 10].real > 0][:, :2].real.astype(int)
    pairs = [tuple(sorted(p)) for p in br.tolist()]
    return len(pairs) != len(set(pairs))


def run(ctx):
    import pandapower as pp
    from translate import c06 as tr
    ctx.cov["rule"] = ("case = generated net (radial / weakly meshed, with or without generators, phase shifters, several islands with "
                       "their own slack) solved by default Newton-Raphson, then by each of 10 alternative configurations; "
                       "non-trivial = the alternative returned")
    ctx.regenerate("C06", lambda: tr.render(tr.extract(core.REPO)))
    ctx.prove()
    rng = ctx.rng
    try:
        import lightsim2grid      # noqa
        ls = True
    except Exception:       # noqa
        ls = False
    ctx.cov["lightsim2grid_installed"] = ls
    for k in range(ctx.budget(24, 300)):
        gens = rng.random() < 0.5
        kinds = ("line", "trafo", "load", "sgen", "switch", "shunt") + (("gen",) if gens else ())
        net = netgen.random_net(rng, kinds=kinds, dcline=False, allow_oos=rng.random() < 0.3, meshed=rng.random() < 0.5)
        if rng.random() < 0.3:       # a second island with its own slack
            other = netgen.random_net(rng, kinds=("line", "load"), dcline=False, allow_oos=False, hv=False, meshed=False)
            net = pp.merge_nets(net, other, validate=False)
        mv = [int(b) for b in net.bus.index[net.bus.vn_kv == 20.]]
        if rng.random() < 0.4 and len(mv) >= 2:
            # a phase-shifting transformer fed from its lv side (step-up to a 110 kV bus with a load)
            hb = pp.create_bus(net, 110.)
            pp.create_transformer_from_parameters(net, hb, rng.choice(mv[1:]), 25., 110., 20., 0.3, 10., 15., 0.04,
                                                  shift_degree=rng.choice([150, 30, -30]))
            pp.create_load(net, hb, 1.5, 0.4)
        if rng.random() < 0.35 and mv:
            # a purely conductive shunt (active power only) / a ward with constant-impedance active power only
            if rng.random() < 0.6:
                pp.create_shunt(net, rng.choice(mv), q_mvar=0., p_mw=rng.choice([0.3, 0.6]))
            else:
                pp.create_ward(net, rng.choice(mv), ps_mw=0., qs_mvar=0., pz_mw=rng.choice([0.3, 0.5]), qz_mvar=0.)
            if rng.random() < 0.7 and len(net.shunt) > 1:
                net.shunt = net.shunt[net.shunt.q_mvar == 0.]          # no susceptive shunt left
        twin_gens = gens and rng.random() < 0.5 and len(mv) >= 3
        if twin_gens:
            # two generators at one bus with tight reactive limits (both reach their limits together)
            gb = rng.choice(mv[1:])
            for _ in range(2):
                pp.create_gen(net, gb, 0.8, vm_pu=1.03, min_q_mvar=-0.1, max_q_mvar=rng.choice([0.1, 0.2]))
        angles = rng.random() < 0.7
        base = dict(calculate_voltage_angles=angles, voltage_depend_loads=False, enforce_q_lims=gens and (twin_gens or rng.random() < 0.4),
                    tolerance_mva=1e-10)      # results are compared to 1e-6 / 1e-5: the solvers' own stopping error must stay below that
        case = {"net_json": pp.to_json(net), "base_options": base}
        try:
            with core.quiet():
                pp.runpp(net, **base)
        except Exception as e:       # noqa
            ctx.hist("default", type(e).__name__)
            continue
        par = has_parallel_branches(net)
        if float(np.nanmin(net.res_bus.vm_pu.values)) < 0.5:
            ctx.hist("default", "collapsed-solution-skipped")       # low-voltage 'solutions' are not unique: no reference to compare with
            continue
        alts = [("iwamoto_nr", dict(algorithm="iwamoto_nr"), 1e-6), ("bfsw", dict(algorithm="bfsw", max_iteration=300), 1e-5),
                ("gs", dict(algorithm="gs", max_iteration=3000, tolerance_mva=1e-8), 1e-5), ("fdbx", dict(algorithm="fdbx", max_iteration=200), 1e-5),
                ("fdxb", dict(algorithm="fdxb", max_iteration=200), 1e-5), ("numba_off", dict(numba=False), 1e-6),
                ("init_flat", dict(init="flat"), 1e-6), ("init_dc", dict(init="dc"), 1e-6), ("init_results", dict(init="results"), 1e-6)]
        if ls:
            alts.append(("lightsim2grid", dict(lightsim2grid=True), 1e-6))
        for name, kw, tol in alts:
            n2 = copy.deepcopy(net)
            opts = dict(base, **kw)
            if name in ("gs", "fdbx", "fdxb", "bfsw") and base["enforce_q_lims"] and rng.random() < 0.3:
                opts["enforce_q_lims"] = False
                ref = None
            else:
                ref = net
            try:
                with core.quiet():
                    pp.runpp(n2, **opts)
            except pp.LoadflowNotConverged:
                ctx.hist("alternative", f"{name}:not-converged")
                if name == "bfsw" and not par and not gens:
                    ctx.failure("bfsw-not-solved", "bfsw did not converge on a net without generators and without parallel branches that "
                                                   "Newton-Raphson solves", dict(case, alternative=opts))
                continue
            except NotImplementedError as e:
                ctx.hist("alternative", f"{name}:NotImplementedError")
                continue
            except Exception as e:       # noqa
                if isinstance(e, ValueError) and "cannot enforce Q limits for slack buses" in str(e):
                    ctx.hist("alternative", f"{name}:refused-q-limits-with-several-slacks")       # a documented refusal, not a result
                    continue
                key = "bfsw-parallel-branches" if (name == "bfsw" and par and type(e).__name__ == "LinAlgError") else f"internal-error:{name}"
                if name == "bfsw" and len(net.gen) and net.gen.bus[net.gen.in_service].duplicated().any() and "broadcast" in str(e):
                    key = "bfsw-two-gens-one-bus"
                ctx.hist("alternative", f"{name}:{type(e).__name__}")
                ctx.count(case["net_json"] + name, nontrivial=True)
                ctx.failure(key, f"runpp({kw}) raised {type(e).__name__}: {str(e)[:120]} on a net that the default solver solves", dict(case, alternative=opts))
                continue
            ctx.hist("alternative", f"{name}:ok")
            ctx.count(case["net_json"] + name + json.dumps(opts), nontrivial=True)
            if ref is None:
                ref = copy.deepcopy(net)
                with core.quiet():
                    pp.runpp(ref, **dict(base, enforce_q_lims=False))
            d = compare(ref, n2, tol)
            shifted = angles and ((len(net.trafo) and (net.trafo.shift_degree.values != 0).any()) or
                                  (len(net.trafo3w) and ((net.trafo3w.shift_mv_degree.values != 0) | (net.trafo3w.shift_lv_degree.values != 0)).any()))
            if d and name == "init_flat" and shifted:
                ctx.failure("init-flat-phase-shift", f"runpp({kw}): {d}", dict(case, alternative=opts))
            elif d and name == "bfsw" and opts.get("enforce_q_lims") and len(net.gen) and bool((
                    (np.abs(ref.res_gen.q_mvar.values - net.gen.min_q_mvar.values) < 1e-6) |
                    (np.abs(ref.res_gen.q_mvar.values - net.gen.max_q_mvar.values) < 1e-6))[net.gen.in_service.values].any()) and \
                    not net.gen.bus[net.gen.in_service].duplicated().any():
                ctx.failure("bfsw-enforce-q-lims", f"runpp({kw}, enforce_q_lims=True): {d}", dict(case, alternative=opts))
            elif d and name == "bfsw" and len(net.gen) and net.gen.bus[net.gen.in_service].duplicated().any():
                ctx.failure("bfsw-two-gens-one-bus", f"runpp({kw}): {d}", dict(case, alternative=opts))
            elif d:
                ctx.failure(f"differs:{name}", f"runpp({kw}): {d} (voltage angles {angles})", dict(case, alternative=opts))
            # hypothesis of the sweep theorem on the implementation: nodal balance of the bfsw result
            if name == "bfsw" and not d:
                acc, rep = c01.node_balance(n2)
                worst = max((max(abs(p), abs(q)) for n_, (p, q, _i) in acc.items() if not math.isnan(float(n2.res_bus.vm_pu.at[n_]))), default=0.0)
                if worst > 1e-4:
                    ctx.failure("bfsw-balance", f"bfsw result leaves {worst!r} MVA unbalanced at a node", dict(case, alternative=opts))
        ctx.sample({"gens": gens, "parallel": par, "angles": angles}, cap=4)
    ctx.assumptions.append("voltage_depend_loads=False (C01 findings; bfsw / gs / fd do not support them); tolerances 1e-5 for the "
                           "iterative first-order methods; lightsim2grid " + ("installed" if ls else "not installed in this sandbox: "
                           "back-end not exercised"))


def replay(ctx, path):
    print("C06 replays carry net_json, the base options and the alternative; re-run ./check C06 with the same VERIF_SEED")
    return 2
