"""C19 — state estimation reproduces the true state from exact measurements.

proof:   Props/C19.lean: weighted least squares with exact measurements returns the state for every weight matrix with invertible
         gain matrix; zero residual => zero Gauss-Newton step; measurement order changes neither gain matrix nor right-hand side;
         the mask merge picks exactly the requested rows; generated facts about the source's shape.
tie:     translator + correspondence: BaseAlgebra._merge_mask on random masks vs the model.
oracle:  converged power flow -> full, noise-free measurement sets (bus voltages, bus injections, line / transformer flows at both
         ends, currents) in random order, with duplicated (redundant) measurements -> estimate(): voltages and line flows equal
         the power flow; chi-square test and bad-data removal flag nothing.
"""
import copy
import json
import math

import numpy as np

from harness import core, netgen


def measure(rng, pp, net, redundancy, with_current):
    rows = []
    for b in net.bus.index:
        if math.isnan(net.res_bus.vm_pu.at[b]):
            continue
        rows.append(("v", "bus", float(net.res_bus.vm_pu.at[b]), 0.001, int(b), None))
        # bus injections without the shunts: they are part of the admittance matrix of the estimator (as in the library's own
        # add_virtual_meas_from_loadflow)
        sh = net.res_shunt[net.shunt.bus == b] if len(net.shunt) else None
        ps = float(sh.p_mw.sum()) if sh is not None and len(sh) else 0.0
        qs = float(sh.q_mvar.sum()) if sh is not None and len(sh) else 0.0
        rows.append(("p", "bus", float(net.res_bus.p_mw.at[b]) - ps, 0.01, int(b), None))
        rows.append(("q", "bus", float(net.res_bus.q_mvar.at[b]) - qs, 0.01, int(b), None))
    for i in net.line.index:
        r = net.res_line.loc[i]
        if math.isnan(r.p_from_mw):
            continue
        for side, sfx in (("from", "from"), ("to", "to")):
            rows.append(("p", "line", float(r[f"p_{sfx}_mw"]), 0.01, int(i), side))
            rows.append(("q", "line", float(r[f"q_{sfx}_mvar"]), 0.01, int(i), side))
            if with_current:
                rows.append(("i", "line", float(r[f"i_{sfx}_ka"]), 0.001, int(i), side))
    for i in net.trafo.index:
        r = net.res_trafo.loc[i]
        if math.isnan(r.p_hv_mw):
            continue
        for side in ("hv", "lv"):
            rows.append(("p", "trafo", float(r[f"p_{side}_mw"]), 0.01, int(i), side))
            rows.append(("q", "trafo", float(r[f"q_{side}_mvar"]), 0.01, int(i), side))
    # an observable subset: bus measurements and from-side flows stay, some to-side P / Q / hv / lv flows are left out independently
    keep = []
    for r_ in rows:
        optional = r_[1] in ("line", "trafo") and r_[5] in ("to", "lv") and r_[0] in ("p", "q")
        if optional and rng.random() < 0.4:
            continue
        keep.append(r_)
    rows = keep
    extra = [rows[rng.randrange(len(rows))] for _ in range(redundancy)]
    rows = rows + extra
    rng.shuffle(rows)
    for mt, et, val, sd, el, side in rows:
        pp.create_measurement(net, mt, et, val, sd, el, side=side, check_existing=False)
    return len(rows)


def run(ctx):
    import pandapower as pp
    from pandapower.estimation import estimate, chi2_analysis, remove_bad_data
    from pandapower.estimation.algorithm.matrix_base import BaseAlgebra
    from translate import c19 as tr
    ctx.cov["rule"] = ("case = generated net (lines, transformers, loads, static generators, shunts), converged power flow, full "
                       "noise-free measurement set in random order with 0-8 duplicated measurements, optionally current magnitudes; "
                       "non-trivial = estimate() returned success")
    ctx.regenerate("C19", lambda: tr.render(tr.extract(core.REPO)))
    ctx.prove()
    rng = ctx.rng
    # correspondence of the mask merge
    reqs, want = [], []
    for _ in range(ctx.budget(30, 200)):
        m1 = [rng.randrange(12) for _ in range(rng.randint(0, 6))]
        m2 = [rng.randrange(12) for _ in range(rng.randint(0, 6))]
        if not m1 and not m2:
            continue
        t, f1, f2 = BaseAlgebra._merge_mask(np.array(m1, dtype=np.int64), np.array(m2, dtype=np.int64))
        reqs.append(f"merge {len(m1)} {' '.join(map(str, m1))} {len(m2)} {' '.join(map(str, m2))}".replace("  ", " "))
        want.append(f"{' '.join(str(int(v)) for v in t)} | {' '.join('1' if v else '0' for v in f1)} | {' '.join('1' if v else '0' for v in f2)}")
    for k in range(ctx.budget(16, 200)):
        net = netgen.random_net(rng, kinds=("line", "trafo", "load", "sgen", "shunt"), dcline=False, allow_oos=False,
                                meshed=True)
        if len(net.switch):
            net.switch = net.switch.iloc[0:0]
        if rng.random() < 0.6 and len(net.line) > 3:
            # an out-of-service line that leaves the net connected (tried on a copy)
            for i in rng.sample(list(net.line.index), len(net.line)):
                trial = copy.deepcopy(net)
                trial.line.at[i, "in_service"] = False
                try:
                    with core.quiet():
                        pp.runpp(trial)
                    if not trial.res_bus.vm_pu.isna().any():
                        net.line.at[i, "in_service"] = False
                        break
                except Exception:       # noqa
                    pass
        angles = True
        try:
            with core.quiet():
                pp.runpp(net, calculate_voltage_angles=angles, voltage_depend_loads=False, trafo_model="t")
        except Exception as e:       # noqa
            ctx.hist("run", "pf:" + type(e).__name__)
            continue
        truth = net.res_bus[["vm_pu", "va_degree"]].copy()
        truth_line = net.res_line[["p_from_mw", "q_from_mvar"]].copy()
        redundancy = rng.choice([0, 0, 3, 8])
        with_current = rng.random() < 0.3
        n_meas = measure(rng, pp, net, redundancy, with_current)
        case = {"net_json": pp.to_json(net), "redundancy": redundancy, "current": with_current}
        try:
            with core.quiet():
                ok = estimate(net, init="flat", tolerance=1e-8, maximum_iterations=50)
                ok = bool(ok["success"]) if isinstance(ok, dict) else bool(ok)
        except Exception as e:       # noqa
            ctx.count(case["net_json"], nontrivial=True)
            ctx.failure(f"raises:{type(e).__name__}", f"estimate() raised {type(e).__name__}: {str(e)[:140]} ({n_meas} measurements)", case)
            continue
        ctx.hist("estimate", "ok" if ok else "failed")
        ctx.count(case["net_json"], nontrivial=bool(ok))
        if not ok:
            ctx.failure("not-successful", f"estimate() did not succeed on {n_meas} exact measurements of an observable net "
                                          f"(redundancy {redundancy}, currents {with_current})", case)
            continue
        est = net.res_bus_est
        dv = float(np.nanmax(np.abs(est.vm_pu.values - truth.vm_pu.values)))
        da = float(np.nanmax(np.abs(est.va_degree.values - truth.va_degree.values)))
        if dv > 1e-5 or da > 1e-3:
            ctx.failure("voltages", f"estimated voltages differ from the power flow by {dv!r} pu / {da!r} degree ({n_meas} exact measurements, "
                                    f"redundancy {redundancy}, currents {with_current})", case)
        elif len(net.line):
            dp = float(np.nanmax(np.abs(net.res_line_est.p_from_mw.values - truth_line.p_from_mw.values)))
            if dp > 1e-3:
                ctx.failure("flows", f"estimated line flows differ from the power flow by {dp!r} MW", case)
        # bad data
        try:
            with core.quiet():
                flagged = chi2_analysis(copy.deepcopy(net), init="flat", tolerance=1e-8, maximum_iterations=50)
            if flagged:
                ctx.failure("bad-data-flagged", "chi2_analysis reports bad data in exact measurements", case)
            n0 = len(net.measurement)
            n3 = copy.deepcopy(net)
            with core.quiet():
                remove_bad_data(n3, init="flat", tolerance=1e-8, maximum_iterations=50)
            if len(n3.measurement) != n0:
                ctx.failure("bad-data-removed", f"remove_bad_data removed {n0 - len(n3.measurement)} of {n0} exact measurements", case)
        except Exception as e:       # noqa
            ctx.failure(f"bad-data-raises:{type(e).__name__}", f"bad data analysis raised {type(e).__name__}: {str(e)[:120]}", case)
        ctx.sample({"measurements": n_meas, "redundancy": redundancy, "current": with_current}, cap=4)
    if ctx.cov.get("lean_build_failed") or not reqs:
        return
    resp = core.lean_driver("C19", reqs)
    dis = 0
    for rq, r, w in zip(reqs, resp, want):
        if " ".join(r.split()) != " ".join(w.split()):
            dis += 1
            ctx.tie_break("correspondence:C19", f"{rq}: model [{r}], implementation [{w}]")
    ctx.cov["correspondence"] = {"requests": len(reqs), "disagreements": dis}
    ctx.assumptions.append("nets without switches / wards / generators / three-winding transformers (zero-injection handling and "
                           "auxiliary buses are not part of the statement); WLS algorithm with flat start; tolerances 1e-5 pu, 1e-3 degree")


def replay(ctx, path):
    print("C19 replays carry net_json (with the measurement table); re-run ./check C19 with the same VERIF_SEED")
    return 2
