"""C25 — standard types are applied completely and consistently.

proof:   Props/C25.lean — registry (create/copy/rename/delete/load) theorems, change_std_type characterisation
         (code = spec iff every type parameter is a column or already has the type's value), creation key lists.
tie:     correspondence: random registry op sequences on the real net.std_types vs the model; change_std_type rows vs
         changeCode; (key lists are tied by the sentinel-type correspondence of C24, re-run here).
oracle:  element from std type == element from explicit parameters with the type's values (rows and runpp results);
         change_std_type(A->B) == create(B); load_std_type after create/rename/copy.
"""
import copy
import json
import math

import numpy as np

from harness import core
from harness.props import c24, c24_model

LINE_CALC = ["r_ohm_per_km", "x_ohm_per_km", "c_nf_per_km", "g_us_per_km", "max_i_ka", "r0_ohm_per_km",
             "x0_ohm_per_km", "c0_nf_per_km", "alpha", "endtemp_degree"]
TRAFO_CALC = ["sn_mva", "vn_hv_kv", "vn_lv_kv", "vk_percent", "vkr_percent", "pfe_kw", "i0_percent", "shift_degree",
              "vk0_percent", "vkr0_percent", "mag0_percent", "mag0_rx", "si0_hv_partial", "vector_group",
              "tap_neutral", "tap_max", "tap_min", "tap_side", "tap_step_percent", "tap_step_degree", "tap_changer_type"]
TRAFO3W_CALC = ["sn_hv_mva", "sn_mv_mva", "sn_lv_mva", "vn_hv_kv", "vn_mv_kv", "vn_lv_kv", "vk_hv_percent",
                "vk_mv_percent", "vk_lv_percent", "vkr_hv_percent", "vkr_mv_percent", "vkr_lv_percent", "pfe_kw",
                "i0_percent", "shift_mv_degree", "shift_lv_degree", "tap_side", "tap_step_percent", "tap_step_degree",
                "tap_neutral", "tap_max", "tap_min", "tap_changer_type"]


def small_net(pp, vn_hv=110., vn_lv=20., vn_mv=None):
    net = pp.create_empty_network()
    b0 = pp.create_bus(net, vn_hv)
    b1 = pp.create_bus(net, vn_lv)
    b2 = pp.create_bus(net, vn_lv)
    b3 = pp.create_bus(net, vn_mv if vn_mv else vn_lv)
    pp.create_ext_grid(net, b0, vm_pu=1.01)
    return net, (b0, b1, b2, b3)


def _eq(x, y):
    x, y = c24._norm(x), c24._norm(y)
    if x == y:
        return True
    if isinstance(x, float) and isinstance(y, float):
        return abs(x - y) <= 1e-12 * max(1, abs(x), abs(y))
    return False


def res_equal(n1, n2, tabs):
    for t in tabs:
        a, b = n1[t], n2[t]
        if list(a.index) != list(b.index):
            return f"{t}: index differs"
        for col in a.columns:
            if col not in b.columns:
                return f"{t}.{col} missing"
            x, y = a[col].values.astype(float), b[col].values.astype(float)
            if not np.allclose(x, y, rtol=1e-7, atol=1e-9, equal_nan=True):
                return f"{t}.{col}: {x} vs {y}"
    return None


def check_line_type(ctx, pp, name, ty):
    """line from type vs line from explicit parameters"""
    vn = 110. if "110" in name or "220" in name or "380" in name else 20.
    netA, b = small_net(pp, vn_hv=vn, vn_lv=vn)
    netB = copy.deepcopy(netA)
    for net in (netA, netB):
        pp.create_load(net, b[1], 2.0, 0.5)
    pp.create_line(netA, b[0], b[1], 2.5, name)
    named = ("r_ohm_per_km", "x_ohm_per_km", "c_nf_per_km", "max_i_ka", "g_us_per_km", "type", "alpha",
             "r0_ohm_per_km", "x0_ohm_per_km", "c0_nf_per_km", "endtemp_degree")
    kw = {k: v for k, v in ty.items() if k in named}
    pp.create_line_from_parameters(netB, b[0], b[1], 2.5, **kw)
    rowA, rowB = netA.line.iloc[0], netB.line.iloc[0]
    for col in LINE_CALC:
        if col in ty and not _eq(rowA.get(col), ty[col]):
            ctx.failure(f"create-missing:line:{col}",
                        f"create_line(std_type={name!r}) leaves {col}={rowA.get(col)!r}, the type defines {ty[col]!r}",
                        {"std_type": name, "column": col, "type": {k: str(v) for k, v in ty.items()}})
    with core.quiet():
        pp.runpp(netA)
        pp.runpp(netB)
    d = res_equal(netA, netB, ["res_bus", "res_line"])
    if d:
        ctx.failure("behaviour:line", f"line from type {name!r} vs explicit parameters: {d}", {"std_type": name})


def check_trafo_type(ctx, pp, name, ty):
    netA, b = small_net(pp, vn_hv=ty["vn_hv_kv"], vn_lv=ty["vn_lv_kv"])
    netB = copy.deepcopy(netA)
    for net in (netA, netB):
        pp.create_load(net, b[1], 0.2 * ty["sn_mva"], 0.05 * ty["sn_mva"])
    pp.create_transformer(netA, b[0], b[1], name, tap_pos=ty.get("tap_neutral", float("nan")) if False else float("nan"))
    import inspect
    sig = inspect.signature(pp.create_transformer_from_parameters).parameters
    kw = {k: v for k, v in ty.items() if k in sig}
    pp.create_transformer_from_parameters(netB, b[0], b[1], **kw)
    rowA = netA.trafo.iloc[0]
    for col in TRAFO_CALC:
        if col in ty and not _eq(rowA.get(col), ty[col]):
            ctx.failure(f"create-missing:trafo:{col}",
                        f"create_transformer(std_type={name!r}) leaves {col}={rowA.get(col)!r}, type: {ty[col]!r}",
                        {"std_type": name, "column": col})
    with core.quiet():
        pp.runpp(netA)
        pp.runpp(netB)
    d = res_equal(netA, netB, ["res_bus", "res_trafo"])
    if d:
        ctx.failure("behaviour:trafo", f"trafo from type {name!r} vs explicit parameters: {d}", {"std_type": name})


def check_second_tap_changer(ctx, pp, rng):
    """a custom type with a second tap changer whose neutral position differs from the first one's: created from the type and from
    the same values as explicit parameters"""
    netA, b = small_net(pp, vn_hv=110., vn_lv=20.)
    ty = dict(pp.load_std_type(netA, "25 MVA 110/20 kV", "trafo"))
    ty.update(tap2_side=rng.choice(["hv", "lv"]), tap2_neutral=rng.choice([2, 3]), tap2_min=-4, tap2_max=6, tap2_step_percent=1.0,
              tap2_step_degree=0.0, tap2_changer_type="Ratio")
    pp.create_std_type(netA, ty, "verif_2tap", "trafo")
    netB = copy.deepcopy(netA)
    for net in (netA, netB):
        pp.create_load(net, b[1], 5., 1.)
    pp.create_transformer(netA, b[0], b[1], "verif_2tap")
    import inspect
    sig = inspect.signature(pp.create_transformer_from_parameters).parameters
    kw = {k: v for k, v in ty.items() if k in sig}
    extra = {k: v for k, v in ty.items() if k.startswith("tap2_") and k not in sig}
    pp.create_transformer_from_parameters(netB, b[0], b[1], **kw, **extra)
    ctx.count(("trafo", "verif_2tap", ty["tap2_side"], ty["tap2_neutral"]))
    for col in ("tap_pos", "tap2_pos", "tap2_neutral", "tap2_step_percent", "tap2_side"):
        a_, b_ = netA.trafo.iloc[0].get(col), netB.trafo.iloc[0].get(col)
        if not _eq(a_, b_):
            ctx.failure(f"create-missing:trafo:{col}", f"create_transformer(custom type with second tap changer) sets {col}={a_!r}, "
                                                       f"create_transformer_from_parameters with the same values {b_!r}", {"std_type": ty})
            return
    with core.quiet():
        pp.runpp(netA)
        pp.runpp(netB)
    d = res_equal(netA, netB, ["res_bus", "res_trafo"])
    if d:
        ctx.failure("behaviour:trafo", f"trafo from a custom type with second tap changer vs explicit parameters: {d}", {"std_type": ty})


def check_trafo3w_type(ctx, pp, name, ty):
    netA, b = small_net(pp, vn_hv=ty["vn_hv_kv"], vn_lv=ty["vn_lv_kv"], vn_mv=ty["vn_mv_kv"])
    netB = copy.deepcopy(netA)
    for net in (netA, netB):
        pp.create_load(net, b[1], 2.0, 0.5)
        pp.create_load(net, b[3], 3.0, 0.5)
    pp.create_transformer3w(netA, b[0], b[3], b[1], name)
    import inspect
    sig = inspect.signature(pp.create_transformer3w_from_parameters).parameters
    kw = {k: v for k, v in ty.items() if k in sig}
    pp.create_transformer3w_from_parameters(netB, b[0], b[3], b[1], **kw)
    rowA = netA.trafo3w.iloc[0]
    for col in TRAFO3W_CALC:
        if col in ty and not _eq(rowA.get(col), ty[col]):
            ctx.failure(f"create-missing:trafo3w:{col}",
                        f"create_transformer3w(std_type={name!r}) leaves {col}={rowA.get(col)!r}, type: {ty[col]!r}",
                        {"std_type": name, "column": col})
    with core.quiet():
        pp.runpp(netA)
        pp.runpp(netB)
    d = res_equal(netA, netB, ["res_bus", "res_trafo3w"])
    if d:
        ctx.failure("behaviour:trafo3w", f"trafo3w from type {name!r} vs explicit parameters: {d}", {"std_type": name})


def check_change(ctx, pp, element, nameA, nameB, lib, calc):
    """change_std_type(A -> B) must equal creation from B (calculation columns), including after the library entry
    of the *same name* was overwritten (change to the element's current type name re-applies it)"""
    tyB = lib[nameB]
    if element == "line":
        net, b = small_net(pp, 20., 20.)
        pp.create_line(net, b[0], b[1], 1.0, nameA)
        ref = copy.deepcopy(net)
        pp.create_line(ref, b[0], b[2], 1.0, nameB)
    else:
        tyA = lib[nameA]
        net, b = small_net(pp, tyA["vn_hv_kv"], tyA["vn_lv_kv"])
        pp.create_transformer(net, b[0], b[1], nameA)
        ref = copy.deepcopy(net)
        pp.create_transformer(ref, b[0], b[2], nameB)
    pp.change_std_type(net, 0, nameB, element)
    row, rref = net[element].loc[0], ref[element].loc[1]
    for col in calc:
        if col in tyB:
            have = row.get(col) if col in net[element].columns else None
            if not _eq(have, tyB[col]):
                key = "change-missing-column" if col not in net[element].columns else f"change-wrong:{element}:{col}"
                ctx.failure(key, f"change_std_type({element}, {nameA!r} -> {nameB!r}) leaves {col}={have!r}; the type "
                                 f"defines {tyB[col]!r}",
                            {"element": element, "from": nameA, "to": nameB, "column": col})
    if net[element].at[0, "std_type"] != nameB:
        ctx.failure(f"change-wrong:{element}:std_type", "std_type column not updated", {"from": nameA, "to": nameB})


def check_reapply(ctx, pp, rng):
    """overwrite a type in the library, then change_std_type to the same name: the element must take the new values"""
    net, b = small_net(pp, 20., 20.)
    ty = {"r_ohm_per_km": 0.2, "x_ohm_per_km": 0.1, "c_nf_per_km": 100., "max_i_ka": 0.3, "type": "cs"}
    pp.create_std_type(net, dict(ty), "verif_T", "line")
    pp.create_line(net, b[0], b[1], 1.0, "verif_T")
    ty2 = dict(ty, r_ohm_per_km=round(rng.uniform(0.3, 0.9), 3), max_i_ka=0.5)
    pp.create_std_type(net, dict(ty2), "verif_T", "line", overwrite=True)
    pp.change_std_type(net, 0, "verif_T", "line")
    for col in ("r_ohm_per_km", "max_i_ka"):
        if not _eq(net.line.at[0, col], ty2[col]):
            ctx.failure("change-reapply", f"change_std_type to the (overwritten) current type name leaves {col}="
                                          f"{net.line.at[0, col]!r}, type defines {ty2[col]!r}",
                        {"ops": "create_std_type T; create_line T; create_std_type T overwrite; change_std_type T"})
    ctx.count(("reapply", ty2["r_ohm_per_km"]))


def check_library_untouched(ctx, pp):
    """creating elements (with keyword overrides) must not rewrite the library entries"""
    net, b = small_net(pp, 110., 20.)
    before = copy.deepcopy(net.std_types)
    pp.create_transformer(net, b[0], b[1], "25 MVA 110/20 kV", vk_percent=13.3, shift_degree=30, tap_pos=2,
                          parallel=2, vkr_percent=0.5)
    pp.create_line(net, b[1], b[2], 1.0, "NAYY 4x50 SE", max_i_ka=0.9, r_ohm_per_km=1.0)
    pp.create_transformer3w(net, b[0], b[1], b[2], "63/25/38 MVA 110/20/10 kV", vk_hv_percent=11.1)
    for el in ("line", "trafo", "trafo3w"):
        for name, ty in before[el].items():
            if net.std_types[el].get(name) != ty:
                ctx.failure("library-mutated", f"std type {el}/{name} changed by element creation: "
                                               f"{net.std_types[el].get(name)} vs {ty}", {"element": el, "name": name})
                return
    ctx.count(("library-untouched",))


def registry_history(ctx, pp, rng, n_ops):
    """random op sequence on the real registry and as model requests; returns (requests, expected answers)"""
    net = pp.create_empty_network()
    lib = net.std_types["line"]
    lib.clear()
    names = ["a", "b", "c", "d"]
    datas = {}
    reqs, exp = ["reset"], ["ok"]
    counter = [10]

    def mkdata():
        counter[0] += 1
        d = {"r_ohm_per_km": counter[0] / 100., "x_ohm_per_km": 0.1, "c_nf_per_km": 10., "max_i_ka": 0.2}
        for opt, val in (("g_us_per_km", 2.0), ("q_mm2", 150), ("type", "cs")):
            if rng.random() < 0.4:
                d[opt] = val          # (a later definition under the same name may have fewer keys: nothing of the old one may survive)
        datas[counter[0]] = d
        return counter[0], d
    ops = []
    for _ in range(n_ops):
        r = rng.random()
        if r < 0.35:
            n, o = rng.choice(names), rng.random() < 0.5
            code, d = mkdata()
            pp.create_std_type(net, d, n, "line", overwrite=o)
            reqs.append(f"create {n} {code} {int(o)}")
            exp.append("ok")
            ops.append(("create", n, code, o))
        elif r < 0.5:
            other = pp.create_empty_network()
            other.std_types["line"].clear()
            src = []
            for n in rng.sample(names, rng.randint(1, 3)):
                code, d = mkdata()
                other.std_types["line"][n] = d
                src.append((n, code))
            o = rng.random() < 0.5
            pp.copy_std_types(net, other, "line", overwrite=o)
            reqs.append(f"copy {int(o)} {len(src)} " + " ".join(f"{n} {c}" for n, c in src))
            exp.append("ok")
            ops.append(("copy", src, o))
        elif r < 0.65:
            n = rng.choice(names)
            try:
                pp.delete_std_type(net, n, "line")
                exp.append("ok")
            except UserWarning:
                exp.append("raise")
            reqs.append(f"delete {n}")
            ops.append(("delete", n))
        elif r < 0.85:
            a, b = rng.choice(names), rng.choice(names)
            try:
                pp.rename_std_type(net, a, b, "line")
                exp.append("ok")
            except UserWarning:
                exp.append("raise")
            reqs.append(f"rename {a} {b}")
            ops.append(("rename", a, b))
        else:
            ops.append(("load-all",))
        for n in names:
            reqs.append(f"load {n}")
            if n in lib:
                d = pp.load_std_type(net, n, "line")
                code = [c for c, dd in datas.items() if dd == d]
                exp.append(str(code[0]) if code else "?")
            else:
                exp.append("-")
    return ops, reqs, exp


def run(ctx):
    import pandapower as pp
    ctx.cov["rule"] = ("(1) every built-in line/trafo/trafo3w std type (quick: sample) created from type vs explicit "
                       "parameters (rows on calculation columns + runpp results); (2) change_std_type between random type "
                       "pairs and re-application after overwrite; (3) random registry op sequences (create/copy/rename/"
                       "delete/load); non-trivial = all of them; distinct by type names / op lists")
    ctx.prove()
    rng = ctx.rng
    lib = pp.create_empty_network().std_types
    for el, fn, calc in (("line", check_line_type, LINE_CALC), ("trafo", check_trafo_type, TRAFO_CALC),
                         ("trafo3w", check_trafo3w_type, TRAFO3W_CALC)):
        names = sorted(lib[el])
        if ctx.tier == "quick":
            names = rng.sample(names, min(len(names), 12))
        for name in names:
            try:
                fn(ctx, pp, name, lib[el][name])
            except Exception as e:     # noqa
                ctx.failure(f"create-error:{el}", f"creation / power flow with std type {name!r} failed: "
                                                  f"{type(e).__name__}: {e}", {"std_type": name})
            ctx.count((el, name))
            ctx.hist("std_type_element", el)
    for _ in range(3):
        try:
            check_second_tap_changer(ctx, pp, rng)
        except Exception as e:     # noqa
            ctx.failure("create-error:trafo", f"custom type with a second tap changer: {type(e).__name__}: {e}", {"std_type": "verif_2tap"})
    # random types: sentinel types carry every key (ties the Lean key lists to the code, as in C24)
    base = c24.base_net()
    c24.add_custom_types(base)
    # change_std_type
    for el, calc in (("line", LINE_CALC), ("trafo", TRAFO_CALC)):
        names = sorted(lib[el])
        if el == "trafo":
            names = [n for n in names if "110/20" in n] or names
        else:
            names = [n for n in names if lib[el][n].get("type") == "cs"][:30]
        for _ in range(ctx.budget(10, 80)):
            a, b = rng.sample(names, 2)
            check_change(ctx, pp, el, a, b, lib[el], calc)
            ctx.count(("change", el, a, b))
    # a type defining alpha (and endtemp) applied to a table without those columns
    net, b = small_net(pp, 20., 20.)
    pp.create_std_type(net, {"r_ohm_per_km": 0.3, "x_ohm_per_km": 0.1, "c_nf_per_km": 50., "max_i_ka": 0.3,
                             "alpha": 0.004, "type": "cs"}, "verif_alpha", "line")
    pp.create_line(net, b[0], b[1], 1.0, "NAYY 4x50 SE")
    check_change(ctx, pp, "line", "NAYY 4x50 SE", "verif_alpha", net.std_types["line"], LINE_CALC) if False else None
    pp.change_std_type(net, 0, "verif_alpha", "line")
    if "alpha" not in net.line.columns or not _eq(net.line.at[0, "alpha"], 0.004):
        ctx.failure("change-missing-column", "change_std_type to a type defining alpha on a table without an alpha "
                                             "column leaves the line without alpha", {"type": "verif_alpha"})
    ctx.count(("change-alpha",))
    for _ in range(ctx.budget(3, 20)):
        check_reapply(ctx, pp, rng)
    check_library_untouched(ctx, pp)
    # registry correspondence + oracle
    if not ctx.cov.get("lean_build_failed"):
        all_req, all_exp = [], []
        for _ in range(ctx.budget(15, 200)):
            ops, reqs, exp = registry_history(ctx, pp, rng, rng.randint(3, 10))
            all_req += reqs
            all_exp += exp
            ctx.count(("registry", str(ops)))
        resp = core.lean_driver("C25", all_req)
        dis = 0
        for rq, r, e in zip(all_req, resp, all_exp):
            if r != e:
                dis += 1
                if dis <= 3:
                    ctx.tie_break("correspondence:C25-registry", f"request {rq!r}: model {r!r}, implementation {e!r}")
                    if e == "?" or (rq.startswith("load") and e != r):
                        ctx.failure("registry-roundtrip", f"load_std_type returned {e!r} where the abstract registry "
                                                          f"holds {r!r} (request {rq!r})", {"request": rq})
        ctx.cov["correspondence_requests"] = len(all_req)
        ctx.cov["disagreements_checked"] = dis
        ctx.sample({"requests": all_req[:8], "responses": resp[:8]})
        # key lists (shared with C24)
        c24_model.correspond(ctx, pp, base)


def replay(ctx, path):
    print("replay: re-run ./check C25 (cases are deterministic for a seed); file:", path)
    return 0
