"""C14 — contingency analysis reports the true extremes over all N-1 cases (shared machinery with C15).

proof:   Props/C14.lean over mask expressions regenerated from contingency.py (max_mask, where=, cause_mask, location of
         the in_service restore): max/min are the true extremes over the valid cases, the cause attains the maximum,
         causes_overloading iff some element exceeds its limit, flags restored on every path.
tie:     translator + correspondence: the REAL run_contingency driven by a stub evaluation function that writes
         generated per-case result vectors (ints, NaN, exceptions) vs the Lean fold / flag / loop models (exact).
oracle:  run_contingency on generated meshed nets vs brute force (one deepcopy + runpp per case).
"""
import copy
import json
import math

import numpy as np
import pandas as pd

from harness import core
from translate import c14 as tr

BRANCHES = ("line", "trafo", "trafo3w")


# ----------------------------------------------------------------------------------------------------------------
# stub evaluation function (module level: must be picklable for the multi-process path)
# ----------------------------------------------------------------------------------------------------------------

class StubError(Exception):
    pass


def stub_eval(net, stub=None, **kw):
    """writes the result vectors the generated scenario prescribes for the case that `net`'s in_service flags encode"""
    out = [(el, int(i)) for el in BRANCHES if el in stub["elements"]
           for i in net[el].index[~net[el].in_service.values & np.array(stub["base"][el], dtype=bool)]]
    key = "n0" if not out else f"{out[0][0]}:{out[0][1]}"
    case = stub["cases"][key]
    if case.get("raise"):
        raise StubError(f"stub: evaluation of {key} fails")
    # the evaluation must receive the options meant for it: pf_options (tag n0) for N-0, pf_options_nminus1 (n1) for N-1
    wrong_opts = kw.get("tag") != ("n0" if key == "n0" else "n1")
    for el in stub["elements"]:
        col = "vm_pu" if el == "bus" else "loading_percent"
        vals = [float("nan") if v is None else float(v) + (1000. if wrong_opts else 0.) for v in case[el]]
        net[f"res_{el}"] = pd.DataFrame({col: vals}, index=net[el].index)
    net["converged"] = True


def stub_scenario(rng, with_raise=True):
    """a tiny real pandapower net (tables only matter) + prescribed results per case"""
    import pandapower as pp
    net = pp.create_empty_network()
    nb = rng.randint(2, 4)
    buses = list(pp.create_buses(net, nb, 110., index=[10 + 3 * k for k in range(nb)]))
    n_line = rng.randint(1, 4)
    pp.create_lines_from_parameters(net, [buses[0]] * n_line, [buses[-1]] * n_line, 1., 0.1, 0.1, 10, 1.,
                                    index=[2 * k + 1 for k in range(n_line)],
                                    max_loading_percent=[rng.choice([50, 80, 100]) for _ in range(n_line)],
                                    in_service=[rng.random() > 0.15 for _ in range(n_line)])
    n_tr = rng.randint(0, 3)
    if n_tr:
        pp.create_transformers_from_parameters(net, [buses[0]] * n_tr, [buses[1]] * n_tr, 40., 110., 110., 0.3, 10., 0., 0.,
                                               index=[5 + k for k in range(n_tr)],
                                               max_loading_percent=[rng.choice([50, 80, 100]) for _ in range(n_tr)],
                                               in_service=[rng.random() > 0.15 for _ in range(n_tr)])
    if rng.random() < 0.3:
        col = "max_loading_percent_nminus1"
        net.line[col] = [rng.choice([60, 120]) for _ in net.line.index]
    if rng.random() < 0.2:
        net.line.loc[net.line.index[0], "max_loading_percent"] = np.nan      # NaN limit: never "overloaded"
    elements = ["bus", "line"] + (["trafo"] if n_tr else [])
    base = {el: [bool(x) for x in net[el].in_service.values] for el in elements}

    def vec(el, out):
        n = len(net[el])
        v = []
        for k in range(n):
            r = rng.random()
            if el == "bus":
                v.append(None if r < 0.12 else rng.choice([90, 95, 100, 100, 103, 108]))
            else:
                idx = int(net[el].index[k])
                if out == (el, idx):
                    v.append(rng.choice([0, 0, 0, None]))          # own outage: 0 % (or NaN)
                elif not base[el][k]:
                    v.append(rng.choice([0, None]))
                else:
                    v.append(None if r < 0.12 else rng.choice([10, 40, 40, 55, 70, 70, 90, 130]))
        return v
    cases = {"n0": {el: vec(el, None) for el in elements}}
    order = {}
    for el in ("line", "trafo"):
        if el not in elements:
            continue
        idx = [int(i) for i in net[el].index]
        rng.shuffle(idx)
        idx = idx[:rng.randint(1, len(idx))]
        if rng.random() < 0.2 and idx:
            idx.append(idx[0])        # a case listed twice
        order[el] = idx
        for i in idx:
            c = {e2: vec(e2, (el, i)) for e2 in elements}
            r = rng.random()
            if r < 0.12:
                c = {e2: [None] * len(net[e2]) for e2 in elements}       # islanded: everything NaN
            elif with_raise and r < 0.3:
                c["raise"] = True
            cases[f"{el}:{i}"] = c
    if rng.random() < 0.5 and "trafo" in order:       # dict order of the element kinds
        order = {"trafo": order["trafo"], "line": order["line"]}
    stub = {"elements": elements, "base": base, "cases": cases, "opts_via": rng.choice(["args", "args", "user"])}
    return net, order, stub


def model_requests(net, order, stub, raise_errors, which):
    """request lines for the Lean driver + the bookkeeping to compare the answers; which = seq | par0 | par1"""
    elements = stub["elements"]
    case_ids = {}
    folded = []          # cases whose results are aggregated
    its = []             # loop iterations (per element table the loop model works on one flag vector; we flatten)
    flat = [(el, int(i)) for el in ("line", "trafo") if el in elements for i in net[el].index]
    pos = {k: n for n, k in enumerate(flat)}
    stopped = False
    for el, idx in order.items():
        for i in idx:
            if stopped:
                break
            k = pos[(el, i)]
            case_ids.setdefault((el, i), len(case_ids))
            if not stub["base"][el][list(net[el].index).index(i)]:
                its.append((k, "ok"))          # skipped by `continue`: the model's loopStep does the same
                continue
            c = stub["cases"][f"{el}:{i}"]
            if c.get("raise"):
                its.append((k, "raised" if raise_errors else "caught"))
                if raise_errors:
                    stopped = True
                continue
            its.append((k, "ok"))
            folded.append((el, i))
    reqs, meta = [], []
    mode = which
    for el in elements:
        n = len(net[el])
        for k in range(n):
            obs = []
            for (cel, ci) in folded:
                c = stub["cases"][f"{cel}:{ci}"]
                v = c[el][k]
                b = stub["base"][el][k]
                ins = b and not (cel == el and int(net[el].index[k]) == ci)
                obs.append(f"{case_ids[(cel, ci)]} {'-' if v is None else v} {int(ins)} {int(b)}")
            reqs.append(f"fold {mode} {len(obs)} " + " ".join(obs))
            meta.append(("fold", el, k))
    # flags
    lims, per_case = [], {}
    for el in ("line", "trafo"):
        if el not in elements:
            continue
        s = "max_loading_percent_nminus1" if "max_loading_percent_nminus1" in net[el].columns else "max_loading_percent"
        for x in net[el][s].values:
            lims.append("-" if (x is None or (isinstance(x, float) and math.isnan(x))) else str(int(x)))
    cs = []
    for (cel, ci) in folded:
        c = stub["cases"][f"{cel}:{ci}"]
        vals = [("-" if v is None else str(v)) for el in ("line", "trafo") if el in elements for v in c[el]]
        cs.append(f"{case_ids[(cel, ci)]} {len(vals)} " + " ".join(vals))
    reqs.append(f"flags {'seq' if which == 'seq' else 'par'} {len(lims)} " + " ".join(lims) + f" {len(cs)} " + " ".join(cs))
    meta.append(("flags",))
    fl = [int(stub["base"][el][k]) for (el, i) in flat for k in [list(net[el].index).index(i)]]
    reqs.append(f"loop {'seq' if which == 'seq' else 'par'} {len(fl)} " + " ".join(map(str, fl)) + f" {len(its)} " +
                " ".join(f"{k} {oc}" for k, oc in its))
    meta.append(("loop", flat))
    return reqs, meta, case_ids, folded, stopped


def run_real(net, order, stub, raise_errors, which, n_procs=2):
    """run the real analysis with the stub; returns observation dict"""
    from pandapower.contingency import run_contingency
    from pandapower.contingency.contingency_parallel import run_contingency_parallel
    cases = {el: {"index": idx} for el, idx in order.items()}
    net = copy.deepcopy(net)
    obs = {"raised": None}
    # make the unwritten np.empty cells recognisable is not possible from outside; they are only compared where the
    # model says a cause was written
    okw = {}
    if stub.get("opts_via") == "user":
        net.user_pf_options = {"pf_options": {"tag": "n0"}, "pf_options_nminus1": {"tag": "n1"}}
    else:
        okw = {"pf_options": {"tag": "n0"}, "pf_options_nminus1": {"tag": "n1"}}
    try:
        with core.quiet():
            if which == "seq":
                res = run_contingency(net, cases, contingency_evaluation_function=stub_eval, stub=stub,
                                      raise_errors=raise_errors, **okw)
            else:
                res = run_contingency_parallel(net, cases, contingency_evaluation_function=stub_eval, stub=stub,
                                               raise_errors=raise_errors, n_procs=(1 if which == "par0" else n_procs), **okw)
        obs["res"] = res
    except Exception as e:       # noqa  (StubError = the scenario's own failing case; anything else is observed too)
        obs["raised"] = type(e).__name__
        obs["error"] = f"{type(e).__name__}: {e}"
        obs["res"] = None
    obs["flags"] = {el: [bool(x) for x in net[el].in_service.values] for el in ("line", "trafo") if el in stub["elements"]}
    obs["net"] = net
    return obs


def compare_model(ctx, tag, net, order, stub, raise_errors, which, resp, meta, case_ids, folded, stopped, obs):
    """returns list of disagreement strings"""
    dis = []
    inv_case = {v: k for k, v in case_ids.items()}
    res = obs["res"]
    if stopped != (obs["raised"] is not None) or obs["raised"] not in (None, "StubError"):
        dis.append(f"{tag}: model says exception {'propagates' if stopped else 'does not propagate'}, real: {obs.get('error')}")
    if res is not None:
        for el in stub["elements"]:
            col = "vm_pu" if el == "bus" else "loading_percent"
            want = np.array([np.nan if v is None else float(v) for v in stub["cases"]["n0"][el]])
            if not np.array_equal(np.asarray(res[el][col], dtype=float), want, equal_nan=True):
                dis.append(f"{tag}: N-0 {el}.{col}: expected {want.tolist()} (evaluation with pf_options), real "
                           f"{np.asarray(res[el][col]).tolist()}")
    for r, m in zip(resp, meta):
        if m[0] == "fold":
            if res is None:
                continue
            _, el, k = m
            mx, mn, cause = r.split()
            col = "vm_pu" if el == "bus" else "loading_percent"
            for name, mv in ((f"max_{col}", mx), (f"min_{col}", mn)):
                if name not in res[el]:
                    rv = float("nan")       # no case was aggregated at all
                else:
                    rv = float(res[el][name][k])
                if (mv == "-") != math.isnan(rv) or (mv != "-" and float(mv) != rv):
                    dis.append(f"{tag}: {el}[{k}].{name}: model {mv}, real {rv}")
            if el != "bus" and cause != "-":
                cel, ci = inv_case[int(cause)]
                rel, ri = res[el]["cause_element"][k], res[el]["cause_index"][k]
                if rel != cel or int(ri) != ci:
                    dis.append(f"{tag}: {el}[{k}] cause: model ({cel},{ci}), real ({rel},{ri})")
        elif m[0] == "flags":
            if res is None:
                continue
            want = set() if r.strip() == "-" else {inv_case[int(t)] for t in r.split()}
            got = {(el, int(i)) for el in ("line", "trafo") if el in res
                   for i, f in zip(res[el]["index"], res[el]["causes_overloading"]) if f}
            if want != got:
                dis.append(f"{tag}: causes_overloading: model {sorted(want)}, real {sorted(got)}")
        elif m[0] == "loop":
            flat = m[1]
            got = [int(obs["flags"][el][list(net[el].index).index(i)]) for (el, i) in flat]
            if r.split() != [str(x) for x in got]:
                dis.append(f"{tag}: in_service after the run: model {r}, real {got}")
    return dis


# ----------------------------------------------------------------------------------------------------------------
# end-to-end oracle on real power flows
# ----------------------------------------------------------------------------------------------------------------

def mesh_net(rng):
    import pandapower as pp
    net = pp.create_empty_network()
    n = rng.randint(4, 7)
    hv = [pp.create_bus(net, 110., index=3 + 2 * k) for k in range(n)]
    pp.create_ext_grid(net, hv[0], vm_pu=1.02)
    if rng.random() < 0.4:
        pp.create_gen(net, hv[n // 2], p_mw=rng.choice([20., 40.]), vm_pu=1.01)

    def line(a, b, idx=None):
        pp.create_line_from_parameters(net, a, b, length_km=rng.choice([8., 15., 25.]), r_ohm_per_km=0.06,
                                       x_ohm_per_km=0.3, c_nf_per_km=9., max_i_ka=rng.choice([0.25, 0.4, 0.6]),
                                       max_loading_percent=rng.choice([25., 50., 100.]), index=idx)
    for k in range(n):
        line(hv[k], hv[(k + 1) % n], idx=100 + 7 * k if rng.random() < 0.5 else None)
    for _ in range(rng.randint(0, 2)):
        a, b = rng.sample(hv, 2)
        line(a, b)
    if rng.random() < 0.6:      # a spur: its outage leaves a bus unsupplied (NaN results there)
        sp = pp.create_bus(net, 110.)
        line(rng.choice(hv), sp)
        pp.create_load(net, sp, 5., 1.)
    for b in hv[1:]:
        pp.create_load(net, b, p_mw=rng.choice([8., 15., 25.]), q_mvar=rng.choice([1., 4.]))
    mv = pp.create_bus(net, 20.)
    a = rng.choice(hv[1:])
    for _ in range(2):
        pp.create_transformer_from_parameters(net, a, mv, sn_mva=rng.choice([25., 40.]), vn_hv_kv=110., vn_lv_kv=20.,
                                              vkr_percent=0.4, vk_percent=rng.choice([10., 12.]), pfe_kw=14., i0_percent=0.05,
                                              max_loading_percent=rng.choice([40., 80., 100.]))
    pp.create_load(net, mv, p_mw=rng.choice([10., 18.]), q_mvar=3.)
    if rng.random() < 0.5:
        lv = pp.create_bus(net, 10.)
        pp.create_transformer3w_from_parameters(net, a, mv, lv, 110., 20., 10., 40., 25., 15., 10., 11., 12., 0.3, 0.31, 0.32,
                                                20., 0.05, max_loading_percent=rng.choice([40., 100.]))
        pp.create_load(net, lv, 4., 1.)
    if rng.random() < 0.3:
        net.line["max_loading_percent_nminus1"] = net.line.max_loading_percent * rng.choice([1.2, 0.8])
    if rng.random() < 0.4:
        net.line.loc[rng.choice(list(net.line.index)), "in_service"] = False
    return net


def random_cases(rng, net):
    cases = {}
    for el in BRANCHES:
        if len(net[el]) == 0 or (el != "line" and rng.random() < 0.3):
            continue
        idx = [int(i) for i in net[el].index]
        rng.shuffle(idx)
        cases[el] = {"index": idx[:rng.randint(1, len(idx))]}
    items = list(cases.items())
    rng.shuffle(items)
    return dict(items)


def brute_force(net, cases, opt1=None):
    """independent: one deepcopy + runpp per case; returns per-case value vectors"""
    opt1 = opt1 or {}
    import pandapower as pp
    per_case = []
    for el, v in cases.items():
        for i in v["index"]:
            if not net[el].at[i, "in_service"]:
                continue
            n2 = copy.deepcopy(net)
            n2[el].at[i, "in_service"] = False
            try:
                with core.quiet():
                    pp.runpp(n2, **opt1)
            except Exception:        # noqa
                continue
            vals = {"bus": n2.res_bus.vm_pu.values.copy()}
            valid = {"bus": n2.bus.in_service.values.copy()}
            for b in BRANCHES:
                if len(net[b]):
                    vals[b] = n2["res_" + b].loading_percent.values.copy()
                    valid[b] = n2[b].in_service.values.copy()
            per_case.append(((el, int(i)), vals, valid))
    return per_case


def check_against_brute(net_before, cases, res, net_after, tol=1e-6, opt0=None, opt1=None):
    """the property, literally; returns list of (key, text)"""
    import pandapower as pp
    bad = []
    per_case = brute_force(net_before, cases, opt1)
    n0 = copy.deepcopy(net_before)
    with core.quiet():
        pp.runpp(n0, **(opt0 or {}))
    for el in ["bus"] + [b for b in BRANCHES if len(net_before[b])]:
        col = "vm_pu" if el == "bus" else "loading_percent"
        n = len(net_before[el])
        stack = np.full((max(1, len(per_case)), n), np.nan)
        for k, (_, vals, valid) in enumerate(per_case):
            stack[k] = np.where(valid[el], vals[el], np.nan)
        with np.errstate(all="ignore"):
            import warnings
            with warnings.catch_warnings():
                warnings.simplefilter("ignore")
                tmax, tmin = np.nanmax(stack, axis=0), np.nanmin(stack, axis=0)
        for name, truth in ((f"max_{col}", tmax), (f"min_{col}", tmin)):
            got = np.asarray(res[el].get(name, np.full(n, np.nan)), dtype=float)
            if not np.allclose(got, truth, rtol=tol, atol=tol, equal_nan=True):
                k = int(np.flatnonzero(~np.isclose(got, truth, rtol=tol, atol=tol, equal_nan=True))[0])
                bad.append((f"extreme:{name}", f"{el}[{net_before[el].index[k]}].{name} = {got[k]!r}, true extreme over the "
                                               f"valid N-1 cases = {truth[k]!r}"))
        # N-0
        ref = n0["res_" + el][col].values
        if not np.allclose(np.asarray(res[el][col], dtype=float), ref, rtol=tol, atol=tol, equal_nan=True):
            bad.append(("n0", f"{el}.{col} (N-0) differs from a plain power flow"))
        if el == "bus":
            continue
        # cause attains the maximum
        for k in range(n):
            if math.isnan(tmax[k]):
                continue
            ce, ci = res[el]["cause_element"][k], res[el]["cause_index"][k]
            hit = [j for j, (c, _, valid) in enumerate(per_case) if c == (ce, int(ci) if ce is not None else None)]
            if not hit or not valid_at(per_case[hit[0]], el, k) or abs(per_case[hit[0]][1][el][k] - tmax[k]) > tol * max(1, abs(tmax[k])):
                bad.append(("cause", f"{el}[{net_before[el].index[k]}]: reported cause ({ce},{ci}) does not produce the "
                                     f"reported maximum loading {tmax[k]!r}"))
                break
    # causes_overloading
    want = set()
    for (c, vals, valid) in per_case:
        for b in BRANCHES:
            if not len(net_before[b]):
                continue
            s = "max_loading_percent_nminus1" if "max_loading_percent_nminus1" in net_before[b].columns else "max_loading_percent"
            with np.errstate(invalid="ignore"):
                if np.any(vals[b] > net_before[b][s].values):
                    want.add(c)
    got = {(b, int(i)) for b in BRANCHES if b in res for i, f in zip(res[b]["index"], res[b]["causes_overloading"]) if f}
    if want != got:
        bad.append(("causes_overloading", f"causes_overloading true for {sorted(got)}, overloading outages are {sorted(want)}"))
    # restored
    for b in BRANCHES:
        if len(net_before[b]) and not np.array_equal(net_before[b].in_service.values, net_after[b].in_service.values):
            bad.append(("restore", f"{b}.in_service changed by the analysis"))
    # written to the tables
    for b in BRANCHES:
        if len(net_before[b]) and "max_loading_percent" in res[b]:
            if "max_loading_percent" not in net_after["res_" + b].columns or not np.allclose(
                    net_after["res_" + b].max_loading_percent.values.astype(float), res[b]["max_loading_percent"], equal_nan=True):
                bad.append(("tables", f"res_{b}.max_loading_percent not equal to the returned dict"))
    return bad


def valid_at(pc, el, k):
    return bool(pc[2][el][k]) and not math.isnan(pc[1][el][k])


def setup_proof(ctx, prop):
    x = {}

    def translator():
        x.update(tr.extract(core.REPO))
        return tr.render(x)
    ctx.regenerate("C14", translator)
    ctx.prove(prop)
    return x


def stub_correspondence(ctx, whichs, n_cases):
    rng = ctx.rng
    all_reqs, book = [], []
    for k in range(n_cases):
        net, order, stub = stub_scenario(rng)
        raise_errors = (k % 5 == 4)
        for which in whichs:
            reqs, meta, case_ids, folded, stopped = model_requests(net, order, stub, raise_errors, which)
            try:
                obs = run_real(net, order, stub, raise_errors, which)
            except Exception as e:       # noqa
                ctx.tie_break(f"correspondence:{ctx.prop}", f"real analysis with stub raised {type(e).__name__}: {e}")
                continue
            book.append((len(all_reqs), len(reqs), meta, case_ids, folded, stopped, obs, net, order, stub, raise_errors, which, k))
            # direct oracle on the real run (no model involved): the in_service flags are restored on every path
            for el, fl in obs["flags"].items():
                if fl != stub["base"][el]:
                    ctx.failure("restore", f"{which}: {el}.in_service after the analysis {fl}, before {stub['base'][el]} "
                                           f"(raising cases: {[k2 for k2, c in stub['cases'].items() if c.get('raise')]}, "
                                           f"raise_errors={raise_errors})", {"order": order, "stub": stub, "raise_errors": raise_errors})
            all_reqs += reqs
        ctx.count(json.dumps([order, stub["cases"]], sort_keys=True), nontrivial=len(stub["cases"]) >= 3)
        ctx.hist("n_cases", sum(len(v) for v in order.values()))
        ctx.hist("raising_cases", sum(1 for c in stub["cases"].values() if c.get("raise")))
    if ctx.cov.get("lean_build_failed") or not all_reqs:
        return
    resp = core.lean_driver("C14", all_reqs)
    n_dis = 0
    for (a, n, meta, case_ids, folded, stopped, obs, net, order, stub, raise_errors, which, k) in book:
        dis = compare_model(ctx, f"case {k} {which}", net, order, stub, raise_errors, which, resp[a:a + n], meta, case_ids,
                            folded, stopped, obs)
        n_dis += len(dis)
        for d in dis[:2]:
            if len(ctx.tie_breaks) < 6:
                ctx.tie_break(f"correspondence:{ctx.prop}", d + f" | order={order} raise_errors={raise_errors}")
    ctx.cov["correspondence_requests"] = len(all_reqs)
    ctx.cov["disagreements_checked"] = n_dis
    ctx.sample({"request": all_reqs[0][:160], "response": resp[0]})


def run(ctx):
    import pandapower as pp
    from pandapower.contingency import run_contingency
    ctx.cov["rule"] = ("stub stream: real run_contingency with a stub evaluation function on 1-4 lines / 0-3 trafos, shuffled "
                       "case lists with out-of-service, repeated, all-NaN and raising cases; oracle stream: generated "
                       "meshed 110/20(/10) kV nets with spur, parallel trafos, trafo3w, random case lists; non-trivial = "
                       ">= 3 evaluated cases; distinct by scenario")
    setup_proof(ctx, "C14")
    stub_correspondence(ctx, ["seq"], ctx.budget(60, 600))
    rng = ctx.rng
    for k in range(ctx.budget(6, 80)):
        net = mesh_net(rng)
        cases = random_cases(rng, net)
        before = copy.deepcopy(net)
        net_json = pp.to_json(net)
        opt0 = rng.choice([{}, {"trafo_loading": "current"}, {"calculate_voltage_angles": True}])
        opt1 = rng.choice([{}, {"trafo_loading": "power"}, {"voltage_depend_loads": False, "trafo_loading": "power"}])
        try:
            with core.quiet():
                res = run_contingency(net, cases, pf_options=opt0, pf_options_nminus1=opt1)
        except Exception as e:       # noqa
            ctx.note(f"run_contingency failed on generated net: {type(e).__name__}: {e}")
            continue
        bad = check_against_brute(before, cases, res, net, opt0=opt0, opt1=opt1)
        ctx.hist("options", f"{sorted(opt0)}/{sorted(opt1)}")
        ctx.count(net_json, nontrivial=sum(len(v["index"]) for v in cases.values()) >= 3)
        ctx.hist("oracle_cases", sum(len(v["index"]) for v in cases.values()))
        for key, text in bad:
            ctx.failure(key, text, {"net_json": net_json, "cases": cases, "opt0": opt0, "opt1": opt1})
        ctx.sample({"cases": cases, "max_loading_line": [round(float(x), 3) for x in res["line"].get("max_loading_percent", [])][:5]}, cap=3)


def replay(ctx, path):
    import pandapower as pp
    from pandapower.contingency import run_contingency
    with open(path) as f:
        r = json.load(f)["replay"]
    net = pp.from_json_string(r["net_json"])
    before = copy.deepcopy(net)
    with core.quiet():
        res = run_contingency(net, r["cases"], pf_options=r.get("opt0") or {}, pf_options_nminus1=r.get("opt1") or {})
    bad = check_against_brute(before, r["cases"], res, net, opt0=r.get("opt0"), opt1=r.get("opt1"))
    for b in bad:
        print(b)
    print("REPLAY", "FAILS" if bad else "holds")
    return 1 if bad else 0
