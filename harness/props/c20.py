"""C20 — saving and loading a network loses nothing.

proof:   Props/C20.lean: decode(encode v) = v for every well-formed value of the JSON envelope universe (None, bool, int,
         float, str, list, dict, tuple, set, frozenset, numpy int/float/bool scalars, complex; any nesting), over the
         encoder payload expressions / dtype pops / numpy-bool handler regenerated from io_utils.py.
tie:     translator + correspondence: json.dumps(v, cls=PPJSONEncoder) as a tree and the PPJSONDecoder round trip on random
         nested values vs the model (exact, type-sensitive).
oracle:  whole-net round trips (to_json string / file / encrypted, pickle; Excel and SQLite for element data) of generated nets
         with numeric-looking / empty / unicode strings, NaN / inf, custom columns incl. a non-string column label, nullable
         and small dtypes, controllers, groups, characteristics, trimmed std-type libraries, user options: deep comparison of
         tables (index, columns, dtypes, values to 1e-14), objects, std types, options, and of runpp results.
"""
import copy
import json
import math
import os
import tempfile

import numpy as np
import pandas as pd

from harness import core
from translate import c20 as tr


def hx(s):
    return s.encode("utf-8").hex() if s != "" else "-"


def frepr(x):
    if math.isnan(x):
        return "nan"
    if math.isinf(x):
        return "inf" if x > 0 else "-inf"
    return repr(float(x))


def gen_value(rng, depth=0):
    kinds = ["none", "bool", "int", "float", "str", "npint", "npfloat", "npbool", "complex"]
    if depth < 3:
        kinds += ["list", "dict", "tuple", "set", "frozenset"] * 2
    k = rng.choice(kinds)
    if k == "none":
        return None
    if k == "bool":
        return rng.random() < 0.5
    if k == "int":
        return rng.choice([0, -7, 42, 10 ** 12])
    if k == "float":
        return rng.choice([0.5, -1e-9, 1e300, 3.141592653589793, float("nan"), float("inf"), float("-inf"), 2.0])
    if k == "str":
        return rng.choice(["", "a", "1e5", "007", "true", "NaN", "ünïcödé", "_module", "x y"])
    if k == "npint":
        return rng.choice([np.int64, np.int32, np.uint32, np.int8])(rng.choice([0, 3, 100]))
    if k == "npfloat":
        return rng.choice([np.float64, np.float32])(rng.choice([0.25, 1.5, float("nan")]))
    if k == "npbool":
        return np.bool_(rng.random() < 0.5)
    if k == "complex":
        return complex(rng.choice([1, 0, -2]), rng.choice([0.5, 3]))
    n = rng.randint(0, 3)
    if k == "dict":
        return {rng.choice(["a", "b", "k1", "", "zz"]) + str(i): gen_value(rng, depth + 1) for i in range(n)}
    items = [gen_value(rng, depth + 1) for _ in range(n)]
    if k == "list":
        return items
    if k == "tuple":
        return tuple(items)
    # sets need hashable members
    flat = [rng.choice([1, 2, "s", 0.5, (1, 2), None]) for _ in range(n)]
    return set(flat) if k == "set" else frozenset(flat)


def to_tokens(v):
    """python value -> prefix notation (model input); sets in iteration order (what list(obj) yields)"""
    if v is None:
        return "N"
    if isinstance(v, (bool,)):
        return f"B {int(v)}"
    if isinstance(v, np.bool_):
        return f"NB {int(bool(v))}"
    if isinstance(v, np.integer):
        return f"NI {type(v).__name__} {int(v)}"
    if isinstance(v, np.floating):
        return f"NF {type(v).__name__} {frepr(float(v))}"
    if isinstance(v, int):
        return f"I {v}"
    if isinstance(v, float):
        return f"F {frepr(v)}"
    if isinstance(v, complex):
        return f"C {hx(str(v))}"
    if isinstance(v, str):
        return f"S {hx(v)}"
    if isinstance(v, dict):
        return f"D {len(v)}" + "".join(f" {hx(k)} {to_tokens(x)}" for k, x in v.items())
    tag = {list: "L", tuple: "T", set: "E", frozenset: "Z"}[type(v)]
    items = list(v)
    return f"{tag} {len(items)}" + "".join(" " + to_tokens(x) for x in items)


def json_tree_tokens(j):
    """plain-JSON tree (after json.loads without hooks) -> prefix notation"""
    if j is None:
        return "N"
    if isinstance(j, bool):
        return f"B {int(j)}"
    if isinstance(j, int):
        return f"I {j}"
    if isinstance(j, float):
        return f"F {frepr(j)}"
    if isinstance(j, str):
        return f"S {hx(j)}"
    if isinstance(j, list):
        return f"L {len(j)}" + "".join(" " + json_tree_tokens(x) for x in j)
    return f"D {len(j)}" + "".join(f" {hx(k)} {json_tree_tokens(x)}" for k, x in j.items())


def parse_tokens(toks):
    """prefix notation -> python value (inverse of to_tokens); returns (value, rest)"""
    t = toks[0]
    unhx = lambda h: "" if h == "-" else bytes.fromhex(h).decode("utf-8")
    if t == "N":
        return None, toks[1:]
    if t == "B":
        return toks[1] == "1", toks[2:]
    if t == "NB":
        return np.bool_(toks[1] == "1"), toks[2:]
    if t == "I":
        return int(toks[1]), toks[2:]
    if t == "F":
        return float(toks[1]), toks[2:]
    if t == "S":
        return unhx(toks[1]), toks[2:]
    if t == "C":
        return complex(unhx(toks[1])), toks[2:]
    if t == "NI":
        return getattr(np, toks[1])(int(toks[2])), toks[3:]
    if t == "NF":
        return getattr(np, toks[1])(float(toks[2])), toks[3:]
    n, rest = int(toks[1]), toks[2:]
    if t == "D":
        d = {}
        for _ in range(n):
            k = unhx(rest[0])
            v, rest = parse_tokens(rest[1:])
            d[k] = v
        return d, rest
    items = []
    for _ in range(n):
        v, rest = parse_tokens(rest)
        items.append(v)
    return {"L": list, "T": tuple, "E": set, "Z": frozenset}[t](items), rest


def values_equal(a, b):
    """type-sensitive deep equality (numpy bool vs builtin bool are the same value; NaN == NaN)"""
    if isinstance(a, (np.bool_, bool)) and isinstance(b, (np.bool_, bool)):
        return bool(a) == bool(b)
    if type(a) is not type(b):
        return False
    if isinstance(a, (float, np.floating)):
        return (math.isnan(a) and math.isnan(b)) or a == b
    if isinstance(a, complex):
        return a == b
    if isinstance(a, dict):
        return list(a) == list(b) and all(values_equal(a[k], b[k]) for k in a)
    if isinstance(a, (list, tuple)):
        return len(a) == len(b) and all(values_equal(x, y) for x, y in zip(a, b))
    if isinstance(a, (set, frozenset)):
        return a == b
    return a == b


# ----------------------------------------------------------------------------------------------------------------
# whole-net oracle
# ----------------------------------------------------------------------------------------------------------------

def make_net(rng):
    import pandapower as pp
    import pandapower.control as ct
    add_std = rng.random() < 0.75
    net = pp.create_empty_network(name=rng.choice(["", "grid ü", "42"]), sn_mva=rng.choice([1., 100.]), add_stdtypes=add_std)
    if not add_std:
        pp.create_std_type(net, {"r_ohm_per_km": 0.2, "x_ohm_per_km": 0.1, "c_nf_per_km": 50., "max_i_ka": 0.3, "type": "cs"},
                           "project line", element="line")
    elif rng.random() < 0.5:
        for n in rng.sample(sorted(net.std_types["line"]), 3):
            pp.delete_std_type(net, n, element="line")
    names = ["", "4711", "1e3", "NaN", "None", "bus ü", "true", "007"]
    b = [pp.create_bus(net, 20., name=rng.choice(names), index=rng.choice([None, 7 + 3 * k]) if k else None) for k in range(rng.randint(3, 5))]
    pp.create_ext_grid(net, b[0], vm_pu=1.02)
    for k in range(1, len(b)):
        pp.create_line_from_parameters(net, b[k - 1], b[k], rng.choice([1., 2.5]), 0.2, 0.1, 50., 0.3, name=rng.choice(names),
                                       geodata=[(0., float(k)), (1., float(k) + 0.5)] if rng.random() < 0.5 else None)
        pp.create_load(net, b[k], p_mw=rng.choice([1., 2., 0.35]), q_mvar=rng.choice([0., 1., 0.1]), name=rng.choice(names),
                       scaling=rng.choice([1., 2.]))
    if rng.random() < 0.6:
        pp.create_sgen(net, b[-1], 1., 0., name="pv")
    # custom columns / dtypes / labels
    if rng.random() < 0.6:
        net.load["my_float"] = [rng.choice([1.0, float("nan"), 1e-12, 123456789.123456789]) for _ in net.load.index]
        net.load["my_str"] = [rng.choice(names + [None]) for _ in net.load.index]
    if rng.random() < 0.4:
        net.load["cnt"] = pd.array([rng.choice([1, 2, None]) for _ in net.load.index], dtype="Int64")
    if rng.random() < 0.4:
        net.load["small"] = np.array([rng.choice([0.5, 2.0]) for _ in net.load.index], dtype=np.float32)
    if rng.random() < 0.4:
        net.load[0] = [float(rng.choice([1, 2, 3])) for _ in net.load.index]          # a non-string column label (profile step 0)
    if rng.random() < 0.4:
        net.bus.at[b[1], "vn_kv"] = float("inf") if rng.random() < 0.2 else 20.
    if rng.random() < 0.5:
        net.user_pf_options = {"tolerance_mva": 1e-6, "init": "dc"}
    if rng.random() < 0.5:
        pp.create_group(net, ["load", "line"], [[int(net.load.index[0])], [int(net.line.index[0])]], name="g ü")
    if rng.random() < 0.5:
        with core.quiet():
            c = ct.util.characteristic.Characteristic(net, [0.9, 1.0, 1.1], [1., 0., -1.])
            if rng.random() < 0.6:
                sc_ = ct.util.characteristic.SplineCharacteristic(net, [0.9, 1.0, 1.1, 1.2], [1., 0.5, -1., -1.5])
                if rng.random() < 0.7:
                    sc_(1.05)          # evaluated once: the cached interpolator exists when the net is saved
            ct.ConstControl(net, "load", "p_mw", int(net.load.index[0]), level=rng.choice([0, 1]), order=1)
    if rng.random() < 0.3:
        net["my_dict"] = {"flag": np.bool_(False), "pair": (1, 2.5), "ids": {1, 2}}
    return net


def compare_nets(a, b, tol=1e-14, value_only=False):
    """returns list of differences; a = original, b = restored"""
    out = []
    ka = {k for k in a.keys() if not k.startswith("_")}
    kb = {k for k in b.keys() if not k.startswith("_")}
    for k in sorted(ka - kb):
        if isinstance(a[k], pd.DataFrame) and a[k].empty:
            continue
        out.append(f"key {k!r} missing after the round trip")
    for k in sorted(ka & kb):
        x, y = a[k], b[k]
        if isinstance(x, pd.DataFrame):
            if not isinstance(y, pd.DataFrame):
                out.append(f"{k}: not a DataFrame any more")
                continue
            if x.empty and y.empty:
                if not value_only and list(x.columns) != list(y.columns):
                    out.append(f"{k}: columns of the empty table differ")
                continue
            if list(map(str, x.columns)) != list(map(str, y.columns)) or (not value_only and list(x.columns) != list(y.columns)):
                out.append(f"{k}: columns {list(x.columns)} -> {list(y.columns)}")
                continue
            if list(x.index) != list(y.index):
                out.append(f"{k}: index {list(x.index)} -> {list(y.index)}")
                continue
            if not value_only and x.index.dtype != y.index.dtype:
                out.append(f"{k}: index dtype {x.index.dtype} -> {y.index.dtype}")
            for cx, cy in zip(x.columns, y.columns):
                if not value_only and str(x[cx].dtype) != str(y[cy].dtype):
                    tag = "KEY[dtype-nonstring-column-label] " if not isinstance(cx, str) or any(not isinstance(c, str) for c in x.columns) else ""
                    out.append(f"{tag}{k}.{cx}: dtype {x[cx].dtype} -> {y[cy].dtype}")
                    continue
                if isinstance(x[cx], pd.DataFrame) or isinstance(y[cy], pd.DataFrame):
                    out.append(f"{k}: duplicate column label {cx!r} after the round trip")
                    continue
                for pos, i in enumerate(x.index):             # positional: net.group legitimately repeats index values
                    u, v = x[cx].iloc[pos], y[cy].iloc[pos]
                    if k == "controller" and cx == "object" or k == "characteristic" and cx == "object":
                        if k == "characteristic" and callable(u) and type(u).__name__ != "Characteristic":
                            # (spline characteristics keep a cached interpolator that is excluded from the file by design:
                            # compared by type, support points and value)
                            try:
                                if type(u) is not type(v) or list(u.x_vals) != list(v.x_vals) or list(u.y_vals) != list(v.y_vals):
                                    out.append(f"characteristic[{i}]: support points differ after the round trip")
                                elif abs(float(u(1.03)) - float(v(1.03))) > 1e-12:
                                    out.append(f"characteristic[{i}]: value at 1.03 differs after the round trip")
                            except Exception as e_:       # noqa
                                out.append(f"characteristic[{i}]: evaluation after the round trip raised {type(e_).__name__}: {str(e_)[:80]}")
                        elif not (u == v):
                            out.append(f"{k}[{i}]: object differs after the round trip")
                        continue
                    un, vn = (u is None or (isinstance(u, float) and math.isnan(u)) or u is pd.NA), \
                             (v is None or (isinstance(v, float) and math.isnan(v)) or v is pd.NA)
                    if un or vn:
                        if un != vn:
                            tag = "KEY[df-inf-becomes-nan] " if isinstance(u, (float, np.floating)) and math.isinf(u) else ""
                            out.append(f"{tag}{k}.{cx}[{i}]: {u!r} -> {v!r}")
                        continue
                    if isinstance(u, (float, np.floating)) and isinstance(v, (float, np.floating, int, np.integer)):
                        if not (u == v or abs(u - v) <= tol * max(abs(u), abs(v))):
                            out.append(f"{k}.{cx}[{i}]: {u!r} -> {v!r}")
                    elif cx == "geo":
                        if json.dumps(u, default=str, sort_keys=True) != json.dumps(v, default=str, sort_keys=True) and str(u) != str(v):
                            out.append(f"{k}.{cx}[{i}]: geodata differs")
                    elif isinstance(u, (list, tuple, np.ndarray)) or isinstance(v, (list, tuple, np.ndarray)):
                        if list(u) != list(v):
                            out.append(f"{k}.{cx}[{i}]: {u!r} -> {v!r}")
                    elif not (u == v) or (not value_only and type(u) is not type(v) and not isinstance(u, (np.generic,)) and not isinstance(v, (np.generic,))):
                        out.append(f"{k}.{cx}[{i}]: {u!r} ({type(u).__name__}) -> {v!r} ({type(v).__name__})")
            continue
        if k == "std_types":
            for el in x:
                if set(x[el]) != set(y.get(el, {})):
                    out.append(f"std_types[{el}]: {len(x[el])} types -> {len(y.get(el, {}))}; only after: "
                               f"{sorted(set(y.get(el, {})) - set(x[el]))[:3]}, only before: {sorted(set(x[el]) - set(y.get(el, {})))[:3]}")
                else:
                    for n in x[el]:
                        if x[el][n] != y[el][n] and json.dumps(x[el][n], default=str, sort_keys=True) != json.dumps(y[el][n], default=str, sort_keys=True):
                            out.append(f"std_types[{el}][{n}] differs")
            continue
        if isinstance(x, dict):
            if not values_equal(dict(x), dict(y)):
                out.append(f"{k}: {x!r} -> {y!r}")
        elif isinstance(x, (str, int, float, bool)) or x is None:
            if not values_equal(x, y) and not (isinstance(x, float) and isinstance(y, (int, float)) and x == y):
                out.append(f"{k}: {x!r} -> {y!r}")
    return out[:6]


def run(ctx):
    import pandapower as pp
    from pandapower.io_utils import PPJSONEncoder, PPJSONDecoder
    ctx.cov["rule"] = ("correspondence case = random nested value (depth <= 4) over the envelope universe; oracle case = generated "
                       "net x format (json string / file / encrypted, pickle, excel, sqlite); non-trivial = value with >= 1 "
                       "container / net with >= 1 custom feature")
    x = {}

    def translator():
        x.update(tr.extract(core.REPO))
        return tr.render(x)
    ctx.regenerate("C20", translator)
    ctx.prove()
    rng = ctx.rng
    reqs, expect = [], []
    for k in range(ctx.budget(150, 3000)):
        v = gen_value(rng)
        case = {"value": repr(v)}
        try:
            s = json.dumps(v, cls=PPJSONEncoder)
        except Exception as e:       # noqa
            ctx.failure("encode-raises", f"json.dumps(cls=PPJSONEncoder) raised {type(e).__name__}: {e} for {v!r}", case)
            continue
        try:
            back = json.loads(s, cls=PPJSONDecoder)
        except Exception as e:       # noqa
            ctx.failure("decode-raises", f"PPJSONDecoder raised {type(e).__name__}: {e} for {v!r}", case)
            continue
        ctx.count(case["value"], nontrivial=isinstance(v, (list, dict, tuple, set, frozenset)))
        well_formed = not (isinstance(v, dict) and "_module" in v and "_class" in v)
        if well_formed and not values_equal(v, back):
            ctx.failure("envelope-roundtrip", f"{v!r} comes back as {back!r}", case)
        reqs.append("enc " + to_tokens(v))
        expect.append(("enc", json_tree_tokens(json.loads(s)), case))
        reqs.append("rt " + to_tokens(v))
        expect.append(("rt", back, case))
    # ---------------- whole nets
    tmp = tempfile.mkdtemp(prefix="c20_", dir=os.path.join(core.VERIF, ".cache") if os.path.isdir(os.path.join(core.VERIF, ".cache")) else None)
    formats = ["json_string", "json_file", "json_encrypted", "pickle", "excel", "sqlite"]
    for k in range(ctx.budget(18, 240)):
        net = make_net(rng)
        fmt = formats[k % len(formats)]
        case = {"format": fmt, "net_json": None}
        try:
            case["net_json"] = pp.to_json(net)
        except Exception as e:       # noqa
            ctx.failure("save-raises:json_string", f"to_json raised {type(e).__name__}: {e}", {"format": fmt, "features": sorted(net.load.columns.astype(str))})
            continue
        try:
            with core.quiet():
                if fmt == "json_string":
                    back = pp.from_json_string(pp.to_json(net))
                elif fmt == "json_file":
                    p = os.path.join(tmp, f"n{k}.json")
                    pp.to_json(net, p)
                    back = pp.from_json(p)
                elif fmt == "json_encrypted":
                    back = pp.from_json_string(pp.to_json(net, encryption_key="k3y"), encryption_key="k3y")
                elif fmt == "pickle":
                    p = os.path.join(tmp, f"n{k}.p")
                    pp.to_pickle(net, p)
                    back = pp.from_pickle(p)
                elif fmt == "excel":
                    p = os.path.join(tmp, f"n{k}.xlsx")
                    pp.to_excel(net, p)
                    back = pp.from_excel(p)
                else:
                    p = os.path.join(tmp, f"n{k}.db")
                    pp.to_sqlite(net, p)
                    back = pp.from_sqlite(p)
        except Exception as e:       # noqa
            if fmt in ("excel", "sqlite"):
                ctx.hist("whole_net", f"{fmt}:not-representable:{type(e).__name__}")
                continue
            ctx.failure(f"roundtrip-raises:{fmt}", f"{fmt} round trip raised {type(e).__name__}: {e}", case)
            continue
        ctx.count((fmt, case["net_json"]), nontrivial=True)
        ctx.hist("whole_net", fmt)
        if fmt in ("excel", "sqlite"):
            # element data those formats can represent: element tables, values only
            a2, b2 = {k2: net[k2] for k2 in ("bus", "line", "load", "ext_grid", "sgen")}, {k2: back[k2] for k2 in ("bus", "line", "load", "ext_grid", "sgen")}
            for k2 in a2:
                keep = [c for c in a2[k2].columns if isinstance(c, str) and c not in ("geo", "cnt", "my_str", "name")]
                a2[k2], b2[k2] = a2[k2][keep], b2[k2][[c for c in keep if c in b2[k2].columns]]
            diffs = compare_nets(a2, b2, tol=1e-12, value_only=True)
        else:
            diffs = compare_nets(net, back)
        real_diffs = []
        for d in diffs[:3]:
            if d.startswith("KEY["):
                key = d[4:d.index("]")]
                if fmt.startswith("json") or key == "df-inf-becomes-nan":
                    ctx.failure(key, f"{fmt}: {d[d.index(']') + 2:]}", case)
                    continue
            real_diffs.append(d)
            ctx.failure(f"net-roundtrip:{fmt}:{d.split(':')[0].split('[')[0].split('.')[0].replace('KEY', '')}", f"{fmt}: {d}", case)
        if not real_diffs and fmt not in ("excel", "sqlite"):
            try:
                with core.quiet():
                    n1, n2 = copy.deepcopy(net), back
                    for n_ in (n1, n2):
                        n_.controller = n_.controller.iloc[0:0]
                    pp.runpp(n1)
                    pp.runpp(n2)
                if not np.allclose(n1.res_bus.vm_pu.values, n2.res_bus.vm_pu.values, rtol=0, atol=1e-12, equal_nan=True):
                    ctx.failure(f"results:{fmt}", f"{fmt}: power flow results differ after the round trip", case)
            except Exception as e:   # noqa
                ctx.hist("whole_net", "runpp-failed:" + type(e).__name__)
    try:
        import shutil
        shutil.rmtree(tmp, ignore_errors=True)
    except Exception:                # noqa
        pass
    if ctx.cov.get("lean_build_failed") or not reqs:
        return
    resp = core.lean_driver("C20", reqs)
    dis = 0
    for rq, r, (kind, want, case) in zip(reqs, resp, expect):
        if kind == "enc":
            ok = r.strip() == want
        else:
            ok = False
            if r.strip() not in ("raises", "bad-op"):
                try:
                    ok = values_equal(parse_tokens(r.split())[0], want)      # sets compare as sets (iteration order is not a value)
                except Exception:    # noqa
                    ok = False
        if not ok:
            dis += 1
            if dis <= 3:
                ctx.tie_break("correspondence:C20", f"{kind}: model {r[:160]!r}, implementation {(want if kind == 'enc' else to_tokens(want))[:160]!r} for {case['value'][:120]}")
    ctx.cov["correspondence_requests"] = len(reqs)
    ctx.cov["disagreements_checked"] = dis
    ctx.sample({"request": reqs[0][:160], "response": resp[0][:160]})
    ctx.assumptions.append("pandas to_json/read_json (double_precision=15), openpyxl, sqlite3, pickle and cryptography are library "
                           "contracts: covered by the whole-net oracle, not by the Lean model; floats are opaque literals in the model "
                           "(float.__repr__ round trips exactly)")


def replay(ctx, path):
    print("C20 replays carry the value repr or the net as JSON; re-run ./check C20 with the same VERIF_SEED")
    return 2
