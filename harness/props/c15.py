"""C15 — parallel contingency analysis equals the sequential analysis.

proof:   Props/C15.lean: the aggregation of run_contingency_parallel (masks regenerated from contingency_parallel.py, worker
         flag report checked) equals the sequential aggregation for every case list, in both of its paths; max/min are
         invariant under any permutation of the per-case results.
tie:     translator + correspondence: real run_contingency_parallel (n_procs = 1 and real worker processes) driven by a
         stub evaluation function vs the Lean fold model.
oracle:  returned dicts of run_contingency_parallel(n_procs in {1, 2, 3[, 4, 8]}) == run_contingency, on the stub stream and
         on real power flows; aggregation of the worker packs in shuffled order == in task order (max / min / flags).
"""
import copy
import json
import math

import numpy as np

from harness import core
from harness.props import c14


def dict_diff(a, b, what):
    """compare two contingency result dicts; cause cells are compared only where a maximum exists"""
    out = []
    if set(a) != set(b):
        return [f"{what}: element keys {sorted(a)} vs {sorted(b)}"]
    for el in a:
        if set(a[el]) != set(b[el]):
            out.append(f"{what}: {el} keys {sorted(a[el])} vs {sorted(b[el])}")
            continue
        for k in a[el]:
            x, y = np.asarray(a[el][k]), np.asarray(b[el][k])
            if k in ("cause_element", "cause_index"):
                mx = np.asarray(a[el].get("max_loading_percent", np.full(len(x), np.nan)), dtype=float)
                m = ~np.isnan(mx)
                if not np.array_equal(x[m], y[m]):
                    out.append(f"{what}: {el}.{k} {x[m].tolist()} vs {y[m].tolist()}")
            elif x.dtype.kind == "f" or y.dtype.kind == "f":
                if not np.allclose(x.astype(float), y.astype(float), rtol=1e-9, atol=1e-9, equal_nan=True):
                    out.append(f"{what}: {el}.{k} {x.tolist()} vs {y.tolist()}")
            elif not np.array_equal(x, y):
                out.append(f"{what}: {el}.{k} {x.tolist()} vs {y.tolist()}")
    return out


def eval_fail_first_line(net, **kwargs):
    """evaluation function (module level: picklable for the worker processes): the outage of the first line does not converge"""
    import pandapower as pp
    if not bool(net.line.in_service.iloc[0]):
        raise pp.LoadflowNotConverged("outage of the first line fails (harness)")
    pp.runpp(net, **kwargs)


def run(ctx):
    import pandapower as pp
    from pandapower.contingency import run_contingency
    from pandapower.contingency.contingency_parallel import run_contingency_parallel
    ctx.cov["rule"] = ("stub stream: real run_contingency_parallel (in-process path and real worker processes) with a stub "
                       "evaluation function, vs the Lean model and vs the sequential function; oracle stream: meshed nets, "
                       "n_procs in {1,2,3} (thorough: 4, 8) vs run_contingency; non-trivial = >= 3 evaluated cases")
    c14.setup_proof(ctx, "C15")
    c14.stub_correspondence(ctx, ["par0", "par1"], ctx.budget(20, 300))
    rng = ctx.rng
    procs = ctx.budget([1, 2, 3], [1, 2, 3, 4, 8])
    # direct oracle 1: stub stream, real functions against each other
    for k in range(ctx.budget(10, 40)):       # (each case runs one process pool per process count)
        net, order, stub = c14.stub_scenario(rng, with_raise=(k % 3 == 0))
        ref = c14.run_real(net, order, stub, False, "seq")
        for n in procs:
            got = c14.run_real(net, order, stub, False, "par0" if n == 1 else "par1", n_procs=n)
            if got["raised"] != ref["raised"]:
                ctx.failure("par-raises", f"run_contingency_parallel(n_procs={n}, raise_errors=False) ends with "
                                          f"{got.get('error')}, run_contingency with {ref.get('error')}",
                            {"stub": stub, "order": order, "n_procs": n})
                continue
            if ref["res"] is None:
                continue
            d = dict_diff(ref["res"], got["res"], f"n_procs={n}")
            if ref["flags"] != got["flags"]:
                d.append(f"n_procs={n}: in_service flags after the run differ")
            ctx.count(("stub", k, n), nontrivial=len(stub["cases"]) >= 3)
            for t in d[:1]:
                ctx.failure("par-vs-seq:" + t.split(":")[1].strip().split(" ")[0].split(".")[-1], t,
                            {"stub": stub, "order": order, "n_procs": n,
                             "line": net.line[["in_service", "max_loading_percent"]].to_dict("list"),
                             "trafo": net.trafo[["in_service", "max_loading_percent"]].to_dict("list") if len(net.trafo) else {}})
    # direct oracle 2: real power flows
    for k in range(ctx.budget(2, 8)):
        net = c14.mesh_net(rng)
        cases = c14.random_cases(rng, net)
        net_json = pp.to_json(net)
        try:
            with core.quiet():
                ref = run_contingency(copy.deepcopy(net), cases)
        except Exception as e:       # noqa
            ctx.note(f"run_contingency failed: {type(e).__name__}: {e}")
            continue
        for n in procs:
            n2 = copy.deepcopy(net)
            try:
                with core.quiet():
                    got = run_contingency_parallel(n2, cases, n_procs=n)
            except Exception as e:   # noqa
                ctx.failure("par-raises", f"run_contingency_parallel(n_procs={n}) raised {type(e).__name__}: {e}",
                            {"net_json": net_json, "cases": cases, "n_procs": n})
                continue
            d = dict_diff(ref, got, f"n_procs={n}")
            for b in c14.BRANCHES:
                if len(net[b]) and not np.array_equal(net[b].in_service.values, n2[b].in_service.values):
                    d.append(f"n_procs={n}: {b}.in_service changed")
            ctx.count(("pf", k, n), nontrivial=sum(len(v["index"]) for v in cases.values()) >= 3)
            ctx.hist("n_procs", n)
            for t in d[:1]:
                ctx.failure("par-vs-seq:" + t.split(":")[1].strip().split(" ")[0].split(".")[-1], t,
                            {"net_json": net_json, "cases": cases, "n_procs": n})
    # direct oracle 2b: an N-1 case that fails early in a worker's chunk (more than 4 * n_procs cases, so chunks hold several cases)
    for k in range(ctx.budget(1, 4)):
        net = c14.mesh_net(rng)
        cases = {"line": {"index": [int(i) for i in net.line.index]}}
        if len(net.trafo):
            cases["trafo"] = {"index": [int(i) for i in net.trafo.index]}
        net_json = pp.to_json(net)
        try:
            with core.quiet():
                ref = run_contingency(copy.deepcopy(net), cases, contingency_evaluation_function=eval_fail_first_line)
        except Exception as e:       # noqa
            ctx.note(f"run_contingency with a failing case: {type(e).__name__}: {e}")
            continue
        n2 = copy.deepcopy(net)
        try:
            with core.quiet():
                got = run_contingency_parallel(n2, cases, n_procs=2, contingency_evaluation_function=eval_fail_first_line)
        except Exception as e:   # noqa
            ctx.failure("par-raises", f"run_contingency_parallel(n_procs=2) with a failing N-1 case raised {type(e).__name__}: {e}",
                        {"net_json": net_json, "cases": cases, "n_procs": 2})
            continue
        d = dict_diff(ref, got, "n_procs=2")
        for b in c14.BRANCHES:
            if len(net[b]) and not np.array_equal(net[b].in_service.values, n2[b].in_service.values):
                d.append(f"n_procs=2: {b}.in_service changed")
        ctx.count(("pf-fail", k), nontrivial=True)
        for t in d[:1]:
            ctx.failure("par-vs-seq:failing-case", t + " (the outage of the first line fails in both analyses)",
                        {"net_json": net_json, "cases": cases, "n_procs": 2})
    ctx.assumptions.append("multiprocessing.Pool.map returns the per-case results in task order (documented contract); "
                           "other completion orders are covered by the permutation theorem and by folding the real "
                           "aggregation over shuffled worker packs")
    # direct oracle 3: the real aggregation function over shuffled packs
    shuffled_packs(ctx, rng, ctx.budget(20, 200))


def shuffled_packs(ctx, rng, n):
    """feeds _update_contingency_results_parallel with the worker packs in task order and in a random order"""
    import inspect
    from pandapower.contingency import contingency_parallel as cp
    has_flags = "parallel_in_service" in inspect.signature(cp._update_contingency_results_parallel).parameters
    wparams = inspect.signature(cp._run_single_contingency).parameters
    for k in range(n):
        net, order, stub = c14.stub_scenario(rng, with_raise=False)
        rv = {"bus": ["vm_pu"], "line": ["loading_percent"]}
        if "trafo" in stub["elements"]:
            rv["trafo"] = ["loading_percent"]
        packs = []
        for el, idx in order.items():
            for i in idx:
                if not net[el].at[i, "in_service"]:
                    continue
                extra = {"raise_errors": False} if "raise_errors" in wparams else {}
                try:
                    with core.quiet():
                        p = cp._run_single_contingency((el, i), net=net, pf_options_nminus1={}, result_variables=rv,
                                                       contingency_evaluation_function=c14.stub_eval, stub=stub, **extra)
                except Exception as e:       # noqa
                    ctx.tie_break("correspondence:C15", f"worker function not callable in the known way: {type(e).__name__}: {e}")
                    return
                if p["success"]:
                    packs.append(p)

        def fold(ps):
            cr = {e: {"index": net[e].index.values} for e in rv}
            for e in rv:
                if e != "bus":
                    cr[e].update({"causes_overloading": np.zeros(len(net[e]), dtype=bool),
                                  "cause_element": np.full(len(net[e]), None, dtype=object),
                                  "cause_index": np.full(len(net[e]), -1, dtype=np.int64)})
            for p in ps:
                kw = {"parallel_in_service": p["in_service"]} if has_flags and "in_service" in p else {}
                cp._update_contingency_results_parallel(net, cr, rv, nminus1=True, cause_element=p["case"][0],
                                                        cause_index=p["case"][1], parallel_results=p["res_vals"], **kw)
            return cr
        a = fold(packs)
        sh = packs[:]
        rng.shuffle(sh)
        b = fold(sh)
        for e in rv:
            for key in a[e]:
                if key.startswith(("max_", "min_")) or key == "causes_overloading":
                    x, y = np.asarray(a[e][key]), np.asarray(b[e].get(key, a[e][key]))
                    same = np.allclose(x.astype(float), y.astype(float), equal_nan=True)
                    if not same:
                        ctx.failure("order-dependent:" + key, f"{e}.{key} depends on the order of the worker results: "
                                                              f"{x.tolist()} vs {y.tolist()}", {"stub": stub, "order": order})
        ctx.count(("shuffle", k), nontrivial=len(packs) >= 3)


def replay(ctx, path):
    import pandapower as pp
    from pandapower.contingency import run_contingency
    from pandapower.contingency.contingency_parallel import run_contingency_parallel
    with open(path) as f:
        r = json.load(f)["replay"]
    if "net_json" not in r:
        print("stub replay: re-run ./check C15 with the same VERIF_SEED")
        return 2
    net = pp.from_json_string(r["net_json"])
    with core.quiet():
        ref = run_contingency(copy.deepcopy(net), r["cases"])
        got = run_contingency_parallel(copy.deepcopy(net), r["cases"], n_procs=r["n_procs"])
    d = dict_diff(ref, got, f"n_procs={r['n_procs']}")
    for t in d:
        print(t)
    print("REPLAY", "FAILS" if d else "holds")
    return 1 if d else 0
