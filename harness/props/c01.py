"""C01 — Kirchhoff power balance at every bus (shared power-flow machinery: pfcommon below is imported by C02-C05, C10, C23).

proof:   Props/C01.lean: V_i conj((Ybus V)_i) = branch terminal powers + shunt power at i for every network and EVERY voltage
         vector; nodal imbalance of the result tables = - solver mismatch; exact characterisation of when the solver's bus
         load law for voltage-dependent loads (regenerated: "mean") equals the per-element law; the repaired law ("abs") equals
         it always; the result aggregation covers every element kind of the bus load.
tie:     translator + correspondence: branch flows and bus injections recomputed by the Lean model over Q[i] from the
         implementation's own admittances and voltages vs ppc PF/QF/PT/QT and V conj(Ybus V); bus load law vs _get_Sload.
oracle:  nodal balance from the RESULT TABLES ONLY (independent code) at every electrical node of generated nets.
"""
import json
import math
from fractions import Fraction

import numpy as np

from harness import core, netgen
from translate import c01 as tr

BUS_ELEMENTS = (("load", 1), ("motor", 1), ("sgen", -1), ("storage", 1), ("ward", 1), ("xward", 1), ("shunt", 1),
                ("gen", -1), ("ext_grid", -1))
BRANCHES = (("line", (("from_bus", "p_from_mw", "q_from_mvar"), ("to_bus", "p_to_mw", "q_to_mvar"))),
            ("trafo", (("hv_bus", "p_hv_mw", "q_hv_mvar"), ("lv_bus", "p_lv_mw", "q_lv_mvar"))),
            ("trafo3w", (("hv_bus", "p_hv_mw", "q_hv_mvar"), ("mv_bus", "p_mv_mw", "q_mv_mvar"), ("lv_bus", "p_lv_mw", "q_lv_mvar"))),
            ("impedance", (("from_bus", "p_from_mw", "q_from_mvar"), ("to_bus", "p_to_mw", "q_to_mvar"))))


def electrical_nodes(net):
    """bus -> representative of the group of buses fused by closed bus-bus switches without impedance"""
    rep = {int(b): int(b) for b in net.bus.index}

    def find(b):
        while rep[b] != b:
            rep[b] = rep[rep[b]]
            b = rep[b]
        return b
    if len(net.switch):
        for _, s in net.switch.iterrows():
            z = s.get("z_ohm", 0.)
            if s.et == "b" and bool(s.closed) and not (z and z > 0) and bool(net.bus.in_service.at[s.bus]) and \
                    bool(net.bus.in_service.at[s.element]):
                rep[find(int(s.bus))] = find(int(s.element))
    return {b: find(b) for b in rep}


def node_balance(net):
    """returns dict node -> (p_imbalance, q_imbalance, info) from the result tables only"""
    rep = electrical_nodes(net)
    acc = {}

    def add(bus, p, q, what):
        n = rep[int(bus)]
        a = acc.setdefault(n, [0.0, 0.0, []])
        if not math.isnan(p):
            a[0] += p
        if not math.isnan(q):
            a[1] += q
        a[2].append(what)
    for tab, sign in BUS_ELEMENTS:
        if len(net[tab]):
            res = net["res_" + tab]
            for i in net[tab].index:
                add(net[tab].bus.at[i], -sign * float(res.p_mw.at[i]), -sign * float(res.q_mvar.at[i]), tab)
    for tab, ends in BRANCHES:
        if len(net[tab]):
            res = net["res_" + tab]
            for i in net[tab].index:
                for bcol, pcol, qcol in ends:
                    add(net[tab].at[i, bcol], -float(res.at[i, pcol]), -float(res.at[i, qcol]), tab)
    if len(net.switch) and "res_switch" in net and len(net.res_switch) and "p_from_mw" in net.res_switch:
        for i in net.switch.index:
            s = net.switch.loc[i]
            if s.et == "b" and bool(s.closed) and s.get("z_ohm", 0.) and s.z_ohm > 0:
                r = net.res_switch.loc[i]
                if not math.isnan(r.p_from_mw):
                    add(s.bus, -float(r.p_from_mw), -float(r.q_from_mvar), "switch")
                    add(s.element, -float(r.p_to_mw), -float(r.q_to_mvar), "switch")
    return acc, rep


def classify(net, node, rep, vdl):
    """canonical key of a failing node"""
    buses = [b for b, r in rep.items() if r == node]
    loads = net.load[net.load.bus.isin(buses) & net.load.in_service]
    zi = ["const_z_p_percent", "const_i_p_percent", "const_z_q_percent", "const_i_q_percent"]
    has_zip = vdl and len(loads) and all(c in loads.columns for c in zi) and (loads[zi].fillna(0).values != 0).any()
    if not has_zip:
        return "balance"
    gens = sum(int(((net[t].bus.isin(buses)) & net[t].in_service).sum()) for t in ("gen", "ext_grid") if len(net[t]))
    if gens:
        return "zip-at-generator-bus"
    if len(buses) > 1:
        return "zip-fused-buses"
    others = sum(int(((net[t].bus.isin(buses)) & net[t].in_service).sum()) for t in ("sgen", "storage", "motor", "ward", "xward")
                 if len(net[t]))
    if others:
        return "zip-plus-other-pq"
    return "zip-mixed-fractions"


def cfrac(z):
    return f"{core.frac(float(np.real(z)))} {core.frac(float(np.imag(z)))}"


def run(ctx):
    import pandapower as pp
    from pandapower.pypower.makeYbus import branch_vectors
    from pandapower.pypower.makeSbus import _get_Sload
    from pandapower.pypower.idx_brch import F_BUS, T_BUS, PF, QF, PT, QT
    from pandapower.pypower.idx_bus import GS, BS, PD, VM
    ctx.cov["rule"] = ("case = generated 110/20/0.4 kV net (3-9 MV buses, lines with chords, 2W/3W transformers with all tap changer "
                       "types, impedance, ward, xward, shunt, gens, storage, motor, ZIP loads, bus-bus/line/trafo switches, "
                       "out-of-service elements) x options (voltage_depend_loads, numba, trafo_model, calculate_voltage_angles); "
                       "non-trivial = converged and >= 1 node with >= 2 element kinds")
    x = {}

    def translator():
        x.update(tr.extract(core.REPO))
        return tr.render(x)
    ctx.regenerate("C01", translator)
    ctx.prove()
    rng = ctx.rng
    reqs, expect = [], []
    for k in range(ctx.budget(30, 600)):
        variant = rng.choice(["full", "full", "full", "single-slack-resistive", "gen-at-slack", "twin-gens-qlim"])
        if variant == "single-slack-resistive":
            # one ext_grid, no gens / xwards, purely resistive bus admittances: the fast single-slack result routine applies
            net = netgen.random_net(rng, kinds=("line", "trafo", "load", "sgen", "switch"), dcline=False, n_ext=1, allow_oos=False)
            b = int(rng.choice(list(net.load.bus)))
            if rng.random() < 0.5:
                pp.create_shunt(net, b, q_mvar=0., p_mw=rng.choice([0.2, 0.41]))
            else:
                pp.create_ward(net, b, ps_mw=0.1, qs_mvar=0.05, pz_mw=rng.choice([0.31, 0.15]), qz_mvar=0.)
        else:
            net = netgen.random_net(rng, dcline=False, slack_gen=rng.random() < 0.2, n_ext=rng.choice([1, 1, 2]))
            if variant == "gen-at-slack":
                pp.create_gen(net, int(net.ext_grid.bus.iloc[0]), p_mw=rng.choice([5., 20.]), vm_pu=float(net.ext_grid.vm_pu.iloc[0]))
            if variant == "twin-gens-qlim":
                # two generators at one bus that both run into their reactive limits; solved with limits enforced by one of the
                # solvers (the pypower solvers move limited generators into the bus load one at a time)
                mvb = [int(b_) for b_ in net.bus.index[(net.bus.vn_kv == 20.) & net.bus.in_service]]
                gb = rng.choice(mvb[1:] if len(mvb) > 1 else mvb)
                for _ in range(2):
                    pp.create_gen(net, gb, rng.choice([0.5, 0.8]), vm_pu=1.04, min_q_mvar=-0.05, max_q_mvar=rng.choice([0.05, 0.1]))
        dc = rng.random() < 0.3
        opts = dict(voltage_depend_loads=(rng.random() < 0.6 and variant != "single-slack-resistive"),
                    numba=(rng.random() < 0.5 or variant == "single-slack-resistive"),
                    trafo_model=rng.choice(["t", "pi"]), calculate_voltage_angles=rng.random() < 0.7)
        if variant == "twin-gens-qlim":
            dc = False
            opts.update(enforce_q_lims=True, voltage_depend_loads=False, algorithm=rng.choice(["nr", "fdbx", "gs", "fdxb"]), max_iteration=1000)
        if dc:
            opts = dict(numba=opts["numba"], trafo_model=opts["trafo_model"], calculate_voltage_angles=opts["calculate_voltage_angles"])
        net_json = pp.to_json(net)
        case = {"options": opts, "net_json": net_json, "dc": dc, "variant": variant}
        ctx.hist("variant", variant + ("/dc" if dc else "/ac"))
        try:
            with core.quiet():
                (pp.rundcpp if dc else pp.runpp)(net, **opts)
        except Exception as e:       # noqa
            ctx.hist("run", type(e).__name__)
            continue
        ctx.hist("run", "converged")
        acc, rep = node_balance(net)
        kinds = max((len(set(v[2])) for v in acc.values()), default=0)
        ctx.count(net_json + json.dumps(opts), nontrivial=kinds >= 2)
        ctx.hist("voltage_depend_loads", opts.get("voltage_depend_loads", False))
        tol = 1e-5
        worst = {}
        for node, (dp, dq, what) in acc.items():
            if math.isnan(float(net.res_bus.vm_pu.at[node])):
                continue
            scale = 1.0
            if dc:
                dq = 0.0
            if abs(dp) > tol * scale or abs(dq) > tol * scale:
                key = ("dc-" if dc else "") + classify(net, node, rep, opts.get("voltage_depend_loads", False))
                if dc and {"gen", "ext_grid"} & set(what) and {"shunt", "ward", "xward"} & set(what):
                    key = "dc-shunt-at-pv-bus"
                if key not in worst or abs(dp) + abs(dq) > worst[key][1]:
                    worst[key] = (node, abs(dp) + abs(dq), dp, dq, sorted(set(what)))
        for key, (node, _, dp, dq, what) in worst.items():
            ctx.failure(key, f"node of bus {node}: result tables are out of balance by {dp:.6f} MW / {dq:.6f} Mvar "
                             f"(elements there: {what}; options {opts})", case)
        # res_bus = signed sum of the element results
        for b in net.bus.index:
            if math.isnan(float(net.res_bus.vm_pu.at[b])):
                continue
            p = q = 0.0
            for tab, sign in BUS_ELEMENTS:
                if len(net[tab]):
                    m = net[tab].bus == b
                    p += sign * float(np.nansum(net["res_" + tab].p_mw[m]))
                    q += sign * float(np.nansum(net["res_" + tab].q_mvar[m]))
            if abs(p - float(net.res_bus.p_mw.at[b])) > 1e-6 or (not dc and abs(q - float(net.res_bus.q_mvar.at[b])) > 1e-6):
                ctx.failure("res-bus-sum", f"res_bus[{b}] = ({net.res_bus.p_mw.at[b]!r}, {net.res_bus.q_mvar.at[b]!r}), sum of the element "
                                           f"results at the bus = ({p!r}, {q!r})", case)
                break
        # ---- correspondence (small nets only: exact rationals; reads the Newton-Raphson solver's internal voltage vector)
        if dc or "algorithm" in opts:
            continue
        ppci = net._ppc["internal"]
        if not all(k2 in ppci for k2 in ("branch", "bus", "V", "Ybus")):
            ctx.hist("correspondence", "internal ppc not exposed (" + ",".join(sorted(ppci)[:3]) + ")")
            continue
        br, bus, V = ppci["branch"], ppci["bus"], ppci["V"]
        if br.shape[0] > 16 or len(reqs) > ctx.budget(14, 80):
            continue
        base = float(ppci["baseMVA"])
        Ytt, Yff, Yft, Ytf = branch_vectors(br, br.shape[0])
        toks = [str(br.shape[0])]
        for j in range(br.shape[0]):
            toks += [str(int(br[j, F_BUS].real)), str(int(br[j, T_BUS].real)), cfrac(Yff[j]), cfrac(Yft[j]), cfrac(Ytf[j]), cfrac(Ytt[j])]
        toks.append(str(bus.shape[0]))
        for i in range(bus.shape[0]):
            toks += [str(i), cfrac(V[i]), cfrac((bus[i, GS] + 1j * bus[i, BS]) / base)]
        reqs.append("net " + " ".join(toks))
        want = []
        for j in range(br.shape[0]):
            want += [br[j, PF].real / base, br[j, QF].real / base, br[j, PT].real / base, br[j, QT].real / base]
        scalc = V * np.conj(ppci["Ybus"] * V)
        expect.append(("net", want, scalc, case, br.shape[0]))
        if opts.get("voltage_depend_loads") and len(net.load):
            ebus = net._ppc["bus"]                      # external ppc numbering (what the bus look-up refers to)
            vm = ebus[:, VM].real.astype(float)
            sl = _get_Sload(ebus, vm)
            lookup = net._pd2ppc_lookups["bus"]
            for b in set(net.load.bus[net.load.in_service]):
                pb = int(lookup[b])
                ls = net.load[(net.load.bus.map(lambda z: int(lookup[z])) == pb) & net.load.in_service]
                if len(set(ls.bus)) != 1 or math.isnan(float(net.res_bus.vm_pu.at[b])) or not len(ls):
                    continue
                loads = [(float(r.p_mw * r.scaling), float(r.const_i_p_percent) / 100., float(r.const_z_p_percent) / 100.) for _, r in ls.iterrows()]
                other = float(ebus[pb, PD].real) - sum(l[0] for l in loads)
                reqs.append(f"zip {x.get('law', 'mean')} {core.frac(other)} {core.frac(float(vm[pb]))} {len(loads)} " +
                            " ".join(f"{core.frac(a)} {core.frac(b2)} {core.frac(c)}" for a, b2, c in loads))
                expect.append(("zip", float(sl[pb].real), None, case, b))
        ctx.sample({"options": opts, "n_bus": len(net.bus), "n_branch_ppc": int(br.shape[0])}, cap=3)
    if ctx.cov.get("lean_build_failed") or not reqs:
        return
    resp = core.lean_driver("PF", reqs)
    dis = 0
    for rq, r, (kind, want, scalc, case, info) in zip(reqs, resp, expect):
        parts = r.split()
        if parts == ["bad-op"]:
            ctx.tie_break("correspondence:C01", f"driver rejected a {kind} request")
            break
        vals = [float(core.parse_rat(p)) for p in parts]
        if kind == "net":
            nb = info
            got = vals[:4 * nb]
            bad = [j for j, (a, b) in enumerate(zip(got, want)) if abs(a - b) > 1e-9 * max(1.0, abs(b))]
            node_vals = vals[4 * nb:]
            for i in range(len(scalc)):
                if abs(node_vals[6 * i] - scalc[i].real) > 1e-9 * max(1, abs(scalc[i])) or abs(node_vals[6 * i + 1] - scalc[i].imag) > 1e-9 * max(1, abs(scalc[i])):
                    bad.append(("scalc", i))
            if bad:
                dis += 1
                if dis <= 3:
                    ctx.tie_break("correspondence:C01", f"branch flows / bus injections differ at {bad[:4]} for options {case['options']}")
        else:
            if abs(vals[0] - want) > 1e-9 * max(1.0, abs(want)):
                dis += 1
                if dis <= 3:
                    ctx.tie_break("correspondence:C01", f"bus load law at bus {info}: model {vals[0]!r}, _get_Sload {want!r}")
    ctx.cov["correspondence_requests"] = len(reqs)
    ctx.cov["disagreements_checked"] = dis
    ctx.sample({"request": reqs[0][:200], "response": resp[0][:200]})
    ctx.assumptions.append("Newton-Raphson converges to its tolerance (contract: the balance theorem is about the mismatch at the "
                           "returned V); float vs exact arithmetic compared to 1e-9")


def replay(ctx, path):
    import pandapower as pp
    with open(path) as f:
        r = json.load(f)["replay"]
    net = pp.from_json_string(r["net_json"])
    with core.quiet():
        (pp.rundcpp if r.get("dc") else pp.runpp)(net, **r["options"])
    acc, rep = node_balance(net)
    bad = [(n, v[0], v[1]) for n, v in acc.items() if not math.isnan(float(net.res_bus.vm_pu.at[n])) and (abs(v[0]) > 1e-5 or abs(v[1]) > 1e-5)]
    print(bad[:5])
    print("REPLAY", "FAILS" if bad else "holds")
    return 1 if bad else 0
