"""C18 — short-circuit results are consistent with the IEC 60909 relations.

proof:   Props/C18.lean over formulas generated from currents.py / kappa.py: ikss = c Un / (sqrt3 |Zk|) with the reported Zk,
         independence of the per-unit base, skss = sqrt3 Un ikss, 2ph = sqrt3/2 3ph, ip = kappa sqrt2 ikss, kappa in (1.02, 2].
tie:     translator.
oracle:  relations on the result tables; Thevenin impedance vs an independently built nodal model (lines + ext_grids, and
         with transformers through their documented correction factor); invariance under net.sn_mva, inverse_y and the set of
         faulted buses.
"""
import copy
import json
import math

import numpy as np

from harness import core

SQ3 = math.sqrt(3.0)


def sc_net(rng, pp, with_trafo):
    net = pp.create_empty_network(sn_mva=rng.choice([1., 10., 40.]))
    n = rng.randint(3, 6)
    vn = 110.
    b = [pp.create_bus(net, vn) for _ in range(n)]
    for i in range(n - 1):
        pp.create_line_from_parameters(net, b[i], b[i + 1], rng.choice([5., 12., 30.]), rng.choice([0.06, 0.12]), rng.choice([0.3, 0.4]),
                                       rng.choice([0., 9.]), 1., endtemp_degree=80., parallel=rng.choice([1, 1, 2]))
    if rng.random() < 0.6:
        pp.create_line_from_parameters(net, b[-1], b[0], 25., 0.1, 0.35, 0., 1., endtemp_degree=80.)
    # ext_grids in arbitrary bus order
    egb = rng.sample(b, rng.randint(1, 2))
    if rng.random() < 0.5:
        egb = sorted(egb, reverse=True)
    if rng.random() < 0.35:
        egb.append(egb[0])          # two feeders at one bus
    for bb in egb:
        pp.create_ext_grid(net, bb, s_sc_max_mva=rng.choice([800., 2500., 5000.]), s_sc_min_mva=500., rx_max=rng.choice([0.1, 0.3]),
                           rx_min=0.2)
    lv = []
    if with_trafo:
        for _ in range(rng.randint(1, 2)):
            hb = rng.choice(b)
            lb = pp.create_bus(net, 20.)
            lv.append(lb)
            pp.create_transformer_from_parameters(net, hb, lb, rng.choice([25., 40.]), 110., 20., 0.3, rng.choice([10., 12.]), 20., 0.05,
                                                  shift_degree=rng.choice([0, 150]))
            lb2 = pp.create_bus(net, 20.)
            pp.create_line_from_parameters(net, lb, lb2, 3., 0.2, 0.12, 0., 0.4, endtemp_degree=80.)
            lv.append(lb2)
    return net, b, lv


def independent_zk(net):
    """nodal impedance diagonal in ohm from the documented short-circuit models (case max): lines r + jx (parallel), ext_grid
    Z = c Un^2 / S''k with the given R/X, two-winding transformers with the correction factor K_T; all referred to each bus's own
    voltage level through the squared rated ratio"""
    buses = [int(x) for x in net.bus.index]
    pos = {x: i for i, x in enumerate(buses)}
    vn = {x: float(net.bus.vn_kv.at[x]) for x in buses}
    c = {x: 1.1 for x in buses}
    n = len(buses)
    vref = 110.
    Y = np.zeros((n, n), dtype=complex)          # everything referred to vref with the rated ratios (vn_hv / vn_lv = bus ratio here)

    def ref(z, v):
        return z * (vref / v) ** 2
    for _, ln in net.line.iterrows():
        if not ln.in_service:
            continue
        z = complex(ln.r_ohm_per_km, ln.x_ohm_per_km) * ln.length_km / ln.parallel
        y = 1 / ref(z, vn[int(ln.from_bus)])
        i, j = pos[int(ln.from_bus)], pos[int(ln.to_bus)]
        Y[i, i] += y
        Y[j, j] += y
        Y[i, j] -= y
        Y[j, i] -= y
    for _, eg in net.ext_grid.iterrows():
        v = vn[int(eg.bus)]
        zabs = c[int(eg.bus)] * v ** 2 / eg.s_sc_max_mva
        x = zabs / math.sqrt(1 + eg.rx_max ** 2)
        r = eg.rx_max * x
        Y[pos[int(eg.bus)], pos[int(eg.bus)]] += 1 / ref(complex(r, x), v)
    for _, tr in net.trafo.iterrows():
        zk = tr.vk_percent / 100 * tr.vn_hv_kv ** 2 / tr.sn_mva
        rk = tr.vkr_percent / 100 * tr.vn_hv_kv ** 2 / tr.sn_mva
        xk = math.sqrt(zk ** 2 - rk ** 2)
        xt = xk * tr.sn_mva / tr.vn_hv_kv ** 2
        kt = 0.95 * 1.1 / (1 + 0.6 * xt)
        y = 1 / ref(complex(rk, xk) * kt, tr.vn_hv_kv)
        i, j = pos[int(tr.hv_bus)], pos[int(tr.lv_bus)]
        Y[i, i] += y
        Y[j, j] += y
        Y[i, j] -= y
        Y[j, i] -= y
    Z = np.linalg.inv(Y)
    return {x: Z[pos[x], pos[x]] * (vn[x] / vref) ** 2 for x in buses}


def run(ctx):
    import pandapower as pp
    import pandapower.shortcircuit as sc
    from translate import c18 as tr
    ctx.cov["rule"] = ("case = generated 110 kV net (lines, 1-2 ext_grids in arbitrary bus order, optionally 110/20 kV transformers with lv "
                       "feeders) x case max x {3ph with ip, 2ph}; relations on res_bus_sc, independent nodal model, invariance under "
                       "sn_mva / inverse_y / faulted bus subset; non-trivial = calculation succeeded")
    ctx.regenerate("C18", lambda: tr.render(tr.extract(core.REPO)))
    ctx.prove()
    rng = ctx.rng
    for k in range(ctx.budget(30, 400)):
        with_trafo = rng.random() < 0.5
        net, hvb, lvb = sc_net(rng, pp, with_trafo)
        topo = rng.choice(["auto", "meshed", "radial"])
        kw = dict(fault="3ph", case="max", ip=True, ith=False, branch_results=False, topology=topo)
        case = {"net_json": pp.to_json(net), "options": kw}
        try:
            with core.quiet():
                sc.calc_sc(net, **kw)
        except Exception as e:       # noqa
            ctx.hist("run", type(e).__name__)
            continue
        ctx.hist("run", "ok")
        ctx.count(case["net_json"] + json.dumps(kw), nontrivial=True)
        res = net.res_bus_sc.copy()
        # relations on the results
        for bq, r in res.iterrows():
            vn = float(net.bus.vn_kv.at[bq])
            zk = math.hypot(r.rk_ohm, r.xk_ohm)
            if abs(r.ikss_ka - 1.1 * vn / (SQ3 * zk)) > 1e-8 * max(1.0, r.ikss_ka):
                ctx.failure("ikss-formula", f"bus {bq}: ikss {r.ikss_ka!r}, c Un/(sqrt3 |Zk|) = {1.1 * vn / (SQ3 * zk)!r} from rk, xk = {r.rk_ohm!r}, {r.xk_ohm!r}", case)
                break
            if abs(r.skss_mw - SQ3 * vn * r.ikss_ka) > 1e-8 * max(1.0, r.skss_mw):
                ctx.failure("skss", f"bus {bq}: skss {r.skss_mw!r} vs sqrt3 Un ikss {SQ3 * vn * r.ikss_ka!r}", case)
                break
            kap = r.ip_ka / (math.sqrt(2) * r.ikss_ka)
            if not (1.02 - 1e-9 <= kap <= 2 + 1e-9):
                ctx.failure("kappa-range", f"bus {bq}: ip / (sqrt2 ikss) = {kap!r} outside [1.02, 2]", case)
                break
            if topo == "radial" or (topo == "auto" and False):
                pass
        # independent Thevenin model
        try:
            zi = independent_zk(net)
            for bq, r in res.iterrows():
                z = zi[int(bq)]
                if abs(z.real - r.rk_ohm) > 1e-6 * max(1.0, abs(z)) or abs(z.imag - r.xk_ohm) > 1e-6 * max(1.0, abs(z)):
                    ctx.failure("thevenin", f"bus {bq}: rk, xk = {r.rk_ohm!r}, {r.xk_ohm!r}; independent nodal model {z.real!r}, {z.imag!r} "
                                            f"(ext_grids at buses {net.ext_grid.bus.tolist()})", case)
                    break
        except np.linalg.LinAlgError:
            pass
        # 2ph ratio (no current sources in these nets)
        n2 = copy.deepcopy(net)
        with core.quiet():
            sc.calc_sc(n2, fault="2ph", case="max")
        ratio = (n2.res_bus_sc.ikss_ka / res.ikss_ka).values
        if np.any(np.abs(ratio - SQ3 / 2) > 1e-9):
            ctx.failure("two-phase-ratio", f"ikss(2ph) / ikss(3ph) = {ratio[:4].tolist()} instead of sqrt3/2", case)
        # invariances
        variants = []
        n3 = copy.deepcopy(net)
        n3.sn_mva = float(net.sn_mva) * rng.choice([0.1, 7.3, 25.])
        variants.append(("sn_mva", n3, kw, None))
        variants.append(("inverse_y", copy.deepcopy(net), dict(kw, inverse_y=False), None))
        sub = [int(x) for x in rng.sample(list(net.bus.index), max(1, len(net.bus) // 2))]
        variants.append(("bus-subset", copy.deepcopy(net), dict(kw, bus=sub), sub))
        for name, nv, kv, subset in variants:
            try:
                with core.quiet():
                    sc.calc_sc(nv, **kv)
            except Exception as e:       # noqa
                ctx.failure(f"raises:{name}", f"calc_sc with changed {name} raised {type(e).__name__}: {str(e)[:120]}", case)
                continue
            rv = nv.res_bus_sc
            for col in ("ikss_ka", "ip_ka", "rk_ohm", "xk_ohm", "skss_mw"):
                a = res[col].loc[rv.index].values
                b_ = rv[col].values
                if np.any(np.abs(a - b_) > 1e-7 * np.maximum(1.0, np.abs(a))):
                    j = int(np.argmax(np.abs(a - b_)))
                    ctx.failure(f"invariance:{name}", f"{col} at bus {rv.index[j]}: {a[j]!r} vs {b_[j]!r} with changed {name} "
                                                      f"(topology={topo})", case)
                    break
        ctx.sample({"trafo": with_trafo, "topology": topo}, cap=4)
    ctx.assumptions.append("case 'max' with c = 1.1; nets without current-source contributions (no sgens / motors / generators); "
                           "the independent nodal model covers lines, ext_grids and two-winding transformers with K_T; "
                           "transformer rated voltages equal the bus voltages")


def replay(ctx, path):
    print("C18 replays carry net_json and the options; re-run ./check C18 with the same VERIF_SEED")
    return 2
