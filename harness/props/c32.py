"""C32 — characteristics interpolate through their support points.

proof:   Props/C32.lean: numpy.interp model (at nodes, clamped, between neighbours for arbitrary y, any number of points);
         PCHIP pieces (through the nodes; Fritsch–Carlson range theorem; scipy's interior and edge slopes are within the
         bounds the range theorem needs); life-cycle theorem (cache excluded from JSON + pure getter => every evaluation
         after any sequence of calls / save-load uses the original attributes), flags regenerated from characteristic.py.
tie:     translator + correspondence: Characteristic / SplineCharacteristic(Pchip) / LogSplineCharacteristic(Pchip)
         values vs `interpLin` / `pchip` on exact rationals.
oracle:  every class and interpolator kind: c(x_i) == y_i; monotone range for shape-preserving kinds; JSON round trip
         (before and after the first evaluation), deepcopy.
"""
import copy
import json
import math
from fractions import Fraction

import numpy as np

from harness import core
from translate import c32 as tr


def gen_points(rng, n, monotone, positive=False):
    xs, x = [], round(rng.uniform(0.01 if positive else -5, 2), 3)
    for _ in range(n):
        xs.append(x)
        x = round(x + rng.choice([0.001, 0.05, 0.4, 1.0, 3.7]) * rng.choice([1, 1, 2]), 3)
    if monotone:
        y = round(rng.uniform(0.01 if positive else -3, 3), 3)
        ys = []
        sign = rng.choice([1, -1]) if not positive else 1
        for _ in range(n):
            ys.append(y)
            y = round(y + sign * rng.choice([0, 0, 0.01, 0.3, 1.5, 8.0]), 3)
        if positive and sign == -1:
            ys = [abs(v) + 0.01 for v in ys]
    else:
        ys = [round(rng.uniform(0.01 if positive else -4, 4), 3) for _ in range(n)]
    return xs, ys


def queries(rng, xs):
    q = list(xs)
    for a, b in zip(xs, xs[1:]):
        q.append(float(f"{a + (b - a) * rng.choice([0.5, 0.1, 0.93]):.9g}"))
    q += [xs[0] - 1.3, xs[-1] + 2.1]
    return q


def fr(x):
    return core.frac(Fraction(str(x)))


def run(ctx):
    import pandapower as pp
    from pandapower.control.util.characteristic import Characteristic, SplineCharacteristic, LogSplineCharacteristic
    ctx.cov["rule"] = ("case = class x interpolator kind x 2-8 strictly increasing support abscissae (gaps 0.001-7.4) x "
                       "monotone / arbitrary y; queries at nodes, inside every interval, outside; non-trivial = >=3 points; "
                       "distinct by data")
    x = {}

    def translator():
        x.update(tr.extract(core.REPO))
        return tr.render(x)
    ctx.regenerate("C32", translator)
    ctx.prove()
    rng = ctx.rng
    reqs, expect = [], []
    for k in range(ctx.budget(48, 800)):
        n = rng.choice([2, 3, 3, 4, 5, 8])
        monotone = rng.random() < 0.6
        cls = ["lin", "pchip", "logpchip", "interp1d"][k % 4]
        xs, ys = gen_points(rng, n, monotone, positive=(cls == "logpchip"))
        if cls == "logpchip" and rng.random() < 0.5:      # legal, strictly positive, but small magnitudes
            fx, fy = rng.choice([1, 1e-3, 1e-7]), rng.choice([1, 1e-4, 1e-8])
            xs, ys = [float(f"{v * fx:.6g}") for v in xs], [float(f"{v * fy:.6g}") for v in ys]
        net = pp.create_empty_network()
        kw = {}
        try:
            if cls == "lin":
                c = Characteristic(net, xs, ys)
            elif cls == "pchip":
                c = SplineCharacteristic(net, xs, ys, interpolator_kind="Pchip")
            elif cls == "logpchip":
                c = LogSplineCharacteristic(net, np.array(xs), np.array(ys), interpolator_kind="Pchip")
            else:
                kinds = ["linear"] + (["quadratic"] if n >= 3 else []) + (["cubic"] if n >= 4 else [])
                kw = {"kind": rng.choice(kinds)} if rng.random() < 0.7 and (n >= 3 or True) else {}
                if not kw and n < 3:
                    kw = {"kind": "linear"}
                if rng.random() < 0.3:
                    kw["fill_value"] = (ys[0], ys[-1])
                c = SplineCharacteristic(net, xs, ys, **kw)
        except Exception as e:       # noqa
            ctx.failure("construct", f"{cls} characteristic could not be built: {type(e).__name__}: {e}", {"xs": xs, "ys": ys})
            continue
        case = {"cls": cls, "kw": kw, "xs": xs, "ys": ys}
        ctx.count(json.dumps(case), nontrivial=n >= 3)
        ctx.hist("class", cls + (":" + kw.get("kind", "default") if cls == "interp1d" else ""))
        ctx.hist("n_points", n)
        ctx.hist("monotone", monotone)
        scale = max(1.0, max(abs(v) for v in ys))
        # --- round trip BEFORE the first evaluation (half of the cases) / after it (the other half)
        save_first = (k // 4) % 2 == 0
        loaded_a = pp.from_json_string(pp.to_json(net)).characteristic.object.iloc[0] if save_first else None
        qs = queries(rng, xs)
        try:
            vals = [float(c(q)) for q in qs]
        except Exception as e:       # noqa
            ctx.failure("evaluate", f"{cls}{kw} raised {type(e).__name__}: {e}", case)
            continue
        # 1. through the support points
        for i, (xi, yi) in enumerate(zip(xs, ys)):
            if abs(vals[i] - yi) > (1e-9 * abs(yi) if cls == "logpchip" else 1e-9 * scale):
                ctx.failure(f"at-nodes:{cls}", f"{cls}{kw}: c({xi}) = {vals[i]!r}, support value {yi}", case)
                break
        # 2. range for shape-preserving kinds on monotone data (and for linear on any data)
        if cls in ("lin", "pchip", "logpchip") and (monotone or cls == "lin"):
            for j, (a, b) in enumerate(zip(xs, xs[1:])):
                v = vals[n + j]
                lo, hi = min(ys[j], ys[j + 1]), max(ys[j], ys[j + 1])
                if not (lo - 1e-9 * (abs(lo) if cls == "logpchip" else scale) <= v <= hi + 1e-9 * (abs(hi) if cls == "logpchip" else scale)):
                    ctx.failure(f"range:{cls}", f"{cls}: c({qs[n + j]}) = {v!r} outside [{lo}, {hi}]", case)
                    break
        # 3. serialisation
        loaded_b = pp.from_json_string(pp.to_json(net)).characteristic.object.iloc[0]
        cp = copy.deepcopy(c)
        for tag, o in (("json-before-first-call", loaded_a), ("json-after-first-call", loaded_b), ("deepcopy", cp)):
            if o is None:
                continue
            try:
                v2 = [float(o(q)) for q in qs]
            except Exception as e:   # noqa
                ctx.failure(f"serialise:{tag}", f"{cls}{kw}: evaluation after {tag} raised {type(e).__name__}: {e}", case)
                continue
            if not np.allclose(v2, vals, rtol=1e-12, atol=(0 if cls == "logpchip" else 1e-12 * scale), equal_nan=True):
                j = int(np.argmax(np.abs(np.array(v2) - np.array(vals))))
                ctx.failure(f"serialise:{tag}", f"{cls}{kw}: value at {qs[j]} is {vals[j]!r} before and {v2[j]!r} after {tag}", case)
            for attr in ("x_vals", "y_vals", "kwargs", "interpolator_kind"):
                if hasattr(c, attr) or hasattr(o, attr):
                    a, b = getattr(c, attr, None), getattr(o, attr, None)
                    same = (np.allclose(np.asarray(a, dtype=float), np.asarray(b, dtype=float), rtol=1e-14, atol=0)
                            if attr in ("x_vals", "y_vals") else a == b)
                    if not same:
                        ctx.failure(f"serialise:{tag}", f"{cls}{kw}: attribute {attr} is {a!r} before and {b!r} after {tag}", case)
        ctx.sample(case, cap=3)
        # --- correspondence requests
        if cls == "lin":
            pts = " ".join(f"{fr(a)} {fr(b)}" for a, b in zip(xs, ys))
            for q, v in zip(qs, vals):
                reqs.append(f"lin {n} {pts} {fr(q)}")
                expect.append((v, scale, case, q, None))
        elif cls == "pchip":
            pts = " ".join(f"{fr(a)} {fr(b)}" for a, b in zip(xs, ys))
            for q, v in zip(qs, vals):
                reqs.append(f"pchip {n} {pts} {fr(q)}")
                expect.append((v, scale, case, q, None))
        elif cls == "logpchip":
            lx, ly = [float(v) for v in c.x_vals], [float(v) for v in c.y_vals]      # the stored log10 values, exactly
            pts = " ".join(f"{core.frac(a)} {core.frac(b)}" for a, b in zip(lx, ly))
            for q, v in list(zip(qs, vals))[:: (1 if n <= 4 else 3)]:
                if q <= 0:
                    continue
                reqs.append(f"pchip {n} {pts} {core.frac(float(np.log10(q)))}")
                expect.append((v, scale, case, q, "pow10"))
    if ctx.cov.get("lean_build_failed") or not reqs:
        return
    resp = core.lean_driver("C32", reqs)
    dis = 0
    for rq, r, (obs, scale, case, q, post) in zip(reqs, resp, expect):
        if r.strip() in ("-", "bad-op"):
            ctx.tie_break("correspondence:C32", f"driver answered {r!r} for {rq[:120]}")
            break
        m = float(core.parse_rat(r.strip()))
        if post == "pow10":
            m = float(np.power(10, m))
        tol = 1e-9 * abs(obs) if post == "pow10" else 1e-9 * max(scale, abs(obs))
        if m != obs and not (abs(m - obs) <= tol) and not (math.isnan(m) and math.isnan(obs)):
            dis += 1
            if dis <= 3:
                ctx.tie_break("correspondence:C32", f"{case['cls']}: model {m!r}, implementation {obs!r} at x={q} for {case}")
    ctx.cov["correspondence_requests"] = len(reqs)
    ctx.cov["disagreements_checked"] = dis
    ctx.sample({"request": reqs[0][:200], "response": resp[0]})
    ctx.assumptions.append("interp1d kinds (linear/quadratic/cubic splines) and the log10/power link of LogSplineCharacteristic are "
                           "library contracts: only 'through the support points' and the round trip are checked for them")


def replay(ctx, path):
    print("C32 replays are the `case` dicts in the replay file; re-run ./check C32 with the same VERIF_SEED")
    return 2
