"""C22 — network edits never leave dangling references.

proof:   Props/C22.lean over the relational model (Model/RelDefs.lean): re-indexing with an update list is sound iff the list
         covers every referring table (soundness theorem + exact failure condition), drop with cascade, fuse, create,
         shifted union keep the net free of dangling references; the update lists of reindex_elements / reindex_buses are
         generated from the source and proved to cover the schema (decide), except the recorded gaps.
tie:     translator + correspondence: real nets encoded as (rows, references); reindex_elements / fuse_buses / drop_buses
         applied to the real net and to the model; resulting rows and references compared.
oracle:  independent dangling-reference checker after every step of random edit sequences over the toolbox.
"""
import copy
import json
import math

import numpy as np
import pandas as pd

from harness import core, netgen

BUS_COLS = {"load": ["bus"], "sgen": ["bus"], "motor": ["bus"], "asymmetric_load": ["bus"], "asymmetric_sgen": ["bus"], "storage": ["bus"],
            "gen": ["bus"], "switch": ["bus"], "shunt": ["bus"], "svc": ["bus"], "ssc": ["bus"], "vsc": ["bus"], "ext_grid": ["bus"],
            "line": ["from_bus", "to_bus"], "trafo": ["hv_bus", "lv_bus"], "trafo3w": ["hv_bus", "mv_bus", "lv_bus"],
            "impedance": ["from_bus", "to_bus"], "tcsc": ["from_bus", "to_bus"], "dcline": ["from_bus", "to_bus"], "ward": ["bus"],
            "xward": ["bus"]}
SWITCH_ET = {"b": "bus", "l": "line", "t": "trafo", "t3": "trafo3w"}
FACTS = ("svc", "ssc", "vsc", "tcsc")
TABLES = ["bus", "line", "trafo", "trafo3w", "load", "sgen", "gen", "ext_grid", "shunt", "switch", "measurement", "poly_cost", "pwl_cost",
          "group", "res_bus", "res_line", "res_trafo", "res_trafo3w", "res_load", "res_sgen", "res_gen", "impedance", "ward", "xward",
          "res_impedance", "res_ward", "res_xward", "res_shunt", "res_ext_grid", "storage", "res_storage", "motor", "res_motor"]
TID = {t: i for i, t in enumerate(TABLES)}


def references(net):
    """every reference of the net: (src table, src label, dst table, target label, what)"""
    out = []
    for tab, cols in BUS_COLS.items():
        if tab in net and len(net[tab]):
            for c in cols:
                for i, b in net[tab][c].items():
                    out.append((tab, int(i), "bus", int(b), f"{tab}.{c}"))
    if len(net.switch):
        for i, s in net.switch.iterrows():
            dst = SWITCH_ET.get(s.et)
            if dst:
                out.append(("switch", int(i), dst, int(s.element), f"switch.element[{s.et}]"))
    if len(net.measurement):
        for i, m in net.measurement.iterrows():
            out.append(("measurement", int(i), str(m.element_type), int(m.element), "measurement.element"))
            if m.side is not None and not (isinstance(m.side, float) and math.isnan(m.side)) and not isinstance(m.side, str):
                out.append(("measurement", int(i), "bus", int(m.side), "measurement.side"))
    for c in ("poly_cost", "pwl_cost"):
        if len(net[c]):
            for i, r in net[c].iterrows():
                out.append((c, int(i), str(r.et), int(r.element), c + ".element"))
    if len(net.group):
        for k, (gi, g) in enumerate(net.group.iterrows()):
            if g.reference_column is None or (isinstance(g.reference_column, float) and math.isnan(g.reference_column)):
                for e in list(g.element_index):
                    out.append(("group", k, str(g.element_type), int(e), "group.element_index"))
    if "controller" in net and len(net.controller):
        for i, c in net.controller.iterrows():
            o = c.object
            el, idx = getattr(o, "element", None), getattr(o, "element_index", None)
            if isinstance(el, str) and idx is not None and el in net:
                for e in (list(idx) if hasattr(idx, "__iter__") else [idx]):
                    out.append(("controller", int(i), el, int(e), "controller.element_index"))
    for tab in ("trafo", "trafo3w"):
        if len(net[tab]) and "id_characteristic_table" in net[tab] and "trafo_characteristic_table" in net:
            for i, v in net[tab].id_characteristic_table.items():
                if v is not None and not pd.isna(v):
                    out.append((tab, int(i), "trafo_characteristic_table.id", int(v), tab + ".id_characteristic_table"))
    for k in list(net.keys()):
        if k.startswith("res_") and isinstance(net[k], pd.DataFrame) and len(net[k]) and k[4:] in net and \
                isinstance(net[k[4:]], pd.DataFrame) and not k.endswith(("_sc", "_3ph", "_est")):
            for i in net[k].index:
                out.append((k, int(i), k[4:], int(i), k + " row"))
    return out


def labels(net, tab):
    if tab == "trafo_characteristic_table.id":
        t = net.get("trafo_characteristic_table")
        return set(int(v) for v in t.id_characteristic.dropna().unique()) if t is not None and len(t) else set()
    return set(int(i) for i in net[tab].index) if tab in net and isinstance(net[tab], pd.DataFrame) else set()


def dangling(net):
    cache = {}
    bad = []
    for src, si, dst, tg, what in references(net):
        if dst not in cache:
            cache[dst] = labels(net, dst)
        if tg not in cache[dst]:
            bad.append((src, si, dst, tg, what))
    # group members addressed through a reference column (e.g. by name)
    if len(net.group):
        for k, (gi, g) in enumerate(net.group.iterrows()):
            rc = g.reference_column
            if rc is None or (isinstance(rc, float) and math.isnan(rc)):
                continue
            et = str(g.element_type)
            have = set(net[et][rc].values) if et in net and rc in net[et] else set()
            for e in list(g.element_index):
                if e not in have:
                    bad.append(("group", k, et, str(e), "group.element_index(by " + str(rc) + ")"))
    return bad


def classify(d):
    src, si, dst, tg, what = d
    if src in FACTS and dst == "bus":
        return "facts-bus-reference"
    if src == "controller":
        return "controller-target-reindex"
    if src == "res_switch":
        return "res-switch-stale-rows"
    return f"dangling:{what}"


def rich_net(rng, pp):
    net = netgen.random_net(rng, dcline=rng.random() < 0.3, allow_oos=rng.random() < 0.5)
    try:
        with core.quiet():
            pp.runpp(net)
    except Exception:       # noqa
        pass
    # sparse labels
    if rng.random() < 0.5:
        for tab in ("line", "load", "trafo", "trafo3w", "sgen"):
            if len(net[tab]):
                pp.reindex_elements(net, tab, [int(i) * 2 + 3 for i in net[tab].index])
    lines = list(net.line.index)
    for _ in range(rng.randint(1, 3)):
        if lines:
            l = rng.choice(lines)
            pp.create_measurement(net, "p", "line", 1.0, 0.1, l, side=int(net.line.from_bus.at[l]))
    pp.create_measurement(net, "v", "bus", 1.0, 0.01, int(rng.choice(list(net.bus.index))))
    if len(net.trafo):
        t = int(rng.choice(list(net.trafo.index)))
        pp.create_measurement(net, "q", "trafo", 0.2, 0.1, t, side="hv")
    if len(net.trafo3w):
        t = int(net.trafo3w.index[0])
        pp.create_measurement(net, "p", "trafo3w", 0.2, 0.1, t, side="mv")
        if not ((net.switch.et == "t3") & (net.switch.element == t)).any():
            pp.create_switch(net, int(net.trafo3w.lv_bus.at[t]), t, et="t3", closed=True)
    pp.create_poly_cost(net, int(net.ext_grid.index[0]), "ext_grid", 1.0)
    if len(net.gen):
        pp.create_poly_cost(net, int(net.gen.index[-1]), "gen", 2.0)
    if len(net.sgen):
        pp.create_pwl_cost(net, int(net.sgen.index[-1]), "sgen", [[0, 10, 1.0]])
    if len(net.load) > 1:
        pp.create_group(net, ["load", "line"], [[int(i) for i in list(net.load.index)[:2]], [int(lines[0])]] if lines else
                        [[int(i) for i in list(net.load.index)[:2]], []], name="g")
        if rng.random() < 0.5:
            # a second group that addresses its members by name
            net.load["name"] = [f"load_{i}" for i in net.load.index]
            if lines:
                net.line["name"] = [f"line_{i}" for i in net.line.index]
            pp.create_group(net, ["load", "line"] if lines else ["load"],
                            [[f"load_{i}" for i in list(net.load.index)[:2]]] + ([[f"line_{lines[0]}"]] if lines else []),
                            name="by name", reference_columns=["name", "name"] if lines else ["name"])
        if rng.random() < 0.6:
            from pandapower.control import ConstControl
            ConstControl(net, "load", "p_mw", element_index=[int(net.load.index[-1])], profile_name=None, data_source=None)
    if rng.random() < 0.3:
        mv = [int(b) for b in net.bus.index[net.bus.vn_kv == 20.]]
        pp.create_svc(net, rng.choice(mv), x_l_ohm=1., x_cvar_ohm=-10., set_vm_pu=1.0, thyristor_firing_angle_degree=90., in_service=False)
    return net


def ops(rng, pp):
    """(name, function(net) -> net or None)"""
    def pick(net, tab, k=1):
        idx = list(net[tab].index)
        return [int(i) for i in rng.sample(idx, min(k, len(idx)))] if idx else []

    def non_slack_bus(net, k=1):
        eb = set(net.ext_grid.bus)
        idx = [int(b) for b in net.bus.index if b not in eb]
        return rng.sample(idx, min(k, len(idx))) if idx else []

    def reindex_el(net):
        tab = rng.choice(["line", "trafo", "trafo3w", "load", "sgen", "gen", "ext_grid", "shunt", "impedance", "ward", "xward", "storage"])
        if not len(net[tab]):
            return
        idx = list(net[tab].index)
        if rng.random() < 0.5:
            sub = rng.sample(idx, rng.randint(1, len(idx)))
            free = max(idx) + 5
            pp.reindex_elements(net, tab, lookup={int(o): int(free + k) for k, o in enumerate(sub)})
        else:
            pp.reindex_elements(net, tab, [int(max(idx) + 11 + 2 * k) for k in range(len(idx))])
        return tab

    def fuse(net):
        mv = [int(b) for b in net.bus.index[net.bus.vn_kv == 20.]]
        if len(mv) >= 2:
            a, b = rng.sample(mv, 2)
            # (the list of buses to fuse may contain the target itself, e.g. all buses of a station)
            pp.fuse_buses(net, a, rng.choice([[b], [a, b], [b, a]]))

    def merge(net):
        other = netgen.random_net(rng, dcline=False, kinds=("line", "trafo", "load", "sgen", "switch"))
        return pp.merge_nets(net, other, validate=False)

    def subnet(net):
        b = [int(x) for x in net.bus.index]
        keep = rng.sample(b, max(2, len(b) * 2 // 3))
        t3s = net.switch[net.switch.et == "t3"] if len(net.switch) else net.switch
        if len(t3s) and rng.random() < 0.6:
            # directed: the bus of a t3 switch is selected, its three-winding transformer is not (one terminal left out), and a
            # two-winding transformer with the same index lies inside the selection
            sw = t3s.iloc[rng.randrange(len(t3s))]
            t3 = int(sw.element)
            if t3 in net.trafo3w.index and t3 in net.trafo.index:
                terms = [int(net.trafo3w.at[t3, c]) for c in ("hv_bus", "mv_bus", "lv_bus")]
                out = [x for x in terms if x != int(sw.bus)][:1]
                keep = sorted((set(keep) | {int(sw.bus), int(net.trafo.hv_bus.at[t3]), int(net.trafo.lv_bus.at[t3])}) - set(out))
        return pp.select_subnet(net, keep, include_results=rng.random() < 0.5)

    return [
        ("create_load", lambda n: pp.create_load(n, non_slack_bus(n)[0], 0.1, 0.02) if non_slack_bus(n) else None),
        ("create_line_switch", lambda n: pp.create_switch(n, int(n.line.from_bus.at[pick(n, "line")[0]]), pick(n, "line")[0], et="l")
            if len(n.line) else None),
        ("drop_buses", lambda n: pp.drop_buses(n, non_slack_bus(n, rng.randint(1, 2)))),
        ("drop_lines", lambda n: pp.drop_lines(n, pick(n, "line", 2))),
        ("drop_trafos", lambda n: pp.drop_trafos(n, pick(n, "trafo"), table="trafo") if len(n.trafo) > 1 else None),
        ("drop_trafo3w", lambda n: pp.drop_trafos(n, pick(n, "trafo3w"), table="trafo3w") if len(n.trafo3w) else None),
        ("drop_elements_at_buses", lambda n: pp.drop_elements_at_buses(n, non_slack_bus(n))),
        ("drop_elements", lambda n: pp.drop_elements(n, "load", pick(n, "load", 2)) if len(n.load) else None),
        ("fuse_buses", fuse),
        ("reindex_buses", lambda n: pp.reindex_buses(n, {int(b): int(b) + 50 for b in rng.sample(list(n.bus.index), max(1, len(n.bus) // 2))})),
        ("reindex_elements", reindex_el),
        ("continuous_bus_index", lambda n: pp.create_continuous_bus_index(n, start=rng.choice([0, 3]))),
        ("continuous_elements_index", lambda n: pp.create_continuous_elements_index(n)),
        ("replace_line_by_impedance", lambda n: pp.replace_line_by_impedance(n, pick(n, "line", 2), only_valid_replace=False) if len(n.line) else None),
        ("replace_impedance_by_line", lambda n: pp.replace_impedance_by_line(n, only_valid_replace=False) if len(n.impedance) else None),
        ("replace_ext_grid_by_gen", lambda n: pp.replace_ext_grid_by_gen(n, slack=True) if len(n.ext_grid) else None),
        ("replace_ward", lambda n: pp.replace_ward_by_internal_elements(n) if len(n.ward) else None),
        ("replace_xward", lambda n: pp.replace_xward_by_internal_elements(n) if len(n.xward) else None),
        ("drop_inactive", lambda n: pp.drop_inactive_elements(n)),
        ("drop_out_of_service", lambda n: pp.drop_out_of_service_elements(n)),
        ("merge_nets", merge),
        ("select_subnet", subnet),
    ]


def encode(net):
    rows, refs = [], []
    for t in TABLES:
        if t == "group":
            continue
        if t in net and isinstance(net[t], pd.DataFrame):
            rows += [(TID[t], int(i)) for i in net[t].index]
    k = 0
    pos = {t: {int(i): p_ for p_, i in enumerate(net[t].index)} for t in TABLES if t.startswith("res_") and t in net}
    rows = [(a, b) for a, b in rows if not TABLES[a].startswith("res_")]
    for t, m in pos.items():
        rows += [(TID[t], p_) for p_ in m.values()]          # a result row is identified by its position; its label is the reference
    for src, si, dst, tg, what in references(net):
        if src not in TID or dst not in TID:
            continue
        if src.startswith("res_"):
            refs.append((TID[src], pos[src][si], TID[dst], tg))
            continue
        if src == "group":
            rows.append((TID["group"], 1000 + k))
            refs.append((TID["group"], 1000 + k, TID[dst], tg))
            k += 1
        else:
            refs.append((TID[src], si, TID[dst], tg))
    return sorted(set(rows)), refs


def canon(rows, refs):
    anon = {TID["group"]} | {i for t, i in TID.items() if t.startswith("res_")}     # rows identified by what they refer to
    return (sorted(r for r in set(rows) if r[0] not in anon),
            sorted((a, b if a not in anon else 0, c, d) for a, b, c, d in refs))


def request(rows, refs, op):
    return " ".join(["tables", str(len(TABLES))] + TABLES + ["rows", str(len(rows))] + [f"{a} {b}" for a, b in rows] +
                    ["refs", str(len(refs))] + [f"{a} {b} {c} {d}" for a, b, c, d in refs] + op)


def parse_model(line):
    toks = line.split()
    ok = toks[0] == "1"
    i = toks.index("R")
    j = toks.index("F")
    r = [int(x) for x in toks[i + 1:j]]
    f = [int(x) for x in toks[j + 1:]]
    return ok, [(r[k], r[k + 1]) for k in range(0, len(r), 2)], [(f[k], f[k + 1], f[k + 2], f[k + 3]) for k in range(0, len(f), 4)]


def run(ctx):
    import pandapower as pp
    from translate import c22 as tr
    ctx.cov["rule"] = ("case = generated net with results, sparse labels, measurements (bus, line with side, trafo, trafo3w), costs, a "
                       "group, a controller, t3 switches, sometimes an svc; then a random sequence of 3-6 toolbox edits out of 22; "
                       "after every edit all references are resolved independently; non-trivial = an edit that changed the net")
    ctx.regenerate("C22", lambda: tr.render(tr.extract(core.REPO)))
    ctx.prove()
    rng = ctx.rng
    # schema cross-check: every bus-like column of the empty network is known to the translator's schema
    empty = pp.create_empty_network()
    for k, v in empty.items():
        if isinstance(v, pd.DataFrame) and not k.startswith(("res_", "_")) and not k.endswith("_dc"):
            for c in v.columns:
                if "bus" in c and "dc" not in c and c != "ref_bus" and k not in tr.BUS_REF_TABLES and k not in ("b2b_vsc", "bi_vsc"):
                    ctx.tie_break("schema:C22", f"table {k} has the bus column {c} that the schema of translate/c22.py does not list")
    reqs, meta = [], []
    table_ops = ops(rng, pp)
    for k in range(ctx.budget(30, 400)):
        net = rich_net(rng, pp)
        d0 = [d for d in dangling(net)]
        if d0:
            # (stale result rows of the temporary dcline generators after a non-converged start calculation: C08's subject)
            ctx.hist("generator", "stale-results-before-edits")
            continue
        history = []
        case = {"net_json": pp.to_json(net), "seed": ctx.seed, "k": k}
        for step in range(rng.randint(3, 6)):
            name, fn = table_ops[rng.randrange(len(table_ops))] if step else table_ops[(k * 3 + step) % len(table_ops)]
            before = None
            if name in ("reindex_elements", "fuse_buses", "drop_buses") and len(reqs) < ctx.budget(25, 200):
                before = (encode(net), copy.deepcopy(net))
            state = rng.getstate()
            try:
                with core.quiet():
                    res = fn(net)
            except Exception as e:       # noqa
                ctx.hist("op", name + ":" + type(e).__name__)
                history.append(name + "!")
                if isinstance(e, (KeyError, IndexError, AttributeError, TypeError)):
                    ctx.failure(f"raises:{name}", f"{name} raised {type(e).__name__}: {str(e)[:200]} after {history}", dict(case, history=history))
                break
            if name in ("merge_nets", "select_subnet") and res is not None:
                net = res
            history.append(name)
            ctx.hist("op", name)
            ctx.count(case["net_json"] + json.dumps(history), nontrivial=True)
            bad = dangling(net)
            if bad:
                for key in sorted(set(classify(d) for d in bad)):
                    ex = [d for d in bad if classify(d) == key][0]
                    ctx.failure(key, f"after {history}: {ex[4]} of {ex[0]} {ex[1]} points to {ex[2]} {ex[3]}, which does not exist", dict(case, history=history))
                break
            if before is not None:
                (rows0, refs0), net0 = before
                op = None
                if name == "reindex_elements" and isinstance(res, str) and res in TID:
                    lk = {int(o): int(n_) for o, n_ in zip(net0[res].index, net[res].index) if int(o) != int(n_)}
                    op = ["reindex", str(TID[res]), str(len(lk))] + [f"{o} {n_}" for o, n_ in lk.items()]
                if op is not None:
                    reqs.append(request(rows0, refs0, op))
                    meta.append((name, canon(*encode(net)), dict(case, history=history)))
        ctx.sample({"history": history}, cap=5)
    # correspondence of drop / fuse on fresh nets (single operation, model and implementation)
    for k in range(ctx.budget(8, 60)):
        net = rich_net(rng, pp)
        if dangling(net):
            continue
        rows0, refs0 = encode(net)
        mv = [int(b) for b in net.bus.index[net.bus.vn_kv == 20.] if b not in set(net.ext_grid.bus)]
        if len(mv) < 2:
            continue
        a, b = rng.sample(mv, 2)
        try:
            with core.quiet():
                if k % 2 == 0:
                    pp.fuse_buses(net, a, rng.choice([[b], [a, b]]))
                    op = ["fuse", str(TID["bus"]), str(a), str(b)]
                else:
                    pp.drop_buses(net, [b])
                    op = ["drop", "1", f"{TID['bus']} {b}"]
        except Exception as e:       # noqa
            ctx.hist("op", "single:" + type(e).__name__)
            continue
        reqs.append(request(rows0, refs0, op))
        meta.append((op[0], canon(*encode(net)), {"net_json": None, "op": op}))
    if ctx.cov.get("lean_build_failed") or not reqs:
        return
    resp = core.lean_driver("C22", reqs)
    dis = 0
    for rq, r, (name, want, case) in zip(reqs, resp, meta):
        if r == "bad-op":
            dis += 1
            ctx.tie_break("correspondence:C22", f"model rejects request for {name}")
            continue
        ok, rows, refs = parse_model(r)
        got = canon(rows, refs)
        if name == "fuse":
            # the implementation also drops switches / measurements that would connect the fused bus to itself: compare references
            # into buses and the bus rows only
            # ... and the branches that became loops at the fused bus
            bus = TID["bus"]
            node = [TID[t] for t in ("load", "sgen", "gen", "ext_grid", "shunt", "ward", "xward", "storage", "motor")]
            got = ([x for x in got[0] if x[0] == bus], sorted(set(x for x in got[1] if x[2] == bus and x[0] in node)))
            want = ([x for x in want[0] if x[0] == bus], sorted(set(x for x in want[1] if x[2] == bus and x[0] in node)))
        if got != want:
            dis += 1
            only_m = [x for x in got[0] if x not in want[0]][:4], [x for x in got[1] if x not in want[1]][:4]
            only_i = [x for x in want[0] if x not in got[0]][:4], [x for x in want[1] if x not in got[1]][:4]
            ctx.tie_break("correspondence:C22", f"{name}: only in model rows/refs {only_m}, only in implementation {only_i} (tables: "
                          f"{ {i: t for t, i in TID.items()} })"[:1500])
    ctx.cov["correspondence"] = {"requests": len(reqs), "disagreements": dis}


def replay(ctx, path):
    print("C22 replays carry net_json and the edit history; re-run ./check C22 with the same VERIF_SEED")
    return 2
