"""C33 — DER controller set-points stay within the declared capability.

proof:   Props/C33.lean: `_saturate_sn_mva_step` (both priority branches translated from der_control.py) leaves every element
         with p^2+q^2 <= sat^2; area step puts q inside the flexibility for every area with a sound in_area (proved for
         PQArea4120/4130, flexibility-defined areas, merged PQV areas); damping = convex combination; converged => target.
tie:     translator + correspondence: real DERController._saturate_sn_mva_step and PQArea4120/4130.in_area/q_flexibility
         on random points vs the model.
oracle:  real control runs (runpp(run_control=True)) over areas x Q models x saturation x priority x damping; at the
         returned state S <= saturate_sn_mva and q within an INDEPENDENTLY computed flexibility of the area.
"""
import json
import math

import numpy as np
import pandas as pd

from harness import core
from translate import c33 as tr


# ---- independent flexibility oracles (from the class parameters, not from the area's own methods)

def poly_flex(pts, x):
    """vertical line x through polygon [(x,y)...] -> (ymin, ymax) or None"""
    ys = []
    n = len(pts)
    for k in range(n):
        (x0, y0), (x1, y1) = pts[k], pts[(k + 1) % n]
        if x0 == x1:
            if x == x0:
                ys += [y0, y1]
        elif min(x0, x1) <= x <= max(x0, x1):
            ys.append(y0 + (y1 - y0) * (x - x0) / (x1 - x0))
    return (min(ys), max(ys)) if ys else None


def flex4120(pq, p):
    p0, p1 = pq.p_points_pu
    if p < p0:
        return -0.05, pq.q_max_under_p_point
    if p < p1:
        return (-0.1 + (p - p0) * (pq.min_q_pu + 0.1) / (p1 - p0), 0.1 + (p - p0) * (pq.max_q_pu - 0.1) / (p1 - p0))
    return pq.min_q_pu, pq.max_q_pu


def flex_qv4120(qv, vm):
    lo_v, hi_v, d = 96.0 / 110, 127.0 / 110, 7.0 / 110
    mn, mx = qv.min_q_pu, qv.max_q_pu
    lin = (mx - mn) / d
    if vm < lo_v:
        return mx, mx
    if vm > hi_v:
        return mn, mn
    if vm <= lo_v + d:
        return mx - lin * (vm - lo_v), mx
    if vm <= hi_v - d:
        return mn, mx
    return mn, mn + lin * (hi_v - vm)


def independent_flex(area, p, vm):
    """(lo, hi) or None when this oracle does not cover the area type"""
    from pandapower.control.controller.DERController import PQVAreas as A
    name = type(area).__name__
    if isinstance(area, A.PQAreaSTATCOM):
        return area.min_q_pu, area.max_q_pu
    if isinstance(area, A.PQAreaPOLYGON):
        return poly_flex(list(zip(area.p_points_pu, area.q_points_pu)), p)
    if isinstance(area, A.QVAreaPOLYGON):
        return poly_flex(list(zip(area.vm_points_pu, area.q_points_pu)), vm)
    if type(area) in (A.PQArea4120, A.PQArea4130):
        return flex4120(area, p)
    if type(area) is A.QVArea4120:
        return flex_qv4120(area, vm)
    if isinstance(area, A.BasePQVArea) and type(area.qv_area) is not A.QVArea4130:
        a, b = independent_flex(area.pq_area, p, vm), independent_flex(area.qv_area, p, vm)
        if a is None or b is None:
            return None
        lo, hi = max(a[0], b[0]), min(a[1], b[1])
        return (lo, hi) if lo <= hi else None
    return None


def make_area(rng):
    from pandapower.control.controller.DERController import PQVAreas as A
    k = rng.choice(["none", "4120V1", "4120V2", "4120V3", "4120V2-2015", "4110", "4105-1", "4105-2", "statcom", "poly",
                    "4130V1", "4130V2", "pq4120", "qvpoly"])
    if k == "none":
        return k, None
    if k.startswith("4120"):
        ver = 2015 if k.endswith("2015") else 2018
        return k, {"4120V1": A.PQVArea4120V1, "4120V2": A.PQVArea4120V2, "4120V3": A.PQVArea4120V3}[k[:6]](version=ver)
    if k == "4110":
        return k, A.PQVArea4110()
    if k.startswith("4105"):
        return k, A.PQVArea4105(int(k[-1]))
    if k == "statcom":
        return k, A.PQAreaSTATCOM(min_q_pu=-rng.choice([0.1, 0.33]), max_q_pu=rng.choice([0.05, 0.41]))
    if k == "poly":
        qm = rng.choice([0.2, 0.35])
        return k, A.PQAreaPOLYGON(p_points_pu=(0., 1., 1., 0.), q_points_pu=(0., -qm, qm * rng.choice([0.5, 1.0]), 0.))
    if k == "qvpoly":
        qm = rng.choice([0.25, 0.4])
        return k, A.QVAreaPOLYGON(q_points_pu=(0., -qm, -qm, 0., qm, qm, 0.), vm_points_pu=(0.9, 0.95, 1.1, 1.1, 1.05, 0.9, 0.9))
    if k.startswith("4130"):
        return k, {"4130V1": A.PQVArea4130V1, "4130V2": A.PQVArea4130V2}[k]()
    if k == "pq4120":
        return k, A.PQArea4120(-rng.choice([0.2, 0.33]), rng.choice([0.3, 0.45]), version=rng.choice([2015, 2018]))
    raise AssertionError(k)


def run(ctx):
    import pandapower as pp
    from pandapower.control.controller.DERController import DERController, PQVAreas as A, QModels as Q
    ctx.cov["rule"] = ("oracle case = 2-bus/3-bus net, 1-2 sgens under one DERController x capability area (14 kinds incl. none) x Q "
                       "model x saturate_sn_mva (nan or 0.4-1.2 sn) x q_prio x damping_coef {1,2,3}; non-trivial = some "
                       "element was moved by the saturation; correspondence: 400 random (p,q,sat) points per priority and "
                       "300 (p,q) points per 4120/4130 area")
    x = {}

    def translator():
        x.update(tr.extract(core.REPO))
        return tr.render(x)
    ctx.regenerate("C33", translator)
    ctx.prove()
    rng = ctx.rng

    def base_net(n_sgen):
        net = pp.create_empty_network()
        pp.create_buses(net, 1 + n_sgen, vn_kv=20)
        pp.create_ext_grid(net, 0, vm_pu=rng.choice([0.97, 1.0, 1.03, 1.06]))
        for k in range(n_sgen):
            pp.create_line_from_parameters(net, 0, 1 + k, rng.choice([0.5, 4.0]), 0.3, 0.1, 200, 0.4)
            pp.create_sgen(net, 1 + k, p_mw=rng.choice([0.1, 0.5, 1.5, 2.0, 2.9]), q_mvar=rng.choice([0., 0.3, -0.4]),
                           sn_mva=3., name=f"DER{k}")
        return net
    # ---------------- direct oracle
    for k in range(ctx.budget(40, 500)):
        n_sgen = rng.choice([1, 2])
        net = base_net(n_sgen)
        aname, area = make_area(rng)
        qm_name = rng.choice(["const", "const_big", "cosphiP", "cosphiPQ", "series"])
        qm = {"const": lambda: Q.QModelConstQ(rng.choice([-0.3, 0.1, 0.45])), "const_big": lambda: Q.QModelConstQ(rng.choice([-0.9, 0.8])),
              "cosphiP": lambda: Q.QModelCosphiP(rng.choice([0.9, -0.95])), "cosphiPQ": lambda: Q.QModelCosphiPQ(rng.choice([0.9, 0.8])),
              "series": lambda: None}[qm_name]()
        sat = rng.choice([float("nan"), 1.2, 2.4, 2.5, 3.0, 3.6])
        q_prio = rng.random() < 0.5
        damp = rng.choice([1, 2, 2, 3])
        if area is None and math.isnan(sat):
            sat = 2.4
        case = {"area": aname, "q_model": qm_name, "sat_mva": sat, "q_prio": q_prio, "damping": damp,
                "sgen": net.sgen[["p_mw", "q_mvar", "sn_mva"]].to_dict("list"), "vm_slack": float(net.ext_grid.vm_pu.iloc[0])}
        try:
            with core.quiet():
                ctrl = DERController(net, list(net.sgen.index), q_model=qm, pqv_area=area, saturate_sn_mva=sat, q_prio=q_prio,
                                     damping_coef=damp)
                pp.runpp(net, run_control=True, max_iter=60)
        except Exception as e:       # noqa
            msg = f"{type(e).__name__}: {e}"
            if "ControllerNotConverged" in msg or "max_q < min_q" in msg or "max_q > min_q" in msg or "is wrong" in msg \
                    or "LoadflowNotConverged" in msg:
                ctx.hist("run", "no-result:" + type(e).__name__)
                continue
            ctx.failure(f"run:{aname}", f"control run raised {msg}", case)
            continue
        ctx.hist("run", "converged")
        ctx.hist("area", aname)
        p, q, sn = net.sgen.p_mw.values, net.sgen.q_mvar.values, net.sgen.sn_mva.values
        vm = net.res_bus.vm_pu.loc[net.sgen.bus.values].values
        moved = not np.allclose(p, case["sgen"]["p_mw"]) or qm is not None
        ctx.count(json.dumps(case), nontrivial=moved)
        ctx.sample({"case": case, "p": p.tolist(), "q": q.tolist()}, cap=3)
        # the run returns when |damped target - current| <= max_error + rtol * |current| (np.allclose, rtol 1e-5): the distance to
        # the saturated point is then at most damping_coef times that; the oracle allows twice this bound and no more
        tol = 2 * damp * (1e-6 + 1e-5 * float(max(np.max(np.abs(p)), np.max(np.abs(q)), 1.0)))
        if not math.isnan(sat):
            s = np.sqrt(p ** 2 + q ** 2)
            if np.any(s > sat + tol):
                j = int(np.argmax(s))
                ctx.failure(f"disk:{'q' if q_prio else 'p'}-prio", f"apparent power {s[j]!r} MVA exceeds saturate_sn_mva {sat} "
                                                                   f"(p={p[j]!r}, q={q[j]!r})", case)
        elif area is not None:
            for j in range(len(p)):
                fl = independent_flex(area, p[j] / sn[j], vm[j])
                if fl is None:
                    ctx.hist("flex_oracle", "not-covered")
                    continue
                ctx.hist("flex_oracle", "covered")
                if not (fl[0] - tol / sn[j] - 1e-9 <= q[j] / sn[j] <= fl[1] + tol / sn[j] + 1e-9):
                    ctx.failure(f"flex:{aname}", f"q = {q[j] / sn[j]!r} pu outside the area's flexibility [{fl[0]!r}, {fl[1]!r}] at "
                                                 f"p = {p[j] / sn[j]!r} pu, vm = {vm[j]!r}", case)
    # ---------------- correspondence 1: _saturate_sn_mva_step
    reqs, expect = [], []
    net = base_net(2)
    for prio in (True, False):
        with core.quiet():
            ctrl = DERController(net, list(net.sgen.index), saturate_sn_mva=np.array([2.4, 2.4]), q_prio=prio)
        for _ in range(ctx.budget(100, 1000)):
            sat = rng.choice([1.2, 2.4, 3.0])
            ctrl.saturate_sn_mva = np.array([sat, sat])
            pv = np.array([round(rng.uniform(-0.2, 1.5), 3), round(rng.uniform(0, 1.3), 3)])
            qv = np.array([round(rng.uniform(-1.4, 1.4), 3), rng.choice([0., 0.9, -0.2])])
            vm = pd.Series([1.0, 1.0], index=net.sgen.index)
            p_in, q_in = pd.Series(pv.copy(), index=net.sgen.index), pd.Series(qv.copy(), index=net.sgen.index)
            try:
                with core.quiet():
                    po, qo = ctrl._saturate_sn_mva_step(p_in, q_in, vm)
            except Exception as e:   # noqa
                ctx.tie_break("correspondence:C33", f"_saturate_sn_mva_step raised {type(e).__name__}: {e}")
                break
            sat_pu = sat / 3.0
            for j in range(2):
                if prio:
                    cl = float(np.clip(qv[j], -sat_pu, sat_pu))
                else:
                    cl = float(np.clip(pv[j], 0., sat_pu))
                arg = sat_pu ** 2 - cl ** 2
                s = float(np.sqrt(arg)) if arg >= 0 else 0.0
                reqs.append(f"sn {'q' if prio else 'p'} {core.frac(sat_pu)} {core.frac(float(pv[j]))} {core.frac(float(qv[j]))} {core.frac(s)}")
                expect.append(("sn", (float(np.asarray(po)[j]), float(np.asarray(qo)[j])), (prio, sat, pv[j], qv[j])))
    # ---------------- correspondence 2: PQArea4120 / 4130
    for _ in range(ctx.budget(6, 40)):
        mn, mx = -rng.choice([0.227902, 0.328684, 0.410775, 0.1]), rng.choice([0.484322, 0.410775, 0.328684])
        if rng.random() < 0.5:
            a = A.PQArea4120(mn, mx, version=rng.choice([2015, 2018]))
        else:
            a = A.PQArea4130(mn, mx)
        p0, p1 = a.p_points_pu
        pts_p = np.array([rng.choice([p0, p1, 0.0, 1.0, round(rng.uniform(0, 1.1), 4), round(rng.uniform(p0, p1), 4)]) for _ in range(50)])
        pts_q = np.array([round(rng.uniform(-0.6, 0.6), 3) + 0.0007 for _ in range(50)])   # never exactly on a decimal band edge
        ia = a.in_area(pts_p, pts_q)
        fl = a.q_flexibility(pts_p)
        for j in range(50):
            reqs.append("pq4120 " + " ".join(core.frac(float(v)) for v in (p0, p1, mn, mx, a.q_max_under_p_point, pts_p[j], pts_q[j])))
            expect.append(("pq", (bool(ia[j]), float(fl[j, 0]), float(fl[j, 1])), (mn, mx, pts_p[j], pts_q[j])))
    if ctx.cov.get("lean_build_failed") or not reqs:
        return
    resp = core.lean_driver("C33", reqs)
    dis = 0
    for rq, r, (kind, obs, info) in zip(reqs, resp, expect):
        parts = r.split()
        if parts == ["bad-op"]:
            ctx.tie_break("correspondence:C33", f"driver rejected {rq}")
            break
        if kind == "sn":
            m = [float(core.parse_rat(v)) for v in parts]
            bad = any(abs(a - b) > 1e-12 * max(1, abs(b)) for a, b in zip(m, obs))
        else:
            m = (parts[0] == "1", float(core.parse_rat(parts[1])), float(core.parse_rat(parts[2])))
            bad = m[0] != obs[0] or abs(m[1] - obs[1]) > 1e-12 or abs(m[2] - obs[2]) > 1e-12
        if bad:
            dis += 1
            if dis <= 3:
                ctx.tie_break("correspondence:C33", f"{kind}: model {r}, implementation {obs} for {info}")
    ctx.cov["correspondence_requests"] = len(reqs)
    ctx.cov["disagreements_checked"] = dis
    ctx.sample({"request": reqs[0], "response": resp[0]})
    ctx.assumptions.append("np.sqrt is an oracle value; shapely polygon predicates (PQAreaPOLYGON / QVAreaPOLYGON and the VDE 4105 / "
                           "4110 areas) and QVArea4130 are library / table contracts: covered by the direct oracle with an independent "
                           "polygon-line intersection, not by a Lean model; 'after each step' is checked at the state the control run "
                           "returns (damped steps from an outside start point are outside the disk by design: witness theorem)")


def replay(ctx, path):
    print("C33 replays carry the controller configuration; re-run ./check C33 with the same VERIF_SEED")
    return 2
