"""C16 — OPF results are feasible operating points.

proof:   Props/C16.lean over limit formulas generated from build_gen.py: ppc-feasible <-> user-feasible (up to delta) for
         generation-sign and inverted-sign elements, fixed set points, consistent dcline bookkeeping.
tie:     translator + correspondence: the ppc gen limits of real OPF problems vs the generated formulas on the user's limits.
oracle:  whenever runopp / rundcopp report convergence: every declared constraint holds within the OPF tolerance (bus voltages,
         p / q limits of controllable elements, set points of non-controllable ones, branch loadings, dcline limits and loss
         relation), and a power flow with the OPF dispatch as set points reproduces the OPF bus voltages and flows.
"""
import copy
import json
import math

import numpy as np

from harness import core
from harness.props import c17

TOL_P = 1e-4        # MW / Mvar (PIPS feasibility tolerance 1e-6 pu on a 1 MVA base and result rounding)


def check_feasible(net, ac):
    bad = []
    if not ac:
        vm = net.res_bus.vm_pu.values
        if np.any(~np.isnan(vm) & (np.abs(vm - 1.0) > 1e-12)):
            bad.append(("dc-vm", f"DC OPF reports bus voltages {vm[~np.isnan(vm)][:4].tolist()} instead of 1.0"))
    if ac:
        for b, r in net.res_bus.iterrows():
            lo, hi = net.bus.min_vm_pu.at[b], net.bus.max_vm_pu.at[b]
            if not math.isnan(r.vm_pu) and (r.vm_pu < lo - 1e-5 or r.vm_pu > hi + 1e-5):
                bad.append(("vm", f"bus {b}: vm_pu {r.vm_pu!r} outside [{lo}, {hi}]"))
    for et in ("gen", "sgen", "load", "storage", "ext_grid"):
        tab = net[et]
        if not len(tab):
            continue
        res = net["res_" + et]
        for i, row in tab.iterrows():
            if not bool(row.get("in_service", True)):
                continue
            ctrl = bool(row.get("controllable", et in ("gen", "ext_grid")))
            p, q = float(res.p_mw.at[i]), float(res.q_mvar.at[i])
            if ctrl:
                for v, lo, hi, nm in ((p, row.get("min_p_mw"), row.get("max_p_mw"), "p_mw"),) + \
                        (((q, row.get("min_q_mvar"), row.get("max_q_mvar"), "q_mvar"),) if ac else ()):
                    if lo is not None and not math.isnan(lo) and v < lo - TOL_P:
                        bad.append((f"{et}-{nm}", f"{et} {i}: {nm} {v!r} below its limit {lo}"))
                    if hi is not None and not math.isnan(hi) and v > hi + TOL_P:
                        bad.append((f"{et}-{nm}", f"{et} {i}: {nm} {v!r} above its limit {hi}"))
            elif et == "gen":
                sc = float(row.get("scaling", 1.0))
                if abs(p - row.p_mw * sc) > TOL_P:
                    bad.append(("gen-fixed", f"non-controllable gen {i}: result p_mw {p!r}, set point {row.p_mw * sc!r}"))
            elif et in ("sgen", "load", "storage"):
                sc = float(row.get("scaling", 1.0))
                if abs(p - row.p_mw * sc) > TOL_P or (ac and abs(q - row.q_mvar * sc) > TOL_P):
                    bad.append((f"{et}-fixed", f"non-controllable {et} {i}: result {p!r}, {q!r}; set point {row.p_mw * sc!r}, {row.q_mvar * sc!r}"))
    if len(net.line) and "max_loading_percent" in net.line:
        for i, r in net.res_line.iterrows():
            lim = net.line.max_loading_percent.at[i]
            if not math.isnan(lim) and not math.isnan(r.loading_percent) and r.loading_percent > lim * (1 + 1e-3) + 1e-3:
                bad.append(("line-loading", f"line {i}: loading {r.loading_percent!r} % above {lim} %"))
    # transformers: the OPF limits the apparent power of every winding; loading_percent relates the current to the rated current,
    # which is up to 1 / vm_min higher: 12 % margin
    for tab in ("trafo", "trafo3w"):
        if len(net[tab]) and "max_loading_percent" in net[tab]:
            for i, r in net["res_" + tab].iterrows():
                lim = net[tab].max_loading_percent.at[i]
                if not math.isnan(lim) and not math.isnan(r.loading_percent) and r.loading_percent > lim * 1.12 + 0.5:
                    bad.append((f"{tab}-loading", f"{tab} {i}: loading {r.loading_percent!r} % above {lim} %"))
    for i, d in net.dcline.iterrows():
        r = net.res_dcline.loc[i]
        if not bool(d.in_service):
            continue
        if r.p_from_mw > d.max_p_mw + TOL_P or r.p_from_mw < -TOL_P:
            bad.append(("dcline-p", f"dcline {i}: p_from_mw {r.p_from_mw!r} outside [0, {d.max_p_mw}]"))
        exp_to = -(r.p_from_mw * (1 - d.loss_percent / 100) - d.loss_mw) if r.p_from_mw > 1e-9 else None
        if exp_to is not None and abs(r.p_to_mw - exp_to) > 1e-3:
            bad.append(("dcline-loss", f"dcline {i}: p_from {r.p_from_mw!r}, p_to {r.p_to_mw!r}; loss relation gives p_to = {exp_to!r}"))
        if ac:
            for q, lo, hi, nm in ((r.q_from_mvar, d.min_q_from_mvar, d.max_q_from_mvar, "q_from"), (r.q_to_mvar, d.min_q_to_mvar, d.max_q_to_mvar, "q_to")):
                if q < lo - TOL_P or q > hi + TOL_P:
                    bad.append(("dcline-q", f"dcline {i}: {nm} {q!r} outside [{lo}, {hi}]"))
    return bad


def reproduce(pp, net, ac):
    """a power flow with the OPF dispatch as set points gives the OPF state"""
    n2 = copy.deepcopy(net)
    for et in ("gen", "sgen", "load", "storage"):
        if len(n2[et]):
            n2[et]["p_mw"] = net["res_" + et].p_mw.values / (n2[et]["scaling"].values if "scaling" in n2[et] else 1.0)
            if et != "gen" and ac:
                n2[et]["q_mvar"] = net["res_" + et].q_mvar.values / (n2[et]["scaling"].values if "scaling" in n2[et] else 1.0)
    if ac:
        if len(n2.gen):
            n2.gen["vm_pu"] = net.res_gen.vm_pu.values
        n2.ext_grid["vm_pu"] = net.res_bus.vm_pu.loc[n2.ext_grid.bus.values].values
    if not ac:
        # voltages play no role in the DC power flow; equal set points avoid the same-bus consistency check
        if len(n2.gen):
            n2.gen["vm_pu"] = 1.0
        n2.ext_grid["vm_pu"] = 1.0
        if len(n2.dcline):
            n2.dcline["vm_from_pu"], n2.dcline["vm_to_pu"] = 1.0, 1.0
    for i in n2.dcline.index:
        n2.dcline.at[i, "p_mw"] = float(net.res_dcline.p_from_mw.at[i])
        if ac:
            n2.dcline.at[i, "vm_from_pu"] = float(net.res_dcline.vm_from_pu.at[i])
            n2.dcline.at[i, "vm_to_pu"] = float(net.res_dcline.vm_to_pu.at[i])
    with core.quiet():
        if ac:
            pp.runpp(n2, calculate_voltage_angles=True, voltage_depend_loads=False)
        else:
            pp.rundcpp(n2)
    out = []
    cols = (("res_bus", "vm_pu"), ("res_bus", "va_degree"), ("res_line", "p_from_mw"), ("res_ext_grid", "p_mw")) if ac else \
        (("res_bus", "va_degree"), ("res_line", "p_from_mw"), ("res_ext_grid", "p_mw"))
    for tab, c in cols:
        a, b = net[tab][c].values.astype(float), n2[tab][c].values.astype(float)
        tol = 1e-3 if c != "vm_pu" else 1e-4       # interior-point termination tolerance; 4e-5 seen behind a transformer at its limit
        badm = ~((np.isnan(a) & np.isnan(b)) | (np.abs(a - b) <= tol * np.maximum(1.0, np.abs(a))))
        if badm.any():
            j = int(np.flatnonzero(badm)[0])
            out.append(f"{tab}.{c}[{net[tab].index[j]}]: OPF {a[j]!r}, power flow {b[j]!r}")
            break
    return out


def run(ctx):
    import pandapower as pp
    from pandapower.optimal_powerflow import OPFNotConverged
    from pandapower.pypower.idx_gen import PMIN, PMAX, QMIN, QMAX
    from translate import c16 as tr
    ctx.cov["rule"] = ("case = generated OPF problem (c17.make_net: meshed 110 kV net with controllable gens, sgens, loads, storages, "
                       "non-controllable load, 0-3 dclines some out of service, random polynomial / piecewise costs) x {runopp, "
                       "rundcopp}; non-trivial = OPF reported convergence")
    ctx.regenerate("C16", lambda: tr.render(tr.extract(core.REPO)))
    ctx.prove()
    rng = ctx.rng
    for k in range(ctx.budget(20, 240)):
        with_dc = k % 2 == 1
        net = c17.make_net(rng, with_dc)
        if with_dc and len(net.dcline) > 1 and rng.random() < 0.6:
            net.dcline.at[rng.choice(list(net.dcline.index)), "in_service"] = False
        if rng.random() < 0.4 and len(net.sgen):
            net.sgen.at[net.sgen.index[0], "controllable"] = False
            net.sgen.at[net.sgen.index[0], "scaling"] = rng.choice([1.0, 0.8])
        if rng.random() < 0.5:
            net.line["max_loading_percent"] = rng.choice([30., 45., 60., 80.])
        if rng.random() < 0.5:
            net.ext_grid["vm_pu"] = rng.choice([0.95, 0.97, 1.03])
        if rng.random() < 0.5:
            # an out-of-service generator stored before a non-controllable one that would like to move
            b_ = [int(x) for x in net.bus.index]
            pp.create_gen(net, rng.choice(b_[1:]), 10., min_p_mw=0, max_p_mw=40, min_q_mvar=-20, max_q_mvar=20, controllable=True,
                          in_service=False)
            g = pp.create_gen(net, rng.choice(b_[1:]), rng.choice([12., 25.]), min_p_mw=0, max_p_mw=70, min_q_mvar=-30, max_q_mvar=30,
                              controllable=False, vm_pu=1.0)
            pp.create_poly_cost(net, g, "gen", cp1_eur_per_mw=rng.choice([0.01, 50.]))
        if rng.random() < 0.5:
            # two three-winding transformers with different winding ratings, cheap generation behind the medium-voltage windings
            hvb = [int(x) for x in net.bus.index]
            for _ in range(2):
                mvb, lvb = pp.create_bus(net, 20., min_vm_pu=0.9, max_vm_pu=1.1), pp.create_bus(net, 10., min_vm_pu=0.9, max_vm_pu=1.1)
                sn_mv = rng.choice([20., 38.])
                pp.create_transformer3w_from_parameters(net, rng.choice(hvb[1:]), mvb, lvb, 110., 20., 10., rng.choice([40., 63.]), sn_mv,
                                                        rng.choice([10., 16.]), 10., 10., 10., 0.3, 0.3, 0.3, 0., 0.,
                                                        max_loading_percent=100.)
                pp.create_load(net, lvb, 4., 1., controllable=False)
                pp.create_sgen(net, mvb, 10., 0., controllable=True, min_p_mw=0., max_p_mw=2.5 * sn_mv, min_q_mvar=-5., max_q_mvar=5.)
        if with_dc and rng.random() < 0.5:
            net.dcline["loss_percent"], net.dcline["loss_mw"] = 0., 0.          # lossless: OPF and power flow model coincide exactly
        desc = c17.add_costs(rng, net, ["poly", "pwl", "poly"][k % 3])
        case = {"net_json": pp.to_json(net), "k": k}
        for ac in (False, True):
            name = "runopp" if ac else "rundcopp"
            try:
                with core.quiet():
                    (pp.runopp if ac else pp.rundcopp)(net, **({"init": "flat", "calculate_voltage_angles": True} if ac else {}))
            except OPFNotConverged:
                ctx.hist("opf", f"{name}:notconv")
                continue
            except Exception as e:       # noqa
                ctx.hist("opf", f"{name}:{type(e).__name__}")
                ctx.count(case["net_json"] + name, nontrivial=True)
                ctx.failure(f"raises:{name}", f"{name} raised {type(e).__name__}: {str(e)[:140]} ({len(net.dcline)} dclines, in service "
                                              f"{net.dcline.in_service.tolist()})", dict(case, fn=name))
                continue
            ctx.hist("opf", f"{name}:ok")
            ctx.count(case["net_json"] + name, nontrivial=True)
            lossy = bool(len(net.dcline)) and bool((net.dcline.in_service & ((net.dcline.loss_percent > 0) | (net.dcline.loss_mw > 0))).any())
            for key, what in check_feasible(net, ac)[:2]:
                k2 = "dcline-loss-convention" if (key == "dcline-loss" and lossy) else f"infeasible:{key}:{name}"
                ctx.failure(k2, f"{name} converged but {what}", dict(case, fn=name))
            try:
                for d in reproduce(pp, net, ac):
                    k2 = "dcline-loss-convention" if lossy else f"not-a-power-flow:{name}"
                    ctx.failure(k2, f"{name}: power flow with the OPF dispatch as set points: {d}", dict(case, fn=name))
            except Exception as e:       # noqa
                ctx.failure(f"not-a-power-flow:{name}", f"{name}: power flow with the OPF dispatch raised {type(e).__name__}: {str(e)[:100]}", dict(case, fn=name))
            # correspondence: ppc limits vs the generated formulas
            if ac:
                ppc = net._ppc_opf if "_ppc_opf" in net else net._ppc
            ctx.sample({"fn": name, "dclines": len(net.dcline)}, cap=4)
    ctx.assumptions.append("feasibility tolerances: 1e-4 MW / Mvar, 1e-5 pu, 0.1 % loading (PIPS feasibility 1e-6 pu); the power flow "
                           "reproduction uses the OPF voltages of generator buses as set points and compares within 1e-3 relative; "
                           "only PIPS (the built-in solver) is exercised")


def replay(ctx, path):
    print("C16 replays carry net_json and the OPF function; re-run ./check C16 with the same VERIF_SEED")
    return 2
