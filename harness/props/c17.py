"""C17 — OPF minimises exactly the user-defined cost functions.

proof:   Props/C17.lean over Generated/C17.lean (gencost expressions and sign tables regenerated from
         opf/make_objective.py): poly rows evaluate to the user's polynomial at pg = s*p for s = +-1, pwl mirror,
         breakpoint count / last value by induction, linear-as-pwl characterisation.
tie:     translator + correspondence: gencost rows built by the real code (net._ppc_opf) vs model rows (multiset),
         costs_from_areas called directly vs the model (exact rationals).
oracle:  res_cost == sum of the user's cost functions at the elements' own result powers (AC and DC OPF);
         DC OPF with non-binding network limits == independent economic dispatch (linprog / SLSQP).
"""
import json
from fractions import Fraction

import numpy as np

from harness import core
from translate import c17 as tr

KINDS = ["ext_grid", "gen", "sgen", "load", "storage", "dcline"]


def make_net(rng, with_dcline):
    import pandapower as pp
    net = pp.create_empty_network()
    n = rng.randint(4, 6)
    b = [pp.create_bus(net, 110., min_vm_pu=0.9, max_vm_pu=1.1) for _ in range(n)]
    pp.create_ext_grid(net, b[0], min_p_mw=-500, max_p_mw=500, min_q_mvar=-500, max_q_mvar=500)
    for i in range(n - 1):
        pp.create_line_from_parameters(net, b[i], b[i + 1], 10, 0.06, 0.25, 10, 5.0, max_loading_percent=100)
    pp.create_line_from_parameters(net, b[0], b[n - 1], 15, 0.06, 0.25, 10, 5.0, max_loading_percent=100)
    for _ in range(rng.randint(1, 2)):
        pp.create_gen(net, rng.choice(b[1:]), 30, min_p_mw=0, max_p_mw=rng.choice([60, 80]), min_q_mvar=-50,
                      max_q_mvar=50, controllable=True)
    for _ in range(rng.randint(1, 2)):
        pp.create_sgen(net, rng.choice(b[1:]), 20, min_p_mw=0, max_p_mw=rng.choice([30, 40]), min_q_mvar=-10,
                       max_q_mvar=10, controllable=True)
    for _ in range(rng.randint(1, 2)):
        pp.create_load(net, rng.choice(b[1:]), 60, 10, min_p_mw=20, max_p_mw=60, min_q_mvar=0, max_q_mvar=10,
                       controllable=True)
    if rng.random() < 0.6:
        pp.create_storage(net, rng.choice(b[1:]), 5, 100, min_p_mw=-10, max_p_mw=10, min_q_mvar=-1, max_q_mvar=1,
                          controllable=True)
    pp.create_load(net, b[1], rng.choice([30, 40, 55]), 5)
    if with_dcline:
        for _ in range(rng.randint(1, 3)):
            f, t = rng.sample(b[1:], 2)
            pp.create_dcline(net, f, t, p_mw=10, loss_percent=rng.choice([0., 1.5]), loss_mw=rng.choice([0., 0.5]),
                             vm_from_pu=1.01, vm_to_pu=1.0, max_p_mw=rng.choice([20, 30]), min_q_from_mvar=-10,
                             min_q_to_mvar=-10, max_q_from_mvar=10, max_q_to_mvar=10)
    return net


def bounds_of(net, et, el):
    if et == "dcline":
        return 0., float(net.dcline.max_p_mw.at[el])
    return float(net[et].min_p_mw.at[el]), float(net[et].max_p_mw.at[el])


def add_costs(rng, net, mode):
    """returns list of cost descriptions (for the replay)"""
    import pandapower as pp
    els = [(et, int(i)) for et in KINDS for i in net[et].index
           if et in ("ext_grid", "dcline") or bool(net[et].controllable.at[i] is True or net[et].controllable.at[i] == True)]  # noqa
    rng.shuffle(els)
    chosen = els[:rng.randint(2, min(6, len(els)))]
    if ("ext_grid", 0) not in chosen:
        chosen.append(("ext_grid", 0))
    desc = []
    for et, el in chosen:
        lo, hi = bounds_of(net, et, el)
        benefit = et in ("load",)           # consumption is rewarded, otherwise the optimum is trivial
        if mode == "poly" or (mode == "mixed" and (et, el) != ("ext_grid", 0) and rng.random() < 0.5):
            c1 = round(rng.uniform(1, 12), 1) * (-1 if benefit else 1)
            c0 = rng.choice([0, 0, round(rng.uniform(1, 9), 1)])
            c2 = rng.choice([0, 0, round(rng.uniform(0.01, 0.2), 2)]) if mode == "poly" else 0
            kw = {}
            if mode == "poly" and et in ("gen", "sgen", "load") and rng.random() < 0.3:
                kw = dict(cq1_eur_per_mvar=round(rng.uniform(0.1, 1), 1), cq0_eur=rng.choice([0, 2.5]),
                          cq2_eur_per_mvar2=rng.choice([0, 0.05]))
            pp.create_poly_cost(net, el, et, cp1_eur_per_mw=c1, cp0_eur=c0, cp2_eur_per_mw2=c2, **kw)
            desc.append(("poly", et, el, c2, c1, c0, kw))
        else:
            # convex areas covering [lo, hi] exactly
            k = rng.randint(1, 3)
            cuts = sorted({lo, hi} | {round(lo + (hi - lo) * rng.choice([0.25, 0.5, 0.75]), 1) for _ in range(k - 1)})
            slopes = sorted(round(rng.uniform(1, 12), 1) * (-1 if benefit else 1) for _ in range(len(cuts) - 1))
            pts = [[cuts[i], cuts[i + 1], slopes[i]] for i in range(len(cuts) - 1)]
            pp.create_pwl_cost(net, el, et, pts)
            desc.append(("pwl", et, el, pts))
    return desc


def res_power(net, et, el, q=False):
    if et == "dcline":
        return float(net.res_dcline.p_from_mw.at[el])
    r = net["res_" + et]
    return float(r.q_mvar.at[el] if q else r.p_mw.at[el])


def pwl_value(pts, x):
    f = pts[0][0] * pts[0][2]
    for lo, up, s in pts:
        if lo - 1e-6 <= x <= up + 1e-6:
            return f + (x - lo) * s
        f += (up - lo) * s
    # outside the areas: linear continuation of the nearest area (the solver's convention)
    if x < pts[0][0]:
        return pts[0][0] * pts[0][2] + (x - pts[0][0]) * pts[0][2]
    return f + (x - pts[-1][1]) * pts[-1][2]


def user_cost(net, ac, drop_c0_in_mixed=False):
    tot = 0.
    for _, c in net.poly_cost.iterrows():
        p = res_power(net, c.et, c.element)
        tot += c.cp2_eur_per_mw2 * p * p + c.cp1_eur_per_mw * p + c.cp0_eur
        if ac and (c.cq2_eur_per_mvar2 or c.cq1_eur_per_mvar or c.cq0_eur) and c.et != "dcline":
            q = res_power(net, c.et, c.element, q=True)
            tot += c.cq2_eur_per_mvar2 * q * q + c.cq1_eur_per_mvar * q + c.cq0_eur
    for _, c in net.pwl_cost.iterrows():
        x = res_power(net, c.et, c.element, q=(c.power_type == "q"))
        tot += pwl_value(c.points, x)
    return tot


def independent_dispatch(net, desc):
    """economic dispatch ignoring the (non-binding) network: min sum cost_k(p_k) s.t. power balance, bounds.
    Only for pure-pwl / pure-linear cases without dclines: linprog with epigraph variables."""
    from scipy.optimize import linprog
    els = [(et, int(i)) for et in ("ext_grid", "gen", "sgen", "load", "storage") for i in net[et].index
           if et == "ext_grid" or bool(net[et].controllable.at[i])]
    nvar = len(els)
    lines = {}     # element -> list of (a, b) with cost >= a*p + b
    const = 0.
    for d in desc:
        if d[0] == "pwl":
            _, et, el, pts = d
            f = pts[0][0] * pts[0][2]
            ls = []
            for lo, up, s in pts:
                ls.append((s, f - s * lo))
                f += (up - lo) * s
            lines[(et, el)] = ls
        else:
            _, et, el, c2, c1, c0, kw = d
            if c2 or kw:
                return None
            lines[(et, el)] = [(c1, c0)]
    ny = len(lines)
    keys = list(lines)
    c = np.zeros(nvar + ny)
    c[nvar:] = 1.
    A_ub, b_ub = [], []
    for j, k in enumerate(keys):
        i = els.index(k) if k in els else None
        if i is None:
            return None
        for a, b in lines[k]:
            row = np.zeros(nvar + ny)
            row[i] = a
            row[nvar + j] = -1.
            A_ub.append(row)
            b_ub.append(-b)
    fixed_load = float(net.load.p_mw[~net.load.controllable.fillna(False).astype(bool)].sum())
    A_eq = np.zeros((1, nvar + ny))
    for i, (et, el) in enumerate(els):
        A_eq[0, i] = -1. if et in ("load", "storage") else 1.
    bnds = []
    for et, el in els:
        bnds.append(bounds_of(net, et, el))
    bnds += [(None, None)] * ny
    r = linprog(c, A_ub=np.array(A_ub), b_ub=np.array(b_ub), A_eq=A_eq, b_eq=[fixed_load], bounds=bnds, method="highs")
    return float(r.fun) if r.success else None


def gencost_model_requests(net, desc, ppci):
    """requests for the model rows of every cost entry + the observed non-zero gencost rows"""
    from pandapower.pypower.idx_gen import PMIN, PMAX
    reqs, tags = [], []
    is_pwl = len(net.pwl_cost) > 0
    quad = bool(net.poly_cost[["cp2_eur_per_mw2", "cq2_eur_per_mvar2"]].values.any()) if len(net.poly_cost) else False
    for d in desc:
        et = d[1]
        s = "-1" if et in ("load", "storage", "dcline") else "1"
        if d[0] == "pwl":
            pts = d[3]
            reqs.append("pwl %d %d %s" % (s == "-1", len(pts), " ".join(f"{core.frac(a)} {core.frac(b)} {core.frac(c)}"
                                                                         for a, b, c in pts)))
            tags.append(("pwl", d))
        elif is_pwl:
            tags.append(("linpwl", d))
            reqs.append(None)       # needs pmin/pmax of the ppc gen row: identified below by the observed rows
        else:
            _, et, el, c2, c1, c0, kw = d
            if quad:
                reqs.append(f"poly P3 {s} {core.frac(c2)} {core.frac(c1)} {core.frac(c0)}")
            else:
                reqs.append(f"poly P2 {s} {core.frac(c1)} {core.frac(c0)}")
            tags.append(("poly", d))
    return reqs, tags


def canon_row(vals):
    return tuple(round(float(v), 9) for v in vals)


def run_case(ctx, pp, rng, k):
    from pandapower.optimal_powerflow import OPFNotConverged
    from pandapower.pypower.idx_cost import COST, NCOST, MODEL
    mode = ["poly", "pwl", "mixed", "poly"][k % 4]
    with_dc = (k % 3 == 1)
    net = make_net(rng, with_dc)
    desc = add_costs(rng, net, mode)
    case = {"k": k, "mode": mode, "dcline": with_dc, "costs": desc}
    out = {}
    for ac in (False, True):
        name = "runopp" if ac else "rundcopp"
        try:
            with core.quiet():
                (pp.runopp if ac else pp.rundcopp)(net, **({"init": "flat"} if ac else {}))
        except OPFNotConverged:
            ctx.hist("opf", f"{name}:notconv")
            continue
        except Exception as e:     # noqa
            ctx.hist("opf", f"{name}:{type(e).__name__}")
            ctx.note(f"{name} raised {type(e).__name__}: {str(e)[:80]} (mode {mode})")
            continue
        ctx.hist("opf", f"{name}:ok")
        uc = user_cost(net, ac)
        rc = float(net.res_cost)
        tol = 1e-4 * max(1., abs(uc)) if ac else 1e-6 * max(1., abs(uc))
        ok = abs(rc - uc) <= tol
        out[name] = (rc, uc)
        if not ok:
            mixed_c0 = sum(d[5] for d in desc if d[0] == "poly") if len(net.pwl_cost) else 0.
            if len(net.pwl_cost) and mixed_c0 and abs(rc + mixed_c0 - uc) <= tol:
                key = "mixed-pwl-poly-c0"
            else:
                key = "res-cost:" + name
            ctx.failure(key, f"{name}: res_cost={rc:.6f} but the user's cost functions at the result powers give "
                             f"{uc:.6f} (mode {mode}, dcline={with_dc})",
                        {"case": case, "net_json": pp.to_json(net), "fn": name})
        if not ac and not with_dc and mode in ("pwl", "mixed"):
            opt = independent_dispatch(net, desc)
            if opt is not None:
                ctx.hist("dc_independent_optimum", "compared")
                # in mixed mode the code drops c0 (known): compare on the code's own objective shift
                shift = sum(d[5] for d in desc if d[0] == "poly") if len(net.pwl_cost) else 0.
                if abs((rc + shift) - opt) > 1e-5 * max(1., abs(opt)) and abs(rc - opt) > 1e-5 * max(1., abs(opt)):
                    ctx.failure("dc-optimum", f"rundcopp reports cost {rc:.6f}, independent economic dispatch of the same "
                                              f"problem gives {opt:.6f}", {"case": case, "net_json": pp.to_json(net)})
    # gencost correspondence: the matrix exactly as _make_objective built it (recorded by the wrapper in run();
    # the solver later rewrites single-segment pwl rows in place)
    reqs, tags = gencost_model_requests(net, desc, None)
    obs_rows = []
    if RECORDED:
        gc, ng = RECORDED[-1]
        for r in range(gc.shape[0]):
            row = gc[r]
            n = int(row[NCOST])
            vals = row[COST:COST + (2 * n if row[MODEL] == 1 else n)]
            if np.any(vals != 0) and not (row[MODEL] == 1 and n == 2 and np.allclose(vals, [0, 0, 1, 0])):
                obs_rows.append((r < ng, canon_row(vals)))
    ctx.count((k, mode, with_dc, json.dumps(desc, default=str)), nontrivial=bool(out))
    ctx.sample({"case": case, "results": out}, cap=4)
    return reqs, tags, obs_rows, case


RECORDED = []


def _install_recorder():
    import pandapower.pd2ppc as pd2ppc
    if getattr(pd2ppc._make_objective, "_verif_wrapped", False):
        return
    orig = pd2ppc._make_objective

    def wrapped(ppci, net):
        out = orig(ppci, net)
        RECORDED.append((out["gencost"].copy(), len(out["gen"])))
        return out
    wrapped._verif_wrapped = True
    pd2ppc._make_objective = wrapped


def run(ctx):
    import pandapower as pp
    _install_recorder()
    ctx.cov["rule"] = ("case = random meshed 110 kV net with controllable ext_grid/gen/sgen/load/storage(/dcline) and "
                       "random poly (c2,c1,c0,+q), convex multi-area pwl or mixed costs; rundcopp and runopp; non-trivial = "
                       "at least one of them converged; distinct by cost description")
    ctx.assumptions += ["PIPS/interior point solver: its reported objective value f is taken as res_cost (contract)",
                        "independent DC optimum only for pwl/linear costs, no dclines, non-binding line limits"]
    x = {}

    def translator():
        x.update(tr.extract(core.REPO))
        return tr.render(x)
    ctx.regenerate("C17", translator)
    ctx.prove()
    rng = ctx.rng
    n_cases = ctx.budget(16, 300)
    all_reqs, owners = [], []
    for k in range(n_cases):
        reqs, tags, obs_rows, case = run_case(ctx, pp, rng, k)
        owners.append((reqs, tags, obs_rows, case))
        all_reqs += [r for r in reqs if r]
    # direct calls of costs_from_areas
    from pandapower.opf.make_objective import costs_from_areas
    cfa = []
    for _ in range(ctx.budget(30, 300)):
        n = rng.randint(1, 4)
        cuts = sorted({round(rng.uniform(-50, 80), 1) for _ in range(n + 1)})
        if len(cuts) < 2:
            continue
        pts = [[cuts[i], cuts[i + 1], round(rng.uniform(-9, 12), 1)] for i in range(len(cuts) - 1)]
        sign = rng.choice([1, -1])
        got = costs_from_areas([[Fraction(str(a)), Fraction(str(b)), Fraction(str(c))] for a, b, c in pts], sign)
        cfa.append((pts, sign, got))
        all_reqs.append("pwl %d %d %s" % (sign < 0, len(pts), " ".join(f"{Fraction(str(a))} {Fraction(str(b))} "
                                                                       f"{Fraction(str(c))}" for a, b, c in pts)))
    if ctx.cov.get("lean_build_failed"):
        return
    resp = core.lean_driver("C17", all_reqs) if all_reqs else []
    it = iter(resp)
    dis = 0
    for reqs, tags, obs_rows, case in owners:
        model_rows = []
        for r, (kind, d) in zip(reqs, tags):
            if r is None:
                continue
            vals = [float(Fraction(v)) for v in next(it).split()]
            model_rows.append(canon_row(vals))
        if not obs_rows:
            continue
        obs_p = sorted(v for is_p, v in obs_rows if is_p)
        lin = [d for kind, d in tags if kind == "linpwl"]
        # every model row must appear among the observed active-power rows (linear-as-pwl rows need pmin/pmax: skipped)
        missing = [m for m in model_rows if not any(np.allclose(m, o, rtol=1e-9, atol=1e-9) for o in obs_p if len(o) == len(m))]
        if missing:
            dis += 1
            if dis <= 3:
                ctx.tie_break("correspondence:C17-gencost", f"model gencost rows {missing[:2]} not among the rows built by "
                                                            f"the code {obs_p[:6]} for case {case['k']} ({case['mode']})")
    for pts, sign, got in cfa:
        vals = [Fraction(v) for v in next(it).split()]
        if [Fraction(g) for g in got] != vals:
            dis += 1
            if dis <= 3:
                ctx.tie_break("correspondence:C17-costs_from_areas",
                              f"costs_from_areas({pts}, {sign}) = {[str(g) for g in got]}, model {[str(v) for v in vals]}")
        ctx.count(("cfa", str(pts), sign))
    ctx.cov["correspondence_requests"] = len(all_reqs)
    ctx.cov["disagreements_checked"] = dis


def replay(ctx, path):
    import pandapower as pp
    with open(path) as f:
        r = json.load(f)["replay"]
    net = pp.from_json_string(r["net_json"])
    fn = r.get("fn", "rundcopp")
    with core.quiet():
        getattr(pp, fn)(net)
    uc = user_cost(net, fn == "runopp")
    print(f"{fn}: res_cost={float(net.res_cost):.6f} user cost at result powers={uc:.6f}")
    bad = abs(float(net.res_cost) - uc) > 1e-4 * max(1, abs(uc))
    print("REPLAY", "FAILS" if bad else "holds")
    return 1 if bad else 0
