"""C09 — calculation results do not depend on the history of the network object.

proof:   Props/C09.lean: cache model - if every entry a calculation uses is re-assigned by the call, the calculation after any
         history of modifications and calculations equals the one on a fresh copy (for every history, by the one-call theorem
         quantified over all caches); witness for a stale entry; the generated list of re-assigned entries covers the used ones.
tie:     translator (unconditional re-assignments, clean-up count, total start vector) + hypothesis check on the implementation:
         every cached entry is poisoned before the final calculation; a poisoned entry that is read shows in the results.
oracle:  random histories (modifications x calculations incl. failing ones, DC, other algorithms, init='results') followed by
         runpp / rundcpp / runpp(init='results'); compared with the same calculation on a fresh copy of the tables.
"""
import copy
import os
import json
import math

import numpy as np
import pandas as pd

from harness import core, netgen

COLS = {"res_bus": ["vm_pu", "va_degree", "p_mw", "q_mvar"], "res_line": ["p_from_mw", "q_from_mvar", "p_to_mw", "loading_percent"],
        "res_trafo": ["p_hv_mw", "q_hv_mvar", "loading_percent"], "res_ext_grid": ["p_mw", "q_mvar"], "res_gen": ["p_mw", "q_mvar", "vm_pu"],
        "res_load": ["p_mw", "q_mvar"], "res_sgen": ["p_mw"], "res_dcline": ["p_from_mw", "p_to_mw"], "res_trafo3w": ["p_hv_mw"],
        "res_xward": ["p_mw", "q_mvar"]}
DC_COLS = {"res_bus": ["vm_pu", "va_degree", "p_mw", "q_mvar"], "res_line": ["p_from_mw", "q_from_mvar", "p_to_mw", "loading_percent"],
           "res_trafo": ["p_hv_mw", "q_hv_mvar"], "res_ext_grid": ["p_mw", "q_mvar"], "res_gen": ["p_mw", "q_mvar", "vm_pu"],
           "res_load": ["p_mw", "q_mvar"], "res_dcline": ["p_from_mw", "q_from_mvar"], "res_sgen": ["p_mw", "q_mvar"],
           "res_shunt": ["p_mw", "q_mvar"], "res_ward": ["p_mw", "q_mvar"], "res_xward": ["p_mw", "q_mvar"]}


def fresh_copy(pp, net):
    """the element tables only: no results, no internal state"""
    new = pp.from_json_string(pp.to_json(net))
    empty = pp.create_empty_network()
    for k in list(new.keys()):
        if k.startswith("_"):
            if k in empty:
                new[k] = copy.deepcopy(empty[k])
            else:
                del new[k]
    pp.clear_result_tables(new)
    new["converged"] = False
    return new


def compare(a, b, cols, tol):
    for tab, cc in cols.items():
        if tab not in a or tab not in b:
            continue
        ta, tb = a[tab], b[tab]
        if list(ta.index) != list(tb.index):
            return f"{tab}: rows {list(ta.index)[:8]} vs {list(tb.index)[:8]}"
        for c in cc:
            if c not in ta or c not in tb:
                continue
            x, y = ta[c].values.astype(float), tb[c].values.astype(float)
            # loading_percent = 100 * current / rating: stopping errors of an ill-conditioned solution show up amplified for
            # small ratings (3e-5 percentage points seen for a 0.4 MVA transformer next to one at 600 % loading)
            t_ = tol * 10 if c == "loading_percent" else tol
            bad = ~((np.isnan(x) & np.isnan(y)) | (np.abs(x - y) <= t_ * np.maximum(1.0, np.abs(y))))
            if bad.any():
                i = int(np.flatnonzero(bad)[0])
                return f"{tab}.{c}[{ta.index[i]}]: {x[i]!r} (with history) vs {y[i]!r} (fresh copy)"
    return None


def modifications(rng, pp):
    def toggle(tab):
        def f(net):
            if len(net[tab]) > 1:
                i = rng.choice(list(net[tab].index))
                net[tab].at[i, "in_service"] = not bool(net[tab].at[i, "in_service"])
                return f"{tab}[{i}].in_service={net[tab].at[i, 'in_service']}"
        return f

    def switch(net):
        if len(net.switch):
            i = rng.choice(list(net.switch.index))
            net.switch.at[i, "closed"] = not bool(net.switch.at[i, "closed"])
            return f"switch[{i}].closed={net.switch.at[i, 'closed']}"

    def load(net):
        if len(net.load):
            i = rng.choice(list(net.load.index))
            net.load.at[i, "p_mw"] = float(net.load.at[i, "p_mw"]) * rng.choice([0.5, 1.3, 2.0])
            return f"load[{i}].p_mw"

    def slack_swap(net):
        # all ext_grids off, a slack generator takes over (or back)
        if len(net.gen) and bool(net.gen.slack.any()):
            on = bool(net.ext_grid.in_service.all())
            net.ext_grid["in_service"] = not on
            return f"ext_grid.in_service={not on}"

    def add_load(net):
        b = rng.choice([int(x) for x in net.bus.index[net.bus.vn_kv == 20.]])
        pp.create_load(net, b, 0.2, 0.05)
        return "create_load"

    def drop_line(net):
        if len(net.line) > 3:
            i = int(net.line.index[-1])
            pp.drop_lines(net, [i])
            return f"drop_lines[{i}]"

    def tap(net):
        if len(net.trafo):
            i = rng.choice(list(net.trafo.index))
            if not pd.isna(net.trafo.at[i, "tap_pos"]):
                net.trafo.at[i, "tap_pos"] = float(net.trafo.at[i, "tap_pos"]) + rng.choice([-1, 1])
                return f"trafo[{i}].tap_pos"

    return [toggle("line"), toggle("load"), toggle("trafo3w"), toggle("xward"), toggle("dcline"), toggle("gen"), switch, load,
            slack_swap, add_load, drop_line, tap]


def calcs(rng, pp):
    return [("runpp", lambda n: pp.runpp(n, calculate_voltage_angles=True)),
            ("runpp_alg", lambda n: pp.runpp(n, algorithm=rng.choice(["iwamoto_nr", "gs", "fdbx"]), max_iteration=30)),
            ("runpp_fail", lambda n: pp.runpp(n, max_iteration=1)),
            ("runpp_qlim", lambda n: pp.runpp(n, enforce_q_lims=True)),
            ("rundcpp", lambda n: pp.rundcpp(n)),
            ("runpp_init_results", lambda n: pp.runpp(n, init="results", calculate_voltage_angles=True)),
            ("runpp_recycle_none", lambda n: pp.runpp(n, trafo_model="pi", voltage_depend_loads=False))]


def history_net(rng, pp):
    net = netgen.random_net(rng, dcline=rng.random() < 0.5, slack_gen=True, allow_oos=rng.random() < 0.4)
    if len(net.dcline) and rng.random() < 0.7:
        mv = [int(b) for b in net.bus.index[net.bus.vn_kv == 20.]]
        a, b = rng.sample(mv[1:], 2)
        pp.create_dcline(net, a, b, p_mw=0.1, loss_percent=1., loss_mw=0.0, vm_from_pu=1.0, vm_to_pu=1.0, in_service=rng.random() < 0.4)
    if len(net.gen) and rng.random() < 0.5:
        # the slack generator first in the table
        order = list(net.gen.index[net.gen.slack]) + list(net.gen.index[~net.gen.slack])
        net.gen = net.gen.loc[order].reset_index(drop=True)
    return net


def poison(net):
    net._pd2ppc_lookups = {"bus": np.array([-7, -7, -7]), "ext_grid": np.array([3, 3]), "gen": np.array([5]), "branch": np.array([9])}
    net._ppc = {"bus": np.full((2, 13), 1e9), "gen": np.full((1, 21), -1e9), "branch": np.zeros((1, 13)), "baseMVA": 1e-3, "internal": {}}
    net._is_elements = {"bus_is_idx": np.array([999]), "load": np.array([True])}
    net._options = {"poisoned": True}
    for k in list(net.keys()):
        if k.startswith("res_") and isinstance(net[k], pd.DataFrame) and len(net[k]):
            net[k].loc[:, :] = 777.7


def run(ctx):
    import pandapower as pp
    from translate import c09 as tr
    ctx.cov["rule"] = ("case = generated net (dclines incl. out-of-service ones, slack generator first) then 2-5 steps of "
                       "(modification, calculation) out of 12 x 7 kinds, then a final runpp / rundcpp / runpp(init='results') on the net "
                       "with history (optionally with every cached entry poisoned) vs the same calculation on a fresh copy of the "
                       "tables; non-trivial = fresh calculation converged")
    ctx.regenerate("C09", lambda: tr.render(tr.extract(core.REPO)))
    ctx.prove()
    rng = ctx.rng
    for k in range(ctx.budget(40, 600)):
        net = history_net(rng, pp)
        mods, cs = modifications(rng, pp), calcs(rng, pp)
        case = {"net_json": pp.to_json(net), "history": []}
        twin = copy.deepcopy(net)        # receives the same modifications and no calculation

        def both(m):
            st = rng.getstate()
            try:
                w = m(net)
            except Exception:       # noqa
                w = None
            end = rng.getstate()
            rng.setstate(st)
            try:
                m(twin)
            except Exception:       # noqa
                pass
            rng.setstate(end)
            return w
        for _ in range(rng.randint(2, 5)):
            m = rng.choice(mods)
            what = both(m)
            name, fn = rng.choice(cs)
            try:
                with core.quiet():
                    fn(net)
                out = "ok"
            except Exception as e:       # noqa
                out = type(e).__name__
            case["history"].append([what, name, out])
        final = ["runpp", "rundcpp", "init_results", "runpp_poisoned", "runpp_recycled"][k % 5]
        REC = {"bus_pq": True, "trafo": True, "gen": True}
        if final == "runpp_recycled":
            # a user-requested recycled calculation: valid when only tables of the recycled parts changed since the stored ppc
            try:
                with core.quiet():
                    pp.runpp(net, calculate_voltage_angles=True)       # full build: the stored ppc belongs to the current tables
            except Exception:       # noqa
                ctx.hist("final", "runpp_recycled:no-previous-solution")
                continue

            def rec_mod(n):
                out = []
                if len(n.load):
                    i = rng.choice(list(n.load.index))
                    n.load.at[i, "p_mw"] = float(n.load.at[i, "p_mw"]) * rng.choice([0.7, 1.2])
                    out.append(f"load[{i}].p_mw")
                for tab in ("trafo", "trafo3w"):
                    for i in n[tab].index:
                        if not pd.isna(n[tab].at[i, "tap_pos"]) and rng.random() < 0.7:
                            n[tab].at[i, "tap_pos"] = float(n[tab].at[i, "tap_pos"]) + rng.choice([-1, 1, 2])
                            out.append(f"{tab}[{i}].tap_pos")
                if len(n.gen) and rng.random() < 0.5:
                    i = rng.choice(list(n.gen.index))
                    n.gen.at[i, "p_mw"] = float(n.gen.at[i, "p_mw"]) * 0.8
                    out.append(f"gen[{i}].p_mw")
                return "+".join(out)
            case["history"].append([both(rec_mod), "-", "-"])
        if final == "init_results":
            # previous results of a nearby switching state: a converged Newton-Raphson run, then one more modification
            try:
                with core.quiet():
                    pp.runpp(net, calculate_voltage_angles=True)
            except Exception:       # noqa
                ctx.hist("final", "init_results:no-previous-solution")
                continue
            what = both(rng.choice(mods[:8]))
            case["history"].append([what, "-", "-"])
        fresh = fresh_copy(pp, twin)
        tw = None
        for t in ("gen", "bus", "line", "load", "ext_grid", "dcline", "trafo"):
            if list(net[t].index) != list(twin[t].index) or not net[t].drop(columns=[c for c in net[t].columns if c not in twin[t].columns]) \
                    .astype(object).where(lambda d_: d_.notna(), None).equals(twin[t][[c for c in net[t].columns if c in twin[t].columns]]
                                                                               .astype(object).where(lambda d_: d_.notna(), None)):
                tw = t
                break
        if tw is not None:
            ctx.failure(f"tables:{tw}", f"after history {case['history']} the table {tw} differs from a twin that received the same "
                                        f"modifications and no calculation: rows {list(net[tw].index)[:10]} vs {list(twin[tw].index)[:10]}", case)
            continue
        case["net_before_final_json"] = pp.to_json(net)
        before_rows = {t: list(net[t].index) for t in ("gen", "bus", "line")}
        if final == "runpp_poisoned":
            poison(net)
        opts = dict(calculate_voltage_angles=True, tolerance_mva=1e-10)      # both final runs: differences are compared to 1e-6 / 1e-5

        def go(n, fin):
            with core.quiet():
                if fin == "rundcpp":
                    pp.rundcpp(n)
                elif fin == "runpp_recycled" and n is net:
                    pp.runpp(n, recycle=REC, **opts)
                elif fin == "init_results" and n is net and "res_bus" in n and len(n.res_bus) == len(n.bus) and \
                        n.res_bus.index.equals(n.bus.index):
                    pp.runpp(n, init="results", **opts)
                else:
                    pp.runpp(n, **opts)
        try:
            go(fresh, final)
            ok_fresh = None
        except Exception as e:       # noqa
            ok_fresh = type(e).__name__
        try:
            go(net, final)
            ok_hist = None
        except Exception as e:       # noqa
            ok_hist = f"{type(e).__name__}: {str(e)[:120]}"
        ctx.hist("final", f"{final}:{'ok' if ok_fresh is None else ok_fresh}")
        ctx.count(case["net_json"] + json.dumps(case["history"]) + final, nontrivial=ok_fresh is None)
        case["final"] = final
        if ok_fresh is None and final != "rundcpp" and len(fresh.res_bus) and float(np.nanmin(fresh.res_bus.vm_pu.values)) < 0.5:
            ctx.hist("final", f"{final}:collapsed-solution-skipped")      # voltage-collapse 'solutions' have no unique neighbour
            continue
        if ok_fresh is None and ok_hist is not None:
            ctx.failure(f"raises:{final}", f"{final} on the net with history {case['history']} raised {ok_hist}; the fresh copy converged", case)
            continue
        if ok_fresh is not None:
            continue
        for t, rows in before_rows.items():
            if list(net[t].index) != list(fresh[t].index):
                ctx.failure(f"rows:{t}", f"{t} rows of the net with history {list(net[t].index)[:10]} vs fresh copy {list(fresh[t].index)[:10]}", case)
        d = compare(net, fresh, DC_COLS if final == "rundcpp" else COLS, 1e-5 if final in ("init_results", "runpp_recycled") else 1e-6)
        if d:
            ctx.failure(f"differs:{final}", f"{final} after history {case['history']}: {d}", case)
            if os.environ.get("C09_DUMP"):
                import pickle
                with open(os.path.join(os.environ["C09_DUMP"], f"c09_{k}.pkl"), "wb") as fh:
                    pickle.dump({"net": net, "fresh": fresh, "twin": twin, "case": case}, fh)
        ctx.sample({"history": case["history"], "final": final}, cap=5)
    # directed histories for init='results': an island that was unsupplied in the previous calculation is re-supplied; branches
    # with open switches on both sides of the old island boundary (previous results partly NaN)
    for j in range(ctx.budget(6, 60)):
        net = pp.create_empty_network()
        b = [pp.create_bus(net, 20.) for _ in range(7)]
        pp.create_ext_grid(net, b[0], rng.choice([1.0, 1.02]))
        km = lambda: rng.choice([1.0, 2.5, 4.0])       # noqa
        std = "NA2XS2Y 1x240 RM/25 12/20 kV"
        l0 = pp.create_line(net, b[0], b[1], km(), std)
        pp.create_line(net, b[1], b[2], km(), std)
        pp.create_line(net, b[0], b[3], km(), std)
        pp.create_line(net, b[3], b[4], km(), std)
        tie = pp.create_line(net, b[2], b[4], km(), std)
        stub = pp.create_line(net, b[3], b[5], km(), std)
        stub2 = pp.create_line(net, b[1], b[6], km(), std)
        side = rng.choice(["from", "to"])
        for ln in (tie, stub) + ((stub2,) if rng.random() < 0.5 else ()):
            pp.create_switch(net, int(net.line.at[ln, side + "_bus"]), ln, et="l", closed=False)
        for x in b[1:5]:
            pp.create_load(net, x, rng.choice([0.5, 1.0, 2.0]), 0.2)
        twin = copy.deepcopy(net)
        case = {"net_json": pp.to_json(net), "history": [[f"line[{l0}].in_service=False", "runpp", "ok"], [f"line[{l0}].in_service=True", "-", "-"]],
                "final": "init_results"}
        net.line.at[l0, "in_service"] = False
        try:
            with core.quiet():
                pp.runpp(net, calculate_voltage_angles=True)
        except Exception:       # noqa
            continue
        net.line.at[l0, "in_service"] = True
        fresh = fresh_copy(pp, twin)
        case["net_before_final_json"] = pp.to_json(net)
        try:
            with core.quiet():
                pp.runpp(fresh, calculate_voltage_angles=True)
        except Exception:       # noqa
            continue
        ctx.hist("final", "init_results:resupplied-island")
        ctx.count(case["net_json"] + "resupply", nontrivial=True)
        try:
            with core.quiet():
                pp.runpp(net, init="results", calculate_voltage_angles=True)
        except Exception as e:       # noqa
            ctx.failure("raises:init_results", f"runpp(init='results') after re-supplying an island (open line switches at {side} sides, previous "
                                               f"results partly NaN) raised {type(e).__name__}: {str(e)[:100]}; the fresh copy converged", case)
            continue
        d = compare(net, fresh, COLS, 1e-5)
        if d:
            ctx.failure("differs:init_results", f"init_results after re-supplying an island: {d}", case)
    ctx.assumptions.append("the fresh copy is a JSON round trip of the element tables with empty result tables and default internal "
                           "state; recycle options are not used (C12's subject); init='results' is only requested when the result "
                           "table is aligned with net.bus (documented precondition)")


def replay(ctx, path):
    print("C09 replays carry net_json, the history and the final calculation; re-run ./check C09 with the same VERIF_SEED")
    return 2
