"""C02 — power flow honours the documented element equivalent circuits.

proof:   Props/C02.lean: matrix entries of branch_vectors = terminal currents of the documented circuit (ideal transformer with
         complex ratio, series impedance, shunt halves) for all parameters and voltages; per unit = SI scaling; the T-model pi
         parameters of _wye_delta have exactly the T circuit's terminal currents (any leakage split); the transformer's
         short-circuit impedance generated from _calc_r_x_from_dataframe: base change of vk, r^2 + x^2 = (z / parallel)^2 with
         the sign of x following vk, r / z = vkr / vk; asymmetry guards and trafo3w loading ratings regenerated from source.
tie:     translator + correspondence: branch_vectors / _wye_delta on the implementation's ppc rows vs the model over Q[i].
oracle:  harness/elements.py - an independent implementation of the documented models (line, 2W transformer pi / T with all tap
         changer types, impedance incl. asymmetric, shunt, ward, trafo3w loading) evaluated at the reported voltages vs every
         reported column; DC: p_to = -p_from, zero losses, line flow = angle difference / x.
"""
import json
import math

import numpy as np

from harness import core, netgen, elements as el
from translate import c02 as tr


def cfr(z):
    return f"{core.frac(float(np.real(z)))} {core.frac(float(np.imag(z)))}"


def run(ctx):
    import pandapower as pp
    from pandapower.pypower.makeYbus import branch_vectors
    from pandapower.build_branch import _wye_delta
    from pandapower.pypower.idx_brch import BR_R, BR_X, BR_B, BR_G, BR_R_ASYM, BR_X_ASYM, BR_G_ASYM, BR_B_ASYM, TAP, SHIFT, BR_STATUS
    ctx.cov["rule"] = ("case = generated net (lines with parallel / g, 2W transformers with Ratio / Symmetrical / Ideal tap changers on "
                       "hv or lv side, shifts, parallel, leakage ratios, impedances with asymmetric r/x, shunts with vn_kv and steps, "
                       "wards, trafo3w) x trafo_model t/pi x trafo_loading current/power x calculate_voltage_angles x AC/DC; "
                       "non-trivial = converged with >= 1 transformer off nominal tap")
    x = {}

    def translator():
        x.update(tr.extract(core.REPO))
        return tr.render(x)
    ctx.regenerate("C02", translator)
    ctx.prove()
    rng = ctx.rng
    reqs, expect = [], []
    for k in range(ctx.budget(30, 500)):
        net = netgen.random_net(rng, dcline=False)
        for i_ in net.trafo.index:
            # ideal phase shifters defined by tap_step_percent (angle = 2 asin(step / 200) per step) instead of tap_step_degree
            if net.trafo.at[i_, "tap_changer_type"] == "Ideal" and rng.random() < 0.6:
                net.trafo.at[i_, "tap_step_percent"] = rng.choice([2.0, 3.5])
                net.trafo.at[i_, "tap_step_degree"] = rng.choice([0.0, float("nan")])
                if net.trafo.at[i_, "tap_pos"] == net.trafo.at[i_, "tap_neutral"]:
                    net.trafo.at[i_, "tap_pos"] = net.trafo.at[i_, "tap_neutral"] + rng.choice([-2, 1, 3])
        if not len(net.impedance) and rng.random() < 0.6:
            mvb = [int(b) for b in net.bus.index[net.bus.vn_kv == 20.]]
            if len(mvb) >= 2:
                a, b = rng.sample(mvb, 2)
                pp.create_impedance(net, a, b, rft_pu=0.02, xft_pu=0.06, sn_mva=10.)
        if len(net.impedance) and rng.random() < 0.8:        # asymmetric impedance: only x differs / only r differs / both
            i = net.impedance.index[0]
            mode = rng.choice(["x", "r", "both"])
            if mode in ("x", "both"):
                net.impedance.at[i, "xtf_pu"] = float(net.impedance.xft_pu.at[i]) * 1.7
            if mode in ("r", "both"):
                net.impedance.at[i, "rtf_pu"] = float(net.impedance.rft_pu.at[i]) * 0.4
            else:
                net.impedance.at[i, "rtf_pu"] = float(net.impedance.rft_pu.at[i])
        if len(net.trafo) and rng.random() < 0.4:
            net.trafo["leakage_resistance_ratio_hv"] = rng.choice([0.3, 0.5, 0.8])
            net.trafo["leakage_reactance_ratio_hv"] = rng.choice([0.4, 0.5])
        if len(net.trafo3w):
            net.trafo3w["sn_lv_mva"] = rng.choice([15., 30.])
        dc = rng.random() < 0.2
        opts = dict(trafo_model=rng.choice(["t", "pi"]), trafo_loading=rng.choice(["current", "power"]),
                    calculate_voltage_angles=rng.random() < 0.7)
        case = {"options": opts, "dc": dc, "net_json": pp.to_json(net)}
        try:
            with core.quiet():
                (pp.rundcpp if dc else pp.runpp)(net, **opts)
        except Exception as e:       # noqa
            ctx.hist("run", type(e).__name__)
            continue
        ctx.hist("run", "dc" if dc else "ac")
        off_nominal = len(net.trafo) and bool((net.trafo.tap_pos.fillna(0) != net.trafo.tap_neutral.fillna(0)).any())
        ctx.count(case["net_json"] + json.dumps(opts), nontrivial=bool(off_nominal))
        if dc:
            for tab, a, b in (("line", "p_from_mw", "p_to_mw"), ("trafo", "p_hv_mw", "p_lv_mw"), ("impedance", "p_from_mw", "p_to_mw")):
                if len(net[tab]):
                    r = net["res_" + tab]
                    m = ~(np.isnan(r[a].values) | np.isnan(r[b].values))
                    if not np.allclose(r[a].values[m], -r[b].values[m], atol=1e-9):
                        ctx.failure(f"dc:{tab}:lossless", f"rundcpp: {tab} {a} != -{b}: {r[[a, b]].values[m][:3].tolist()}", case)
            for i in net.line.index:
                ln = net.line.loc[i]
                if not bool(ln.in_service) or el.has_open_switch(net, "l", i):
                    continue
                th = [math.radians(float(net.res_bus.va_degree.at[b])) for b in (ln.from_bus, ln.to_bus)]
                if any(math.isnan(t) for t in th):
                    continue
                zb = float(net.bus.vn_kv.at[ln.from_bus]) ** 2 / net.sn_mva
                xpu = float(ln.x_ohm_per_km) * float(ln.length_km) / float(ln.parallel) / zb
                want = (th[0] - th[1]) / xpu * net.sn_mva
                got = float(net.res_line.p_from_mw.at[i])
                if abs(got - want) > 1e-6 * max(1.0, abs(want)):
                    ctx.failure("dc:line:flow", f"rundcpp: line {i} p_from = {got!r}, (theta_f - theta_t) / x = {want!r}", case)
                    break
            continue
        checks = [("line", net.line.index, lambda i: el.line_results(net, i)),
                  ("trafo", net.trafo.index, lambda i: el.trafo_results(net, i, opts["trafo_model"], opts["trafo_loading"], opts["calculate_voltage_angles"])),
                  ("impedance", net.impedance.index, lambda i: el.impedance_results(net, i)),
                  ("shunt", net.shunt.index, lambda i: el.shunt_results(net, i)),
                  ("ward", net.ward.index, lambda i: el.ward_results(net, i))]
        for tab, idx, fn in checks:
            for i in idx:
                want = fn(i)
                if want is None:
                    continue
                bad = el.compare(net["res_" + tab].loc[i], want)
                ctx.hist("elements", tab)
                if bad:
                    c, got, w = bad[0]
                    ctx.failure(f"{tab}:{c}", f"{tab} {i}: reported {c} = {got!r}, documented model at the reported voltages gives {w!r} "
                                              f"(options {opts})", case)
                    break
        for i in net.trafo3w.index:
            want = el.trafo3w_loading(net, i, opts["trafo_loading"])
            if want is not None and abs(float(net.res_trafo3w.loading_percent.at[i]) - want) > 1e-6 * max(1, abs(want)):
                ctx.failure(f"trafo3w:loading_percent:{opts['trafo_loading']}",
                            f"trafo3w {i}: loading_percent {net.res_trafo3w.loading_percent.at[i]!r}, from the reported winding "
                            f"{'currents' if opts['trafo_loading'] == 'current' else 'powers'} and ratings {want!r}", case)
        # ---- correspondence: branch_vectors on the implementation's own rows vs the model
        ppci = net._ppc["internal"]
        if "branch" not in ppci or len(reqs) > ctx.budget(120, 600):
            continue
        br = ppci["branch"]
        Ytt, Yff, Yft, Ytf = branch_vectors(br, br.shape[0])
        any_s = bool(np.any(br[:, BR_R_ASYM]) or np.any(br[:, BR_X_ASYM]))
        any_y = bool(np.any(br[:, BR_G_ASYM]) or np.any(br[:, BR_B_ASYM]))
        for j in range(br.shape[0]):
            if br[j, BR_STATUS].real != 1:
                continue
            zf = complex(br[j, BR_R].real, br[j, BR_X].real)
            zt = complex(br[j, BR_R].real + br[j, BR_R_ASYM].real, br[j, BR_X].real + br[j, BR_X_ASYM].real) if any_s else zf
            ycf = complex(br[j, BR_G].real, br[j, BR_B].real)
            yct = complex(br[j, BR_G].real + br[j, BR_G_ASYM].real, br[j, BR_B].real + br[j, BR_B_ASYM].real) if any_y else ycf
            tp = br[j, TAP].real if br[j, TAP].real != 0 else 1.0
            tap = tp * np.exp(1j * np.pi / 180 * br[j, SHIFT].real)
            if zf == 0 or zt == 0:
                continue
            reqs.append(f"bry {cfr(zf)} {cfr(zt)} {cfr(ycf)} {cfr(yct)} {cfr(tap)}")
            expect.append((Yff[j], Yft[j], Ytf[j], Ytt[j]))
    # ---- correspondence: _wye_delta
    for _ in range(ctx.budget(20, 200)):
        r, xx = rng.choice([0.003, 0.01]), rng.choice([0.05, 0.12])
        g, b = rng.choice([0.0004, 0.002]), -rng.choice([0.001, 0.01])
        rr, xr = rng.choice([0.3, 0.5, 0.8]), rng.choice([0.4, 0.5])
        out = _wye_delta(np.array([r]), np.array([xx]), np.array([g]), np.array([b]), np.array([rr]), np.array([xr]))
        za, zb = complex(r * rr, xx * xr), complex(r * (1 - rr), xx * (1 - xr))
        reqs.append(f"wye {cfr(za)} {cfr(zb)} {cfr(complex(g, b))}")
        z = complex(out[0][0], out[1][0])
        yfh = complex(out[2][0], out[3][0]) / 2
        yth = complex(out[2][0] + out[4][0], out[3][0] + out[5][0]) / 2
        expect.append((z, yfh, yth))
    if ctx.cov.get("lean_build_failed") or not reqs:
        return
    resp = core.lean_driver("PF", reqs)
    dis = 0
    for rq, r, want in zip(reqs, resp, expect):
        vals = [float(core.parse_rat(p)) for p in r.split()] if r.strip() != "bad-op" else None
        if vals is None or len(vals) != 2 * len(want):
            ctx.tie_break("correspondence:C02", f"driver answered {r[:60]!r} to {rq[:80]}")
            break
        got = [complex(vals[2 * i], vals[2 * i + 1]) for i in range(len(want))]
        if any(abs(a - b) > 1e-9 * max(1.0, abs(b)) for a, b in zip(got, want)):
            dis += 1
            if dis <= 3:
                ctx.tie_break("correspondence:C02", f"{rq.split()[0]}: model {got}, implementation {list(want)} for {rq[:100]}")
    ctx.cov["correspondence_requests"] = len(reqs)
    ctx.cov["disagreements_checked"] = dis
    ctx.sample({"request": reqs[0][:200], "response": resp[0][:200]})
    ctx.assumptions.append("sqrt / sin / cos / exp steps (x from vk and vkr, magnetising susceptance, tap angles) are evaluated by the "
                           "oracle with libm; xward and the three-winding equivalent (beyond its loading) are covered through C01's "
                           "nodal balance, not by an element model here; lines / transformers with an open switch are skipped")


def replay(ctx, path):
    print("C02 replays carry net_json + options; re-run ./check C02 with the same VERIF_SEED")
    return 2
