"""C07 — unsupplied parts are reported as unsupplied, everything else is solved.

proof:   Props/C07.lean on the energizing-graph model of C26: a bus reported unsupplied is a graph node the search from the
         in-service slack buses does not reach; every other in-service bus has an energizing path from a slack
         (edges characterised exactly by C26_edges_exact); out-of-service buses are no nodes.
tie:     correspondence on every run: NaN pattern of a converged runpp  ==  topology.unsupplied_buses  ==  model `unsupplied`
         (the ppc side - auxiliary buses of open switches, trafo3w star points, fused buses, isolated-bus marking - is not
         modelled bus by bus; it is tied through this three-way comparison).
oracle:  independent BFS over independently derived edges; zero power for elements at unsupplied / out-of-service buses and
         for out-of-service elements; finite results everywhere else.
"""
import json
import math

import numpy as np

from harness import core
from harness.props import c26
from translate import c26 as tr

DEFAULT = {"respect_switches": True, "include_out_of_service": False, "nogobuses": None, "notravbuses": None,
           "trafo_length_km": None, "switch_length_km": None, **{c26.INCL[k]: True for k in c26.KINDS}}


def slack_buses(net):
    s = {int(b) for b in net.ext_grid.bus[net.ext_grid.in_service.astype(bool)].values}
    if len(net.gen):
        s |= {int(b) for b in net.gen.bus[net.gen.in_service.astype(bool) & net.gen.slack.astype(bool)].values}
    return s


def run(ctx):
    import pandapower as pp
    import pandapower.topology as top
    ctx.cov["rule"] = ("case = generated 110/20/10 kV net without dclines (parallel lines, 0-2 trafo3w, impedance, 1-2 ext grids, "
                       "slack or PV gen, bus-bus / line / trafo / trafo3w switches open and closed, out-of-service lines, trafos, "
                       "trafo3w, impedances, buses, slacks); non-trivial = converged with >= 1 unsupplied in-service bus")
    x = {}

    def translator():
        x.update(tr.extract(core.REPO))
        return tr.render(x)
    ctx.regenerate("C26", translator)
    ctx.prove()
    rng = ctx.rng
    reqs, expect = [], []
    for k in range(ctx.budget(40, 500)):
        net = c26.topo_net(rng, dcline=False)
        if rng.random() < 0.15:
            net.ext_grid.at[net.ext_grid.index[0], "in_service"] = False
        mvb_ = [int(b_) for b_ in net.bus.index[(net.bus.vn_kv == 20.) & net.bus.in_service]]
        if rng.random() < 0.3 and mvb_:
            # a section whose only link to the rest are closed bus-bus switches through an out-of-service coupler bus (both switch
            # orientations): it must stay unsupplied
            a_ = rng.choice(mvb_)
            cpl = pp.create_bus(net, 20., in_service=False)
            far = pp.create_bus(net, 20.)
            pp.create_load(net, far, 0.3, 0.1)
            for x_ in (a_, far):
                if rng.random() < 0.7:
                    pp.create_switch(net, cpl, x_, et="b", closed=True)
                else:
                    pp.create_switch(net, x_, cpl, et="b", closed=True)
        if rng.random() < 0.3 and mvb_:
            # an island whose only slack is an out-of-service slack generator
            isl = pp.create_bus(net, 20.)
            pp.create_load(net, isl, 0.2, 0.05)
            pp.create_gen(net, isl, 0.1, vm_pu=1.0, slack=True, in_service=False)
            if rng.random() < 0.5:
                l_ = pp.create_line_from_parameters(net, rng.choice(mvb_), isl, 1.0, 0.2, 0.3, 10., 0.4)
                pp.create_switch(net, isl, l_, et="l", closed=False)
        case = {"net": c26.encode_net(net), "slacks": sorted(slack_buses(net))}
        net_json = pp.to_json(net)
        try:
            with core.quiet():
                pp.runpp(net, numba=(k % 2 == 0))
        except Exception as e:       # noqa
            ctx.hist("run", type(e).__name__)
            continue
        ctx.hist("run", "converged")
        ins = net.bus.in_service.values.astype(bool)
        vm = net.res_bus.vm_pu.values
        nan_buses = sorted(int(b) for b, i, v in zip(net.bus.index, ins, vm) if i and math.isnan(v))
        topo = sorted(int(b) for b in top.unsupplied_buses(net) if bool(net.bus.in_service.at[b]))
        # independent BFS
        E, nodes = c26.own_edges(net, DEFAULT)
        adj = {}
        for (u, v, *_r) in E:
            adj.setdefault(u, set()).add(v)
            adj.setdefault(v, set()).add(u)
        seen, todo = set(), [b for b in slack_buses(net) if b in nodes]
        while todo:
            b = todo.pop()
            if b in seen:
                continue
            seen.add(b)
            todo += list(adj.get(b, ()))
        own = sorted(nodes - seen)
        ctx.count(net_json, nontrivial=len(own) >= 1)
        ctx.hist("n_unsupplied", len(own))
        ctx.sample({"unsupplied": own, "slacks": case["slacks"]}, cap=3)
        rep = {"net_json": net_json}
        if nan_buses != own:
            ctx.failure("nan-vs-energized", f"in-service buses with NaN voltage {nan_buses}, buses without an energizing connection "
                                            f"to an in-service slack {own}", rep)
            continue
        if topo != own:
            ctx.failure("topology-vs-energized", f"topology.unsupplied_buses reports {topo}, unsupplied are {own}", rep)
            continue
        # finite elsewhere, zero power at dead places
        dead_bus = set(own) | {int(b) for b in net.bus.index[~ins]}
        for b, v in zip(net.bus.index, vm):
            if int(b) not in dead_bus and not math.isfinite(v):
                ctx.failure("finite", f"supplied in-service bus {b} has vm_pu = {v}", rep)
        for tab, cols in (("load", ["p_mw", "q_mvar"]), ("sgen", ["p_mw", "q_mvar"]), ("gen", ["p_mw", "q_mvar"])):
            if not len(net[tab]):
                continue
            for i in net[tab].index:
                dead = int(net[tab].bus.at[i]) in dead_bus or not bool(net[tab].in_service.at[i])
                vals = [float(net["res_" + tab].at[i, c]) for c in cols]
                if dead and any(abs(v) > 1e-12 or math.isnan(v) for v in vals):
                    ctx.failure("zero-power", f"{tab} {i} at a dead bus / out of service reports {vals}", rep)
                if not dead and any(not math.isfinite(v) for v in vals):
                    ctx.failure("finite", f"{tab} {i} at a supplied bus reports {vals}", rep)
        pb = net.res_bus.p_mw.values
        for b, v in zip(net.bus.index, pb):
            if int(b) in dead_bus and not (math.isnan(v) or abs(v) < 1e-12):
                ctx.failure("zero-power", f"res_bus.p_mw of dead bus {b} is {v}", rep)
        for tab, cols in (("line", ["p_from_mw", "p_to_mw"]), ("trafo", ["p_hv_mw", "p_lv_mw"])):
            for i in net[tab].index:
                if not bool(net[tab].in_service.at[i]):
                    vals = [float(net["res_" + tab].at[i, c]) for c in cols]
                    if any(not (math.isnan(v) or abs(v) < 1e-12) for v in vals):
                        ctx.failure("zero-power", f"out-of-service {tab} {i} reports {vals}", rep)
        sl = sorted(slack_buses(net))
        reqs.append(f"unsup {c26.encode_opts(DEFAULT)} {c26.encode_net(net)} {len(sl)} " + " ".join(map(str, sl)))
        expect.append((" ".join(map(str, nan_buses)) or "-", case))
    if ctx.cov.get("lean_build_failed") or not reqs:
        return
    resp = core.lean_driver("C26", reqs)
    dis = 0
    for rq, r, (want, case) in zip(reqs, resp, expect):
        if r.strip() != want:
            dis += 1
            if dis <= 3:
                ctx.tie_break("correspondence:C07", f"model unsupplied {r!r}, power flow NaN buses {want!r} for slacks {case['slacks']}")
    ctx.cov["correspondence_requests"] = len(reqs)
    ctx.cov["disagreements_checked"] = dis
    ctx.sample({"request": reqs[0][:200], "response": resp[0]})
    ctx.assumptions.append("completeness of the fuel-bounded search (fuel = number of nodes) and the equivalence of the ppc-side "
                           "connectivity check with the energizing graph are tied by correspondence, not proved; DC lines are "
                           "outside the quantifier (create_nxgraph adds them as edges, the power flow does not energize through them)")


def replay(ctx, path):
    import pandapower as pp
    import pandapower.topology as top
    with open(path) as f:
        r = json.load(f)["replay"]
    net = pp.from_json_string(r["net_json"])
    with core.quiet():
        pp.runpp(net)
    ins = net.bus.in_service.values.astype(bool)
    nan_buses = sorted(int(b) for b, i, v in zip(net.bus.index, ins, net.res_bus.vm_pu.values) if i and math.isnan(v))
    topo = sorted(int(b) for b in top.unsupplied_buses(net) if bool(net.bus.in_service.at[b]))
    print("NaN buses", nan_buses, "topology", topo)
    print("REPLAY", "FAILS" if nan_buses != topo else "holds (NaN pattern == topology)")
    return 1 if nan_buses != topo else 0
