"""C34 — explicit runpp arguments beat stored user options.

proof:   Props/C34.lean over Generated/C34.lean (regenerated from run.py / auxiliary.py on every run)
tie:     translator cross-check (signature defaults vs inspect) + correspondence effCode <-> net._options
oracle:  options after runpp(net_with_user_options U, **E)  ==  options after runpp(net_without, **(U|E))
"""
import copy
import inspect
import json

from harness import core
from translate import c34 as tr

# value domains: first entry of a named key is (by construction) its signature default
NAMED = {
    "algorithm": ["nr", "iwamoto_nr", "bfsw"],
    "calculate_voltage_angles": [True, False],
    "init": ["auto", "flat", "dc"],
    "max_iteration": ["auto", 7, 13],
    "tolerance_mva": [1e-8, 1e-3, 1e-5],
    "trafo_model": ["t", "pi"],
    "trafo_loading": ["current", "power"],
    "enforce_q_lims": [False, True],
    "check_connectivity": [True, False],
    "voltage_depend_loads": [True, False],
    "consider_line_temperature": [False, True],
    "distributed_slack": [False, True],
    "tdpf_delay_s": [None, 10],
}
RECYCLE = {"bus_pq": False, "trafo": False, "gen": False}
KWONLY = {
    "numba": [True, False],
    "switch_rx_ratio": [2, 3],
    "trafo3w_losses": ["hv", "mv"],
    "delta_q": [0, 1e-10],
    "v_debug": [False, True],
    "only_v_results": [False, True],
    "neglect_open_switch_branches": [False, True],
    "use_umfpack": [True, False],
    # optional arguments whose automatic value is None: passing None explicitly is still "passed"
    "init_vm_pu": [None, "flat"],
    "init_va_degree": [None, "flat", "dc"],
    "permc_spec": [None, "NATURAL"],
    "recycle": [None, RECYCLE],
}
OPT_NAME = {"delta_q": "delta"}          # kwargs key -> key in net._options


def make_net():
    import pandapower as pp
    net = pp.create_empty_network()
    b0 = pp.create_bus(net, 20.)
    b1 = pp.create_bus(net, 20.)
    b2 = pp.create_bus(net, 20.)
    pp.create_ext_grid(net, b0, vm_pu=1.02)
    pp.create_line_from_parameters(net, b0, b1, 1.0, 0.2, 0.3, 10, 0.4, alpha=0.004, temperature_degree_celsius=30.)
    pp.create_line_from_parameters(net, b1, b2, 1.0, 0.2, 0.3, 10, 0.4, alpha=0.004, temperature_degree_celsius=30.)
    pp.create_load(net, b1, 1.0, 0.3, const_z_p_percent=30, const_i_p_percent=10, const_z_q_percent=30,
                   const_i_q_percent=10)
    pp.create_gen(net, b2, 0.2, vm_pu=1.01, min_q_mvar=-1, max_q_mvar=1)
    return net


def canon(v):
    try:
        import numpy as np
        if isinstance(v, np.generic):
            v = v.item()
    except Exception:
        pass
    if isinstance(v, float):
        return float("%.12g" % v)
    return v


def run_options(base, user, explicit):
    """returns ('ok', options-dict) or ('err', type name)"""
    import pandapower as pp
    net = copy.deepcopy(base)
    if user is not None:
        pp.set_user_pf_options(net, overwrite=True, **user)
    try:
        with core.quiet():
            pp.runpp(net, **explicit)
    except Exception as e:           # noqa
        return "err", type(e).__name__
    return "ok", {k: canon(v) for k, v in net._options.items()}


def obs(options, key):
    """observable value of option `key` in the final option dict"""
    if key == "init":
        vm, va = options.get("init_vm_pu"), options.get("init_va_degree")
        if vm == "flat" and va == "flat":
            return "flat"
        if vm == "flat" and va == "dc":
            return "dc"
        return "auto"
    if key == "max_iteration":
        v = options.get("max_iteration")
        return v if v in (7, 13) else "auto"
    if key in ("init_vm_pu", "init_va_degree"):
        v = options.get(key)
        return v if isinstance(v, str) and v in ("flat", "dc") else None
    return options.get(OPT_NAME.get(key, key))


def consistent(assign):
    """combinations the code rejects by design are not generated"""
    alg = assign.get("algorithm", "nr")
    if assign.get("distributed_slack") and alg != "nr":
        return False
    # `init` and init_vm_pu/init_va_degree are alternative ways to say the same thing (the code raises when both are
    # given); cases use one or the other so that each has its own observable
    if "init" in assign and ("init_vm_pu" in assign or "init_va_degree" in assign):
        return False
    return True


def gen_cases(ctx, defaults):
    rng = ctx.rng
    cases = []
    # exhaustive single-key matrix
    for k, dom in NAMED.items():
        for e in [None] + list(range(len(dom))):
            for u in [None] + list(range(len(dom))):
                if u is not None and ((isinstance(dom[u], str) and dom[u] == "auto") or dom[u] is None):
                    continue          # storing the sentinel "auto" is outside the property (see DESIGN side notes)
                cases.append(({k: dom[e]} if e is not None else {}, {k: dom[u]} if u is not None else {}))
    for k, dom in KWONLY.items():
        for e in [None] + list(range(len(dom))):
            for u in [None] + list(range(len(dom))):
                if e is not None and isinstance(dom[e], dict):
                    continue      # an explicit recycle dict re-uses the previous run's options by design
                if u is not None and dom[u] is None:
                    continue      # storing the "automatic" sentinel None is outside the property
                cases.append(({k: dom[e]} if e is not None else {}, {k: dom[u]} if u is not None else {}))
    n_multi = ctx.budget(60, 1500)
    allk = {**NAMED, **KWONLY}
    keys = sorted(allk)
    while n_multi > 0:
        E, U = {}, {}
        for k in rng.sample(keys, rng.randint(2, 6)):
            dom = allk[k]
            r = rng.random()
            if r < 0.6:
                E[k] = rng.choice([v for v in dom if not isinstance(v, dict)])
            if rng.random() < 0.7:
                v = rng.choice(dom)
                if v is not None and not (isinstance(v, str) and v == "auto"):
                    U[k] = v
        if not consistent({**U, **E}) or not consistent(U) or not consistent(E):
            continue
        cases.append((E, U))
        n_multi -= 1
    return cases


def code_of(key, val):
    dom = NAMED.get(key) or KWONLY[key]
    return dom.index(val)


def run(ctx):
    import pandapower as pp
    ctx.cov["rule"] = ("cases = (explicit args E, stored user options U) over 21 runpp options: exhaustive single-key "
                       "matrix {absent, each value} x {absent, each value} plus random multi-key cases; non-trivial = "
                       "U non-empty and the run succeeds; distinct by (E,U)")
    ctx.assumptions += ["net._options after runpp is taken as the observable 'effective option'",
                        "stored value 'auto' (sentinel) is outside the quantifier"]
    # 1. regenerate + 2. prove
    x = {}

    def translator():
        x.update(tr.extract(core.REPO))
        return tr.render(x)
    gen_ok = ctx.regenerate("C34", translator)
    ctx.prove()

    # translator cross-check against the imported function
    sig = inspect.signature(pp.runpp)
    real_defaults = {n: p.default for n, p in sig.parameters.items()
                     if p.default is not inspect.Parameter.empty}
    if gen_ok:
        gen_defaults = {k: eval(v) for k, v in x["defaults"]}     # literals only
        if gen_defaults != real_defaults:
            ctx.tie_break("translator-crosscheck:C34", f"generated defaults {gen_defaults} != inspect {real_defaults}")
    for k, dom in NAMED.items():
        if k not in real_defaults or real_defaults[k] != dom[0]:
            ctx.tie_break("harness-domain:C34", f"signature default of {k} is no longer {dom[0]!r}")
    for k in KWONLY:
        if k in real_defaults:
            ctx.tie_break("harness-domain:C34", f"{k} became a named parameter")

    # 3./6. correspondence and direct oracle
    base = make_net()
    pp.runpp(base)       # warm numba
    cases = gen_cases(ctx, real_defaults)
    requests, meta = [], []
    ref_cache = {}
    for E, U in cases:
        st, opts = run_options(base, U if U else None, E)
        merged = {**U, **E}
        mk = json.dumps(merged, sort_keys=True, default=str)
        if mk not in ref_cache:
            ref_cache[mk] = run_options(base, None, merged)
        rst, ropts = ref_cache[mk]
        masked = [k for k in E if k in NAMED and E[k] == NAMED[k][0] and k in U and U[k] != E[k]]
        ctx.count((sorted(E.items(), key=str), sorted(U.items(), key=str)), nontrivial=bool(U) and st == "ok")
        ctx.hist("n_keys", len(set(E) | set(U)))
        ctx.hist("masked", bool(masked))
        ctx.hist("status", st + "/" + rst)
        case = {"explicit": E, "stored": U}
        # direct oracle
        bad = None
        has_recycle = isinstance({**U, **E}.get("recycle"), dict)
        if st == "ok":
            # the property, key by key: an explicitly passed value wins, otherwise the stored one applies
            for k in sorted(set(E) | set(U)):
                want = E[k] if k in E else U[k]
                if k in ("init_va_degree",) and want is None:
                    continue            # automatic value is derived ("dc"/"flat"), nothing to compare
                if canon(obs(opts, k)) != canon(want) and not (k in ("init_vm_pu",) and want is None):
                    is_masked = k in masked
                    ctx.failure("arg-equals-default" if is_masked else f"per-key:{'explicit' if k in E else 'stored'}",
                                f"option {k}: effective {obs(opts, k)!r}, expected {want!r} "
                                f"({'explicitly passed' if k in E else 'stored, not passed'})",
                                {"case": case, "key": k, "masked_keys": masked, "history": "net had a previous runpp",
                                 "repro": "runpp(net); set_user_pf_options(net, overwrite=True, **stored); "
                                          "runpp(net, **explicit); look at net._options[key]"})
        if has_recycle:
            pass    # an explicit recycle dict deliberately re-uses the previous options: no reference run for it
        elif st != rst:
            bad = f"status {st}:{opts if st == 'err' else ''} vs reference {rst}:{ropts if rst == 'err' else ''}"
        elif st == "ok":
            diff = {k: (opts.get(k), ropts[k]) for k in ropts if opts.get(k) != ropts[k]}
            if diff:
                bad = f"options differ from runpp(**(stored|explicit)) without stored options: {diff}"
        if bad:
            key = "arg-equals-default" if masked else "precedence-mismatch"
            ctx.failure(key, bad, {"case": case, "masked_keys": masked,
                                   "repro": "set_user_pf_options(net, **stored); runpp(net, **explicit); compare "
                                            "net._options with runpp(net_without_stored, **{**stored, **explicit})"})
        # correspondence requests (one per key of the case)
        if st == "ok":
            for k in sorted(set(E) | set(U)):
                named = k in NAMED
                d = "0" if named else "-"
                n = str(code_of(k, E[k])) if (named and k in E) else "-"
                kw = str(code_of(k, E[k])) if (not named and k in E) else "-"
                u = str(code_of(k, U[k])) if k in U else "-"
                requests.append(f"eff {d} {n} {kw} {u} {0 if U else 1}")
                meta.append((case, k, opts))
        ctx.sample({"explicit": E, "stored": U, "status": st})
    if not ctx.cov.get("lean_build_failed"):
        resp = core.lean_driver("C34", requests)
        dis = 0
        for req, r, (case, k, opts) in zip(requests, resp, meta):
            parts = r.split()
            if len(parts) != 3:
                ctx.tie_break("correspondence:C34", f"driver answered {r!r} to {req!r}")
                break
            eff_code = parts[0]
            dom = NAMED.get(k) or KWONLY[k]
            o = obs(opts, k)
            # an un-passed, un-stored kwargs-only key has no value in the model ('-'): the internal default applies
            expect = dom[int(eff_code)] if eff_code != "-" else dom[0]
            if expect is None and k in ("init_vm_pu", "init_va_degree"):
                continue          # automatic value: derived by the code, not an option value
            if canon(o) != canon(expect):
                dis += 1
                if dis <= 3:
                    ctx.tie_break("correspondence:C34",
                                  f"model effCode({k})={expect!r} but net._options gives {o!r} for case {case}")
        ctx.cov["correspondence_requests"] = len(requests)
        ctx.cov["disagreements_checked"] = dis
        ctx.sample({"request": requests[0], "response": resp[0]} if requests else {})


def replay(ctx, path):
    with open(path) as f:
        r = json.load(f)
    case = r["replay"]["case"]
    base = make_net()
    E, U = case["explicit"], case["stored"]
    st, opts = run_options(base, U or None, E)
    rst, ropts = run_options(base, None, {**U, **E})
    print("with stored options:", st, opts)
    print("reference          :", rst, ropts)
    same = (st == rst) and (st != "ok" or all(opts.get(k) == ropts[k] for k in ropts))
    print("REPLAY", "holds" if same else "FAILS")
    return 0 if same else 1
