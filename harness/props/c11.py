"""C11 — three-phase power flow is consistent with the symmetric power flow.

proof:   Props/C11.lean over the rows of Tabc / T012 generated from auxiliary.py: the two transformations are inverse; a symmetric
         set has only a positive sequence and a positive-sequence quantity gives phase values V, a^2 V, a V; power invariance and
         'one third per phase' for symmetric operation.
tie:     translator + correspondence: sequence_to_phase / phase_to_sequence of the implementation on random vectors vs the
         generated rows evaluated with a = exp(j 120 deg).
oracle:  symmetric nets: runpp_3ph vs runpp (equal phase magnitudes equal to the symmetric result, angles shifted by 0 / -120 /
         +120 degrees, per-phase bus and line powers one third); unbalanced nets: per-phase element powers sum to the bus powers
         and each phase satisfies nodal balance with the per-phase line and transformer flows.
"""
import cmath
import json
import math

import numpy as np

from harness import core


def net3(rng, pp, symmetric):
    net = pp.create_empty_network(sn_mva=rng.choice([1.0, 10.0]))
    hv = pp.create_bus(net, 10.)
    pp.create_ext_grid(net, hv, vm_pu=rng.choice([1.0, 1.02]), s_sc_max_mva=rng.choice([10000, 500]), rx_max=0.1,
                       r0x0_max=rng.choice([0.1, 0.4]), x0x_max=rng.choice([1.0, 3.0]))
    lv = pp.create_bus(net, 0.4)
    pp.create_transformer_from_parameters(net, hv, lv, 1.6, 10, 0.4, 0.78125, 6, 2.7, 0.16875, shift_degree=rng.choice([0, 150]),
                                          vk0_percent=6, vkr0_percent=0.78125, mag0_percent=100, mag0_rx=0., si0_hv_partial=0.9,
                                          vector_group="Dyn")
    buses = [lv]
    for k in range(rng.randint(2, 4)):
        b = pp.create_bus(net, 0.4)
        pp.create_line_from_parameters(net, rng.choice(buses), b, rng.choice([0.2, 0.5]), 0.1941, 0.07476991, 1160., 0.421,
                                       r0_ohm_per_km=0.7766, x0_ohm_per_km=0.2990796, c0_nf_per_km=496.2)
        buses.append(b)
    if rng.random() < 0.5:
        # a second busbar section coupled by a closed bus-bus switch
        bb = pp.create_bus(net, 0.4)
        pp.create_switch(net, buses[-1], bb, et="b", closed=True)
        buses.append(bb)
    load_buses = buses[1:] + ([hv] if rng.random() < 0.4 else [])      # also a load at the ext_grid bus
    for b in load_buses:
        if symmetric:
            pp.create_load(net, b, rng.choice([0.02, 0.05]), rng.choice([0.005, 0.01]), scaling=rng.choice([1.0, 1.0, 0.8]))
            if rng.random() < 0.4:
                pp.create_sgen(net, b, rng.choice([0.01, 0.03]), rng.choice([0.0, 0.008, -0.006]))
        else:
            pp.create_asymmetric_load(net, b, p_a_mw=rng.choice([0.01, 0.03]), q_a_mvar=0.004, p_b_mw=rng.choice([0.01, 0.02]),
                                      q_b_mvar=0.003, p_c_mw=rng.choice([0.005, 0.02]), q_c_mvar=0.002, scaling=rng.choice([1.0, 0.7, 1.3]))
            if rng.random() < 0.4:
                pp.create_sgen(net, b, rng.choice([0.01, 0.03]), rng.choice([0.0, 0.008]))
            if rng.random() < 0.3:
                pp.create_asymmetric_sgen(net, b, p_a_mw=0.004, p_b_mw=0.0, p_c_mw=0.002, q_a_mvar=0.001, q_b_mvar=0., q_c_mvar=0.,
                                          scaling=rng.choice([1.0, 1.5]))
    return net


def node_rep(net):
    rep = {int(b): int(b) for b in net.bus.index}
    for _, s in net.switch.iterrows():
        if s.et == "b" and bool(s.closed):
            a, b = rep[int(s.bus)], rep[int(s.element)]
            for k, v in rep.items():
                if v == b:
                    rep[k] = a
    return rep


def run(ctx):
    import pandapower as pp
    from pandapower.pf.runpp_3ph import runpp_3ph
    from pandapower.auxiliary import sequence_to_phase, phase_to_sequence
    from translate import c11 as tr
    ctx.cov["rule"] = ("case = generated 10 / 0.4 kV feeder (Dyn transformer, 2-4 lines, optional coupled busbar section) with symmetric "
                       "loads / static generators or with asymmetric loads / generators; non-trivial = runpp_3ph converged")
    x = {}

    def gen():
        x.update(tr.extract(core.REPO))
        return tr.render(x)
    ctx.regenerate("C11", gen)
    ctx.prove()
    rng = ctx.rng
    # correspondence of the transformation rows
    if x:
        a, asq = cmath.exp(2j * math.pi / 3), cmath.exp(-2j * math.pi / 3)
        sym = {"1": 1.0, "a": a, "asq": asq}
        dis = 0
        for _ in range(20):
            v = np.array([[complex(rng.uniform(-1, 1), rng.uniform(-1, 1))] for _ in range(3)])
            got = sequence_to_phase(v).ravel()
            want = [sum(sym[c] * v[k, 0] for k, c in enumerate(row)) for row in x["Tabc"]]
            got2 = phase_to_sequence(v).ravel()
            want2 = [sum(sym[c] * v[k, 0] for k, c in enumerate(row)) / 3 for row in x["T012"]]
            if np.max(np.abs(np.array(got) - np.array(want))) > 1e-12 or np.max(np.abs(np.array(got2) - np.array(want2))) > 1e-12:
                dis += 1
                ctx.tie_break("correspondence:C11", "sequence_to_phase / phase_to_sequence differ from the generated rows")
        ctx.cov["correspondence"] = {"requests": 20, "disagreements": dis}
    for k in range(ctx.budget(20, 240)):
        symmetric = k % 2 == 0
        net = net3(rng, pp, symmetric)
        case = {"net_json": pp.to_json(net), "symmetric": symmetric}
        try:
            with core.quiet():
                if symmetric:
                    pp.runpp(net, calculate_voltage_angles=True, tolerance_mva=1e-10)
                runpp_3ph(net)
        except Exception as e:       # noqa
            ctx.hist("run", type(e).__name__)
            continue
        ctx.hist("run", "symmetric" if symmetric else "unbalanced")
        ctx.count(case["net_json"], nontrivial=True)
        r3 = net.res_bus_3ph
        if symmetric:
            bad = None
            for b in net.bus.index:
                vm, va = float(net.res_bus.vm_pu.at[b]), float(net.res_bus.va_degree.at[b])
                for ph, sh in zip("abc", (0., -120., 120.)):
                    vmp, vap = float(r3.at[b, f"vm_{ph}_pu"]), float(r3.at[b, f"va_{ph}_degree"])
                    dang = (vap - (va + sh) + 180.) % 360. - 180.
                    if abs(vmp - vm) > 1e-5 or abs(dang) > 1e-3:
                        bad = f"bus {b} phase {ph}: 3ph vm {vmp!r} va {vap!r}; symmetric vm {vm!r} va {va + sh!r}"
                        break
                    for qn, sym_val in (("p", float(net.res_bus.p_mw.at[b])), ("q", float(net.res_bus.q_mvar.at[b]))):
                        col = f"{qn}_{ph}_mw" if qn == "p" else f"{qn}_{ph}_mvar"
                        if abs(float(r3.at[b, col]) - sym_val / 3) > 1e-6:
                            bad = f"bus {b} phase {ph}: {col} = {float(r3.at[b, col])!r}, one third of the symmetric value = {sym_val / 3!r}"
                            break
                    if bad:
                        break
                if bad:
                    break
            if not bad:
                for i in net.ext_grid.index:
                    for ph in "abc":
                        for col, sym_col in ((f"p_{ph}_mw", "p_mw"), (f"q_{ph}_mvar", "q_mvar")):
                            got, want = float(net.res_ext_grid_3ph.at[i, col]), float(net.res_ext_grid.at[i, sym_col]) / 3
                            if abs(got - want) > 1e-6:
                                bad = f"ext_grid {i}: {col} = {got!r}, one third of the symmetric value = {want!r}"
            if not bad:
                for i in net.line.index:
                    for ph in "abc":
                        got = float(net.res_line_3ph.at[i, f"p_{ph}_from_mw"])
                        want = float(net.res_line.p_from_mw.at[i]) / 3
                        if abs(got - want) > 1e-6:
                            bad = f"line {i} phase {ph}: p_from {got!r}, one third of the symmetric value {want!r}"
                            break
                    if bad:
                        break
            if bad:
                ctx.failure("symmetric", bad, case)
        else:
            # per-phase nodal balance from the 3ph result tables
            rep = node_rep(net)
            acc = {}

            def add(bus, ph, p, q):
                n_ = rep[int(bus)]
                a_ = acc.setdefault((n_, ph), [0.0, 0.0])
                a_[0] += p
                a_[1] += q
            for ph in "abc":
                for i, l in net.asymmetric_load.iterrows():
                    add(l.bus, ph, -float(net.res_asymmetric_load_3ph.at[i, f"p_{ph}_mw"]), -float(net.res_asymmetric_load_3ph.at[i, f"q_{ph}_mvar"]))
                for i, l in net.asymmetric_sgen.iterrows():
                    add(l.bus, ph, float(net.res_asymmetric_sgen_3ph.at[i, f"p_{ph}_mw"]), float(net.res_asymmetric_sgen_3ph.at[i, f"q_{ph}_mvar"]))
                for i, l in net.sgen.iterrows():
                    add(l.bus, ph, float(l.p_mw * l.scaling) / 3, float(l.q_mvar * l.scaling) / 3)
                for i, l in net.line.iterrows():
                    r = net.res_line_3ph.loc[i]
                    add(l.from_bus, ph, -float(r[f"p_{ph}_from_mw"]), -float(r[f"q_{ph}_from_mvar"]))
                    add(l.to_bus, ph, -float(r[f"p_{ph}_to_mw"]), -float(r[f"q_{ph}_to_mvar"]))
                for i, t in net.trafo.iterrows():
                    r = net.res_trafo_3ph.loc[i]
                    add(t.hv_bus, ph, -float(r[f"p_{ph}_hv_mw"]), -float(r[f"q_{ph}_hv_mvar"]))
                    add(t.lv_bus, ph, -float(r[f"p_{ph}_lv_mw"]), -float(r[f"q_{ph}_lv_mvar"]))
                for i, e in net.ext_grid.iterrows():
                    add(e.bus, ph, float(net.res_ext_grid_3ph.at[i, f"p_{ph}_mw"]), float(net.res_ext_grid_3ph.at[i, f"q_{ph}_mvar"]))
            worst = max(acc.items(), key=lambda kv: max(abs(kv[1][0]), abs(kv[1][1])))
            if max(abs(worst[1][0]), abs(worst[1][1])) > 2e-5:
                ctx.failure("phase-balance", f"node {worst[0][0]} phase {worst[0][1]}: {worst[1][0]!r} MW / {worst[1][1]!r} Mvar unbalanced", case)
            # per-phase powers of the elements sum to the bus values
            for b in net.bus.index:
                for ph in "abc":
                    p = 0.0
                    for i, l in net.asymmetric_load.iterrows():
                        if l.bus == b:
                            p += float(net.res_asymmetric_load_3ph.at[i, f"p_{ph}_mw"])
                    for i, l in net.asymmetric_sgen.iterrows():
                        if l.bus == b:
                            p -= float(net.res_asymmetric_sgen_3ph.at[i, f"p_{ph}_mw"])
                    for i, l in net.sgen.iterrows():
                        if l.bus == b:
                            p -= float(l.p_mw * l.scaling) / 3
                    for i, e in net.ext_grid.iterrows():
                        if e.bus == b:
                            p -= float(net.res_ext_grid_3ph.at[i, f"p_{ph}_mw"])
                    got = float(r3.at[b, f"p_{ph}_mw"])
                    if abs(got - p) > 2e-6:
                        ctx.failure("bus-sum", f"bus {b} phase {ph}: res_bus_3ph p = {got!r}, sum of the element powers = {p!r}", case)
                        break
        ctx.sample({"symmetric": symmetric, "buses": len(net.bus)}, cap=4)
    ctx.assumptions.append("wye-connected loads only (delta loads report line-to-line quantities); Dyn "
                           "transformer; tolerances 1e-5 pu / 1e-3 degree / 1e-6 MW (solver tolerance 1e-8 MVA per sequence)")


def replay(ctx, path):
    print("C11 replays carry net_json; re-run ./check C11 with the same VERIF_SEED")
    return 2
