#!/bin/bash
# MANIFEST.setup_cmd: regenerate the source-derived Lean files and build every property module (offline).
cd "$(dirname "$0")"
export PYTHONPATH="$PWD"
/venv/bin/python - <<'PY'
import importlib, os, sys
from harness import core
from translate.pyexpr import Untranslatable
for name in sorted(f[:-3] for f in os.listdir("translate") if f.startswith("c") and f[1:3].isdigit() and f.endswith(".py")):
    mod = importlib.import_module("translate." + name)
    try:
        core.write_generated(name.upper(), mod.render(mod.extract(core.REPO)))
        print("generated", name.upper())
    except Exception as e:
        print("translator", name, "failed at setup (the check will report it):", e)
PY
cd lean/PPVerif
mods=$(ls PPVerif/Props/*.lean | sed 's#/#.#g; s#\.lean$##')
lake build PPVerif $mods 2>&1 | tail -5
