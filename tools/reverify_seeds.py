#!/usr/bin/env python3
"""Re-applies every kept seed to the current /repo HEAD and runs the property's quick check: writes seeded/REVERIFY.json.
Never run concurrently with other checks (it patches /repo's working tree and restores it)."""
import glob, json, os, subprocess, sys, time
ROOT = os.path.dirname(os.path.dirname(os.path.abspath(__file__)))
out = {}
only = sys.argv[1:]
for d in sorted(glob.glob(os.path.join(ROOT, "seeded", "C*-*"))):
    name = os.path.basename(d)
    if only and name not in only and name.split("-")[0] not in only:
        continue
    prop = name.split("-")[0]
    patch = os.path.join(d, "patch.diff")
    r = subprocess.run(["git", "-C", "/repo", "apply", "--check", patch], capture_output=True, text=True)
    if r.returncode != 0:
        out[name] = {"applies": False, "detail": r.stderr.strip()[:200]}
        print(name, "DOES NOT APPLY", flush=True)
        continue
    subprocess.run(["git", "-C", "/repo", "apply", patch], check=True)
    try:
        t0 = time.time()
        env = dict(os.environ, VERIF_SEED="0")
        c = subprocess.run([os.path.join(ROOT, "check"), prop, "--tier", "quick"], cwd=ROOT, capture_output=True, text=True, env=env, timeout=3000)
        viol = [l for l in c.stdout.splitlines() if l.startswith("VIOLATION")]
        out[name] = {"applies": True, "exit": c.returncode, "violations": len(viol), "first": viol[0] if viol else None,
                     "wall_s": round(time.time() - t0, 1)}
        print(name, "exit", c.returncode, len(viol), "violations", flush=True)
    finally:
        subprocess.run(["git", "-C", "/repo", "checkout", "--", "."], check=True)
prev = {}
p = os.path.join(ROOT, "seeded", "REVERIFY.json")
if os.path.exists(p) and only:
    prev = json.load(open(p))
prev.update(out)
json.dump(prev, open(p, "w"), indent=1, sort_keys=True)
missed = [k for k, v in prev.items() if v.get("applies") and v.get("exit") == 0]
stale = [k for k, v in prev.items() if not v.get("applies")]
print("detected:", sum(1 for v in prev.values() if v.get("applies") and v.get("exit") == 1), "missed:", missed, "not applicable any more:", stale)
