#!/usr/bin/env python3
"""tools/keep_seed.py <PROP> <name> <src dir> <detected: yes|no|partial> <note...>  -> /verif/seeded/<PROP>-<name>/"""
import json, os, shutil, sys
prop, name, src, detected = sys.argv[1:5]
note = " ".join(sys.argv[5:])
dst = f"/verif/seeded/{prop}-{name}"
os.makedirs(dst, exist_ok=True)
for f in ("patch.diff", "demo.py"):
    shutil.copy(os.path.join(src, f), os.path.join(dst, f))
meta = json.load(open(os.path.join(src, "meta.json")))
meta["breaks_property"] = prop
meta["confirmed_by_builder"] = ("patch applies to /repo HEAD; demo.py exits 0 on the clean tree and 1 with the patch "
                                "(tools/try_seed.sh); related tests as reported by the seeding agent")
meta["check_detects"] = detected
meta["check_note"] = note
json.dump(meta, open(os.path.join(dst, "meta.json"), "w"), indent=1)
print("kept", dst)
