#!/usr/bin/env python3
"""Rewrites the generated part of DESIGN.md section 13 (between the markers) from seeded/*/meta.json, KNOWN_FINDINGS.txt,
MANIFEST.json and the fix: commits of /repo."""
import glob, json, os, re, subprocess
ROOT = os.path.dirname(os.path.dirname(os.path.abspath(__file__)))
BEGIN, END = "<!-- BEGIN GENERATED STATUS -->", "<!-- END GENERATED STATUS -->"
out = []
m = json.load(open(os.path.join(ROOT, "MANIFEST.json")))
out.append("#### 13.1 Registered checks (MANIFEST.json)\n")
out.append("| property | technique (as built) |\n|---|---|")
for c in sorted(m["checks"], key=lambda c: c["property_id"]):
    out.append(f"| {c['property_id']} | {c.get('technique', '')} |")
out.append(f"\nnot_applicable: {m.get('not_applicable') or 'none'}\n")
out.append("#### 13.2 Seeded breaking changes (`seeded/<id>-<a|b>/`) and the check that catches them\n")
out.append("| seed | site | detected | how / what had to be strengthened first |\n|---|---|---|---|")
for d in sorted(glob.glob(os.path.join(ROOT, "seeded", "*"))):
    try:
        meta = json.load(open(os.path.join(d, "meta.json")))
    except Exception:
        continue
    files = ", ".join(os.path.basename(f) for f in meta.get("files_touched", []))[:70]
    note = str(meta.get("check_note", "")).replace("|", "/")
    out.append(f"| {os.path.basename(d)} | {files} | {meta.get('check_detects', '?')} | {note} |")
out.append("\n#### 13.3 Recorded findings (KNOWN_FINDINGS.txt, `finding:` lines)\n")
out.append("| property | key | what fails |\n|---|---|---|")
fixed = []
for line in open(os.path.join(ROOT, "KNOWN_FINDINGS.txt"), encoding="utf-8"):
    mm = re.match(r"finding: property=(\S+) key=(\S+) :: (.*)", line)
    if mm:
        out.append(f"| {mm.group(1)} | {mm.group(2)} | {mm.group(3).strip().replace('|', '/')[:400]} |")
    mm = re.match(r"fixed: property=(\S+) (\S+) (.*)", line)
    if mm:
        fixed.append(mm.groups())
out.append("\n#### 13.4 Repaired defects (`fix:` commits in /repo, `fixed:` lines)\n")
out.append("| property | commit | what failed before |\n|---|---|---|")
for p, c, w in fixed:
    out.append(f"| {p} | {c} | {w.strip().replace('|', '/')[:300]} |")
path = os.path.join(ROOT, "DESIGN.md")
s = open(path, encoding="utf-8").read()
if BEGIN not in s:
    raise SystemExit("markers missing in DESIGN.md")
i, j = s.index(BEGIN) + len(BEGIN), s.index(END)
open(path, "w", encoding="utf-8").write(s[:i] + "\n" + "\n".join(out) + "\n" + s[j:])
print("DESIGN.md status tables regenerated:", len(fixed), "fixes")
