"""Per-property manifest entries (text fields).  One entry per *registered* check."""
CHECKS = {
 "C34": {
  "text": "Lean theorems over a model of _passed_runpp_parameters/_init_runpp_options whose filters, default table, re-read key list and decision-use list are regenerated from run.py/auxiliary.py on every run: exact characterisation (code = spec iff no explicit named argument equals its default while a different value is stored), stored options reach every un-passed key, every decision-relevant key is re-read. Tied additionally by correspondence (model effCode vs net._options) over an exhaustive single-key matrix and random multi-key calls; direct oracle = option dict equals runpp(**(stored|explicit)) on a net without stored options.",
  "note": "Trusted: Lean kernel; translator translate/c34.py (cross-checked against inspect.signature); net._options as observable; value domains of 21 options (sentinel 'auto' as stored value excluded). Known finding C34|arg-equals-default is reproduced and printed as KNOWN-FINDING.",
  "technique": "Lean 4 proof over source-generated option-precedence model + differential correspondence",
 },
 "C30": {
  "text": "Lean refinement theorem: a heap model of Diagnostic (module-level default dict/list, per-instance cells, alias-vs-copy binding and in-place-vs-per-call kwargs merge, all three regenerated from diagnostic.py on every run) refines, for every history over any number of instances, an abstract per-instance model with no shared state; witnesses show each unsafe binding is observably wrong. Correspondence: the functions and kwargs every diagnose_network call really works with (recorded on the real class) vs the model, over random histories; 'net unchanged' by exact input-table snapshots around real diagnostic runs on generated nets.",
  "note": "Trusted: Lean kernel; translator translate/c30.py (alias/copy classification of __init__ right-hand sides, detection of self.kwargs mutation); recording by patching DiagnosticFunction.diagnostic. The 'leaves the network unchanged' clause has no Lean model of the 18 diagnostic function bodies: it is decided by snapshot comparison on executed cases only (stated in evidence).",
  "technique": "Lean 4 refinement proof (heap model -> per-instance spec) over source-generated binding semantics + history correspondence",
 },
}
NOT_YET = {}
