"""Per-property manifest entries (text fields).  One entry per *registered* check."""
CHECKS = {
 "C34": {
  "text": "Lean theorems over a model of _passed_runpp_parameters/_init_runpp_options whose filters, default table, re-read key list and decision-use list are regenerated from run.py/auxiliary.py on every run: exact characterisation (code = spec iff no explicit named argument equals its default while a different value is stored), stored options reach every un-passed key, every decision-relevant key is re-read. Tied additionally by correspondence (model effCode vs net._options) over an exhaustive single-key matrix and random multi-key calls; direct oracle = option dict equals runpp(**(stored|explicit)) on a net without stored options.",
  "note": "Trusted: Lean kernel; translator translate/c34.py (cross-checked against inspect.signature); net._options as observable; value domains of 21 options (sentinel 'auto' as stored value excluded). Known finding C34|arg-equals-default is reproduced and printed as KNOWN-FINDING.",
  "technique": "Lean 4 proof over source-generated option-precedence model + differential correspondence",
 },
}
NOT_YET = {}
