#!/usr/bin/env python3
"""Regenerates MANIFEST.json from the table below (kept valid against /root/.vp/MANIFEST.schema.json)."""
import json, os, sys
HERE = os.path.dirname(os.path.dirname(os.path.abspath(__file__)))
sys.path.insert(0, HERE)
from tools.manifest_table import CHECKS, NOT_YET   # noqa

props = [json.loads(l) for l in open(os.path.join(HERE, "properties.jsonl"))]
ids = [p["id"] for p in props]
checks = []
for pid in ids:
    if pid in CHECKS:
        c = CHECKS[pid]
        checks.append({
            "property_id": pid,
            "quick_cmd": f"./check {pid} --tier quick",
            "thorough_cmd": f"./check {pid} --tier thorough",
            "evidence_file": f"evidence/{pid}.json",
            "replay_cmd_template": f"./check {pid} --replay {{path}}",
            "engine": "lean4-proof+tie",
            "level_claimed": {"category": c.get("category", "proof"), "text": c["text"], "design_ref": c.get("ref", f"DESIGN.md §5 {pid}")},
            "level_note": c["note"],
            "technique": c["technique"],
        })
na = [{"property_id": pid, "reason": NOT_YET.get(pid, "no check registered yet in this revision; design in DESIGN.md §5")}
      for pid in ids if pid not in CHECKS]
m = {
    "version": 1,
    "setup_cmd": "./setup.sh",
    "hooks": {
        "guard": "E2NIEE_PANDAPOWER_VERIF",
        "enable": "no source hooks: the harness observes the real code in-process (sys.settrace fault injection, wrappers); ./check exports E2NIEE_PANDAPOWER_VERIF=1 for uniformity",
        "baseline_off_cmd": "cd /repo && /venv/bin/python -m pytest -ra -q -p no:cacheprovider --timeout=900 --continue-on-collection-errors",
        "source_commits": [],
        "add_only": True,
    },
    "engines": [{"name": "lean4-proof+tie", "path": "check", "serves_properties": sorted(CHECKS),
                 "kind_free_text": "Lean 4 theorems about executable models (lean/PPVerif), models regenerated from /repo source by translate/*.py and/or diffed against the implementation by harness/*.py through a line protocol; failing-input search on the real code"}],
    "checks": checks,
    "notes": "See DESIGN.md. KNOWN_FINDINGS.txt lists recorded genuine defects; fix: commits are recorded there as fixed: lines.",
    "not_applicable": na,
}
json.dump(m, open(os.path.join(HERE, "MANIFEST.json"), "w"), indent=1)
print("checks:", len(checks), "not claimed:", len(na))
