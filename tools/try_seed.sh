#!/bin/bash
# tools/try_seed.sh <PROP> <seed dir with patch.diff + demo.py> [extra check args]
# applies the patch to /repo, runs the demo and the check, and ALWAYS reverts /repo.
set -u
PROP=$1; DIR=$2; shift 2
cd /verif
if [ -n "$(git -C /repo status --porcelain)" ]; then echo "/repo not clean"; exit 2; fi
trap 'git -C /repo checkout -- . ; git -C /repo clean -fdq -- pandapower >/dev/null 2>&1' EXIT
echo "== demo on clean tree"; (cd /tmp && PYTHONPATH=/repo timeout 600 /venv/bin/python "$DIR/demo.py" >/tmp/demo_clean.log 2>&1; echo "demo exit=$?")
if ! git -C /repo apply "$DIR/patch.diff"; then echo "PATCH DOES NOT APPLY"; exit 3; fi
echo "== demo with patch"; (cd /tmp && PYTHONPATH=/repo timeout 600 /venv/bin/python "$DIR/demo.py" >/tmp/demo_patched.log 2>&1; echo "demo exit=$?")
echo "== check with patch"
./check "$PROP" "$@" 2>&1 | grep -E "^(VIOLATION|KNOWN-FINDING|C[0-9]+:|internal|note:)" | cut -c1-400
echo "check exit=${PIPESTATUS[0]}"
