#!/usr/bin/env python3
"""prints the prompt for a seeding sub-agent: property text + its scratch worktree, nothing from /verif"""
import json, sys
pid, wt = sys.argv[1], sys.argv[2]
p = [json.loads(l) for l in open('/verif/properties.jsonl') if json.loads(l)['id'] == pid][0]
print(f"""You are testing how well a (hidden) verification setup detects regressions in the Python library pandapower.
You work ONLY inside the scratch git worktree {wt} (a full copy of the library's repository; modify it freely).
Never read or write anything under /repo or /verif. Run Python as:
    cd {wt} && PYTHONPATH={wt} /venv/bin/python <script>
and first confirm with `print(pandapower.__file__)` that the worktree's copy is the one imported.

The semantic property under test:
  id: {p['id']}
  title: {p['title']}
  statement: {p['statement']}
  quantified over: {p['quantifier']['text']}
  code it is anchored in: {', '.join(p['anchors']['files'])}

Your task: write a realistic change to the library's *source* (not its tests) that BREAKS this property while the
package still imports and the existing test-suite still passes. It should look like a plausible developer mistake
(refactoring slip, wrong mask or index, dropped case, stale cache, wrong sign/unit, off-by-one, swapped arguments,
missing copy, clean-up skipped on one path, two sites that each look fine alone, ...). Important: the change must need
something SPECIFIC to manifest - a particular multi-step sequence of operations, an unusual but legal input or option
combination, a fault/exception at a particular point, a particular element mix or ordering - NOT something that any
ordinary use (e.g. a plain runpp on a standard example network) would expose at once, and not something an existing
test catches.

Produce TWO independent changes at different code sites / mechanisms, in {wt}/seed/a and {wt}/seed/b. For each:
  1. patch.diff   - `git diff` of the source change only (must apply with `git apply` at the repository root of a
                    clean checkout; do not include the seed/ directory in it);
  2. demo.py      - a small stand-alone program that prints what it observes and exits 0 when the property holds and
                    1 when it is violated; it must exit 0 on the unmodified code and 1 with the patch applied
                    (check both; undo a patch with `git apply -R patch.diff` — NEVER use `git stash`: the stash is shared with other worktrees of this repository); it is run as `PYTHONPATH=<checkout> /venv/bin/python demo.py`;
  3. meta.json    - {{"property": "{p['id']}", "summary": "...", "needs_to_manifest": "...", "files_touched": [...],
                    "tests_run": "<command> -> <result>"}}.
Run the existing tests that are related to the files you touched (for example
`cd {wt} && PYTHONPATH={wt} /venv/bin/python -m pytest -q -p no:cacheprovider -n 4 pandapower/test/<dir>`), with the
patch applied, and make sure they pass exactly as they do without it (some tests, e.g. under
pandapower/test/estimation, already fail on the unmodified code; that is expected). Keep only one patch applied at a
time when testing. When done, leave the worktree source UNMODIFIED (git apply -R / git checkout -- .) with only the seed/ directory
added, and reply with a short summary of both changes (what, where, what is needed to manifest, test results).""")
