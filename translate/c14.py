"""C14/C15 translator: contingency.py + contingency_parallel.py -> Generated/C14.lean

Regenerates, for `_update_contingency_results` (sequential) and `_update_contingency_results_parallel`, the elementwise
NumPy mask expressions that decide the aggregation:
   max_mask   (where a case becomes the recorded cause of the maximum loading),
   where=     (where fmax / fmin take a case's value),
   cause_mask (which elements a case overloads),
as Lean Bool functions over the atoms  val / cur / limit (Option K, none = NaN)  and  inService / base / par / started.
Also: where the loop's `in_service = True` restore statement sits relative to the `try`, which ufuncs aggregate, and
that the worker of the multi-process path reports the in-service flags of its own (outaged) copy.
Refuses (Untranslatable) on any shape it does not know."""
import ast
from .pyexpr import Untranslatable, parse_file, find_def


def _norm(n):
    return ast.unparse(n).replace('"', "'").replace(" ", "")


class Fn:
    def __init__(self, fn):
        self.fn = fn
        self.defs = {}
        for n in ast.walk(fn):
            if isinstance(n, ast.Assign) and len(n.targets) == 1 and isinstance(n.targets[0], ast.Name):
                self.defs.setdefault(n.targets[0].id, []).append(n.value)

    def resolve(self, name):
        vs = self.defs.get(name)
        if not vs:
            raise Untranslatable(f"{self.fn.name}: name {name} has no local definition")
        if len({_norm(v) for v in vs}) != 1:
            raise Untranslatable(f"{self.fn.name}: name {name} has several definitions")
        return vs[0]

    # ---- value-typed expressions (Option K)
    def value(self, n, depth=0):
        if depth > 6:
            raise Untranslatable("definition chain too deep")
        t = _norm(n)
        if t in ("net[f'res_{element}'][var].values",):
            return "val"
        if isinstance(n, ast.IfExp) and _norm(n.test) == "parallel_results" and \
                _norm(n.body) == "parallel_results[element][var]" and _norm(n.orelse) == "net[f'res_{element}'][var].values":
            return "val"
        if isinstance(n, ast.Call) and isinstance(n.func, ast.Attribute) and n.func.attr == "get" and \
                _norm(n.func.value) == "contingency_results[element]" and len(n.args) == 2 and \
                isinstance(n.args[0], ast.Constant) and n.args[0].value == "max_loading_percent":
            return f"(curOr started cur {self.fill(n.args[1])})"
        if t == "net[element].loc[contingency_results[element]['index'],s].values":
            return "lim"
        if isinstance(n, ast.Name):
            if n.id == "val":
                v = self.value(self.resolve("val"), depth + 1)
                if v != "val":
                    raise Untranslatable("val is not the case's result column")
                return "val"
            return self.value(self.resolve(n.id), depth + 1)
        raise Untranslatable(f"{self.fn.name}: value expression not recognised: {ast.unparse(n)}")

    def fill(self, n):
        """np.full_like(val, X[, dtype=..]) -> Lean Option K"""
        if isinstance(n, ast.Call) and _norm(n.func) == "np.full_like" and len(n.args) >= 2 and _norm(n.args[0]) == "val":
            x = n.args[1]
            if _norm(x) in ("np.nan", "np.NaN", "float('nan')"):
                return "none"
            try:
                v = ast.literal_eval(x)
            except Exception:
                raise Untranslatable("fill value not literal: " + ast.unparse(x))
            if float(v) == int(v):
                return f"(some (lit ({int(v)})))"
        raise Untranslatable(f"{self.fn.name}: default of .get not recognised: {ast.unparse(n)}")

    # ---- boolean elementwise expressions
    def mask(self, n, depth=0):
        if depth > 6:
            raise Untranslatable("definition chain too deep")
        t = _norm(n)
        if t == "net[element]['in_service'].values":
            return "(netFlag par inService base)"
        if isinstance(n, ast.IfExp) and _norm(n.test) == "parallel_results" and \
                _norm(n.body) == "parallel_in_service[element]" and _norm(n.orelse) == "net[element]['in_service'].values":
            # multi-process: the worker's recorded flags (checked separately); sequential: the net's own flags
            return "(if par then workerFlag inService base else netFlag par inService base)"
        if isinstance(n, ast.IfExp):
            test = _norm(n.test)
            if test == "parallel_results":
                return f"(if par then {self.mask(n.body, depth + 1)} else {self.mask(n.orelse, depth + 1)})"
            if test == "notparallel_results":
                return f"(if par then {self.mask(n.orelse, depth + 1)} else {self.mask(n.body, depth + 1)})"
            raise Untranslatable("conditional on " + ast.unparse(n.test))
        if isinstance(n, ast.BinOp) and isinstance(n.op, (ast.BitAnd, ast.BitOr)):
            op = "&&" if isinstance(n.op, ast.BitAnd) else "||"
            return f"({self.mask(n.left, depth + 1)} {op} {self.mask(n.right, depth + 1)})"
        if isinstance(n, ast.UnaryOp) and isinstance(n.op, ast.Invert):
            return f"(!{self.mask(n.operand, depth + 1)})"
        if isinstance(n, ast.Call) and _norm(n.func) == "np.isnan" and len(n.args) == 1:
            return f"(isNan {self.value(n.args[0], depth + 1)})"
        if isinstance(n, ast.Compare) and len(n.ops) == 1:
            a, b = self.value(n.left, depth + 1), self.value(n.comparators[0], depth + 1)
            if isinstance(n.ops[0], ast.Gt):
                return f"(gtN {a} {b})"
            if isinstance(n.ops[0], ast.Lt):
                return f"(gtN {b} {a})"
            raise Untranslatable("comparison operator " + ast.unparse(n))
        if isinstance(n, ast.Name):
            return self.mask(self.resolve(n.id), depth + 1)
        raise Untranslatable(f"{self.fn.name}: mask expression not recognised: {ast.unparse(n)}")


def _analyse_update(fn):
    f = Fn(fn)
    out = {}
    out["max"] = f.mask(f.resolve("max_mask"))
    out["over"] = f.mask(f.resolve("cause_mask"))
    # the writes guarded by max_mask / cause_mask
    wrote_idx = wrote_el = wrote_flag = False
    for n in ast.walk(fn):
        if isinstance(n, ast.Assign) and len(n.targets) == 1:
            t = _norm(n.targets[0])
            if t == "contingency_results[element]['cause_index'][max_mask]" and _norm(n.value) == "cause_index":
                wrote_idx = True
            if t == "contingency_results[element]['cause_element'][max_mask]" and _norm(n.value) == "cause_element":
                wrote_el = True
            if t == "contingency_results[cause_element]['causes_overloading'][contingency_results[cause_element]['index']==cause_index]" \
                    and _norm(n.value) == "True":
                wrote_flag = True
    if not (wrote_idx and wrote_el and wrote_flag):
        raise Untranslatable(f"{fn.name}: cause / causes_overloading writes not found in the known shape")
    # the fmax/fmin loop and its where= argument
    funcs = None
    for n in ast.walk(fn):
        if isinstance(n, ast.For) and isinstance(n.iter, ast.Tuple) and _norm(n.target) == "(func,min_max)":
            funcs = [(_norm(e.elts[0]), e.elts[1].value) for e in n.iter.elts]
            where = None
            for c in ast.walk(n):
                if isinstance(c, ast.Call) and _norm(c.func) == "func":
                    for kw in c.keywords:
                        if kw.arg == "where":
                            where = kw.value
                    if len(c.args) < 2 or _norm(c.args[0]) != "val":
                        raise Untranslatable("ufunc call arguments")
            if where is None:
                raise Untranslatable("where= argument not found")
            out["where"] = f.mask(where)
    if funcs is None or "where" not in out:
        raise Untranslatable(f"{fn.name}: fmax/fmin loop not found")
    out["funcs"] = funcs
    return out


def _restore_mode(fn):
    """location of `net[element].at[i, 'in_service'] = True` relative to the try that follows `... = False`"""
    modes = []
    for loop in ast.walk(fn):
        if not isinstance(loop, ast.For) or _norm(loop.target) != "i":
            continue
        body = loop.body
        off_at = None
        for k, st in enumerate(body):
            if isinstance(st, ast.Assign) and _norm(st.targets[0]) == "net[element].at[i,'in_service']" and _norm(st.value) == "False":
                off_at = k
        if off_at is None:
            continue
        rest = body[off_at + 1:]
        is_on = lambda st: isinstance(st, ast.Assign) and _norm(st.targets[0]) == "net[element].at[i,'in_service']" \
            and _norm(st.value) == "True"
        if not rest or not isinstance(rest[0], ast.Try):
            modes.append("missing" if not any(is_on(s) for s in rest) else "afterTry")
            continue
        tr = rest[0]
        if any(is_on(s) for s in tr.finalbody):
            modes.append("inFinally")
        elif any(is_on(s) for s in rest[1:]):
            modes.append("afterTry")
        elif any(is_on(s) for s in tr.body):
            modes.append("inTryBody")
        else:
            modes.append("missing")
    if not modes:
        raise Untranslatable(f"{fn.name}: N-1 loop with in_service switching not found")
    if len(set(modes)) != 1:
        raise Untranslatable(f"{fn.name}: mixed restore modes {modes}")
    return modes[0]


def _worker_flags(worker):
    """does the worker report the in-service flags of its own copy, taken after the outage was set?"""
    set_off = evaluated = False
    reported = None
    for n in ast.walk(worker):
        if isinstance(n, ast.Assign) and _norm(n.targets[0]) == "net_copy[element].at[i,'in_service']" and _norm(n.value) == "False":
            set_off = True
        if isinstance(n, ast.Assign) and _norm(n.targets[0]) == "result_pack['in_service'][res_element]":
            reported = _norm(n.value)
    if not set_off:
        raise Untranslatable("worker does not take the element out of service in its copy")
    if reported is None:
        return "none"
    if reported in ("net_copy[res_element]['in_service'].values.copy()", "net_copy[res_element]['in_service'].values"):
        return "case"
    if reported in ("net[res_element]['in_service'].values.copy()", "net[res_element]['in_service'].values"):
        return "base"
    raise Untranslatable("worker in_service report not recognised: " + reported)


def extract(repo):
    t1, _ = parse_file(f"{repo}/pandapower/contingency/contingency.py")
    t2, _ = parse_file(f"{repo}/pandapower/contingency/contingency_parallel.py")
    seq = _analyse_update(find_def(t1, "_update_contingency_results"))
    par = _analyse_update(find_def(t2, "_update_contingency_results_parallel"))
    x = {"seq": seq, "par": par,
         "seq_restore": _restore_mode(find_def(t1, "run_contingency")),
         "par_restore": _restore_mode(find_def(t2, "run_contingency_parallel")),
         "worker": _worker_flags(find_def(t2, "_run_single_contingency"))}
    for k in ("seq", "par"):
        if x[k]["funcs"] != [("np.fmax", "max"), ("np.fmin", "min")]:
            raise Untranslatable(f"{k}: aggregation ufuncs are {x[k]['funcs']}")
    # how the parallel aggregation is called for worker packs
    fn = find_def(t2, "run_contingency_parallel")
    ok = False
    for n in ast.walk(fn):
        if isinstance(n, ast.Call) and _norm(n.func) == "_update_contingency_results_parallel":
            kws = {k.arg: _norm(k.value) for k in n.keywords}
            if "parallel_results" in kws:
                if kws.get("parallel_results") != "single_result['res_vals']" or \
                        kws.get("cause_element") != "single_result['case'][0]" or kws.get("cause_index") != "single_result['case'][1]":
                    raise Untranslatable("aggregation call for worker packs: " + str(kws))
                if "workerFlag" in par["max"] + par["where"] and kws.get("parallel_in_service") != "single_result['in_service']":
                    raise Untranslatable("parallel_in_service argument: " + str(kws))
                ok = True
    if not ok:
        raise Untranslatable("aggregation call for worker packs not found")
    if "workerFlag" in par["max"] + par["where"] and x["worker"] == "none":
        raise Untranslatable("aggregation reads worker flags that the worker does not report")
    return x


def render(x):
    wf = {"case": "inService", "base": "base", "none": "inService"}[x["worker"]]
    def defs(tag, d):
        return f"""def {tag}MaxMask : MaxMask K := fun lit started par inService base val cur =>
  let _ := lit; let _ := started; let _ := par; let _ := base
  {d['max']}
def {tag}Where : WhereMask K := fun par inService base val =>
  let _ := par; let _ := base
  {d['where']}
def {tag}Over (val lim : Option K) : Bool := {d['over']}
"""
    return f"""-- GENERATED by translate/c14.py from /repo/pandapower/contingency/contingency.py and contingency_parallel.py — do not edit.
import PPVerif.Model.FoldDefs
namespace PPVerif.Generated.C14
open PPVerif.Fold

variable {{K : Type}} [LT K] [DecidableLT K]

/-- flags the worker of the multi-process path reports for its case: `{x['worker']}` -/
def workerFlag (inService base : Bool) : Bool := let _ := inService; let _ := base; {wf}

{defs('seq', x['seq'])}
{defs('par', x['par'])}
def seqRestore : RestoreMode := RestoreMode.{x['seq_restore']}
def parRestore : RestoreMode := RestoreMode.{x['par_restore']}

end PPVerif.Generated.C14
"""
