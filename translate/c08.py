"""C08 translator: powerflow.py, optimal_powerflow.py, shortcircuit/calc_sc.py, shortcircuit/ppc_conversion.py,
pf/runpp_3ph.py -> Generated/C08.lean

For every calculation driver that touches the auxiliary elements (dcline generator pairs, b2b vsc rows): how many times
`_add_auxiliary_elements` runs on its path, whether `_clean_up` runs on the success path, and the policy of its exception
handler: none / always / rowGuard (clean-up only if the tables are longer than before the call).
Additionally a static scan of the modules on the calculation path for assignments into the user's element tables."""
import ast
import os
from .pyexpr import Untranslatable, parse_file, find_def, lean_str
from .c04 import _n

DRIVERS = [("powerflow", "pandapower/powerflow.py", "_powerflow"),
           ("recycled", "pandapower/powerflow.py", "_recycled_powerflow"),
           ("opf", "pandapower/optimal_powerflow.py", "_optimal_powerflow"),
           ("sc", "pandapower/shortcircuit/calc_sc.py", "_calc_sc"),
           ("sc_1ph", "pandapower/shortcircuit/calc_sc.py", "_calc_sc_1ph"),
           ("pf_3ph", "pandapower/pf/runpp_3ph.py", "runpp_3ph")]
SCAN = ["pandapower/build_bus.py", "pandapower/build_branch.py", "pandapower/build_gen.py", "pandapower/pd2ppc.py",
        "pandapower/pd2ppc_zero.py", "pandapower/powerflow.py", "pandapower/optimal_powerflow.py", "pandapower/shortcircuit/calc_sc.py",
        "pandapower/shortcircuit/ppc_conversion.py", "pandapower/pf/runpp_3ph.py", "pandapower/run.py"]
INPUT_TABLES = {"bus", "line", "trafo", "trafo3w", "impedance", "load", "sgen", "gen", "ext_grid", "shunt", "ward", "xward", "switch",
                "storage", "motor", "dcline", "asymmetric_load", "asymmetric_sgen", "svc", "tcsc", "ssc", "vsc"}


def _calls(node, name):
    return [n for n in ast.walk(node) if isinstance(n, ast.Call) and _n(n.func) == name]


def _adds_via(tree_cache, repo, fn):
    """_add_auxiliary_elements calls on the path of fn: direct ones plus those inside _init_ppc (short-circuit)"""
    k = len(_calls(fn, "_add_auxiliary_elements"))
    if _calls(fn, "_init_ppc"):
        t, _ = parse_file(f"{repo}/pandapower/shortcircuit/ppc_conversion.py")
        k += len(_calls(find_def(t, "_init_ppc"), "_add_auxiliary_elements")) * len(_calls(fn, "_init_ppc"))
    return k


def _policy(fn):
    """exception policy of the handler, and whether the adding is inside the guarded block"""
    for n in ast.walk(fn):
        if isinstance(n, ast.Try):
            body = ast.Module(body=n.body, type_ignores=[])
            add_in_try = bool(_calls(body, "_add_auxiliary_elements") or _calls(body, "_init_ppc"))
            for h in n.handlers:
                if h.type is not None and _n(h.type) in ("BaseException", "Exception") and any(isinstance(s, ast.Raise) for s in h.body):
                    if _calls(h, "_drop_auxiliary_elements_after_failure"):
                        c = _calls(h, "_drop_auxiliary_elements_after_failure")[0]
                        if [_n(a) for a in c.args] == ["net", "n_gen", "n_vsc"] and "n_gen,n_vsc=(len(net.gen),len(net.vsc))" in _n(fn).replace("(n_gen,n_vsc)", "n_gen,n_vsc"):
                            return "truncate", add_in_try
                    if _calls(h, "_clean_up"):
                        guards = [s for s in h.body if isinstance(s, ast.If) and _calls(s, "_clean_up")]
                        if guards and "len(net.gen)>n_gen" in _n(guards[0].test):
                            return "rowGuard", add_in_try
                        return "always", add_in_try
            if n.finalbody and _calls(ast.Module(body=n.finalbody, type_ignores=[]), "_clean_up"):
                return "always", add_in_try
    return "none", False


def extract(repo):
    x = {"drivers": []}
    for name, path, fname in DRIVERS:
        tree, _ = parse_file(f"{repo}/{path}")
        fn = find_def(tree, fname)
        adds = _adds_via(None, repo, fn)
        pol, in_try = _policy(fn)
        # success-path clean-up: in the function itself or in the helper it delegates to
        succ = bool(_calls(fn, "_clean_up")) or any(_calls(find_def(tree, c.func.id), "_clean_up") or _calls(find_def(tree, c.func.id), "_ppci_to_net")
                                                  for c in ast.walk(fn) if isinstance(c, ast.Call) and isinstance(c.func, ast.Name)
                                                  and c.func.id.endswith("_with_auxiliary_elements"))
        x["drivers"].append((name, adds, pol, succ, in_try))
    writes = []
    for path in SCAN:
        tree, _ = parse_file(f"{repo}/{path}")
        for fn in [n for n in ast.walk(tree) if isinstance(n, ast.FunctionDef)]:
            alias = {}
            for n in ast.walk(fn):
                if isinstance(n, ast.Assign) and len(n.targets) == 1 and isinstance(n.targets[0], ast.Name):
                    v = _n(n.value)
                    for t in INPUT_TABLES:
                        if v in (f"net['{t}']", f"net.{t}"):
                            alias[n.targets[0].id] = t
            for n in ast.walk(fn):
                tg = []
                if isinstance(n, ast.Assign):
                    tg = n.targets
                elif isinstance(n, ast.AugAssign):
                    tg = [n.target]
                for t in tg:
                    if not isinstance(t, (ast.Subscript, ast.Attribute)):
                        continue
                    txt = _n(t)
                    root = txt.split("[")[0].split(".")[0]
                    tab = None
                    for tb in INPUT_TABLES:
                        if txt.startswith((f"net['{tb}']", f"net.{tb}.", f"net.{tb}[")) and txt not in (f"net['{tb}']", f"net.{tb}"):
                            tab = tb
                    if tab is None and root in alias and txt != root:
                        tab = alias[root]
                    if tab is not None:
                        writes.append(f"{os.path.basename(path)}:{fn.name}:{tab}:{txt[:60]}")
    x["writes"] = sorted(set(writes))
    return x


def render(x):
    pol = {"none": ".none", "always": ".always", "rowGuard": ".rowGuard", "truncate": ".truncate"}
    dr = ", ".join(f"⟨{lean_str(n)}, {a}, {pol[p]}, {'true' if s else 'false'}, {'true' if t else 'false'}⟩" for n, a, p, s, t in x["drivers"])
    wr = ", ".join(lean_str(w) for w in x["writes"])
    return f"""-- GENERATED by translate/c08.py — do not edit.
import PPVerif.Model.GuardDefs
namespace PPVerif.Generated.C08
open PPVerif.Guard

/-- calculation drivers: name, number of `_add_auxiliary_elements` on the path, exception policy, clean-up on success -/
def drivers : List Driver := [{dr}]
/-- statements on the calculation path that assign into an input table of the user's net (file:function:table:target) -/
def tableWrites : List String := [{wr}]

end PPVerif.Generated.C08
"""
