"""C13 translator: control/run_control.py + trafo/DiscreteTapControl.py + ContinuousTapControl.py -> Generated/C13.lean

(a) Elementwise decision expressions of the tap controllers (np.where / logical_and / logical_or / comparisons) as Lean
    functions: DiscreteTapControl.control_step `increment`, `.is_converged` `reached_limit` + `converged`;
    ContinuousTapControl.is_converged `reached_limit`, and that its control_step clips to [tap_min, tap_max].
(b) Shape of get_controller_order (sorted unique levels, in-service filter, argsort by order) and of the loop
    (`while not ctrl_converged and run_count <= max_iter and converged`, step-then-evaluate, final check)."""
import ast
from .pyexpr import Untranslatable, parse_file, find_def


def _n(x):
    return ast.unparse(x).replace(" ", "")


VAL = {"vm_pu": "vm", "self.vm_lower_pu": "lo", "self.vm_upper_pu": "hi", "self.vm_set_pu": "vset"}
TAP = {"self.tap_pos": "tap", "self.tap_min": "tmin", "self.tap_max": "tmax"}


def cond(n):
    t = _n(n)
    if t == "self.tap_side_coeff*self.tap_sign==1":
        return "dir"
    if isinstance(n, ast.Call) and _n(n.func) in ("np.logical_and", "np.logical_or") and len(n.args) == 2:
        op = "&&" if _n(n.func).endswith("and") else "||"
        return f"({cond(n.args[0])} {op} {cond(n.args[1])})"
    if isinstance(n, ast.BinOp) and isinstance(n.op, (ast.BitAnd, ast.BitOr)):
        op = "&&" if isinstance(n.op, ast.BitAnd) else "||"
        return f"({cond(n.left)} {op} {cond(n.right)})"
    if isinstance(n, ast.Compare) and len(n.ops) == 1:
        a, b = _n(n.left), _n(n.comparators[0])
        o = n.ops[0]
        if a in VAL and b in VAL or (a in VAL and b in VAL):
            x, y = VAL[a], VAL[b]
            if isinstance(o, ast.Lt):
                return f"(ltN {x} {y})"
            if isinstance(o, ast.Gt):
                return f"(ltN {y} {x})"
        if a in TAP and b in TAP:
            x, y = TAP[a], TAP[b]
            if isinstance(o, ast.Lt):
                return f"(decide ({x} < {y}))"
            if isinstance(o, ast.Gt):
                return f"(decide ({y} < {x}))"
            if isinstance(o, ast.Eq):
                return f"(decide ({x} = {y}))"
    raise Untranslatable("condition not recognised: " + ast.unparse(n))


def intexpr(n):
    if isinstance(n, ast.Call) and _n(n.func) == "np.where" and len(n.args) == 3:
        return f"(if {cond(n.args[0])} then {intexpr(n.args[1])} else {intexpr(n.args[2])})"
    try:
        v = ast.literal_eval(n)
        if isinstance(v, int):
            return f"({v} : Int)"
    except Exception:
        pass
    raise Untranslatable("integer expression not recognised: " + ast.unparse(n))


def boolwhere(n):
    if isinstance(n, ast.Call) and _n(n.func) == "np.where" and len(n.args) == 3:
        return f"(if {cond(n.args[0])} then {cond(n.args[1])} else {cond(n.args[2])})"
    return cond(n)


def _assign(fn, name):
    vs = [n.value for n in ast.walk(fn) if isinstance(n, ast.Assign) and _n(n.targets[0]) == name]
    if len(vs) != 1:
        raise Untranslatable(f"{fn.name}: {len(vs)} assignments to {name}")
    return vs[0]


def extract(repo):
    x = {}
    d, _ = parse_file(f"{repo}/pandapower/control/controller/trafo/DiscreteTapControl.py")
    step = find_def(d, "control_step", cls="DiscreteTapControl")
    x["increment"] = intexpr(_assign(step, "increment"))
    txt = _n(step)
    if "self.tap_pos+=increment" not in txt or "write_to_net(net,self.element,self.element_index,'tap_pos',self.tap_pos,self._read_write_flag)" not in txt:
        raise Untranslatable("DiscreteTapControl.control_step: tap update / write shape")
    conv = find_def(d, "is_converged", cls="DiscreteTapControl")
    x["d_limit"] = boolwhere(_assign(conv, "reached_limit"))
    c = _assign(conv, "converged")
    if _n(c) != "np.logical_or(reached_limit,np.logical_and(self.vm_lower_pu<vm_pu,vm_pu<self.vm_upper_pu))":
        raise Untranslatable("DiscreteTapControl.is_converged: converged = " + _n(c))
    rets = [_n(n.value) for n in ast.walk(conv) if isinstance(n, ast.Return)]
    if sorted(rets) != sorted(["True", "np.all(np.logical_or(converged,is_nan))"]):
        raise Untranslatable("DiscreteTapControl.is_converged returns " + str(rets))
    c2, _ = parse_file(f"{repo}/pandapower/control/controller/trafo/ContinuousTapControl.py")
    cconv = find_def(c2, "is_converged", cls="ContinuousTapControl")
    x["c_limit"] = boolwhere(_assign(cconv, "reached_limit"))
    cstep = _n(find_def(c2, "control_step", cls="ContinuousTapControl"))
    x["c_clip"] = "ifself.check_tap_bounds:\n" in ast.unparse(find_def(c2, "control_step", cls="ContinuousTapControl")).replace(" ", "") and \
        "self.tap_pos=np.clip(self.tap_pos,self.tap_min,self.tap_max)" in cstep
    r, _ = parse_file(f"{repo}/pandapower/control/run_control.py")
    go = _n(find_def(r, "get_controller_order"))
    x["order_shape"] = all(w in go for w in (
        "level_list=sorted(set(np.concatenate(level)))", "to_add=controller.in_service.values&[*map(lambdax:linx,level)]",
        "rel_controller[order.argsort()]", "forlinlevel_list:"))
    ci = find_def(r, "control_implementation")
    loops = [n for n in ast.walk(ci) if isinstance(n, ast.While)]
    if len(loops) != 1:
        raise Untranslatable("control_implementation: while loop")
    w = loops[0]
    x["loop_cond"] = _n(w.test)
    body = _n(w)
    x["loop_shape"] = (x["loop_cond"] == "notctrl_convergedandrun_count<=max_iterandconverged" and
                       "ctrl_converged=_control_step(levelorder,run_count)" in body and
                       "ifnotctrl_converged:" in body and "run_count+=1" in body and
                       "ctrl_variables=evaluate_net_fct(net,levelorder,ctrl_variables,**kwargs)" in body and
                       "forlevelorderincontroller_order:" in _n(ci) and
                       "check_final_convergence(run_count,max_iter,ctrl_variables['converged'])" in _n(ci))
    cs = _n(find_def(r, "_control_step"))
    x["sweep_shape"] = all(w2 in cs for w2 in ("forctrl,netinlevelorder:", "ifnotctrl.is_converged(net):", "ctrl.control_step(net)",
                                               "converged=False", "returnconverged"))
    cf = _n(find_def(r, "check_final_convergence"))
    x["final_shape"] = "ifrun_count>max_iter:" in cf and "raiseControllerNotConverged" in cf
    return x


def render(x):
    b = lambda v: "true" if v else "false"
    return f"""-- GENERATED by translate/c13.py from control/run_control.py and trafo/*TapControl.py — do not edit.
namespace PPVerif.Generated.C13

variable {{K : Type}} [LT K] [DecidableLT K]

/-- `a < b` on floats (false when either is NaN = none) -/
def ltN : Option K → Option K → Bool
  | some a, some b => decide (a < b)
  | _, _ => false

/-- DiscreteTapControl.control_step: the tap increment (dir := tap_side_coeff * tap_sign == 1) -/
def increment (dir : Bool) (vm lo hi : Option K) (tap tmin tmax : Int) : Int :=
  {x['increment']}
/-- DiscreteTapControl.is_converged: reached_limit -/
def discreteLimit (dir : Bool) (vm lo hi : Option K) (tap tmin tmax : Int) : Bool :=
  {x['d_limit']}
/-- ContinuousTapControl.is_converged: reached_limit (tap positions are floats there; compared exactly) -/
def continuousLimit {{T : Type}} [LT T] [DecidableLT T] [DecidableEq T] (dir : Bool) (vm vset : Option K) (tap tmin tmax : T) : Bool :=
  {x['c_limit']}
/-- DiscreteTapControl.is_converged for one transformer: reached_limit or strictly inside the band, or NaN voltage -/
def discreteConverged (dir : Bool) (vm lo hi : Option K) (tap tmin tmax : Int) : Bool :=
  (discreteLimit dir vm lo hi tap tmin tmax || (ltN lo vm && ltN vm hi)) || vm.isNone
def continuousStepClips : Bool := {b(x['c_clip'])}
def orderShape : Bool := {b(x['order_shape'])}
def loopShape : Bool := {b(x['loop_shape'])}
def sweepShape : Bool := {b(x['sweep_shape'])}
def finalCheckShape : Bool := {b(x['final_shape'])}

end PPVerif.Generated.C13
"""
