"""C12 translator: control/controller/const_control.py, powerflow.py, build_*.py, timeseries/run_time_series.py,
timeseries/output_writer.py -> Generated/C12.lean

(a) the recycle flags ConstControl.set_recycle assigns to every (element table, column) pair: obtained by running the
    extracted source of set_recycle on stub objects over the finite domain of all element tables x their columns;
(b) which element tables the builder functions called by _recycled_powerflow for each flag read (static scan, transitive
    inside the build modules);
(c) the (table, variable) pairs that _check_output_writer_recyclability lets through to batch reading, and the pairs that
    get_batch_outputs can provide."""
import ast
import textwrap
from .pyexpr import Untranslatable, parse_file, find_def, lean_str, lean_list
from .c04 import _n

TABLES = {"load": ["p_mw", "q_mvar", "scaling", "in_service", "const_z_p_percent", "bus"],
          "sgen": ["p_mw", "q_mvar", "scaling", "in_service", "bus"],
          "storage": ["p_mw", "q_mvar", "scaling", "in_service"],
          "gen": ["p_mw", "vm_pu", "scaling", "in_service", "max_q_mvar", "min_q_mvar", "slack_weight"],
          "ext_grid": ["vm_pu", "va_degree", "in_service"],
          "trafo": ["tap_pos", "in_service", "vk_percent", "parallel"],
          "trafo3w": ["tap_pos", "in_service"],
          "line": ["in_service", "r_ohm_per_km", "length_km", "max_i_ka", "parallel"],
          "shunt": ["step", "q_mvar", "in_service"], "ward": ["ps_mw"], "xward": ["ps_mw"], "motor": ["pn_mech_mw"],
          "impedance": ["rft_pu", "in_service"], "switch": ["closed"], "bus": ["in_service"]}
PARTS = ["bus_pq", "trafo", "gen"]
# tables whose values enter the ppc part rebuilt for a flag only through the listed builder calls
BUILD_FILES = ["pandapower/build_bus.py", "pandapower/build_branch.py", "pandapower/build_gen.py"]


class _At:
    def __init__(self):
        self.d = {}

    def __getitem__(self, k):
        return self.d.get(k, True)

    def __setitem__(self, k, v):
        self.d[k] = v


class _Net:
    def __init__(self):
        class C:
            pass
        self.controller = C()
        self.controller.at = _At()


def _flags(src, element, variable):
    ns = {}
    exec(textwrap.dedent(src), ns)           # the function exactly as found in the source
    class S:
        pass
    s = S()
    s.index, s.element, s.variable = 0, element, variable
    net = _Net()
    ns["set_recycle"](s, net)
    r = net.controller.at.d.get((0, "recycle"))
    if isinstance(r, dict):
        return tuple(bool(r.get(p, False)) for p in PARTS)
    return None


def _reads(fn):
    out = set()
    if "net[element]" in _n(fn) or "net[element_type]" in _n(fn):
        # tables addressed through a loop variable: the literal table names of the function
        for n in ast.walk(fn):
            if isinstance(n, ast.Constant) and isinstance(n.value, str) and n.value in TABLES:
                out.add(n.value)
    for n in ast.walk(fn):
        t = None
        if isinstance(n, ast.Subscript) and isinstance(n.value, ast.Name) and n.value.id == "net" and isinstance(n.slice, ast.Constant) \
                and isinstance(n.slice.value, str):
            t = n.slice.value
        elif isinstance(n, ast.Attribute) and isinstance(n.value, ast.Name) and n.value.id == "net":
            t = n.attr
        if t and not t.startswith("_") and not t.startswith("res_"):
            out.add(t)
    return out


def extract(repo):
    x = {}
    cc, src = parse_file(f"{repo}/pandapower/control/controller/const_control.py")
    fn = find_def(cc, "set_recycle", cls="ConstControl")
    seg = ast.get_source_segment(src, fn)
    if seg is None:
        raise Untranslatable("set_recycle source not found")
    table = []
    for el, cols in TABLES.items():
        for c in cols:
            try:
                table.append((el, c, _flags(seg, el, c)))
            except Exception as e:       # noqa
                raise Untranslatable(f"set_recycle could not be evaluated for {el}.{c}: {type(e).__name__}: {e}")
    x["flags"] = table
    # (b)
    pf, _ = parse_file(f"{repo}/pandapower/powerflow.py")
    fn = find_def(pf, "_recycled_powerflow_with_auxiliary_elements") if any(getattr(n, "name", None) == "_recycled_powerflow_with_auxiliary_elements" for n in pf.body) else find_def(pf, "_recycled_powerflow")
    funcs = {}
    for path in BUILD_FILES:
        t, _ = parse_file(f"{repo}/{path}")
        for f in t.body:
            if isinstance(f, ast.FunctionDef):
                funcs[f.name] = f

    def closure(name, seen):
        if name in seen or name not in funcs:
            return set()
        seen.add(name)
        r = _reads(funcs[name])
        for c in ast.walk(funcs[name]):
            if isinstance(c, ast.Call) and isinstance(c.func, ast.Name):
                r |= closure(c.func.id, seen)
        return r
    deps = {p: set() for p in PARTS}
    for n in ast.walk(fn):
        if isinstance(n, ast.If):
            t = _n(n.test)
            for p in PARTS:
                if t == f"'{p}'inrecycleandrecycle['{p}']":
                    for sub in ast.walk(ast.Module(body=n.body, type_ignores=[])):
                        # a builder call in an else / elif branch is skipped whenever the first branch is taken
                        if isinstance(sub, ast.If) and sub.orelse:
                            for c in ast.walk(ast.Module(body=sub.orelse, type_ignores=[])):
                                if isinstance(c, ast.Call) and isinstance(c.func, ast.Name) and c.func.id in funcs:
                                    raise Untranslatable(f"_recycled_powerflow: {c.func.id} is only called when "
                                                         f"'{ast.unparse(sub.test)}' is false")
                    for c in ast.walk(ast.Module(body=n.body, type_ignores=[])):
                        if isinstance(c, ast.Call) and isinstance(c.func, ast.Name):
                            deps[p] |= closure(c.func.id, set())
    if not all(deps.values()):
        raise Untranslatable(f"_recycled_powerflow: builder calls per flag not found: { {p: sorted(v) for p, v in deps.items()} }")
    x["deps"] = {p: sorted(v & set(TABLES)) for p, v in deps.items()}
    # (c)
    rt, _ = parse_file(f"{repo}/pandapower/timeseries/run_time_series.py")
    fn = find_def(rt, "_check_output_writer_recyclability")
    elig_tables, elig_vars = None, None
    for n in ast.walk(fn):
        if isinstance(n, ast.Compare) and _n(n.left) == "table" and isinstance(n.ops[0], ast.NotIn):
            elig_tables = [ast.literal_eval(e) for e in n.comparators[0].elts]
        if isinstance(n, ast.Assign) and _n(n.targets[0]) == "BATCH_VARIABLES":
            elig_vars = ast.literal_eval(n.value)
    for n in ast.walk(rt):
        if isinstance(n, ast.Assign) and _n(n.targets[0]) == "BATCH_VARIABLES":
            elig_vars = ast.literal_eval(n.value)
    if elig_tables is None:
        raise Untranslatable("_check_output_writer_recyclability: eligible tables not found")
    uses_vars = "BATCH_VARIABLES" in _n(fn)
    ow, _ = parse_file(f"{repo}/pandapower/timeseries/output_writer.py")
    fn = find_def(ow, "get_batch_outputs", cls="OutputWriter")
    provided = {}
    for n in ast.walk(fn):
        if isinstance(n, ast.Assign) and isinstance(n.targets[0], ast.Subscript) and _n(n.targets[0].value) == "results" and \
                isinstance(n.value, ast.Call) and _n(n.value.func) == "dict":
            provided[ast.literal_eval(n.targets[0].slice)] = [k.arg for k in n.value.keywords]
    # variables a user can ask for per eligible table (result columns)
    asked = {"res_bus": ["vm_pu", "va_degree", "p_mw", "q_mvar"],
             "res_line": ["loading_percent", "i_ka", "i_from_ka", "i_to_ka", "p_from_mw", "q_from_mvar", "p_to_mw", "pl_mw"],
             "res_trafo": ["loading_percent", "i_hv_ka", "i_lv_ka", "p_hv_mw", "q_hv_mvar", "pl_mw"],
             "res_trafo3w": ["loading_percent", "p_hv_mw"]}
    elig = []
    for t in elig_tables:
        for v in asked.get(t, []):
            if not uses_vars or (elig_vars is not None and v in elig_vars.get(t, [])):
                elig.append((t, v))
    x["eligible"] = elig
    x["provided"] = [(t, v) for t, vs in provided.items() for v in vs]
    # the chain must handle several variables of one table
    x["chain_ok"] = "notinresults:" not in _n(fn).replace("andtable", "and table") or not any(
        f"table=='{t}'and'{t}'notinresults" in _n(fn) for t in provided)
    return x


def render(x):
    def fl(f):
        return "none" if f is None else "some (" + ", ".join("true" if b else "false" for b in f) + ")"
    rows = ", ".join(f"({lean_str(e)}, {lean_str(c)}, {fl(f)})" for e, c, f in x["flags"])
    deps = ", ".join(f"({lean_str(p)}, {lean_list(v)})" for p, v in x["deps"].items())
    pr = lambda l: "[" + ", ".join(f"({lean_str(a)}, {lean_str(b)})" for a, b in l) + "]"        # noqa
    return f"""-- GENERATED by translate/c12.py — do not edit.
namespace PPVerif.Generated.C12

/-- ConstControl.set_recycle: (element table, column) ↦ none (not recycled) or the flags (bus_pq, trafo, gen) -/
def recycleFlags : List (String × String × Option (Bool × Bool × Bool)) := [{rows}]
/-- element tables read by the builders that `_recycled_powerflow` calls for each flag -/
def partDeps : List (String × List String) := [{deps}]
/-- (result table, variable) pairs let through to batch reading / provided by get_batch_outputs -/
def batchEligible : List (String × String) := {pr(x['eligible'])}
def batchProvided : List (String × String) := {pr(x['provided'])}
def batchChainOk : Bool := {'true' if x['chain_ok'] else 'false'}

end PPVerif.Generated.C12
"""
