"""C06 translator: powerflow.py, pf/run_newton_raphson_pf.py, pf/run_bfswpf.py -> Generated/C06.lean

(a) the algorithm names `_run_pf_algorithm` dispatches and to which solver; (b) the condition under which the fast
single-slack result routine is selected, as a Bool function of its atoms; (c) how the sweep solver maps bus numbers to
matrix columns (position among the non-reference buses vs subtraction of the number of reference buses)."""
import ast
from .pyexpr import Untranslatable, parse_file, find_def, lean_str, lean_list
from .c04 import _n


def extract(repo):
    x = {}
    pf, _ = parse_file(f"{repo}/pandapower/powerflow.py")
    fn = find_def(pf, "_run_pf_algorithm")
    disp = []
    for n in ast.walk(fn):
        if isinstance(n, ast.If):
            t = n.test
            names = None
            if isinstance(t, ast.Compare) and _n(t.left) == "algorithm":
                if isinstance(t.ops[0], ast.Eq):
                    names = [ast.literal_eval(t.comparators[0])]
                elif isinstance(t.ops[0], ast.In):
                    names = [ast.literal_eval(e) for e in t.comparators[0].elts]
            if names:
                callee = [c for c in ast.walk(ast.Module(body=n.body, type_ignores=[])) if isinstance(c, ast.Call)]
                if callee:
                    for a in names:
                        disp.append((a, _n(callee[0].func)))
    if not disp:
        raise Untranslatable("_run_pf_algorithm: dispatch not found")
    x["dispatch"] = disp
    nr, _ = parse_file(f"{repo}/pandapower/pf/run_newton_raphson_pf.py")
    fn = find_def(nr, "_get_numba_functions")
    sel = None
    shunt = None
    for n in ast.walk(fn):
        if isinstance(n, ast.Assign) and _n(n.targets[0]) == "shunt_in_net":
            shunt = n.value
        if isinstance(n, ast.Assign) and _n(n.targets[0]) == "pfsoln" and isinstance(n.value, ast.IfExp) and \
                _n(n.value.body) == "pf_solution_single_slack":
            sel = n.value.test
    if sel is None or shunt is None:
        raise Untranslatable("_get_numba_functions: selection of pf_solution_single_slack not found")

    def b(n):
        t = _n(n)
        atoms = {"ppci['gen'].shape[0]==1": "oneGen", "options['voltage_depend_loads']": "vdl", "options['distributed_slack']": "ds",
                 "shunt_in_net": "(" + sh + ")", "any(ppci['bus'][:,BS])": "anyBS", "any(ppci['bus'][:,GS])": "anyGS",
                 "any(bus[:,BS])": "anyBS", "any(bus[:,GS])": "anyGS"}
        if t in atoms:
            return atoms[t]
        if isinstance(n, ast.BoolOp):
            op = " && " if isinstance(n.op, ast.And) else " || "
            return "(" + op.join(b(v) for v in n.values) + ")"
        if isinstance(n, ast.UnaryOp) and isinstance(n.op, ast.Not):
            return "(!" + b(n.operand) + ")"
        raise Untranslatable("selection condition: " + ast.unparse(n))
    sh = ""
    sh = b(shunt)
    x["fast"] = b(sel)
    bf, _ = parse_file(f"{repo}/pandapower/pf/run_bfswpf.py")
    t = _n(find_def(bf, "_make_bibc_bcbv"))
    t2 = _n(find_def(bf, "_bfswpf"))
    if "nonref_pos=np.cumsum(bus[:,BUS_TYPE]!=3)-1" in t and "nonref_pos[np.minimum(coli,nobus-1)]" in t and \
            "pvi=(np.cumsum(mask_root)-1)[pv]" in t2:
        x["bfsw_cols"] = "position"
    elif "np.array(coli_BIBC)-norefs" in t:
        x["bfsw_cols"] = "subtract"
    else:
        raise Untranslatable("bfsw column mapping not recognised")
    # Gauss-Seidel: the update of one bus voltage as a field expression
    from .c04 import Sym
    gs, _ = parse_file(f"{repo}/pandapower/pypower/gausspf.py")
    fn = find_def(gs, "gausspf")
    loops = [n for n in ast.walk(fn) if isinstance(n, ast.For) and _n(n.target) == "k"]
    if len(loops) != 2:
        raise Untranslatable("gausspf: expected the PQ and the PV bus loop")
    ups = []
    for lp in loops:
        tmp = [st for st in lp.body if isinstance(st, ast.Assign) and _n(st.targets[0]) == "tmp"]
        upd = [st for st in lp.body if isinstance(st, ast.Assign) and _n(st.targets[0]) == "V[k]"]
        if not tmp or len(upd) != 1 or lp.body.index(upd[0]) != lp.body.index(tmp[-1]) + 1:
            raise Untranslatable("gausspf: voltage update not recognised")
        sy = Sym({"conj(Sbus[k]/V[k])": "inj", "Ybus[k,:]*V": "yv", "Ybus[k,k]": "ykk", "V[k]": "vk", "tmp.item()": "TMP"})
        e = sy.expr(upd[0].value).replace("TMP", sy.expr(tmp[-1].value))
        ups.append(e)
    if ups[0] != ups[1]:
        raise Untranslatable("gausspf: PQ and PV buses are updated differently")
    x["gs_step"] = ups[0]
    x["gs_mis"] = "V*conj(Ybus*V)-Sbus" in _n(fn)
    # fast-decoupled: both half iterations are 'solve with the mismatch, add the step'
    fd, _ = parse_file(f"{repo}/pandapower/pypower/fdpf.py")
    t = _n(find_def(fd, "fdpf"))
    x["fd_steps"] = [w for w in ("dVa=-Bp_solver.solve(P)", "Va[pvpq]=Va[pvpq]+dVa", "dVm=-Bpp_solver.solve(Q)", "Vm[pq]=Vm[pq]+dVm",
                                 "mis=(V*conj(Ybus*V)-Sbus)/Vm", "P=mis[pvpq].real", "Q=mis[pq].imag") if w in t]
    return x


def render(x):
    d = ", ".join(f"({lean_str(a)}, {lean_str(c)})" for a, c in x["dispatch"])
    return f"""-- GENERATED by translate/c06.py — do not edit.
import Mathlib.Algebra.Field.Defs
namespace PPVerif.Generated.C06

/-- algorithm name ↦ solver entry point in `_run_pf_algorithm` -/
def dispatch : List (String × String) := [{d}]
/-- the fast single-slack result routine (slack power = losses + loads) is selected iff -/
def fastSelected (oneGen vdl ds anyBS anyGS : Bool) : Bool := {x['fast']}
/-- column of a bus in the sweep solver's matrices: "position" among the non-reference buses, or "subtract" -/
def bfswColumns : String := {lean_str(x['bfsw_cols'])}

/-- Gauss-Seidel (`gausspf`): new voltage of bus k from inj = conj(S_k / V_k), yv = (Ybus V)_k, ykk = Ybus[k, k], vk = V_k
    (the same statement for PQ and PV buses) -/
def gsStep {{K : Type}} [Field K] (inj yv ykk vk : K) : K := {x['gs_step']}
/-- the convergence test of gausspf uses the mismatch V * conj(Ybus * V) - Sbus -/
def gsMismatchIsPowerBalance : Bool := {'true' if x['gs_mis'] else 'false'}
/-- fast-decoupled (`fdpf`): statements found (solve with the mismatch, add the step, mismatch of the power balance) -/
def fdSteps : List String := [{", ".join(lean_str(w) for w in x['fd_steps'])}]

end PPVerif.Generated.C06
"""
