"""C29 translator: protection_devices/fuse.py + ocrelay.py -> Generated/C29.lean

Extracts the regime structure of Fuse.protection_function (comparison operators, branch order, what each branch
reports), the ordered stage list (threshold attribute, reported time) of every relay type's if/elif chain in
OCRelay.protection_function, the scenario -> (result table, column) mapping, what is reported as activation value,
and the (k, alpha) curve table."""
import ast
from fractions import Fraction
from .pyexpr import Untranslatable, parse_file, find_def, lean_str


def _n(x):
    return ast.unparse(x).replace(" ", "").replace('"', "'")


def _scenarios(fn):
    out = {}
    node = None
    for st in fn.body:
        if isinstance(st, ast.If) and _n(st.test).startswith("scenario=="):
            node = st
            break
    if node is None:
        raise Untranslatable("scenario dispatch not found")
    while True:
        key = ast.literal_eval(node.test.comparators[0])
        asg = node.body[0]
        if not (isinstance(asg, ast.Assign) and _n(asg.targets[0]) == "i_ka"):
            raise Untranslatable("scenario branch does not assign i_ka")
        out[key] = _n(asg.value)
        if len(node.orelse) == 1 and isinstance(node.orelse[0], ast.If):
            node = node.orelse[0]
        else:
            if not (len(node.orelse) == 1 and isinstance(node.orelse[0], ast.Raise)):
                raise Untranslatable("scenario dispatch does not end with raise")
            break
    return out


def _branch_facts(body):
    trip, time = None, None
    for st in body:
        if isinstance(st, ast.Assign) and _n(st.targets[0]) == "self.tripped":
            trip = _n(st.value)
        if isinstance(st, ast.Assign) and _n(st.targets[0]) == "act_time_s":
            time = _n(st.value)
    return trip, time


def _result_dict(fn):
    for n in ast.walk(fn):
        if isinstance(n, ast.Assign) and _n(n.targets[0]) == "protection_result" and isinstance(n.value, ast.Dict):
            return {ast.literal_eval(k): _n(v) for k, v in zip(n.value.keys, n.value.values)}
    raise Untranslatable("protection_result dict not found")


def extract(repo):
    x = {}
    # ---- fuse
    t, _ = parse_file(f"{repo}/pandapower/protection/protection_devices/fuse.py")
    fn = find_def(t, "protection_function", cls="Fuse")
    x["fuse_scen"] = _scenarios(fn)
    chain = [st for st in fn.body if isinstance(st, ast.If) and "i_start_a" in _n(st.test)]
    if len(chain) != 1:
        raise Untranslatable("fuse regime chain not found")
    c0 = chain[0]
    t0 = _n(c0.test)
    if t0 not in ("i_ka*1000<self.i_start_a", "i_ka*1000<=self.i_start_a"):
        raise Untranslatable("fuse first test: " + t0)
    if not (len(c0.orelse) == 1 and isinstance(c0.orelse[0], ast.If)):
        raise Untranslatable("fuse chain shape")
    c1 = c0.orelse[0]
    t1 = _n(c1.test)
    if t1 not in ("i_ka*1000<=self.i_stop_a", "i_ka*1000<self.i_stop_a"):
        raise Untranslatable("fuse second test: " + t1)
    b0, b1, b2 = _branch_facts(c0.body), _branch_facts(c1.body), _branch_facts(c1.orelse)
    if (b0, b1, b2) != (("False", "np.inf"), ("True", "c(i_ka*1000)"), ("True", "0")):
        raise Untranslatable(f"fuse branches: {b0} {b1} {b2}")
    cdef = [_n(n.value) for n in ast.walk(fn) if isinstance(n, ast.Assign) and _n(n.targets[0]) == "c"]
    if cdef != ["net.characteristic.at[self.characteristic_index,'object']"]:
        raise Untranslatable("fuse characteristic look-up: " + str(cdef))
    x["fuse_cmp"] = ("<=" not in t0, "<=" not in t1)
    x["fuse_res"] = _result_dict(fn)
    cc = find_def(t, "create_characteristic", cls="Fuse")
    lims = {(_n(n.targets[0])): _n(n.value) for n in ast.walk(cc) if isinstance(n, ast.Assign)}
    if lims.get("self.i_start_a") != "min(x_values)" or lims.get("self.i_stop_a") != "max(x_values)":
        raise Untranslatable("fuse i_start/i_stop: " + str(lims))
    if "LogSplineCharacteristic(net,x_values=x_values,y_values=y_values,interpolator_kind=interpolator_kind,**kwargs)" not in lims.values():
        raise Untranslatable("fuse characteristic construction: " + str(lims))
    # ---- relay
    t, _ = parse_file(f"{repo}/pandapower/protection/protection_devices/ocrelay.py")
    fn = find_def(t, "protection_function", cls="OCRelay")
    x["relay_scen"] = _scenarios(fn)
    x["relay_res"] = _result_dict(fn)
    stages = {}
    idmt_expr = "self.tms*self.k/((i_ka/self.I_s)**self.alpha-1)+self.t_grade"
    for st in fn.body:
        if isinstance(st, ast.If) and _n(st.test).startswith("self.oc_relay_type=="):
            typ = ast.literal_eval(st.test.comparators[0])
            if len(st.body) != 1 or not isinstance(st.body[0], ast.If):
                raise Untranslatable(f"relay {typ}: body shape")
            node = st.body[0]
            lst = []
            while True:
                tt = _n(node.test)
                if not tt.startswith("i_ka>self.I_") or tt[len("i_ka>self."):] not in ("I_gg", "I_g", "I_s"):
                    raise Untranslatable(f"relay {typ}: test {tt}")
                trip, time = _branch_facts(node.body)
                if trip != "True":
                    raise Untranslatable(f"relay {typ}: stage does not trip")
                kind = {"self.t_gg": "tgg", "self.t_g": "tg", idmt_expr: "idmt"}.get(time)
                if kind is None:
                    raise Untranslatable(f"relay {typ}: time expression {time}")
                lst.append((tt[len("i_ka>self.I_"):], kind))
                if len(node.orelse) == 1 and isinstance(node.orelse[0], ast.If):
                    node = node.orelse[0]
                else:
                    if _branch_facts(node.orelse) != ("False", "np.inf"):
                        raise Untranslatable(f"relay {typ}: else branch")
                    break
            stages[typ] = lst
    if set(stages) != {"DTOC", "IDMT", "IDTOC"}:
        raise Untranslatable("relay types: " + str(sorted(stages)))
    x["stages"] = stages
    ka = find_def(t, "_select_k_alpha", cls="OCRelay")
    table = {}
    node = ka.body[0]
    while isinstance(node, ast.If):
        name = ast.literal_eval(node.test.comparators[0])
        vals = {_n(a.targets[0]): ast.unparse(a.value) for a in node.body if isinstance(a, ast.Assign)}
        table[name] = (vals["self.k"], vals["self.alpha"])
        node = node.orelse[0] if node.orelse else None
    x["k_alpha"] = table
    return x


def render(x):
    th = {"gg": "Thresh.Igg", "g": "Thresh.Ig", "s": "Thresh.Is"}
    tk = {"tgg": "TimeKind.tgg", "tg": "TimeKind.tg", "idmt": "TimeKind.idmt"}

    def stages(name):
        return "[" + ", ".join(f"({th[a]}, {tk[b]})" for a, b in x["stages"][name]) + "]"

    def rat(s):
        f = Fraction(s)
        return f"(({f.numerator} : Int), ({f.denominator} : Nat))"
    ka = ", ".join(f"({lean_str(n)}, {rat(k)}, {rat(a)})" for n, (k, a) in x["k_alpha"].items())
    b = lambda v: "true" if v else "false"
    return f"""-- GENERATED by translate/c29.py from protection_devices/fuse.py and ocrelay.py — do not edit.
import PPVerif.Model.ProtDefs
namespace PPVerif.Generated.C29
open PPVerif.Prot

def fuseCmp : FuseCmp := ⟨{b(x['fuse_cmp'][0])}, {b(x['fuse_cmp'][1])}⟩
def dtocStages : List (Thresh × TimeKind) := {stages('DTOC')}
def idmtStages : List (Thresh × TimeKind) := {stages('IDMT')}
def idtocStages : List (Thresh × TimeKind) := {stages('IDTOC')}
/-- (curve type, k as num/den, alpha as num/den) -/
def kAlpha : List (String × (Int × Nat) × (Int × Nat)) := [{ka}]
/-- scenario -> expression the device current is read from -/
def fuseCurrent : List (String × String) := [{", ".join(f"({lean_str(k)}, {lean_str(v)})" for k, v in x['fuse_scen'].items())}]
def relayCurrent : List (String × String) := [{", ".join(f"({lean_str(k)}, {lean_str(v)})" for k, v in x['relay_scen'].items())}]
/-- what the result dict reports as activation_parameter_value / switch_id -/
def fuseActivation : String × String := ({lean_str(x['fuse_res']['activation_parameter_value'])}, {lean_str(x['fuse_res']['switch_id'])})
def relayActivation : String × String := ({lean_str(x['relay_res']['activation_parameter_value'])}, {lean_str(x['relay_res']['switch_id'])})

end PPVerif.Generated.C29
"""
