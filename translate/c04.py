"""C04 translator: results_bus.py, build_bus.py, build_gen.py, run_newton_raphson_pf.py -> Generated/C04.lean

(a) the load result law of write_voltage_dependend_load_results by symbolic execution of its straight-line code
    (constant-power part plus the `+=` of the voltage dependent part) as a Lean expression over a field;
(b) the shunt result law of _get_shunt_results (branch without step table) and the shunt admittance put on the ppc bus
    by _calc_shunts_and_add_on_ppc;
(c) the set-point assignments of _build_pp_gen / _build_pp_ext_grid / _build_pp_pq_element (which table columns reach
    VG, PG, QG, the bus VM / VA);
(d) the shape of the Q-limit loop: the two violation comparisons, exclusion of reference generators, the value a limited
    generator is fixed at, and the restore statement after the loop."""
import ast
from .pyexpr import Untranslatable, parse_file, find_def


def _n(x):
    return ast.unparse(x).replace(" ", "").replace('"', "'")


class Sym:
    """symbolic execution of straight-line numpy code into Lean field expressions"""

    def __init__(self, leaves, skip_calls=("np.hstack",)):
        self.leaves = leaves
        self.env = {}
        self.out = {}

    def expr(self, n):
        t = _n(n)
        if t in self.leaves:
            return self.leaves[t]
        if isinstance(n, ast.Name) and n.id in self.env:
            return self.env[n.id]
        if isinstance(n, ast.Constant) and isinstance(n.value, (int, float)) and not isinstance(n.value, bool):
            v = n.value
            if float(v) != int(v):
                raise Untranslatable(f"non-integer constant {v}")
            return f"({int(v)} : K)"
        if isinstance(n, ast.BinOp):
            if isinstance(n.op, ast.Pow):
                if not (isinstance(n.right, ast.Constant) and isinstance(n.right.value, int) and n.right.value >= 0):
                    raise Untranslatable("power with non-literal exponent: " + t)
                return f"({self.expr(n.left)} ^ {n.right.value})"
            ops = {ast.Add: "+", ast.Sub: "-", ast.Mult: "*", ast.Div: "/"}
            if type(n.op) in ops:
                return f"({self.expr(n.left)} {ops[type(n.op)]} {self.expr(n.right)})"
        if isinstance(n, ast.UnaryOp) and isinstance(n.op, ast.USub):
            return f"(-{self.expr(n.operand)})"
        if isinstance(n, ast.Call) and _n(n.func) == "np.nan_to_num" and len(n.args) == 1:
            return self.expr(n.args[0])          # (NaN voltage = unsupplied bus: outside the law's scope)
        raise Untranslatable("expression not recognised: " + ast.unparse(n))

    def run(self, body, take_if):
        for st in body:
            if isinstance(st, ast.If):
                which = take_if(_n(st.test))
                if which == "body":
                    self.run(st.body, take_if)
                elif which == "orelse":
                    self.run(st.orelse, take_if)
                elif which != "skip":
                    raise Untranslatable("unexpected condition: " + ast.unparse(st.test))
                continue
            if isinstance(st, ast.Return) or isinstance(st, ast.Expr):
                continue
            if isinstance(st, ast.Assign) and len(st.targets) == 1:
                tgt, val = st.targets[0], st.value
                tt = _n(tgt)
                if isinstance(val, ast.Call) and _n(val.func) == "np.hstack":
                    continue
                try:
                    e = self.expr(val)
                except Untranslatable:
                    if isinstance(tgt, ast.Name):
                        self.env.pop(tgt.id, None)      # a name we do not follow (lookups, masks, tables)
                        continue
                    if "res_" not in tt:
                        continue
                    raise
                if isinstance(tgt, ast.Name):
                    self.env[tgt.id] = e
                else:
                    self.out[tt] = e
                continue
            if isinstance(st, ast.AugAssign) and isinstance(st.op, ast.Add):
                tt = _n(st.target)
                if tt in self.out:
                    self.out[tt] = f"({self.out[tt]} + {self.expr(st.value)})"
                    continue
                if isinstance(st.target, ast.Name) and st.target.id in self.env:
                    self.env[st.target.id] = f"({self.env[st.target.id]} + {self.expr(st.value)})"
                    continue
            if isinstance(st, ast.Assign):
                continue
            raise Untranslatable("statement not recognised: " + ast.unparse(st)[:80])


def extract(repo):
    x = {}
    rb, _ = parse_file(f"{repo}/pandapower/results_bus.py")
    fn = find_def(rb, "write_voltage_dependend_load_results")
    leaves = {"l['p_mw'].values": "p", "l['q_mvar'].values": "q", "l['scaling'].values": "s", "_is_elements['load']": "isv",
              "l['const_z_p_percent'].values": "czp", "l['const_i_p_percent'].values": "cip",
              "l['const_z_q_percent'].values": "czq", "l['const_i_q_percent'].values": "ciq",
              "net['_ppc']['bus'][lidx,7]": "v"}

    def take(t):
        if t in ("len(l)>0", "voltage_depend_loads"):
            return "body"
        return None
    sy = Sym(leaves)
    sy.run(fn.body, take)
    try:
        x["load_p"], x["load_q"] = sy.out["net['res_load']['p_mw']"], sy.out["net['res_load']['q_mvar']"]
    except KeyError:
        raise Untranslatable("res_load assignments not found")
    ib, _ = parse_file(f"{repo}/pandapower/pypower/idx_bus.py")
    if not any(isinstance(n, ast.Assign) and _n(n.targets[0]) == "VM" and _n(n.value) == "7" for n in ib.body):
        raise Untranslatable("ppc bus column 7 is not VM")

    fn = find_def(rb, "_get_shunt_results")
    leaves = {"ppc['bus'][sidx,VM]": "v", "s['step']": "step", "ppc['bus'][sidx,BASE_KV]": "vb", "net['shunt']['vn_kv'].values": "vn", "shunt_vn_kv": "vn",
              "net['shunt']['p_mw'].values": "p", "net['shunt']['q_mvar'].values": "q", "_is_elements['shunt']": "isv"}
    stop = {"w"}

    def take_s(t):
        if t in ("len(s)>0", "ac"):
            return "body"
        if t == "use_step_table":
            return "orelse"
        if t.startswith("'step_dependency_table'ins"):
            return "skip"
        if t.startswith("len("):
            return "skip"
        return None
    sy = Sym(leaves)
    body = []
    for st in fn.body:       # only the shunt block (wards etc. follow)
        if isinstance(st, ast.Assign) and _n(st.targets[0]) == "w":
            break
        body.append(st)
    sy.run(body, take_s)
    try:
        x["shunt_p"] = sy.out["net['res_shunt']['p_mw'].values[:]"]
        x["shunt_q"] = sy.out["net['res_shunt']['q_mvar'].values[:]"]
    except KeyError:
        raise Untranslatable("res_shunt assignments not found: " + str(list(sy.out)))

    bb, _ = parse_file(f"{repo}/pandapower/build_bus.py")
    fn = find_def(bb, "_calc_shunts_and_add_on_ppc")
    leaves = {"ppc['bus'][bus_lookup[s['bus'].values],BASE_KV]": "vb", "s['vn_kv'].values": "vn", "shunt_vn_kv": "vn", "s['p_mw'].values": "p",
              "s['q_mvar'].values": "q", "s['step'].values": "step", "vl": "isv", "base_multiplier": "(1 : K)"}
    sy = Sym(leaves)
    exprs = {"p": set(), "q": set()}
    for n in ast.walk(fn):
        if isinstance(n, ast.Assign) and _n(n.targets[0]) == "v_ratio" and ("s['vn_kv']" in _n(n.value) or "shunt_vn_kv" in _n(n.value)):
            sy.env["v_ratio"] = sy.expr(n.value)
    if "v_ratio" not in sy.env:
        raise Untranslatable("shunt v_ratio not found")
    for n in ast.walk(fn):
        if isinstance(n, ast.Assign) and _n(n.targets[0]) in ("p", "q") and isinstance(n.value, ast.Call) \
                and _n(n.value.func) == "np.hstack":
            el = n.value.args[0].elts[1]
            t = _n(el)
            if "s['" in t and "step_dependency_table" not in t:
                exprs[_n(n.targets[0])].add(sy.expr(el))
    if len(exprs["p"]) != 1 or len(exprs["q"]) != 1:
        raise Untranslatable(f"shunt ppc expressions not unique: {exprs}")
    x["shunt_gs"], x["shunt_bs"] = exprs["p"].pop(), exprs["q"].pop()

    # (c) set points
    bg, _ = parse_file(f"{repo}/pandapower/build_gen.py")
    g = _n(find_def(bg, "_build_pp_gen"))
    x["gen_vg"] = "vm_pu" if "gen_is_vm=net['gen']['vm_pu'].values[gen_is]" in g and "ppc['gen'][f:t,VG]=gen_is_vm" in g else None
    x["gen_bus_vm"] = "vm_pu" if "ppc['bus'][gen_buses,VM]=gen_is_vm" in g else None
    x["gen_pg"] = "p*s" if "ppc['gen'][f:t,PG]=net['gen']['p_mw'].values[gen_is]*net['gen']['scaling'].values[gen_is]" in g else None
    e = _n(find_def(bg, "_build_pp_ext_grid"))
    x["eg_vm"] = "vm_pu" if "ppc['bus'][eg_buses,VM]=net['ext_grid']['vm_pu'].values[eg_is]" in e else None
    x["eg_va"] = "va_degree" if "ppc['bus'][eg_buses,VA]=net['ext_grid']['va_degree'].values[eg_is]" in e else None
    for k in ("gen_vg", "gen_bus_vm", "gen_pg", "eg_vm", "eg_va"):
        if x[k] is None:
            raise Untranslatable(f"set-point assignment {k} not recognised")

    # (d) Q-limit loop
    nr, _ = parse_file(f"{repo}/pandapower/pf/run_newton_raphson_pf.py")
    fn = find_def(nr, "_run_ac_pf_with_qlims_enforced")
    t = _n(fn)
    cmpops = {}
    for n in ast.walk(fn):
        if isinstance(n, ast.Assign) and _n(n.targets[0]) in ("qg_max_lim", "qg_min_lim") and isinstance(n.value, ast.Compare):
            c = n.value
            a, b = _n(c.left), _n(c.comparators[0])
            op = {ast.Gt: ">", ast.Lt: "<", ast.GtE: ">=", ast.LtE: "<="}.get(type(c.ops[0]))
            if a != "gen[:,QG]" or b not in ("gen[:,QMAX]", "gen[:,QMIN]") or op is None:
                raise Untranslatable("q-limit comparison not recognised: " + ast.unparse(c))
            cmpops[_n(n.targets[0])] = (op, b[len('gen[:,'):-1])
    if set(cmpops) != {"qg_max_lim", "qg_min_lim"}:
        raise Untranslatable("q-limit comparisons not found")
    x["viol_max"], x["viol_min"] = cmpops["qg_max_lim"], cmpops["qg_min_lim"]
    x["excl_ref"] = ("mx=setdiff1d(find(gen_status&qg_max_lim),ref_gens)" in t and "mn=setdiff1d(find(gen_status&qg_min_lim),ref_gens)" in t)
    x["fix_max"] = "QMAX" if "fixedQg[mx]=gen[mx,QMAX]" in t else None
    x["fix_min"] = "QMIN" if "fixedQg[mn]=gen[mn,QMIN]" in t else None
    x["set_binding"] = "gen[mx,QG]=fixedQg[mx]" in t
    x["restore"] = "gen[limited,QG]=fixedQg[limited]" in t and "gen[limited,GEN_STATUS]=1" in t and "bus[:,[PD,QD]]=bus_backup_p_q" in t
    x["accumulate"] = "limited=r_[limited,mx].astype(int64)" in t
    x["off"] = "gen[limited[i],GEN_STATUS]=0" in t
    for k in ("excl_ref", "set_binding", "restore", "accumulate", "off"):
        if not x[k]:
            raise Untranslatable(f"Q-limit loop: statement '{k}' not found")
    if x["fix_max"] is None or x["fix_min"] is None:
        raise Untranslatable("Q-limit loop: fixed value not recognised")
    return x


def _cmp(spec, q="q"):
    op, col = spec
    lim = {"QMAX": "g.qmax", "QMIN": "g.qmin"}[col]
    return {">": f"decide ({lim} < {q})", "<": f"decide ({q} < {lim})", ">=": f"decide ({lim} ≤ {q})", "<=": f"decide ({q} ≤ {lim})"}[op]


def render(x):
    return f"""-- GENERATED by translate/c04.py from results_bus.py, build_bus.py, build_gen.py, run_newton_raphson_pf.py — do not edit.
import PPVerif.Model.QLimDefs
import Mathlib.Algebra.Field.Defs
namespace PPVerif.Generated.C04
open PPVerif.QLim

section laws
variable {{K : Type}} [Field K]
/-- res_load.p_mw as written by write_voltage_dependend_load_results (voltage_depend_loads = True) -/
def loadP (p s isv czp cip v : K) : K := {x['load_p']}
def loadQ (q s isv czq ciq v : K) : K := {x['load_q']}
/-- res_shunt as written by _get_shunt_results (no step table) -/
def shuntP (p isv step vb vn v : K) : K := {x['shunt_p']}
def shuntQ (q isv step vb vn v : K) : K := {x['shunt_q']}
/-- the MW / Mvar at 1 pu put on the ppc bus (GS, BS) by _calc_shunts_and_add_on_ppc -/
def shuntGS (p isv step vb vn : K) : K := {x['shunt_gs']}
def shuntBS (q isv step vb vn : K) : K := {x['shunt_bs']}
end laws

/-- violation tests of the Q-limit loop as found in the source -/
def violMax (g : Gen) (q : Int) : Bool := {_cmp(x['viol_max'])}
def violMin (g : Gen) (q : Int) : Bool := {_cmp(x['viol_min'])}
/-- value a generator limited at max / min is fixed at -/
def fixMax (g : Gen) : Int := g.{x['fix_max'].lower()}
def fixMin (g : Gen) : Int := g.{x['fix_min'].lower()}
def law : Law := ⟨violMax, violMin, fixMax, fixMin⟩

end PPVerif.Generated.C04
"""
