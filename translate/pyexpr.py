"""Small, *refusing* translators from Python `ast` to Lean text.

Everything here raises `Untranslatable` when the source shape is not one it knows: the caller turns that into a
tie break (DESIGN 2.2 step 1), never into a guess.
"""
import ast


class Untranslatable(Exception):
    pass


def parse_file(path):
    with open(path, "r", encoding="utf-8") as f:
        src = f.read()
    return ast.parse(src, filename=path), src


def find_def(tree, name, cls=None):
    """Return the FunctionDef `name` (inside class `cls` if given) or raise."""
    body = tree.body
    if cls is not None:
        for n in body:
            if isinstance(n, ast.ClassDef) and n.name == cls:
                body = n.body
                break
        else:
            raise Untranslatable(f"class {cls} not found")
    for n in body:
        if isinstance(n, (ast.FunctionDef, ast.AsyncFunctionDef)) and n.name == name:
            return n
    raise Untranslatable(f"function {name} not found")


def lean_str(s):
    return '"' + s.replace("\\", "\\\\").replace('"', '\\"').replace("\n", "\\n") + '"'


def lean_list(items, elem=lean_str):
    return "[" + ", ".join(elem(i) for i in items) + "]"


def bool_expr(node, atoms):
    """Translate a Python boolean expression into a Lean `Bool` term.

    `atoms` is a function  ast-node -> Lean term or None ; it recognises the leaves.
    """
    a = atoms(node)
    if a is not None:
        return a
    if isinstance(node, ast.BoolOp):
        op = " && " if isinstance(node.op, ast.And) else " || "
        return "(" + op.join(bool_expr(v, atoms) for v in node.values) + ")"
    if isinstance(node, ast.UnaryOp) and isinstance(node.op, ast.Not):
        return "(!" + bool_expr(node.operand, atoms) + ")"
    if isinstance(node, ast.Constant) and isinstance(node.value, bool):
        return "true" if node.value else "false"
    raise Untranslatable("boolean expression not recognised: " + ast.unparse(node))


def literal_strings(node):
    """A list/tuple/set literal of string constants -> python list of str."""
    if isinstance(node, (ast.List, ast.Tuple, ast.Set)) and all(
            isinstance(e, ast.Constant) and isinstance(e.value, str) for e in node.elts):
        return [e.value for e in node.elts]
    raise Untranslatable("not a literal list of strings: " + ast.unparse(node))


def names_loaded(node):
    return [n.id for n in ast.walk(node) if isinstance(n, ast.Name) and isinstance(n.ctx, ast.Load)]
