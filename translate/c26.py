"""C26 translator: topology/create_graph.py + graph_searches.py -> Generated/C26.lean

Shape facts of create_nxgraph: per edge table the switch type letter whose open switches interrupt it (and that the mask
is `in_service &= ~open_mask`), the (element, bus) pair matching of open trafo3w switches at BOTH ends of every side
pair, the bus-bus switch mask, the order of the final removal steps, and that calc_distance_to_bus / unsupplied_buses
build the default (multi) graph."""
import ast
from .pyexpr import Untranslatable, parse_file, find_def, lean_str


def _n(x):
    return ast.unparse(x).replace(" ", "").replace('"', "'")


def extract(repo):
    t, _ = parse_file(f"{repo}/pandapower/topology/create_graph.py")
    fn = find_def(t, "create_nxgraph")
    src = _n(fn)
    x = {"tables": []}
    # per table: block `if <tab> is not None:` following `<tab> = get_edge_table(net, '<name>', include_x)`
    names = {}
    for st in fn.body:
        if isinstance(st, ast.Assign) and isinstance(st.value, ast.Call) and _n(st.value.func) == "get_edge_table":
            names[_n(st.targets[0])] = (ast.literal_eval(st.value.args[1]), _n(st.value.args[2]))
    for st in fn.body:
        if isinstance(st, ast.If) and _n(st.test).endswith("isnotNone") and _n(st.test)[:-len("isnotNone")] in names:
            var = _n(st.test)[:-len("isnotNone")]
            tab, inc = names[var]
            body = _n(st)
            et = None
            for letter in ("l", "t", "t3"):
                if f"mask=(net.switch.et.values=='{letter}')&open_sw" in body:
                    et = letter
            if tab in ("line", "trafo"):
                key = "open_lines" if tab == "line" else "open_trafos"
                want = [f"{key}=net.switch.element.values[mask]", f"{key}_mask=np.isin(indices[:,INDEX],{key})", f"in_service&=~{key}_mask"]
                if et != {"line": "l", "trafo": "t"}[tab] or not all(w in body for w in want) or "ifrespect_switches:" not in body:
                    raise Untranslatable(f"{tab}: open-switch mask shape")
            if tab == "trafo3w":
                want = ["open_trafo3w=(open_trafo3w_index+open_trafo3w_buses*1j).flatten()",
                        "open_trafo3w_index=net.switch.element.values[mask]", "open_trafo3w_buses=net.switch.bus.values[mask]",
                        "forBUSin[F_BUS,T_BUS]:", "open_switch=np.isin(indices[:,INDEX]+indices[:,BUS]*1j,open_trafo3w)",
                        "in_service&=~open_switch", "forf,tincombinations(sides,2):", "sides=['hv','mv','lv']"]
                if et != "t3" or not all(w in body for w in want):
                    raise Untranslatable("trafo3w: (element, bus) matching shape")
            if tab not in ("line", "trafo", "trafo3w") and et is not None:
                raise Untranslatable(f"{tab}: unexpected switch mask")
            if f"add_edges(mg,indices,parameter,in_service,net,'{tab}'" not in body:
                raise Untranslatable(f"{tab}: add_edges call")
            x["tables"].append((tab, inc, et))
    if [a for a, _, _ in x["tables"]] != ["line", "impedance", "tcsc", "dcline", "trafo", "trafo3w"]:
        raise Untranslatable("edge tables: " + str(x["tables"]))
    for w in ("in_service=(switch.et.values=='b')&~open_sw", "in_service=switch.et.values=='b'",
              "indices[:,F_BUS]=switch.bus.values", "indices[:,T_BUS]=switch.element.values",
              "open_sw=~net.switch.closed.values.astype(bool)", "parameter[:,WEIGHT]=line.length_km.values"):
        if w not in src:
            raise Untranslatable("missing: " + w)
    # removal order
    order = []
    for st in fn.body:
        if isinstance(st, ast.If):
            tt = _n(st.test)
            if tt == "nogobusesisnotNone":
                order.append("nogo")
            elif tt == "notravbusesisnotNone":
                order.append("notrav")
            elif tt == "notinclude_out_of_service":
                order.append("oos")
    x["order"] = order
    g, _ = parse_file(f"{repo}/pandapower/topology/graph_searches.py")
    x["calls"] = {}
    for name in ("calc_distance_to_bus", "unsupplied_buses"):
        f = find_def(g, name)
        calls = [n for n in ast.walk(f) if isinstance(n, ast.Call) and _n(n.func) == "create_nxgraph"]
        if len(calls) != 1:
            raise Untranslatable(f"{name}: create_nxgraph call")
        kws = {k.arg: _n(k.value) for k in calls[0].keywords}
        x["calls"][name] = kws
    d = find_def(g, "calc_distance_to_bus")
    rets = [_n(n.value) for n in ast.walk(d) if isinstance(n, ast.Return)]
    if rets != ["pd.Series(nx.single_source_dijkstra_path_length(g,bus,weight=weight))"]:
        raise Untranslatable("calc_distance_to_bus return: " + str(rets))
    return x


def render(x):
    def opt(s):
        return "none" if s is None else f"some {lean_str(s)}"
    tabs = ", ".join(f"({lean_str(a)}, {lean_str(b)}, {opt(c)})" for a, b, c in x["tables"])
    calls = ", ".join(f"({lean_str(k)}, [{', '.join('(' + lean_str(a) + ', ' + lean_str(b) + ')' for a, b in sorted(v.items()))}])"
                      for k, v in x["calls"].items())
    return f"""-- GENERATED by translate/c26.py from topology/create_graph.py and graph_searches.py — do not edit.
namespace PPVerif.Generated.C26

/-- (edge table, include option, switch type whose open switches interrupt it) in the order of the add_edges calls -/
def tables : List (String × String × Option String) := [{tabs}]
/-- order of the final node / adjacency removals -/
def removalOrder : List String := [{", ".join(lean_str(o) for o in x['order'])}]
/-- keyword arguments of the create_nxgraph calls in graph_searches.py -/
def graphCalls : List (String × List (String × String)) := [{calls}]

end PPVerif.Generated.C26
"""
