"""C23 translator: build_branch.py + toolbox/grid_modification.py -> Generated/C23.lean

(a) how line / impedance / xward table values become per-unit branch parameters (_calc_line_parameter,
    _calc_impedance_parameters_from_dataframe, _calc_xward_parameter);
(b) the conversion formulas of replace_line_by_impedance, replace_impedance_by_line, replace_xward_by_internal_elements,
    merge_parallel_line, replace_ward_by_internal_elements as Lean field expressions."""
import ast
from fractions import Fraction
from .pyexpr import Untranslatable, parse_file, find_def
from .c04 import Sym as _Sym, _n


class Sym(_Sym):
    def expr(self, n):
        if isinstance(n, ast.Constant) and isinstance(n.value, float) and float(n.value) != int(n.value):
            f = Fraction(repr(n.value))
            return f"(({f.numerator} : K) / {f.denominator})"
        if isinstance(n, ast.Call) and _n(n.func) == "np.square" and len(n.args) == 1:
            return f"({self.expr(n.args[0])} ^ 2)"
        return super().expr(n)


def _assigns(fn):
    return {_n(n.targets[0]): n.value for n in ast.walk(fn) if isinstance(n, ast.Assign) and len(n.targets) == 1}


def _kwargs(fn, callee):
    for n in ast.walk(fn):
        if isinstance(n, ast.Call) and _n(n.func) == callee:
            return n
    raise Untranslatable(f"call of {callee} not found")


def extract(repo):
    x = {}
    bb, _ = parse_file(f"{repo}/pandapower/build_branch.py")
    fn = find_def(bb, "_calc_line_parameter")
    a = _assigns(fn)
    sy = Sym({"line['r_ohm_per_km'].values": "r", "line['x_ohm_per_km'].values": "r", "length_km": "l", "parallel": "p", "base_kv": "vn",
              "net.sn_mva": "sn", "line['c_nf_per_km'].values": "c", "line['g_us_per_km'].values": "g", "net.f_hz": "f",
              "math.pi": "pi"})
    br = a.get("baseR")
    if not (isinstance(br, ast.IfExp) and _n(br.test) == "mode=='pf_3ph'"):
        raise Untranslatable("_calc_line_parameter: baseR not recognised")
    sy.env["baseR"] = sy.expr(br.orelse)
    x["line_r"] = sy.expr(a["branch[f:t,BR_R]"])
    if _n(a["branch[f:t,BR_X]"]).replace("x_ohm", "r_ohm") != _n(a["branch[f:t,BR_R]"]):
        raise Untranslatable("_calc_line_parameter: BR_X is not built like BR_R")
    x["line_b"], x["line_g"] = sy.expr(a["b"]), sy.expr(a["g"])
    if _n(a["branch[f:t,BR_B]"]) != "b" or _n(a["branch[f:t,BR_G]"]) != "g":
        raise Untranslatable("_calc_line_parameter: BR_B / BR_G")

    fn = find_def(bb, "_calc_impedance_parameters_from_dataframe")
    a = _assigns(fn)
    sy = Sym({"rij": "rft", "xij": "rft", "gi": "gf", "bi": "gf", "sn_impedance": "sni", "sn_net": "sn"})
    if not (isinstance(a["sn_factor"], ast.IfExp) and _n(a["sn_factor"].test) == "mode=='pf_3ph'"):
        raise Untranslatable("impedance sn_factor")
    sy.env["sn_factor"] = sy.expr(a["sn_factor"].orelse)
    x["imp_r"], x["imp_g"] = sy.expr(a["r_f"]), sy.expr(a["g_f"])
    if _n(a["x_f"]).replace("xij", "rij") != _n(a["r_f"]) or _n(a["b_f"]).replace("bi", "gi") != _n(a["g_f"]):
        raise Untranslatable("impedance x_f / b_f are not built like r_f / g_f")
    if _n(a["r_asym"]) != "r_t-r_f" or _n(a["r_t"]).replace("rji", "rij") != _n(a["r_f"]):
        raise Untranslatable("impedance asymmetry")

    fn = find_def(bb, "_calc_xward_parameter")
    a = _assigns(fn)
    sy = Sym({"get_values(ppc['bus'][:,BASE_KV],net['xward']['bus'].values,bus_lookup)": "vn", "net.sn_mva": "sn",
              "net['xward']['r_ohm']": "r"})
    sy.env["baseR"] = sy.expr(a["baseR"])
    x["xward_r"] = sy.expr(a["branch[f:t,BR_R]"])
    if _n(a["branch[f:t,BR_X]"]).replace("x_ohm", "r_ohm") != _n(a["branch[f:t,BR_R]"]):
        raise Untranslatable("xward BR_X")

    gm, _ = parse_file(f"{repo}/pandapower/toolbox/grid_modification.py")
    fn = find_def(gm, "replace_line_by_impedance")
    a = _assigns(fn)
    sy = Sym({"line_.r_ohm_per_km": "r", "line_.x_ohm_per_km": "r", "l": "l", "p": "p", "vn": "vn", "sn_mva[i]": "sni",
              "line_.g_us_per_km": "g", "line_.c_nf_per_km": "c", "net.f_hz": "f", "np.pi": "pi"})
    if _n(a["vn"]) != "net.bus.vn_kv.at[line_.from_bus]" or _n(a["p"]) != "line_.parallel" or _n(a["l"]) != "line_.length_km":
        raise Untranslatable("replace_line_by_impedance: vn / p / l are not the values of the line itself")
    sy.env["Zni"] = sy.expr(a["Zni"])
    call = _kwargs(fn, "create_impedance")
    kw = {k.arg: k.value for k in call.keywords}
    x["l2i_r"], x["l2i_g"], x["l2i_b"] = sy.expr(kw["rft_pu"]), sy.expr(kw["gf_pu"]), sy.expr(kw["bf_pu"])
    if _n(kw["xft_pu"]).replace("x_ohm", "r_ohm") != _n(kw["rft_pu"]) or _n(kw["sn_mva"]) != "sn_mva[i]":
        raise Untranslatable("replace_line_by_impedance: xft_pu / sn_mva")
    guard = [n for n in ast.walk(fn) if isinstance(n, ast.If) and _n(n.test) == "line_.c_nf_per_kmorline_.g_us_per_km"]
    if not guard or "only_valid_replace" not in _n(guard[0]):
        raise Untranslatable("replace_line_by_impedance: guard for c / g not found")

    fn = find_def(gm, "replace_impedance_by_line")
    a = _assigns(fn)
    sy = Sym({"imp.rft_pu": "rft", "imp.xft_pu": "rft", "vn": "vn", "imp.sn_mva": "sni"})
    if _n(a["vn"]) != "net.bus.vn_kv.at[imp.from_bus]":
        raise Untranslatable("replace_impedance_by_line: vn")
    sy.env["Zni"] = sy.expr(a["Zni"])
    call = _kwargs(fn, "create_line_from_parameters")
    kw = {k.arg: k.value for k in call.keywords}
    x["i2l_r"] = sy.expr(kw["r_ohm_per_km"])
    if _n(kw["x_ohm_per_km"]).replace("xft", "rft") != _n(kw["r_ohm_per_km"]) or _n(kw["length_km"]) != "1" or \
            _n(kw["parallel"]) != "1" or _n(kw["c_nf_per_km"]) != "0":
        raise Untranslatable("replace_impedance_by_line: keyword arguments")
    guard = [n for n in ast.walk(fn) if isinstance(n, ast.If) and
             _n(n.test) == "notnp.isclose(imp.rft_pu,imp.rtf_pu)ornotnp.isclose(imp.xft_pu,imp.xtf_pu)"]
    if not guard:
        raise Untranslatable("replace_impedance_by_line: symmetry guard not recognised")

    fn = find_def(gm, "replace_xward_by_internal_elements")
    call = _kwargs(fn, "create_impedance")
    sy = Sym({"xward.r_ohm": "r", "xward.x_ohm": "r", "vn": "vn", "net.sn_mva": "sn"})
    if len(call.args) < 6 or _n(call.args[5]) != "net.sn_mva" or _n(call.args[4]).replace("x_ohm", "r_ohm") != _n(call.args[3]):
        raise Untranslatable("replace_xward_by_internal_elements: create_impedance arguments")
    x["xw2i_r"] = sy.expr(call.args[3])
    gcall = _kwargs(fn, "create_gen")
    if [_n(v) for v in gcall.args[1:4]] != ["new_bus", "0", "xward.vm_pu"]:
        raise Untranslatable("replace_xward_by_internal_elements: create_gen arguments")

    fn = find_def(gm, "merge_parallel_line")
    t = _n(fn)
    want = ["y0=1/complex(r0,x0)", "y1=p0*y0", "z1=1/y1", "r1=z1.real", "x1=z1.imag", "g1=p0*g0", "c1=p0*c0", "i_ka1=p0*i_ka0",
            "net.line.at[idx,'parallel']=1", "net.line.at[idx,'r_ohm_per_km']=r1", "net.line.at[idx,'x_ohm_per_km']=x1",
            "net.line.at[idx,'c_nf_per_km']=c1", "net.line.at[idx,'g_us_per_km']=g1", "net.line.at[idx,'max_i_ka']=i_ka1"]
    for w in want:
        if w not in t:
            raise Untranslatable("merge_parallel_line: statement not found: " + w)
    x["merge"] = True

    fn = find_def(gm, "replace_ward_by_internal_elements")
    lc, sc = _kwargs(fn, "create_load"), _kwargs(fn, "create_shunt")
    if [_n(v) for v in lc.args[1:4]] != ["ward.bus", "ward.ps_mw", "ward.qs_mvar"]:
        raise Untranslatable("replace_ward_by_internal_elements: create_load arguments")
    skw = {k.arg: _n(k.value) for k in sc.keywords}
    if _n(sc.args[1]) != "ward.bus" or skw.get("q_mvar") != "ward.qz_mvar" or skw.get("p_mw") != "ward.pz_mw":
        raise Untranslatable("replace_ward_by_internal_elements: create_shunt arguments")
    x["ward"] = True
    return x


def render(x):
    return f"""-- GENERATED by translate/c23.py from build_branch.py and toolbox/grid_modification.py — do not edit.
import Mathlib.Algebra.Field.Defs
namespace PPVerif.Generated.C23
variable {{K : Type}} [Field K]

/-- per-unit series resistance / reactance of a line (`_calc_line_parameter`) -/
def lineR (r l p vn sn : K) : K := {x['line_r']}
/-- per-unit total line susceptance and conductance (BR_B, BR_G) -/
def lineB (c l p vn sn f pi : K) : K := {x['line_b']}
def lineG (g l p vn sn : K) : K := {x['line_g']}
/-- per-unit series value and from-side shunt (BR_G, halved later by makeYbus) of an impedance element -/
def impR (rft sni sn : K) : K := {x['imp_r']}
def impG (gf sni sn : K) : K := {x['imp_g']}
/-- per-unit series value of the internal branch of an xward -/
def xwardR (r vn sn : K) : K := {x['xward_r']}

/-- replace_line_by_impedance: rft_pu / gf_pu / bf_pu given to create_impedance (rated power sni) -/
def l2iR (r l p vn sni : K) : K := {x['l2i_r']}
def l2iG (g l p vn sni : K) : K := {x['l2i_g']}
def l2iB (c l p vn sni f pi : K) : K := {x['l2i_b']}
/-- replace_impedance_by_line: r_ohm_per_km of the 1 km, parallel = 1 line -/
def i2lR (rft vn sni : K) : K := {x['i2l_r']}
/-- replace_xward_by_internal_elements: rft_pu of the impedance (rated power = net.sn_mva) -/
def xw2iR (r vn sn : K) : K := {x['xw2i_r']}

end PPVerif.Generated.C23
"""
