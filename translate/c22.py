"""C22 translator: toolbox/data_modification.py + toolbox/element_selection.py -> Generated/C22.lean

(a) for every element type: the tables whose references `reindex_elements` updates (group members, measurement.element,
    switch.element with its et letter, cost tables, the result table, characteristic ids);
(b) the tables whose bus columns `reindex_buses` updates (element_bus_tuples plus the explicit statements);
(c) the schema of references of the data model (which table refers to which), written down here from the documented
    tables and cross-checked by the harness against the columns of an empty network."""
import ast
from .pyexpr import Untranslatable, parse_file, find_def, lean_str, lean_list, literal_strings
from .c04 import _n

ELEMENTS = ["line", "trafo", "trafo3w", "impedance", "dcline", "load", "sgen", "gen", "ext_grid", "shunt", "ward", "xward", "storage",
            "motor", "asymmetric_load", "asymmetric_sgen"]
COST_ELEMENTS = ["gen", "sgen", "ext_grid", "load", "dcline", "storage"]
SWITCH_ET = {"line": "l", "trafo": "t", "trafo3w": "t3"}
MEAS_ELEMENTS = ["line", "trafo", "trafo3w"]
# tables with a column that holds a bus label (AC side), as in create_empty_network()
BUS_REF_TABLES = ["load", "sgen", "motor", "asymmetric_load", "asymmetric_sgen", "storage", "gen", "switch", "shunt", "svc", "ssc", "vsc",
                  "ext_grid", "line", "trafo", "trafo3w", "impedance", "tcsc", "dcline", "ward", "xward", "measurement", "group",
                  "res_bus", "switch_bb"]


def schema():
    refs = []
    for e, et in SWITCH_ET.items():
        refs.append(("switch", e))
    for e in MEAS_ELEMENTS:
        refs.append(("measurement", e))
    for e in COST_ELEMENTS:
        refs += [("pwl_cost", e), ("poly_cost", e)]
    for e in ELEMENTS:
        refs += [("group", e), ("res_" + e, e)]
    return refs


def extract(repo):
    x = {"schema": schema(), "bus_schema": BUS_REF_TABLES}
    dm, _ = parse_file(f"{repo}/pandapower/toolbox/data_modification.py")
    fn = find_def(dm, "reindex_elements")
    upd = {e: [] for e in ELEMENTS}
    t = _n(fn)
    if "net[element_type].set_index(pd.Index(new_index.values),inplace=True)" not in t:
        raise Untranslatable("reindex_elements: element table reindex statement not found")
    for n in ast.walk(fn):
        if not isinstance(n, ast.If):
            continue
        test, body = _n(n.test), _n(ast.Module(body=n.body, type_ignores=[]))
        if test == "net.group.shape[0]" and "net.group.element_type==element_type" in body and ("get_indices(net.group.element_index.iat[row],lookup)" in body or "[lookup.get(idx,idx)foridxinnet.group.element_index.iat[row]]" in body):
            for e in ELEMENTS:
                upd[e].append("group")
        elif test.startswith("element_typein[") and "net.measurement.loc[affected.index,'element']=get_indices(affected.element,lookup)" in body:
            for e in literal_strings(n.test.comparators[0]):
                if e in upd and f"net.measurement.element_type==element_type" in body:
                    upd[e].append("measurement")
        elif test.startswith("element_typein[") and "net.switch.loc[affected.index,'element']=get_indices(affected.element,lookup)" in body:
            types = literal_strings(n.test.comparators[0])
            mapping = None
            for m in ast.walk(n):
                if isinstance(m, ast.Assign) and _n(m.targets[0]) == "switch_et" and isinstance(m.value, ast.Subscript) \
                        and isinstance(m.value.value, ast.Dict):
                    mapping = {ast.literal_eval(k): ast.literal_eval(v) for k, v in zip(m.value.value.keys, m.value.value.values)}
            for e in types:
                if mapping is not None:
                    ok = mapping.get(e) == SWITCH_ET.get(e) and "net.switch.et==switch_et" in body
                else:
                    ok = "net.switch.et==element_type[0]" in body and SWITCH_ET.get(e) == e[0]
                if ok and e in upd:
                    upd[e].append("switch")
        elif test == "res_table_follows" and ("net[res_table].set_index(pd.Index(new_index.values),inplace=True)" in body or
                                              "net[res_table].set_index(pd.Index(new_index.loc[net[res_table].index].values),inplace=True)" in body):
            # the result rows follow when the result index equals the element index, or (after the repair) when every result
            # row belongs to an element: new_index maps old element labels to new ones
            if "res_table='res_'+element_type" in t and ("net[res_table].index.equals(net[element_type].index)" in t or
                                                          "net[res_table].index.isin(net[element_type].index).all()" in t):
                for e in ELEMENTS:
                    upd[e].append("res_" + e)
    for n in ast.walk(fn):
        if isinstance(n, ast.For) and _n(n.target) == "cost_df":
            dfs = literal_strings(n.iter)
            b = _n(ast.Module(body=n.body, type_ignores=[]))
            if "net[cost_df].et==element_type" in b and "net[cost_df].loc[element_in_cost_df,'element']=get_indices(" in b:
                for e in ELEMENTS:
                    upd[e] += dfs
    x["updates"] = upd

    es, _ = parse_file(f"{repo}/pandapower/toolbox/element_selection.py")
    fn = find_def(es, "element_bus_tuples")
    tuples = []
    for n in ast.walk(fn):
        if isinstance(n, ast.AugAssign) and _n(n.target) == "ebts" and isinstance(n.value, ast.List):
            for el in n.value.elts:
                if isinstance(el, ast.Tuple) and len(el.elts) == 2:
                    tuples.append((ast.literal_eval(el.elts[0]), ast.literal_eval(el.elts[1])))
    if not tuples:
        raise Untranslatable("element_bus_tuples: literal tuples not found")
    fn = find_def(dm, "reindex_buses")
    t = _n(fn)
    busupd = []
    if "forelement,valueinelement_bus_tuples():net[element][value]=get_indices(net[element][value],bus_lookup)" in t.replace("\n", ""):
        busupd += sorted(set(e for e, _c in tuples))
    if "net.res_bus.index=get_indices(net.res_bus.index,bus_lookup)" in t:
        busupd.append("res_bus")
    if "net.group.element_type=='bus'" in t and "get_indices(net.group.element_index.iat[row],bus_lookup)" in t:
        busupd.append("group")
    if "bus_meas=net.measurement.element_type=='bus'" in t and "net.measurement.loc[bus_meas,'element']=get_indices(" in t:
        busupd.append("measurement")
    if "bb_switches=net.switch[net.switch.et=='b']" in t and "net.switch.loc[bb_switches.index,'element']=get_indices(bb_switches.element,bus_lookup)" in t:
        busupd.append("switch_bb")
    x["bus_updates"] = busupd
    return x


def render(x):
    pair = lambda p: f"({lean_str(p[0])}, {lean_str(p[1])})"           # noqa
    upd = ", ".join(f"({lean_str(k)}, {lean_list(v)})" for k, v in x["updates"].items())
    return f"""-- GENERATED by translate/c22.py from toolbox/data_modification.py and toolbox/element_selection.py — do not edit.
namespace PPVerif.Generated.C22

/-- references of the data model between element tables: (source table, destination table) -/
def schemaRefs : List (String × String) := [{", ".join(pair(p) for p in x['schema'])}]
/-- per destination table: the source tables whose references reindex_elements updates -/
def reindexUpdates : List (String × List String) := [{upd}]
/-- tables holding bus labels, and the ones reindex_buses updates -/
def schemaBusRefs : List String := {lean_list(x['bus_schema'])}
def busUpdates : List String := {lean_list(x['bus_updates'])}

end PPVerif.Generated.C22
"""
