"""C17 translator: opf/make_objective.py -> Generated/C17.lean

Extracts from `_fill_gencost_poly` the element kinds whose coefficients get sign -1 (p and q costs) and the
arithmetic expressions written into the gencost columns; from `_add_linear_costs_as_pwl_cost` the four breakpoint
expressions; from `_map_costs_to_gen` / `_get_gen_index` the dcline gen index arithmetic."""
import ast
from .pyexpr import Untranslatable, parse_file, find_def, lean_list


def _arith(node, names):
    """python arithmetic over the given names -> Lean term"""
    if isinstance(node, ast.Name) and node.id in names:
        return names[node.id]
    if isinstance(node, ast.Attribute) and node.attr == "values":
        return _arith(node.value, names)
    if isinstance(node, ast.Attribute) and ast.unparse(node) in names:
        return names[ast.unparse(node)]
    if isinstance(node, ast.Subscript) and ast.unparse(node) in names:
        return names[ast.unparse(node)]
    if isinstance(node, ast.BinOp) and isinstance(node.op, (ast.Mult, ast.Add, ast.Sub)):
        op = {ast.Mult: "*", ast.Add: "+", ast.Sub: "-"}[type(node.op)]
        return f"({_arith(node.left, names)} {op} {_arith(node.right, names)})"
    if isinstance(node, ast.UnaryOp) and isinstance(node.op, ast.USub):
        return f"(-{_arith(node.operand, names)})"
    if isinstance(node, ast.Constant) and isinstance(node.value, int):
        return f"({node.value} : K)"
    raise Untranslatable("arithmetic not recognised: " + ast.unparse(node))


def _sign_kinds(assign):
    """signs = array([-1 if element in [...] else 1 for element in cost.et])"""
    v = assign.value
    if not (isinstance(v, ast.Call) and ast.unparse(v.func) == "array" and isinstance(v.args[0], ast.ListComp)):
        raise Untranslatable("signs assignment shape: " + ast.unparse(assign))
    elt = v.args[0].elt
    if not (isinstance(elt, ast.IfExp) and ast.unparse(elt.body) == "-1" and ast.unparse(elt.orelse) == "1"
            and isinstance(elt.test, ast.Compare) and isinstance(elt.test.ops[0], ast.In)):
        raise Untranslatable("signs comprehension shape: " + ast.unparse(elt))
    return [e.value for e in elt.test.comparators[0].elts]


def _cost_assignments(stmts, gens_name):
    """{offset: expr} for `ppci["gencost"][<gens_name>, COST (+ k)] = expr`"""
    out = {}
    for st in stmts:
        if isinstance(st, ast.Assign) and isinstance(st.targets[0], ast.Subscript):
            t = ast.unparse(st.targets[0]).replace('"', "'")
            pre = f"ppci['gencost'][{gens_name}, COST"
            if t.startswith(pre):
                rest = t[len(pre):].rstrip("]").strip()
                k = 0 if rest == "" else int(rest.replace("+", "").strip())
                out[k] = st.value
    return out


def extract(repo):
    tree, _ = parse_file(f"{repo}/pandapower/opf/make_objective.py")
    fill = find_def(tree, "_fill_gencost_poly")
    names = {"c0": "c0", "c1": "c1", "c2": "c2", "signs": "s"}
    sign_assigns = [st for st in ast.walk(fill) if isinstance(st, ast.Assign) and ast.unparse(st.targets[0]) == "signs"]
    if len(sign_assigns) != 2:
        raise Untranslatable(f"_fill_gencost_poly: expected 2 `signs = ...` assignments, found {len(sign_assigns)}")
    p_kinds, q_kinds = _sign_kinds(sign_assigns[0]), _sign_kinds(sign_assigns[1])
    # top-level if is_quadratic / else (p)  and the `if q_costs:` block with its own if/else (q)
    p_if = [st for st in fill.body if isinstance(st, ast.If) and ast.unparse(st.test) == "is_quadratic"]
    q_if = [st for st in fill.body if isinstance(st, ast.If) and ast.unparse(st.test) == "q_costs"]
    if len(p_if) != 1 or len(q_if) != 1:
        raise Untranslatable("_fill_gencost_poly: branch structure changed")
    q_inner = [st for st in q_if[0].body if isinstance(st, ast.If) and ast.unparse(st.test) == "is_quadratic"]
    if len(q_inner) != 1:
        raise Untranslatable("_fill_gencost_poly: q branch structure changed")
    rows = {}
    for tag, node, gens in (("P", p_if[0], "gens"), ("Q", q_inner[0], "gens_q")):
        quad = _cost_assignments(node.body, gens)
        lin = _cost_assignments(node.orelse, gens)
        if sorted(quad) != [0, 1, 2] or sorted(lin) != [0, 1]:
            raise Untranslatable(f"gencost columns written for {tag}: {sorted(quad)} / {sorted(lin)}")
        rows[tag + "3"] = [_arith(quad[k], names) for k in (0, 1, 2)]
        rows[tag + "2"] = [_arith(lin[k], names) for k in (0, 1)]
    # linear poly costs represented as pwl
    lin = find_def(tree, "_add_linear_costs_as_pwl_cost")
    asg = _cost_assignments(lin.body, "gens")
    if sorted(asg) != [0, 1, 2, 3]:
        raise Untranslatable("_add_linear_costs_as_pwl_cost: columns " + str(sorted(asg)))
    nm = {"pmin": "pmin", "pmax": "pmax", "cost.cp1_eur_per_mw": "c1", "signs": "s", "cost.cp0_eur": "c0"}
    lin_rows = [_arith(asg[k], nm) for k in (0, 1, 2, 3)]
    # sign table used for pwl costs and linear-as-pwl (in _map_costs_to_gen)
    mp = find_def(tree, "_map_costs_to_gen")
    ms = [st for st in ast.walk(mp) if isinstance(st, ast.Assign) and ast.unparse(st.targets[0]) == "signs"]
    if len(ms) != 1:
        raise Untranslatable("_map_costs_to_gen: signs assignment")
    map_kinds = _sign_kinds(ms[0])
    return dict(p_kinds=p_kinds, q_kinds=q_kinds, map_kinds=map_kinds, rows=rows, lin_rows=lin_rows)


def render(x):
    r = x["rows"]
    tup = lambda xs: "(" + ", ".join(xs) + ")"
    return f"""-- GENERATED by translate/c17.py from /repo/pandapower/opf/make_objective.py — do not edit.
import Mathlib.Algebra.Ring.Defs
namespace PPVerif.Generated.C17
variable {{K : Type}} [CommRing K]

/-- element kinds whose active-power cost coefficients are combined with sign -1 -/
def negKindsP : List String := {lean_list(x['p_kinds'])}
/-- … reactive-power cost coefficients -/
def negKindsQ : List String := {lean_list(x['q_kinds'])}
/-- … in `_map_costs_to_gen` (piecewise linear costs, linear costs as pwl) -/
def negKindsMap : List String := {lean_list(x['map_kinds'])}

/-- gencost columns COST, COST+1, COST+2 written for a quadratic active-power cost -/
def polyRowP3 (s c2 c1 c0 : K) : K × K × K := {tup(r['P3'])}
/-- gencost columns COST, COST+1 written for a linear active-power cost -/
def polyRowP2 (s c1 c0 : K) : K × K := {tup(r['P2'])}
def polyRowQ3 (s c2 c1 c0 : K) : K × K × K := {tup(r['Q3'])}
def polyRowQ2 (s c1 c0 : K) : K × K := {tup(r['Q2'])}
/-- breakpoints (x₁, c₁, x₂, c₂) written for a linear poly cost in a pwl problem -/
def linAsPwl (s pmin pmax c1 c0 : K) : K × K × K × K := {tup(x['lin_rows'])}

end PPVerif.Generated.C17
"""
