"""C33 translator: DERController/der_control.py -> Generated/C33.lean

Translates `_saturate_sn_mva_step` (the to_saturate test and the masked assignments of both priority branches) into
Lean functions of one element (p, q, sat), checks the order of the two steps in `_saturate` (area clipping first, then
apparent power), the clipping expression of the area step and the damping expression of `_determine_target_powers`."""
import ast
from .pyexpr import Untranslatable, parse_file, find_def


def _n(x):
    return ast.unparse(x).replace(" ", "")


ATOMS = {"p_pu[to_saturate]": "p", "q_pu[to_saturate]": "q", "sat_s_pu[to_saturate]": "sat",
         "p_pu": "p", "q_pu": "q", "sat_s_pu": "sat"}


def expr(n, env):
    t = _n(n)
    if t in env:
        return env[t]
    if t in ATOMS:
        return env.get(ATOMS[t], ATOMS[t])
    if isinstance(n, ast.Constant) and isinstance(n.value, (int, float)):
        v = n.value
        if float(v) == int(v):
            return f"({int(v)} : K)"
        raise Untranslatable("non-integer literal " + t)
    if isinstance(n, ast.UnaryOp) and isinstance(n.op, ast.USub):
        return f"(-{expr(n.operand, env)})"
    if isinstance(n, ast.BinOp):
        if isinstance(n.op, ast.Pow):
            if _n(n.right) != "2":
                raise Untranslatable("power " + t)
            return f"({expr(n.left, env)} ^ 2)"
        op = {ast.Add: "+", ast.Sub: "-", ast.Mult: "*", ast.Div: "/"}.get(type(n.op))
        if op is None:
            raise Untranslatable("operator in " + t)
        return f"({expr(n.left, env)} {op} {expr(n.right, env)})"
    if isinstance(n, ast.Call):
        f = _n(n.func)
        if f == "np.clip" and len(n.args) == 3:
            return f"(clip {expr(n.args[0], env)} {expr(n.args[1], env)} {expr(n.args[2], env)})"
        if f == "np.sqrt" and len(n.args) == 1:
            return f"(sq {expr(n.args[0], env)})"
        if f == "np.sign" and len(n.args) == 1:
            return f"(sgnK {expr(n.args[0], env)})"
    raise Untranslatable("expression not recognised: " + ast.unparse(n))


def branch(stmts):
    """sequential masked assignments -> final (p, q) expressions"""
    env = {}
    for st in stmts:
        if isinstance(st, ast.If):           # the VDE 4110 warning block: must not assign
            for n in ast.walk(st):
                if isinstance(n, (ast.Assign, ast.AugAssign)):
                    raise Untranslatable("assignment inside the warning block")
            continue
        if isinstance(st, ast.Expr):
            continue
        if not (isinstance(st, ast.Assign) and len(st.targets) == 1):
            raise Untranslatable("statement " + ast.unparse(st))
        tgt = _n(st.targets[0])
        if tgt not in ("p_pu[to_saturate]", "q_pu[to_saturate]"):
            raise Untranslatable("assignment target " + tgt)
        env[ATOMS[tgt]] = expr(st.value, env)
    return env.get("p", "p"), env.get("q", "q")


def extract(repo):
    tree, _ = parse_file(f"{repo}/pandapower/control/controller/DERController/der_control.py")
    fn = find_def(tree, "_saturate_sn_mva_step", cls="DERController")
    x = {}
    body = fn.body
    defs = {_n(s.targets[0]): s.value for s in body if isinstance(s, ast.Assign)}
    if _n(defs.get("sat_s_pu")) != "self.saturate_sn_mva/self.sn_mva":
        raise Untranslatable("sat_s_pu definition")
    ts = defs.get("to_saturate")
    if not (isinstance(ts, ast.Compare) and len(ts.ops) == 1 and isinstance(ts.ops[0], ast.Gt)):
        raise Untranslatable("to_saturate test")
    x["test"] = f"decide ({expr(ts.comparators[0], {})} < {expr(ts.left, {})})"
    outer = [s for s in body if isinstance(s, ast.If)]
    if len(outer) != 1 or _n(outer[0].test) != "any(to_saturate)" or outer[0].orelse:
        raise Untranslatable("`if any(to_saturate)` block")
    inner = outer[0].body
    if len(inner) != 1 or not isinstance(inner[0], ast.If) or _n(inner[0].test) != "self.q_prio":
        raise Untranslatable("priority dispatch")
    x["qprio"] = branch(inner[0].body)
    x["pprio"] = branch(inner[0].orelse)
    ret = [s for s in body if isinstance(s, ast.Return)]
    if len(ret) != 1 or _n(ret[0].value) != "(p_pu,q_pu)":
        raise Untranslatable("return value")
    # _saturate: area step then sn step
    sat = find_def(tree, "_saturate", cls="DERController")
    order = []
    for s in sat.body:
        if isinstance(s, ast.If):
            t = _n(s.test)
            if t == "self.pqv_areaisnotNone":
                order.append("area")
                txt = _n(s)
                if "in_area=self.pqv_area.in_area(p_pu,q_pu,vm_pu)" not in txt or \
                        "q_pu[~in_area]=np.minimum(np.maximum(q_pu[~in_area],min_max_q_pu[:,0]),min_max_q_pu[:,1])" not in txt or \
                        "min_max_q_pu=self.pqv_area.q_flexibility(p_pu=p_pu[~in_area],vm_pu=vm_pu[~in_area])" not in txt:
                    raise Untranslatable("area step shape")
            elif t == "self.saturate_sn_mva_activated":
                order.append("sn")
                if "p_pu,q_pu=self._saturate_sn_mva_step(p_pu,q_pu,vm_pu)" not in _n(s):
                    raise Untranslatable("sn step call")
    x["order"] = order
    det = find_def(tree, "_determine_target_powers", cls="DERController")
    txt = _n(det)
    x["damping"] = ("self.target_p_mw=self.p_mw+(target_p_mw-self.p_mw)/self.damping_coef" in txt and
                    "self.target_q_mvar=self.q_mvar+(target_q_mvar-self.q_mvar)/self.damping_coef" in txt)
    if not x["damping"]:
        raise Untranslatable("damping expressions")
    return x


def render(x):
    return f"""-- GENERATED by translate/c33.py from DERController/der_control.py — do not edit.
import PPVerif.Model.DerDefs
namespace PPVerif.Generated.C33
open PPVerif.Der

variable {{K : Type}} [Field K] [LinearOrder K]

/-- `to_saturate` of one element -/
def toSaturate (sat p q : K) : Bool := {x['test']}
/-- q priority branch: (p, q) written for an element with to_saturate -/
def satQPrio (sq : K → K) (sat p q : K) : K × K := let _ := sq; ({x['qprio'][0]}, {x['qprio'][1]})
/-- p priority branch -/
def satPPrio (sq : K → K) (sat p q : K) : K × K := let _ := sq; ({x['pprio'][0]}, {x['pprio'][1]})
/-- order of the steps in `_saturate` -/
def stepOrder : List String := [{", ".join('"' + o + '"' for o in x['order'])}]

end PPVerif.Generated.C33
"""
