"""C34 translator: run.py / auxiliary.py  ->  lean/PPVerif/PPVerif/Generated/C34.lean

Extracts, from the *working tree* source (never from an imported module):
  * the named parameters of `runpp` with the source text of their defaults,
  * the filter of `_passed_runpp_parameters` (which locals count as "explicitly passed"),
  * the filter building `overrule_options` in `_init_runpp_options`,
  * the keys re-read through `overrule_options.get(k, k)`, the parameters used in decisions,
  * a handful of shape facts (ordering of kwargs.update / kwargs.get, the final `_options.update`).
"""
import ast
from .pyexpr import (Untranslatable, parse_file, find_def, lean_str, lean_list, bool_expr)


def _runpp_defaults(fn):
    args = fn.args
    names = [a.arg for a in args.args]
    if not names or names[0] != "net":
        raise Untranslatable("runpp: first parameter is not net")
    defaults = args.defaults
    named = names[len(names) - len(defaults):]
    if len(named) != len(names) - 1:
        raise Untranslatable("runpp: a named parameter has no default")
    if args.kwarg is None:
        raise Untranslatable("runpp: no **kwargs")
    return [(n, ast.unparse(d)) for n, d in zip(named, defaults)]


def _passed_filter(fn):
    """returns (lean term for filter(inDefaults, valEqDefault), noneWhenUserEmpty, kwargsMerged)"""
    none_when_empty = False
    comp = None
    kwargs_var = None
    merged = False
    defaults_from_signature = False
    for st in fn.body:
        if isinstance(st, ast.If) and len(st.body) == 1 and isinstance(st.body[0], ast.Return) \
                and isinstance(st.body[0].value, ast.Constant) and st.body[0].value.value is None:
            txt = ast.unparse(st.test).replace('"', "'")
            if txt == "'user_pf_options' not in net.keys() or len(net.user_pf_options) == 0":
                none_when_empty = True
            else:
                raise Untranslatable("_passed_runpp_parameters: early return condition changed: " + txt)
        elif isinstance(st, ast.Assign) and len(st.targets) == 1 and isinstance(st.targets[0], ast.Name):
            tgt = st.targets[0].id
            if tgt == "default_parameters":
                if ast.unparse(st.value) == "dict(zip(args[1:], defaults))":
                    defaults_from_signature = True
                else:
                    raise Untranslatable("default_parameters built differently: " + ast.unparse(st.value))
            elif tgt == "passed_parameters":
                if not isinstance(st.value, ast.DictComp):
                    raise Untranslatable("passed_parameters is not a dict comprehension")
                comp = st.value
            elif tgt == "kwargs_parameters":
                if ast.unparse(st.value).replace('"', "'") != "local_parameters.pop('kwargs', None)":
                    raise Untranslatable("kwargs_parameters built differently")
                kwargs_var = tgt
        elif isinstance(st, ast.Expr) and isinstance(st.value, ast.Call):
            if ast.unparse(st.value) == "passed_parameters.update(kwargs_parameters)":
                merged = True
    if comp is None or not defaults_from_signature:
        raise Untranslatable("_passed_runpp_parameters: shape not recognised")
    gen = comp.generators[0]
    if ast.unparse(gen.iter) != "local_parameters.items()" or ast.unparse(gen.target) != "(key, val)" \
            or ast.unparse(comp.key) != "key" or ast.unparse(comp.value) != "val":
        raise Untranslatable("passed_parameters comprehension iterates differently")

    def atoms(n):
        t = ast.unparse(n)
        table = {
            "key not in default_parameters.keys()": "(!inDefaults)",
            "key not in default_parameters": "(!inDefaults)",
            "key in default_parameters.keys()": "inDefaults",
            "key in default_parameters": "inDefaults",
            "val != default_parameters.get(key, None)": "(!valEqDefault)",
            "val != default_parameters.get(key)": "(!valEqDefault)",
            "val != default_parameters[key]": "(!valEqDefault)",
            "val == default_parameters.get(key, None)": "valEqDefault",
            "val == default_parameters[key]": "valEqDefault",
        }
        return table.get(t)
    if len(gen.ifs) == 0:
        term = "true"
    else:
        term = " && ".join(bool_expr(i, atoms) for i in gen.ifs)
    return term, none_when_empty, merged and kwargs_var is not None


def _init_opts(fn):
    params = [a.arg for a in fn.args.args if a.arg not in ("net", "passed_parameters")]
    overrule_keep = None
    kwargs_update_line = None
    first_kwargs_get_line = None
    reread = []
    final_update = False
    guard_ok = False
    body = fn.body
    for st in body:
        # if passed_parameters is not None: overrule_options = {...}
        if isinstance(st, ast.If) and ast.unparse(st.test) == "passed_parameters is not None":
            guard_ok = True
            for s2 in st.body:
                if isinstance(s2, ast.Assign) and ast.unparse(s2.targets[0]) == "overrule_options":
                    comp = s2.value
                    if not isinstance(comp, ast.DictComp):
                        raise Untranslatable("overrule_options is not a dict comprehension")
                    g = comp.generators[0]
                    if ast.unparse(g.iter) != "net.user_pf_options.items()" or ast.unparse(comp.key) != "key" \
                            or ast.unparse(comp.value) != "val":
                        raise Untranslatable("overrule_options comprehension iterates differently")

                    def atoms(n):
                        t = ast.unparse(n)
                        return {"key not in passed_parameters.keys()": "(!inPassed)",
                                "key not in passed_parameters": "(!inPassed)",
                                "key in passed_parameters.keys()": "inPassed",
                                "key in passed_parameters": "inPassed"}.get(t)
                    overrule_keep = " && ".join(bool_expr(i, atoms) for i in g.ifs) if g.ifs else "true"
        if isinstance(st, ast.Expr) and ast.unparse(st.value) == "kwargs.update(overrule_options)":
            kwargs_update_line = st.lineno
        if isinstance(st, ast.Assign) and len(st.targets) == 1 and isinstance(st.targets[0], ast.Name):
            v = st.value
            if isinstance(v, ast.Call) and ast.unparse(v.func) == "kwargs.get":
                if first_kwargs_get_line is None:
                    first_kwargs_get_line = st.lineno
            if isinstance(v, ast.Call) and ast.unparse(v.func) == "overrule_options.get" and len(v.args) == 2 \
                    and isinstance(v.args[0], ast.Constant) and isinstance(v.args[1], ast.Name) \
                    and v.args[0].value == v.args[1].id == st.targets[0].id:
                reread.append((st.targets[0].id, st.lineno))
    last = body[-1]
    if isinstance(last, ast.Expr) and ast.unparse(last.value) == "net._options.update(overrule_options)":
        final_update = True
    if overrule_keep is None or not guard_ok:
        raise Untranslatable("_init_runpp_options: overrule_options construction not recognised")

    # decision uses: loads of a parameter outside (a) its own re-read, (b) `p=p` keywords of _add_*_options calls
    reread_names = {n for n, _ in reread}
    reread_line = dict(reread)
    excluded = set()
    for n in ast.walk(fn):
        if isinstance(n, ast.Call) and isinstance(n.func, ast.Name) and n.func.id in ("_add_ppc_options", "_add_pf_options"):
            for kw in n.keywords:
                if isinstance(kw.value, ast.Name):
                    excluded.add(id(kw.value))
        if isinstance(n, ast.Call) and ast.unparse(n.func) == "overrule_options.get" and len(n.args) == 2 \
                and isinstance(n.args[1], ast.Name):
            excluded.add(id(n.args[1]))
    uses = {}
    for n in ast.walk(fn):
        if isinstance(n, ast.Name) and isinstance(n.ctx, ast.Load) and n.id in params and id(n) not in excluded:
            uses.setdefault(n.id, []).append(n.lineno)
    decision = sorted(uses)
    # a re-read must precede every decision use of its key
    early_use = [p for p in decision if p in reread_line and min(uses[p]) < reread_line[p]]
    kwargs_get_after_update = (kwargs_update_line is not None and
                               (first_kwargs_get_line is None or first_kwargs_get_line > kwargs_update_line))
    return dict(params=params, overrule_keep=overrule_keep, reread=[n for n, _ in reread], decision=decision,
                early_use=early_use, kwargs_get_after_update=kwargs_get_after_update, final_update=final_update)


def _forwarded(fn):
    """named runpp parameters forwarded as `k=k` to _init_runpp_options (in the non-control branch)."""
    out = []
    passed_from_locals = False
    for n in ast.walk(fn):
        if isinstance(n, ast.Call) and isinstance(n.func, ast.Name) and n.func.id == "_init_runpp_options":
            for kw in n.keywords:
                if kw.arg is not None and isinstance(kw.value, ast.Name) and kw.value.id == kw.arg:
                    out.append(kw.arg)
        if isinstance(n, ast.Assign) and ast.unparse(n.targets[0]) == "passed_parameters" \
                and ast.unparse(n.value) == "_passed_runpp_parameters(locals())":
            passed_from_locals = True
    return out, passed_from_locals


def extract(repo):
    run_tree, _ = parse_file(f"{repo}/pandapower/run.py")
    aux_tree, _ = parse_file(f"{repo}/pandapower/auxiliary.py")
    runpp = find_def(run_tree, "runpp")
    defaults = _runpp_defaults(runpp)
    filt, none_when_empty, merged = _passed_filter(find_def(run_tree, "_passed_runpp_parameters"))
    init = _init_opts(find_def(aux_tree, "_init_runpp_options"))
    fwd, from_locals = _forwarded(runpp)
    return dict(defaults=defaults, passed_filter=filt, none_when_empty=none_when_empty, kwargs_merged=merged,
                forwarded=fwd, passed_from_locals=from_locals, **init)


def render(x):
    b = lambda v: "true" if v else "false"
    pairs = "[" + ", ".join(f"({lean_str(k)}, {lean_str(v)})" for k, v in x["defaults"]) + "]"
    return f"""-- GENERATED by translate/c34.py from /repo/pandapower/run.py and auxiliary.py — do not edit.
namespace PPVerif.Generated.C34

/-- named parameters of `runpp` with the source text of their defaults -/
def runppDefaults : List (String × String) := {pairs}

/-- `_passed_runpp_parameters`: does a local variable count as explicitly passed? -/
def passedFilter (inDefaults valEqDefault : Bool) : Bool := {x['passed_filter']}

/-- `_init_runpp_options`: is a stored user option kept in `overrule_options`? -/
def overruleKeep (inPassed : Bool) : Bool := {x['overrule_keep']}

def noneWhenUserEmpty : Bool := {b(x['none_when_empty'])}
def kwargsMerged : Bool := {b(x['kwargs_merged'])}
def passedFromLocals : Bool := {b(x['passed_from_locals'])}
def kwargsGetAfterUpdate : Bool := {b(x['kwargs_get_after_update'])}
def finalUpdateIsOverrule : Bool := {b(x['final_update'])}

/-- parameters of `_init_runpp_options` -/
def initParams : List String := {lean_list(x['params'])}
/-- keys re-read as `k = overrule_options.get("k", k)` -/
def rereadKeys : List String := {lean_list(x['reread'])}
/-- parameters whose value is used for a decision before `net._options.update(overrule_options)` -/
def decisionUses : List String := {lean_list(x['decision'])}
/-- re-read keys with a use located before the re-read -/
def earlyUses : List String := {lean_list(x['early_use'])}
/-- named runpp parameters forwarded unchanged to `_init_runpp_options` -/
def forwarded : List String := {lean_list(x['forwarded'])}

end PPVerif.Generated.C34
"""
