-- Root of the PPVerif library: imports every hand-written module (generated ones are pulled in by the Props files).
import PPVerif.Audit.Tool
