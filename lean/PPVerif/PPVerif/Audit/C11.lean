import PPVerif.Audit.Tool
import PPVerif.Props.C11
#audit_module PPVerif.Props.C11
