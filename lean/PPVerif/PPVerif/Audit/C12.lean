import PPVerif.Audit.Tool
import PPVerif.Props.C12
#audit_module PPVerif.Props.C12
