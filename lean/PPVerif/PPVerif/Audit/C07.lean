import PPVerif.Audit.Tool
import PPVerif.Props.C07
#audit_module PPVerif.Props.C07
