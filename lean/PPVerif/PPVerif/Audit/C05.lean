import PPVerif.Audit.Tool
import PPVerif.Props.C05
#audit_module PPVerif.Props.C05
