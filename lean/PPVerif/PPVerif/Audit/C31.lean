import PPVerif.Audit.Tool
import PPVerif.Props.C31
#audit_module PPVerif.Props.C31
