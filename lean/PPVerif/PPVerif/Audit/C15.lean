import PPVerif.Audit.Tool
import PPVerif.Props.C15
#audit_module PPVerif.Props.C15
