import PPVerif.Audit.Tool
import PPVerif.Props.C16
#audit_module PPVerif.Props.C16
