import PPVerif.Audit.Tool
import PPVerif.Props.C23
#audit_module PPVerif.Props.C23
