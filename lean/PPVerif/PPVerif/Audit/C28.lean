import PPVerif.Audit.Tool
import PPVerif.Props.C28
#audit_module PPVerif.Props.C28
