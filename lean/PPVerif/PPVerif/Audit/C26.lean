import PPVerif.Audit.Tool
import PPVerif.Props.C26
#audit_module PPVerif.Props.C26
