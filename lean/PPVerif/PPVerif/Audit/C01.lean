import PPVerif.Audit.Tool
import PPVerif.Props.C01
#audit_module PPVerif.Props.C01
