import PPVerif.Audit.Tool
import PPVerif.Props.C18
#audit_module PPVerif.Props.C18
