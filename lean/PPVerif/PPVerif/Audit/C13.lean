import PPVerif.Audit.Tool
import PPVerif.Props.C13
#audit_module PPVerif.Props.C13
