import PPVerif.Audit.Tool
import PPVerif.Props.C02
#audit_module PPVerif.Props.C02
