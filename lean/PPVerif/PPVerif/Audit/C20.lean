import PPVerif.Audit.Tool
import PPVerif.Props.C20
#audit_module PPVerif.Props.C20
