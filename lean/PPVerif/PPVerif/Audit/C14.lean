import PPVerif.Audit.Tool
import PPVerif.Props.C14
#audit_module PPVerif.Props.C14
