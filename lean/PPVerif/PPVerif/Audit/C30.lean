import PPVerif.Audit.Tool
import PPVerif.Props.C30
#audit_module PPVerif.Props.C30
