import PPVerif.Audit.Tool
import PPVerif.Props.C27
#audit_module PPVerif.Props.C27
