import PPVerif.Audit.Tool
import PPVerif.Props.C03
#audit_module PPVerif.Props.C03
