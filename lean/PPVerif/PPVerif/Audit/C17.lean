import PPVerif.Audit.Tool
import PPVerif.Props.C17
#audit_module PPVerif.Props.C17
