import PPVerif.Audit.Tool
import PPVerif.Props.C24
#audit_module PPVerif.Props.C24
