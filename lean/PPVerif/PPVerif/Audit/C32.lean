import PPVerif.Audit.Tool
import PPVerif.Props.C32
#audit_module PPVerif.Props.C32
