import PPVerif.Audit.Tool
import PPVerif.Props.C29
#audit_module PPVerif.Props.C29
