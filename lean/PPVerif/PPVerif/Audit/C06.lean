import PPVerif.Audit.Tool
import PPVerif.Props.C06
#audit_module PPVerif.Props.C06
