import PPVerif.Audit.Tool
import PPVerif.Props.C04
#audit_module PPVerif.Props.C04
