/-
  Audit command: `#audit_module PPVerif.Props.C34` lists every theorem declared in that module
  (internal auxiliary declarations excluded) together with the axioms it depends on.
  Output lines:  AUDIT <name> :: <ax1> <ax2> ...
-/
import Lean
open Lean Elab Command

namespace PPVerif.Audit

def isUserName (n : Name) : Bool :=
  !n.isInternalDetail && !(n.components.any fun c =>
    let s := c.toString
    s.startsWith "_" || s.startsWith "match_" || s.startsWith "proof_" || s == "eq_def" ||
    (s.startsWith "eq_" && (s.drop 3).all Char.isDigit))

elab "#audit_module " m:ident : command => do
  let env ← getEnv
  let modName := m.getId
  let some idx := env.getModuleIdx? modName
    | throwError "module {modName} not imported"
  let mut names : Array Name := #[]
  for (n, ci) in env.constants.map₁.toList do
    if env.getModuleIdxFor? n == some idx then
      match ci with
      | .thmInfo _ => if isUserName n then names := names.push n
      | _ => pure ()
  let sorted := names.qsort (fun a b => a.toString < b.toString)
  for n in sorted do
    let axs ← liftCoreM <| collectAxioms n
    let axs := axs.qsort (fun a b => a.toString < b.toString)
    logInfo m!"AUDIT {n} :: {" ".intercalate (axs.toList.map toString)}"
  logInfo m!"AUDIT-COUNT {sorted.size}"

end PPVerif.Audit
