import PPVerif.Audit.Tool
import PPVerif.Props.C09
#audit_module PPVerif.Props.C09
