import PPVerif.Audit.Tool
import PPVerif.Props.C08
#audit_module PPVerif.Props.C08
