import PPVerif.Audit.Tool
import PPVerif.Props.C19
#audit_module PPVerif.Props.C19
