import PPVerif.Audit.Tool
import PPVerif.Props.C22
#audit_module PPVerif.Props.C22
