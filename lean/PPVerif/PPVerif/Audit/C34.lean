import PPVerif.Audit.Tool
import PPVerif.Props.C34
#audit_module PPVerif.Props.C34
