import PPVerif.Audit.Tool
import PPVerif.Props.C25
#audit_module PPVerif.Props.C25
