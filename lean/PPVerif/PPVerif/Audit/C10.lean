import PPVerif.Audit.Tool
import PPVerif.Props.C10
#audit_module PPVerif.Props.C10
