import PPVerif.Audit.Tool
import PPVerif.Props.C33
#audit_module PPVerif.Props.C33
