import PPVerif.Audit.Tool
import PPVerif.Props.C21
#audit_module PPVerif.Props.C21
