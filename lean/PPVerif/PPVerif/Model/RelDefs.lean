/-
  Relational view of a pandapower net (property C22): rows (table, label) and references
  (source row, destination table, target label): bus columns of elements, switch.element by et, measurement.element by
  element_type, cost.element by et, group members, controller targets, characteristic ids, res_X rows → X rows.
  Operations: re-indexing a table with a list of source tables whose references are updated (as coded), dropping rows with
  cascade, fusing two rows, creating rows, disjoint union.  Import-free.
-/
namespace PPVerif.Rel

abbrev T := Nat

structure Ref where
  src : T
  srcIdx : Nat
  dst : T
  target : Nat
  deriving DecidableEq, Repr

structure Net where
  rows : List (T × Nat)
  refs : List Ref
  deriving Repr

def has (n : Net) (t : T) (i : Nat) : Bool := n.rows.contains (t, i)

/-- no dangling reference: source row and target row exist -/
def ok (n : Net) : Bool := n.refs.all fun r => has n r.src r.srcIdx && has n r.dst r.target

/-- sources exist (a reference is a cell of an existing row) -/
def srcOk (n : Net) : Bool := n.refs.all fun r => has n r.src r.srcIdx

/-- `reindex_elements(net, t, lookup = σ)` as coded: the rows of `t` are relabelled (their own cells move with them);
    references into `t` are updated only from the source tables listed in `upd` -/
def reindexWith (upd : T → Bool) (t : T) (σ : Nat → Nat) (n : Net) : Net :=
  { rows := n.rows.map fun p => if p.1 = t then (t, σ p.2) else p
    refs := n.refs.map fun r =>
      { r with srcIdx := if r.src = t then σ r.srcIdx else r.srcIdx
               target := if r.dst = t && upd r.src then σ r.target else r.target } }

/-- rows removed together with the references held in them -/
def dropRows (d : List (T × Nat)) (n : Net) : Net :=
  { rows := n.rows.filter fun p => !d.contains p
    refs := n.refs.filter fun r => !d.contains (r.src, r.srcIdx) }

/-- source rows of references whose target is missing -/
def orphans (n : Net) : List (T × Nat) := (n.refs.filter fun r => !has n r.dst r.target).map fun r => (r.src, r.srcIdx)

/-- cascade: drop, then keep dropping rows that hold a reference to a missing row -/
def cascade : Nat → Net → Net
  | 0, n => n
  | fuel + 1, n => if (orphans n).isEmpty then n else cascade fuel (dropRows (orphans n) n)

def dropCascade (d : List (T × Nat)) (n : Net) : Net := cascade n.rows.length (dropRows d n)

/-- `fuse_buses(b1, b2)`: references to (t, b2) are redirected to (t, b1), then row (t, b2) goes (with the cells it holds) -/
def redirect (t : T) (b1 b2 : Nat) (r : Ref) : Ref :=
  { r with target := if r.dst = t && r.target = b2 then b1 else r.target }
def fuse (t : T) (b1 b2 : Nat) (n : Net) : Net :=
  dropRows [(t, b2)] { n with refs := n.refs.map (redirect t b1 b2) }

/-- creation of a row with references to given targets -/
def create (t : T) (i : Nat) (targets : List (T × Nat)) (n : Net) : Net :=
  { rows := (t, i) :: n.rows, refs := targets.map (fun p => ⟨t, i, p.1, p.2⟩) ++ n.refs }

/-- `merge_nets`: labels of the second net shifted per table -/
def shift (off : T → Nat) (n : Net) : Net :=
  { rows := n.rows.map fun p => (p.1, p.2 + off p.1)
    refs := n.refs.map fun r => ⟨r.src, r.srcIdx + off r.src, r.dst, r.target + off r.dst⟩ }
def union (a b : Net) : Net := { rows := a.rows ++ b.rows, refs := a.refs ++ b.refs }

end PPVerif.Rel
