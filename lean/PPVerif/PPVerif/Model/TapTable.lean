import PPVerif.Model.TapTableDefs
namespace PPVerif.TapTable
variable {V : Type}

theorem mem_merged (tab : List (Row V)) (trs : List Tr) (r : Row V) :
    r ∈ merged tab trs ↔ r ∈ tab ∧ ∃ t ∈ trs, rowMatches r t = true := by
  unfold merged
  simp only [List.mem_flatMap, List.mem_map, List.mem_filter]
  constructor
  · rintro ⟨r', hr', t, ⟨ht, hm⟩, rfl⟩
    exact ⟨hr', t, ht, hm⟩
  · rintro ⟨hr, t, ht, hm⟩
    exact ⟨r, hr, t, ⟨ht, hm⟩, rfl⟩

/-- with unique keys, any two table rows matching the same transformer are the same row -/
theorem unique_match (tab : List (Row V)) (hu : UniqueKeys tab) (a b : Row V) (ha : a ∈ tab) (hb : b ∈ tab)
    (t : Tr) (hma : rowMatches a t = true) (hmb : rowMatches b t = true) : a = b ∨ (a.id = b.id ∧ a.step = b.step) := by
  right
  simp only [rowMatches, Bool.and_eq_true, beq_iff_eq] at hma hmb
  exact ⟨hma.1.trans hmb.1.symm, hma.2.trans hmb.2.symm⟩

theorem find_val_of_unique (tab : List (Row V)) (hu : UniqueKeys tab) (t : Tr) (r : Row V)
    (hr : r ∈ tab) (hm : rowMatches r t = true) :
    (tab.find? (fun r => rowMatches r t)).map (·.val) = some r.val := by
  induction tab with
  | nil => simp at hr
  | cons a tab ih =>
    simp only [UniqueKeys, List.pairwise_cons] at hu
    by_cases ha : rowMatches a t = true
    · simp only [List.find?_cons, ha, Option.map_some]
      rcases List.mem_cons.mp hr with rfl | hr'
      · rfl
      · exfalso
        simp only [rowMatches, Bool.and_eq_true, beq_iff_eq] at ha hm
        exact hu.1 r hr' ⟨ha.1.trans hm.1.symm, ha.2.trans hm.2.symm⟩
    · have ha' : rowMatches a t = false := by simpa using ha
      simp only [List.find?_cons, ha']
      rcases List.mem_cons.mp hr with rfl | hr'
      · exact absurd hm ha
      · exact ih hu.2 hr'

end PPVerif.TapTable
