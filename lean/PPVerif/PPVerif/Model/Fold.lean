/-
  M6 Fold — lemmas about the specification masks (`specMax`, `specWhere`): the fold of any list of evaluated cases
  computes, per element, the true maximum / minimum over the cases the element is valid in, and a cause attaining it.
-/
import PPVerif.Model.FoldDefs
import Mathlib.Order.Defs.LinearOrder
import Mathlib.Order.Basic

namespace PPVerif.Fold

variable {K : Type} [LinearOrder K]

abbrev updS (lit : Int → K) (par : Bool) (c : Nat) (a : Acc K) (o : Obs K) : Acc K :=
  upd specMax specWhere lit par c a o

abbrev runS (lit : Int → K) (par : Bool) (l : List (Nat × Obs K)) (a : Acc K) : Acc K :=
  run specMax specWhere lit par l a

theorem validVal_none_iff (o : Obs K) : validVal o = none ↔ valid o.inService o.val = false := by
  unfold validVal valid isNan
  cases o.inService <;> cases o.val <;> simp

theorem validVal_some_iff (o : Obs K) (v : K) :
    validVal o = some v ↔ o.inService = true ∧ o.val = some v := by
  unfold validVal
  cases o.inService <;> simp

theorem updS_invalid (lit : Int → K) (par : Bool) (c : Nat) (a : Acc K) (o : Obs K) (h : validVal o = none) :
    updS lit par c a o = { a with started := true } := by
  have hv := (validVal_none_iff o).mp h
  simp [updS, upd, specMax, specWhere, hv]

theorem updS_valid (lit : Int → K) (par : Bool) (c : Nat) (a : Acc K) (o : Obs K) (v : K)
    (h : validVal o = some v) :
    updS lit par c a o =
      { max := fmaxN (some v) a.max, min := fminN (some v) a.min,
        cause := if (isNan a.max || gtN (some v) a.max) then some c else a.cause, started := true } := by
  obtain ⟨h1, h2⟩ := (validVal_some_iff o v).mp h
  simp [updS, upd, specMax, specWhere, valid, isNan, h1, h2]

/-- the invariant relating the running aggregate to the list of cases folded so far -/
structure Inv (l : List (Nat × Obs K)) (a : Acc K) : Prop where
  max_ub : ∀ co ∈ l, ∀ v, validVal co.2 = some v → ∃ m, a.max = some m ∧ v ≤ m
  max_mem : ∀ m, a.max = some m → ∃ co ∈ l, validVal co.2 = some m
  min_lb : ∀ co ∈ l, ∀ v, validVal co.2 = some v → ∃ m, a.min = some m ∧ m ≤ v
  min_mem : ∀ m, a.min = some m → ∃ co ∈ l, validVal co.2 = some m
  cause_att : ∀ c, a.cause = some c → a.max ≠ none ∧ ∃ o, (c, o) ∈ l ∧ validVal o = a.max
  cause_some : a.max ≠ none → a.cause ≠ none

theorem inv_init : Inv ([] : List (Nat × Obs K)) init := by
  constructor <;> simp [init]

theorem fmaxN_some_none (v : K) : fmaxN (some v) none = some v := rfl
theorem fminN_some_none (v : K) : fminN (some v) none = some v := rfl
theorem fmaxN_some_some (v m : K) : fmaxN (some v) (some m) = some (if v < m then m else v) := rfl
theorem fminN_some_some (v m : K) : fminN (some v) (some m) = some (if m < v then m else v) := rfl

theorem inv_step (lit : Int → K) (par : Bool) (l : List (Nat × Obs K)) (a : Acc K) (c : Nat) (o : Obs K)
    (h : Inv l a) : Inv (l ++ [(c, o)]) (updS lit par c a o) := by
  cases hv : validVal o with
  | none =>
    rw [updS_invalid lit par c a o hv]
    constructor
    · intro co hco v hval
      rcases List.mem_append.mp hco with hm | hm
      · exact h.max_ub co hm v hval
      · simp at hm; subst hm; simp [hv] at hval
    · intro m hm
      obtain ⟨co, hco, hval⟩ := h.max_mem m hm
      exact ⟨co, List.mem_append_left _ hco, hval⟩
    · intro co hco v hval
      rcases List.mem_append.mp hco with hm | hm
      · exact h.min_lb co hm v hval
      · simp at hm; subst hm; simp [hv] at hval
    · intro m hm
      obtain ⟨co, hco, hval⟩ := h.min_mem m hm
      exact ⟨co, List.mem_append_left _ hco, hval⟩
    · intro c' hc'
      obtain ⟨hne, o', ho', hval⟩ := h.cause_att c' hc'
      exact ⟨hne, o', List.mem_append_left _ ho', hval⟩
    · exact h.cause_some
  | some v =>
    rw [updS_valid lit par c a o v hv]
    have hlast : (c, o) ∈ l ++ [(c, o)] := by simp
    constructor
    · -- max_ub
      intro co hco w hval
      rcases List.mem_append.mp hco with hm | hm
      · obtain ⟨m, hm1, hm2⟩ := h.max_ub co hm w hval
        simp only [hm1, fmaxN_some_some]
        refine ⟨_, rfl, ?_⟩
        split
        · exact hm2
        · rename_i hlt; exact le_trans hm2 (not_lt.mp hlt)
      · simp at hm; subst hm
        have : w = v := by simpa [hv] using hval.symm
        subst this
        cases hmax : a.max with
        | none => exact ⟨w, by simp [fmaxN_some_none], le_refl _⟩
        | some m =>
          simp only [fmaxN_some_some]
          refine ⟨_, rfl, ?_⟩
          split
          · rename_i hlt; exact le_of_lt hlt
          · exact le_refl _
    · -- max_mem
      intro m hm
      cases hmax : a.max with
      | none =>
        simp [hmax, fmaxN_some_none] at hm; subst hm
        exact ⟨(c, o), hlast, hv⟩
      | some m0 =>
        simp only [hmax, fmaxN_some_some, Option.some.injEq] at hm
        by_cases hlt : v < m0
        · simp [hlt] at hm; subst hm
          obtain ⟨co, hco, hval⟩ := h.max_mem m0 hmax
          exact ⟨co, List.mem_append_left _ hco, hval⟩
        · simp [hlt] at hm; subst hm
          exact ⟨(c, o), hlast, hv⟩
    · -- min_lb
      intro co hco w hval
      rcases List.mem_append.mp hco with hm | hm
      · obtain ⟨m, hm1, hm2⟩ := h.min_lb co hm w hval
        simp only [hm1, fminN_some_some]
        refine ⟨_, rfl, ?_⟩
        split
        · exact hm2
        · rename_i hlt; exact le_trans (not_lt.mp hlt) hm2
      · simp at hm; subst hm
        have : w = v := by simpa [hv] using hval.symm
        subst this
        cases hmin : a.min with
        | none => exact ⟨w, by simp [fminN_some_none], le_refl _⟩
        | some m =>
          simp only [fminN_some_some]
          refine ⟨_, rfl, ?_⟩
          split
          · rename_i hlt; exact le_of_lt hlt
          · exact le_refl _
    · -- min_mem
      intro m hm
      cases hmin : a.min with
      | none =>
        simp [hmin, fminN_some_none] at hm; subst hm
        exact ⟨(c, o), hlast, hv⟩
      | some m0 =>
        simp only [hmin, fminN_some_some, Option.some.injEq] at hm
        by_cases hlt : m0 < v
        · simp [hlt] at hm; subst hm
          obtain ⟨co, hco, hval⟩ := h.min_mem m0 hmin
          exact ⟨co, List.mem_append_left _ hco, hval⟩
        · simp [hlt] at hm; subst hm
          exact ⟨(c, o), hlast, hv⟩
    · -- cause_att
      intro c' hc'
      cases hmax : a.max with
      | none =>
        simp [hmax, isNan] at hc'; subst hc'
        exact ⟨by simp [fmaxN_some_none], o, hlast, by simp [fmaxN_some_none, hv]⟩
      | some m0 =>
        simp only [hmax, isNan, Option.isNone_some, gtN, Bool.false_or, decide_eq_true_eq] at hc'
        by_cases hlt : m0 < v
        · simp [hlt] at hc'; subst hc'
          have : ¬ v < m0 := not_lt.mpr (le_of_lt hlt)
          exact ⟨by simp [fmaxN_some_some], o, hlast, by simp [fmaxN_some_some, this, hv]⟩
        · simp [hlt] at hc'
          obtain ⟨_, o', ho', hval⟩ := h.cause_att c' hc'
          refine ⟨by simp [fmaxN_some_some], o', List.mem_append_left _ ho', ?_⟩
          rw [hval, hmax, fmaxN_some_some]
          by_cases h2 : v < m0
          · simp [h2]
          · have : v = m0 := le_antisymm (not_lt.mp hlt) (not_lt.mp h2)
            simp [this]
    · -- cause_some
      intro _
      cases hmax : a.max with
      | none => simp [isNan]
      | some m0 =>
        by_cases hlt : m0 < v
        · simp [isNan, gtN, hlt]
        · simp only [isNan, Option.isNone_some, gtN, Bool.false_or, hlt, decide_false]
          exact h.cause_some (by simp [hmax])

theorem inv_run_gen (lit : Int → K) (par : Bool) (l pre : List (Nat × Obs K)) (a : Acc K) (h : Inv pre a) :
    Inv (pre ++ l) (runS lit par l a) := by
  induction l generalizing pre a with
  | nil => simpa [runS, run] using h
  | cons x xs ih =>
    have := ih (pre ++ [x]) (updS lit par x.1 a x.2) (inv_step lit par pre a x.1 x.2 h)
    simpa [runS, run, List.append_assoc] using this

theorem inv_run (lit : Int → K) (par : Bool) (l : List (Nat × Obs K)) : Inv l (runS lit par l init) := by
  simpa using inv_run_gen lit par l [] init inv_init

/-- `started = false` only before the first update, where nothing has been recorded yet -/
theorem started_run (mm : MaxMask K) (wh : WhereMask K) (lit : Int → K) (par : Bool) (l : List (Nat × Obs K))
    (a : Acc K) (h : a.started = false → a.max = none) :
    (run mm wh lit par l a).started = false → (run mm wh lit par l a).max = none := by
  induction l generalizing a with
  | nil => simpa [run] using h
  | cons x xs ih =>
    simp only [run, List.foldl_cons]
    apply ih
    intro hs
    simp [upd] at hs

/-- two mask pairs that agree on every reachable state give the same fold -/
theorem run_congr (mm mm' : MaxMask K) (wh wh' : WhereMask K) (lit : Int → K) (par : Bool)
    (hm : ∀ st ins base val cur, (st = false → cur = none) → mm lit st par ins base val cur = mm' lit st par ins base val cur)
    (hw : ∀ ins base val, wh par ins base val = wh' par ins base val)
    (l : List (Nat × Obs K)) (a : Acc K) (ha : a.started = false → a.max = none) :
    run mm wh lit par l a = run mm' wh' lit par l a := by
  induction l generalizing a with
  | nil => rfl
  | cons x xs ih =>
    simp only [run, List.foldl_cons]
    have : upd mm wh lit par x.1 a x.2 = upd mm' wh' lit par x.1 a x.2 := by
      simp [upd, hm a.started x.2.inService x.2.base x.2.val a.max ha, hw]
    rw [this]
    apply ih
    intro hs
    simp [upd] at hs

end PPVerif.Fold
