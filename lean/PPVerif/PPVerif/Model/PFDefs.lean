/-
  M1 PFCore (network level): the per-unit electrical model behind runpp and its result extraction (properties C01, C03,
  C05, C10; element formulas are in ElemDefs.lean for C02).
  A network is a list of branches with their four two-port admittances (as `branch_vectors` computes them), a shunt
  admittance per node (GS + jBS)/baseMVA, and per-node generation and load; voltages are a function Node → R.
  Generic over a commutative ring with conjugation (`star`): the theorems hold over ℂ, the driver executes them over the
  Gaussian rationals ℚ[i].   Nodes are naturals (ppc bus numbers).
-/
import Mathlib.Algebra.Star.Basic
import Mathlib.Algebra.BigOperators.Group.List.Basic
import Mathlib.Algebra.BigOperators.Ring.List
import Mathlib.Algebra.Field.Defs

namespace PPVerif.PF

variable {R : Type} [CommRing R] [StarRing R]

structure Branch (R : Type) where
  f : Nat
  t : Nat
  yff : R
  yft : R
  ytf : R
  ytt : R

/-- current injected into the branch at its from / to terminal -/
def iFrom (b : Branch R) (V : Nat → R) : R := b.yff * V b.f + b.yft * V b.t
def iTo (b : Branch R) (V : Nat → R) : R := b.ytf * V b.f + b.ytt * V b.t

/-- complex power flowing into the branch at its terminals (res_line p_from + j q_from, …, in per unit) -/
def sFrom (b : Branch R) (V : Nat → R) : R := V b.f * star (iFrom b V)
def sTo (b : Branch R) (V : Nat → R) : R := V b.t * star (iTo b V)

/-- row i of Ybus·V (makeYbus: Cf' Yf + Ct' Yt + diag(Ysh)) -/
def iBus (brs : List (Branch R)) (ysh : Nat → R) (V : Nat → R) (i : Nat) : R :=
  (brs.map fun b => (if b.f = i then iFrom b V else 0) + (if b.t = i then iTo b V else 0)).sum + ysh i * V i

/-- power drawn by the bus shunt admittance (GS/BS: shunts, wards, xward shunt part, trafo3w star losses …) -/
def sShunt (ysh : Nat → R) (V : Nat → R) (i : Nat) : R := V i * star (ysh i * V i)

/-- sum of the branch terminal powers at node i -/
def sBranchesAt (brs : List (Branch R)) (V : Nat → R) (i : Nat) : R :=
  (brs.map fun b => (if b.f = i then sFrom b V else 0) + (if b.t = i then sTo b V else 0)).sum

/-- calculated injection S_i = V_i conj((Ybus V)_i) -/
def sCalc (brs : List (Branch R)) (ysh : Nat → R) (V : Nat → R) (i : Nat) : R := V i * star (iBus brs ysh V i)

/-- power-flow mismatch at node i for specified injection `sBus i` (generation minus load, per unit):
    `_evaluate_Fx`: V·conj(Ybus·V) − Sbus -/
def mismatch (brs : List (Branch R)) (ysh : Nat → R) (sBus : Nat → R) (V : Nat → R) (i : Nat) : R :=
  sCalc brs ysh V i - sBus i

/-- nodal imbalance as read from the RESULT tables: generation − load − shunt power − branch terminal powers -/
def imbalance (brs : List (Branch R)) (ysh : Nat → R) (sGen sLoad : Nat → R) (V : Nat → R) (i : Nat) : R :=
  sGen i - sLoad i - sShunt ysh V i - sBranchesAt brs V i

/-- branch losses pl + j ql -/
def sLoss (b : Branch R) (V : Nat → R) : R := sFrom b V + sTo b V

/-! ### voltage dependent (ZIP) loads, over the real scalars K -/

variable {K : Type} [Field K]

/-- one load: p·scaling and its constant-current / constant-impedance fractions -/
structure ZipLoad (K : Type) where
  p : K
  ci : K
  cz : K

/-- per-element law (what res_load reports and what physics means): p (cp + ci vm + cz vm²) -/
def zipElem (l : ZipLoad K) (vm : K) : K := l.p * ((1 - l.ci - l.cz) + l.ci * vm + l.cz * vm ^ 2)

/-- specification: bus load = constant-power contributions + Σ per-element ZIP laws -/
def busLoadSpec (loads : List (ZipLoad K)) (other : K) (vm : K) : K := other + (loads.map (zipElem · vm)).sum

/-- the law the SOLVER applies (build_bus + makeSbus._get_Sload): the whole bus PD (loads and everything else) times
    (c̄p + c̄i vm + c̄z vm²) with the ARITHMETIC MEANS of the fractions over the loads at the bus -/
def busLoadMean (loads : List (ZipLoad K)) (other : K) (vm : K) : K :=
  let n : K := loads.length
  let ci := (loads.map (·.ci)).sum / n
  let cz := (loads.map (·.cz)).sum / n
  (other + (loads.map (·.p)).sum) * ((1 - ci - cz) + ci * vm + cz * vm ^ 2)

/-- the repaired law: absolute constant-current / constant-impedance parts of the bus load -/
def busLoadAbs (loads : List (ZipLoad K)) (other : K) (vm : K) : K :=
  let pd := other + (loads.map (·.p)).sum
  let ai := (loads.map fun l => l.p * l.ci).sum
  let az := (loads.map fun l => l.p * l.cz).sum
  pd + ai * (vm - 1) + az * (vm ^ 2 - 1)

end PPVerif.PF
