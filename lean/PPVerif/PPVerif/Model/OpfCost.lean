/-
  M-OpfCost: OPF cost mapping (property C17).  Mirrors opf/make_objective.py:
  `_fill_gencost_poly` / `_add_linear_costs_as_pwl_cost` (expressions GENERATED from source, see Generated/C17.lean)
  and `costs_from_areas` (hand-written here, tied by correspondence).
-/
import PPVerif.Generated.C17
import Mathlib.Algebra.Field.Defs

namespace PPVerif.OpfCost
open PPVerif.Generated.C17

variable {K : Type}

section ring
variable [CommRing K]

/-- polynomial cost as PYPOWER evaluates it: highest order first -/
def evalPoly3 (r : K × K × K) (pg : K) : K := r.1 * pg ^ 2 + r.2.1 * pg + r.2.2
def evalPoly2 (r : K × K) (pg : K) : K := r.1 * pg + r.2

/-- the user's cost function of an element at its own power `p` -/
def userPoly (c2 c1 c0 p : K) : K := c2 * p ^ 2 + c1 * p + c0

/-- sign with which the ppc generator of an element kind produces the element's power (`pg = sign * p`) -/
def signOf (negKinds : List String) (kind : String) : K := if kind ∈ negKinds then -1 else 1

/-- one cost area `(lower, upper, slope)` -/
abbrev Area (K : Type) := K × K × K

/-- breakpoints of the user's piecewise linear cost (documented convention of create_pwl_cost: the first area
    starts at `lower₁ · slope₁`, every area adds `(upper − lower) · slope`) — `costs_from_areas(points, +1)` -/
def breaksFrom : K → List (Area K) → List (K × K)
  | _, [] => []
  | c, (lo, up, sl) :: rest => (up, c + (up - lo) * sl) :: breaksFrom (c + (up - lo) * sl) rest

def breaks : List (Area K) → List (K × K)
  | [] => []
  | (lo, up, sl) :: rest => (lo, lo * sl) :: breaksFrom (lo * sl) ((lo, up, sl) :: rest)

/-- `costs_from_areas(points, sign)` as coded: for sign −1 the breakpoints are mirrored (x ↦ −x, reversed) -/
def costsFromAreas (pts : List (Area K)) (neg : Bool) : List (K × K) :=
  if neg then (breaks pts).reverse.map (fun xc => (-xc.1, xc.2)) else breaks pts

/-- total cost at the upper end of the last area, closed form -/
def totalAt : K → List (Area K) → K
  | c, [] => c
  | c, (lo, up, sl) :: rest => totalAt (c + (up - lo) * sl) rest

end ring

section field
variable [Field K]

/-- linear interpolation through two breakpoints, as PYPOWER's pwl cost does on one segment -/
def interp2 (x1 c1 x2 c2 x : K) : K := c1 + (c2 - c1) / (x2 - x1) * (x - x1)

end field

end PPVerif.OpfCost
