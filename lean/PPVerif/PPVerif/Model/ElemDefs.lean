/-
  M1 PFCore (element level): from branch parameters to the two-port admittances (properties C02, C03, C21, C23).
  `branchY` is `makeYbus.branch_vectors` for one in-service branch: series impedances seen from both sides (the to-side
  one differs only when an asymmetric column is set), shunt admittances of both sides, complex ratio `tap` at the from
  side.  `wyeDelta` is `build_branch._wye_delta` (T-model transformer → pi parameters).
  Generic over a field with conjugation.
-/
import PPVerif.Model.PFDefs
import Mathlib.Algebra.Field.Defs

namespace PPVerif.Elem
open PPVerif.PF

variable {R : Type} [Field R] [StarRing R]

/-- parameters of one branch as `branch_vectors` sees them -/
structure BrPar (R : Type) where
  zf : R      -- BR_R + j BR_X
  zt : R      -- BR_R + BR_R_ASYM + j (BR_X + BR_X_ASYM)
  ycf : R     -- BR_G + j BR_B
  yct : R     -- BR_G + BR_G_ASYM + j (BR_B + BR_B_ASYM)
  tap : R     -- TAP · exp(j SHIFT)

def branchY (f t : Nat) (p : BrPar R) : Branch R :=
  { f := f, t := t
    ytt := 1 / p.zt + p.yct / 2
    yff := (1 / p.zf + p.ycf / 2) / (p.tap * star p.tap)
    yft := -(1 / p.zf) / star p.tap
    ytf := -(1 / p.zt) / p.tap }

/-- the documented equivalent circuit: ideal transformer of ratio `tap` at the from side, then a pi section -/
def circuitIFrom (p : BrPar R) (vf vt : R) : R := ((vf / p.tap - vt) / p.zf + p.ycf / 2 * (vf / p.tap)) / star p.tap
def circuitITo (p : BrPar R) (vf vt : R) : R := (vt - vf / p.tap) / p.zt + p.yct / 2 * vt

/-- `_wye_delta`: T circuit (za — star point with shunt admittance y — zb) → pi parameters (series z, shunt halves) -/
structure PiPar (R : Type) where
  z : R
  yfHalf : R
  ytHalf : R

def wyeDelta (za zb y : R) : PiPar R :=
  let zc := 1 / y
  let zsum := za * zb + za * zc + zb * zc
  { z := zsum / zc, yfHalf := 1 / (zsum / zb), ytHalf := 1 / (zsum / za) }

/-- terminal currents of the T circuit, through its star-point voltage -/
def teeStar (za zb y vf vt : R) : R := (vf / za + vt / zb) / (1 / za + 1 / zb + y)
def teeIFrom (za zb y vf vt : R) : R := (vf - teeStar za zb y vf vt) / za
def teeITo (za zb y vf vt : R) : R := (vt - teeStar za zb y vf vt) / zb

end PPVerif.Elem
