/-
  Temporary auxiliary elements (property C08): a calculation appends a generator pair per dcline (`_add_auxiliary_elements`),
  works, and `_clean_up` removes THE LAST 2·ndc ROWS of net.gen — whatever they are.  A failure can happen at any stage:
  while the pairs are being added, as a raw exception later, or as a non-convergence that has already cleaned up before
  raising.  The driver's exception handler follows a policy: none / always `_clean_up` / `_clean_up` only if the table is
  longer than before / drop everything beyond the original length (truncate).
  Which driver has which shape is GENERATED (Generated/C08.lean).  Import-free.
-/
namespace PPVerif.Guard

inductive Policy | none | always | rowGuard | truncate
  deriving DecidableEq, Repr

structure Driver where
  name : String
  adds : Nat          -- how often `_add_auxiliary_elements` runs on the path
  policy : Policy
  cleanOnSuccess : Bool
  addInTry : Bool     -- the adding itself is covered by the handler
  deriving Repr

/-- how a run ends: success; an exception while the auxiliary rows are being added (j rows appended so far); a raw
    exception at a later stage k; a non-convergence detected at stage k, which cleans up itself and then raises -/
inductive Outcome | ok | raiseInAdd (j : Nat) | raiseAt (k : Nat) | notConvergedAt (k : Nat)
  deriving Repr

/-- rows of net.gen: user rows are `some label`, auxiliary rows `none` -/
abbrev Rows := List (Option Nat)

def addAux (ndc : Nat) (rows : Rows) : Rows := rows ++ List.replicate (2 * ndc) none
def cleanUp (ndc : Nat) (rows : Rows) : Rows := rows.take (rows.length - 2 * ndc)

def handler (p : Policy) (ndc n0 : Nat) (rows : Rows) : Rows :=
  match p with
  | .none => rows
  | .always => cleanUp ndc rows
  | .rowGuard => if n0 < rows.length then cleanUp ndc rows else rows
  | .truncate => rows.take n0

/-- the user's gen table after the call -/
def run (d : Driver) (ndc : Nat) (user : Rows) (o : Outcome) : Rows :=
  let rows := (List.range d.adds).foldl (fun r _ => addAux ndc r) user
  match o with
  | .ok => if d.cleanOnSuccess then cleanUp ndc rows else rows
  | .raiseInAdd j =>
    if d.adds = 0 then user
    else if d.addInTry then handler d.policy ndc user.length (user ++ List.replicate (min j (2 * ndc)) none)
    else user ++ List.replicate (min j (2 * ndc)) none
  | .raiseAt _ => handler d.policy ndc user.length rows
  | .notConvergedAt _ => handler d.policy ndc user.length (if d.cleanOnSuccess then cleanUp ndc rows else rows)

/-- a driver is safe if it adds once inside its handler, cleans up on success and truncates to the original length on
    failure — or never touches the auxiliary elements at all -/
def safe (d : Driver) : Bool :=
  (d.adds == 1 && d.cleanOnSuccess && d.policy == .truncate && d.addInTry) ||
  (d.adds == 0 && !d.cleanOnSuccess && d.policy == .none)

end PPVerif.Guard
