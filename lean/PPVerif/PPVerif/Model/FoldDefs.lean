/-
  M6 Fold: aggregation of per-case results in the contingency analysis (properties C14, C15).
  Mirrors `_update_contingency_results` (contingency.py) and `_update_contingency_results_parallel`
  (contingency_parallel.py), element by element (the NumPy code is elementwise):

     val          result of the element in the evaluated N-1 case          (NaN = `none`)
     in_service   in-service flag of the element in that case (false for the outaged element itself)
     max_mask     where the case becomes the new cause of the maximum      -- GENERATED from source
     where        where fmax / fmin take the value into the running extreme -- GENERATED from source
     fmax / fmin  NumPy semantics: NaN is ignored

  Import-free: executed by the driver at `Int`; the theorems are in Model/Fold.lean.
-/
namespace PPVerif.Fold

variable {K : Type} [LT K] [DecidableLT K]

/-- `a > b` on floats: false when either side is NaN -/
def gtN : Option K → Option K → Bool
  | some a, some b => decide (b < a)
  | _, _ => false

def isNan (a : Option K) : Bool := a.isNone

/-- `np.fmax(val, cur)` -/
def fmaxN : Option K → Option K → Option K
  | some a, some b => some (if a < b then b else a)
  | some a, none => some a
  | none, b => b

/-- `np.fmin(val, cur)` -/
def fminN : Option K → Option K → Option K
  | some a, some b => some (if b < a then b else a)
  | some a, none => some a
  | none, b => b

/-- what one evaluated case reports for one element -/
structure Obs (K : Type) where
  val : Option K
  inService : Bool      -- flag of the element in the evaluated case (false for the outaged element itself)
  base : Bool := inService   -- flag in the caller's own net (differs from `inService` only for the outaged
                             -- element, and only in the multi-process path, where the outage lives in a copy)

/-- running aggregate of one element.  `cause = none` is the unwritten `np.empty` cell;
    `started` = the key "max_<var>" already exists in the results dict -/
structure Acc (K : Type) where
  max : Option K
  min : Option K
  cause : Option Nat
  started : Bool

def init : Acc K := ⟨none, none, none, false⟩

/-- `dict.get(key, default)` on the running maximum -/
def curOr (started : Bool) (cur dflt : Option K) : Option K := if started then cur else dflt

abbrev MaxMask (K : Type) := (lit : Int → K) → (started par inService base : Bool) → (val cur : Option K) → Bool
abbrev WhereMask (K : Type) := (par inService base : Bool) → (val : Option K) → Bool

/-- `net[element]["in_service"].values` read by the aggregation: the case's own flags in the sequential path
    (the net itself carries the outage), the caller's flags in the multi-process path -/
def netFlag (par inService base : Bool) : Bool := if par then base else inService

/-- one call of `_update_contingency_results(..., nminus1=True, cause = c)` seen from one element -/
def upd (mm : MaxMask K) (wh : WhereMask K) (lit : Int → K) (par : Bool) (c : Nat) (a : Acc K) (o : Obs K) : Acc K :=
  let m := mm lit a.started par o.inService o.base o.val a.max
  let w := wh par o.inService o.base o.val
  { max := if w then fmaxN o.val a.max else a.max
    min := if w then fminN o.val a.min else a.min
    cause := if m then some c else a.cause
    started := true }

def run (mm : MaxMask K) (wh : WhereMask K) (lit : Int → K) (par : Bool) (l : List (Nat × Obs K)) (a : Acc K) : Acc K :=
  l.foldl (fun a co => upd mm wh lit par co.1 a co.2) a

/-- the specification masks -/
def valid (inService : Bool) (val : Option K) : Bool := inService && !isNan val

def specMax : MaxMask K := fun _ _ _ ins _ val cur => valid ins val && (isNan cur || gtN val cur)
def specWhere : WhereMask K := fun _ ins _ val => valid ins val

/-- the masks of the code before the repairs (recorded as `fixed:`): plain `val > current_max` with default -1,
    and, in the parallel aggregation, `~isnan(val)` instead of the case's in-service flags -/
def oldMax : MaxMask K := fun lit st _ _ _ val cur => gtN val (curOr st cur (some (lit (-1))))
def oldWherePar : WhereMask K := fun par ins base val => (if par then !isNan val else netFlag par ins base) && !isNan val

/-- value an element contributes to the extremes of a case (none = does not count) -/
def validVal (o : Obs K) : Option K := if o.inService then o.val else none

/-- causes_overloading: does the case overload some element?  `over val limit` is the elementwise test
    (GENERATED from source; `val > limit`, false on NaN) -/
def overloads (over : Option K → Option K → Bool) (vals limits : List (Option K)) : Bool :=
  (vals.zip limits).any (fun p => over p.1 p.2)

/-- flags after folding the cases: the list of case ids marked `causes_overloading` -/
def flagFold (over : Option K → Option K → Bool) (limits : List (Option K)) (cases : List (Nat × List (Option K))) :
    List Nat :=
  cases.foldl (fun fl c => if overloads over c.2 limits then c.1 :: fl else fl) []

/-! the N-1 loop with its in_service bookkeeping: `restoreInFinally` GENERATED from source -/

inductive Outcome where
  | ok        -- evaluation and update succeeded
  | caught    -- an exception was raised and swallowed (raise_errors = False)
  | raised    -- an exception was raised and propagates (raise_errors = True)
  deriving DecidableEq, Repr

/-- where the statement `net[element].at[i, 'in_service'] = True` sits relative to the `try` of the loop body -/
inductive RestoreMode where
  | inFinally     -- in the `finally:` clause: runs on every path
  | afterTry      -- plain statement after the try: skipped when the exception propagates
  | inTryBody     -- last statement of the `try:` body: skipped whenever the evaluation raises
  | missing
  deriving DecidableEq, Repr

def restores (m : RestoreMode) (oc : Outcome) : Bool :=
  match m, oc with
  | .inFinally, _ => true
  | .afterTry, .raised => false
  | .afterTry, _ => true
  | .inTryBody, .ok => true
  | .inTryBody, _ => false
  | .missing, _ => false

/-- in-service flags as a function; one loop iteration for element `i`; returns (flags, continue?) -/
def loopStep (m : RestoreMode) (i : Nat) (oc : Outcome) (flags : Nat → Bool) : (Nat → Bool) × Bool :=
  if !flags i then (flags, true) else     -- `continue` for elements that are out of service anyway
  let off : Nat → Bool := fun j => if j = i then false else flags j
  let on : Nat → Bool := fun j => if j = i then true else off j
  (if restores m oc then on else off, oc != .raised)

/-- the whole loop; stops at the first propagating exception -/
def loopRun (m : RestoreMode) : List (Nat × Outcome) → (Nat → Bool) → (Nat → Bool)
  | [], f => f
  | (i, oc) :: rest, f =>
    let r := loopStep m i oc f
    if r.2 then loopRun m rest r.1 else r.1

end PPVerif.Fold
