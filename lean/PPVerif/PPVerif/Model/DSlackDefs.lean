/-
  Distributed slack (property C10): what `pfsoln._update_p` / `_split_p_for_gens_at_same_bus` give to the generators of one
  bus that takes part in the balancing (a reference bus or a bus with slack weights), from the bus power found by the
  Newton-Raphson solution.  The arithmetic of the split is GENERATED (Generated/C10.lean).
-/
import PPVerif.Generated.C10
import Mathlib.Algebra.Order.Field.Basic
namespace PPVerif.DSlack
open PPVerif.Generated.C10

/-- a generator row of the ppc at one bus: set point PG, slack weight, member of `ref_gens` (ext_grid or weight ≠ 0) -/
structure G (K : Type) where
  pset : K
  w : K
  ref : Bool

variable {K : Type} [Field K] [LinearOrder K]

def sumRef (f : G K → K) (gs : List (G K)) : K := ((gs.filter (·.ref)).map f).sum
def sumNon (f : G K → K) (gs : List (G K)) : K := ((gs.filter (fun g => !g.ref)).map f).sum

/-- new PG of generator `g` among the generators `gs` of a visited bus whose power is `pbus` -/
def result (gs : List (G K)) (pbus : K) (g : G K) : K :=
  if gs.length ≤ 1 then pbus
  else if g.ref then
    (if 0 < sumRef (·.w) gs then splitW g.pset (sumRef (·.pset) gs) g.w (sumRef (·.w) gs) pbus (sumNon (·.pset) gs)
     else splitEq pbus (sumNon (·.pset) gs) ((gs.filter (·.ref)).length : K))
  else g.pset

end PPVerif.DSlack
