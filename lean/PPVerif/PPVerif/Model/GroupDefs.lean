/-
  M9 Groups: net.group as rows (group id, element type, member list, linked by index or by a reference column) over
  element tables, vs. plain membership sets (property C27).  Mirrors groups.py `create_group`, `attach_to_group`,
  `detach_from_groups`, `drop_group`, `group_element_index`, `set_value_to_group` and the group clean-up of the
  toolbox drop functions (`detach_from_groups` BEFORE the rows are dropped — order GENERATED from source).
  Element types, indices and reference-column values are naturals (names are encoded).  Import-free.
-/
namespace PPVerif.Group

/-- one row of net.group -/
structure Row where
  gid : Nat
  et : Nat
  members : List Nat     -- element indices, or values of the reference column when `byCol`
  byCol : Bool
  deriving DecidableEq, Repr

/-- one row of an element table: index, value of the reference column, in_service -/
structure Elem where
  idx : Nat
  col : Nat
  inService : Bool
  deriving DecidableEq, Repr

structure St where
  rows : List Row
  tbl : Nat → List Elem        -- element type ↦ table

/-- `group_element_index` for one row -/
def resolve (tbl : Nat → List Elem) (r : Row) : List Nat :=
  if r.byCol then ((tbl r.et).filter (fun e => r.members.contains e.col)).map (·.idx) else r.members

def rowOf (st : St) (gid et : Nat) : Option Row := st.rows.find? (fun r => r.gid == gid && r.et == et)

/-- members reported for (group, element type): the code reads THE row of (gid, et) (`group_row` raises when there are
    several); the model takes the union over the matching rows, which is the same thing for the at-most-one row the
    invariant `Uniq` guarantees, and is total -/
def membersOf (st : St) (gid et : Nat) : List Nat :=
  (st.rows.filter (fun r => r.gid == gid && r.et == et)).flatMap (resolve st.tbl)

/-- `pd.Index(a).difference(b)` (as a set: order/duplicates are not observable through membership) -/
def diff (a b : List Nat) : List Nat := a.filter (fun x => !b.contains x)

/-- create_group / the "no row yet" branch of attach_to_group: one new row (non-empty list) -/
def addRow (st : St) (gid et : Nat) (elems : List Nat) (byCol : Bool) : St :=
  { st with rows := st.rows ++ [⟨gid, et, elems, byCol⟩] }

/-- attach_to_group for an existing row with the same link mode: prev + (new \ prev) -/
def attachExisting (st : St) (gid et : Nat) (elems : List Nat) : St :=
  { st with rows := st.rows.map (fun r => if r.gid == gid && r.et == et then { r with members := r.members ++ diff elems r.members } else r) }

def attach (st : St) (gid et : Nat) (elems : List Nat) (byCol : Bool) : St :=
  match rowOf st gid et with
  | some _ => attachExisting st gid et elems
  | none => addRow st gid et elems byCol

/-- keys that `detach_from_groups` removes from a row for the element indices `elems` -/
def keysOf (tbl : Nat → List Elem) (r : Row) (elems : List Nat) : List Nat :=
  if r.byCol then ((tbl r.et).filter (fun e => elems.contains e.idx)).map (·.col) else elems

/-- detach_from_groups(net, et, elems, index): `inT gid` = the group is among the given indices (all groups when
    index is None); rows that become empty disappear -/
def detach (st : St) (et : Nat) (elems : List Nat) (inT : Nat → Bool) : St :=
  let upd := fun (r : Row) => if r.et == et && inT r.gid then { r with members := diff r.members (keysOf st.tbl r elems) } else r
  { st with rows := (st.rows.map upd).filter (fun r => !r.members.isEmpty) }

def dropGroup (st : St) (gid : Nat) : St := { st with rows := st.rows.filter (fun r => r.gid != gid) }

/-- removing rows from an element table -/
def dropRows (st : St) (et : Nat) (elems : List Nat) : St :=
  { st with tbl := fun t => if t == et then (st.tbl t).filter (fun e => !elems.contains e.idx) else st.tbl t }

/-- toolbox drop_elements_simple / drop_buses / drop_lines / drop_trafos: group clean-up and row removal,
    in the order found in the source -/
def dropElems (detachFirst : Bool) (st : St) (et : Nat) (elems : List Nat) : St :=
  if detachFirst then dropRows (detach st et elems (fun _ => true)) et elems else detach (dropRows st et elems) et elems (fun _ => true)

/-- set_group_in_service / set_group_out_of_service: acts on `group_element_index` of every row of the group -/
def setService (st : St) (gid : Nat) (v : Bool) : St :=
  { st with tbl := fun t => (st.tbl t).map (fun e => if (membersOf st gid t).contains e.idx then { e with inService := v } else e) }

end PPVerif.Group
