/-
  Q-limit enforcement loop of `_run_ac_pf_with_qlims_enforced` (property C04).
   * generators with limits, reference flag, status; the power flow is an abstract function from the set of generators
     already limited (switched off and moved to the bus load) to the reactive power of every generator
   * one round: violators among the generators that are on, not reference and not yet limited; they are fixed at the
     limit value and added to the limited list; the loop ends when a round has no violator
   * the violation tests and the fixed values are GENERATED (Generated/C04.lean) and passed in as a `Law`
  Values are integers (the correspondence passes order-preserving ranks of the floats). Import-free.
-/
namespace PPVerif.QLim

structure Gen where
  qmin : Int
  qmax : Int
  isRef : Bool
  on : Bool
  bus : Nat
  deriving Repr

inductive Lim | atMax | atMin
  deriving DecidableEq, Repr

structure Law where
  vmax : Gen → Int → Bool
  vmin : Gen → Int → Bool
  fmax : Gen → Int
  fmin : Gen → Int

abbrev Limited := List (Nat × Lim)

def isLimited (lim : Limited) (i : Nat) : Bool := lim.any (fun e => e.1 == i)

/-- what one generator contributes to the violator list of a round (`mn` wins over `mx`: `fixedQg[mn]` is written last) -/
def viol1 (L : Law) (q : Nat → Int) (lim : Limited) (gi : Gen × Nat) : Option (Nat × Lim) :=
  if gi.1.on && !gi.1.isRef && !isLimited lim gi.2 then
    if L.vmin gi.1 (q gi.2) then some (gi.2, .atMin)
    else if L.vmax gi.1 (q gi.2) then some (gi.2, .atMax) else none
  else none

def violators (L : Law) (gens : List Gen) (q : Nat → Int) (lim : Limited) : Limited :=
  gens.zipIdx.filterMap (viol1 L q lim)

/-- the `while True` loop; `none` = fuel exhausted -/
def run (L : Law) (gens : List Gen) (solve : Limited → Nat → Int) : Nat → Limited → Option Limited
  | 0, _ => none
  | fuel + 1, lim =>
    if (violators L gens (solve lim) lim).isEmpty then some lim
    else run L gens solve fuel (lim ++ violators L gens (solve lim) lim)

/-- reactive power written to the gen table after the loop (`gen[limited, QG] = fixedQg[limited]`) -/
def report (L : Law) (gens : List Gen) (solve : Limited → Nat → Int) (lim : Limited) (i : Nat) : Int :=
  match lim.find? (fun e => e.1 == i), gens[i]? with
  | some (_, .atMax), some g => L.fmax g
  | some (_, .atMin), some g => L.fmin g
  | _, _ => solve lim i

/-- a bus keeps voltage control (PV) while some generator at it is on and not limited (`bustypes`) -/
def pvBus (gens : List Gen) (lim : Limited) (b : Nat) : Bool :=
  gens.zipIdx.any (fun gi => gi.1.bus == b && gi.1.on && !isLimited lim gi.2)

end PPVerif.QLim
