/-
  `BaseAlgebra._merge_mask` (property C19): the rows of a Jacobian block are computed once for the union of the P and Q
  measurement positions; each measurement kind then picks its rows by a Boolean mask over that union.  Import-free.
-/
namespace PPVerif.Mask

/-- total mask: sorted, duplicate-free union (`np.unique(np.concatenate(...))`) -/
def bound (l : List Nat) : Nat := l.foldl max 0 + 1
def total (m1 m2 : List Nat) : List Nat := (List.range (bound (m1 ++ m2))).filter (fun i => m1.contains i || m2.contains i)
/-- membership masks over the total mask -/
def flags (tot m : List Nat) : List Bool := tot.map (fun i => m.contains i)
def mergeMask (m1 m2 : List Nat) : List Nat × List Bool × List Bool := (total m1 m2, flags (total m1 m2) m1, flags (total m1 m2) m2)
/-- rows picked by a Boolean mask -/
def pick (tot : List Nat) (fl : List Bool) : List Nat := ((tot.zip fl).filter (·.2)).map (·.1)

end PPVerif.Mask
