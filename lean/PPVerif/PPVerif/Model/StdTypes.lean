/-
  M-StdTypes: the standard-type registry and `change_std_type` (property C25).
  Mirrors std_types.py: create_std_type, copy_std_types, load_std_type, delete_std_type, rename_std_type,
  change_std_type.  A library is a finite map name ↦ data; data is opaque (`D`).
-/
import PPVerif.Model.Create
namespace PPVerif.StdTypes
open PPVerif.Create

abbrev Lib (D : Type) := String → Option D

inductive Op (D : Type) where
  | create (name : String) (data : D) (overwrite : Bool)
  | copyFrom (src : List (String × D)) (overwrite : Bool)      -- copy_std_types(to_net, from_net): iterates src
  | delete (name : String)
  | rename (old new : String)

variable {D : Type}

def create (lib : Lib D) (name : String) (data : D) (overwrite : Bool) : Lib D :=
  if overwrite || (lib name).isNone then (fun n => if n = name then some data else lib n) else lib

/-- returns the new library, or `none` when the real function raises (library unchanged) -/
def step (lib : Lib D) : Op D → Option (Lib D)
  | .create n d o => some (create lib n d o)
  | .copyFrom src o => some (src.foldl (fun l nd => create l nd.1 nd.2 o) lib)
  | .delete n => if (lib n).isSome then some (fun m => if m = n then none else lib m) else none
  | .rename old new =>
      match lib old with
      | none => none
      | some d => if (lib new).isSome then none
                  else some (fun m => if m = new then some d else if m = old then none else lib m)

def run (lib : Lib D) : List (Op D) → Lib D
  | [] => lib
  | op :: ops => run ((step lib op).getD lib) ops

/-! `change_std_type` on one table row: `cols` = the table's columns -/
def changeCode {V} (cols : List String) (ty : StdType V) (row : String → Option V) (c : String) : Option V :=
  if c ∈ cols then (match ty c with | some v => some v | none => row c) else row c

/-- specification: every parameter the type defines takes the type's value -/
def changeSpec {V} (ty : StdType V) (row : String → Option V) (c : String) : Option V :=
  match ty c with | some v => some v | none => row c

end PPVerif.StdTypes
