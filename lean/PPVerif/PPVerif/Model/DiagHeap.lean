/- Refinement lemmas for the Diagnostic heap model. -/
import PPVerif.Model.DiagHeapDefs
namespace PPVerif.DiagHeap

theorem map_modAt {α β} (g : α → β) (f : α → α) (f' : β → β) (h : ∀ x, g (f x) = f' (g x)) :
    ∀ (i : Nat) (l : List α), (modAt f i l).map g = modAt f' i (l.map g)
  | i, [] => by cases i <;> simp [modAt]
  | 0, x :: xs => by simp [modAt, h]
  | n+1, x :: xs => by simp [modAt, map_modAt g f f' h n xs]

/-- concretisation of an abstract instance under copy semantics -/
def conc (dk : Dict) (df : List Nat) (p : Bool × List Nat) : Inst :=
  { addDefaults := p.1, kwOwn := if p.1 then dk else Dict.empty, fnOwn := (if p.1 then df else []) ++ p.2 }

/-- simulation relation for copy/copy/non-sticky semantics -/
def Rel (dk : Dict) (df : List Nat) (c : St) (a : ASt) : Prop :=
  c.modKw = dk ∧ c.modFn = df ∧ c.insts = a.map (conc dk df)

theorem step_sim (dk : Dict) (df : List Nat) (c : St) (a : ASt) (op : Op)
    (h : Rel dk df c a) :
    let s : Sem := ⟨.copy, .copy, false⟩
    Rel dk df (step s c op).1 (astep dk df a op).1 ∧ (step s c op).2 = (astep dk df a op).2 := by
  obtain ⟨hk, hf, hi⟩ := h
  cases op with
  | new ad =>
    refine ⟨⟨hk, hf, ?_⟩, rfl⟩
    simp [step, astep, hi, conc, hk, hf]
  | register i f =>
    simp only [step, astep, hi, List.getElem?_map]
    cases hai : a[i]? with
    | none => simp [Rel, hk, hf, hi]
    | some p =>
      simp only [Option.map_some, usesModFn]
      have : ((conc dk df p).addDefaults && (Bind.copy == Bind.alias)) = false := by
        cases (conc dk df p).addDefaults <;> rfl
      simp only [this]
      refine ⟨⟨hk, hf, ?_⟩, rfl⟩
      simp only [Bool.false_eq_true, if_false]
      rw [← hi]
      rw [hi]
      symm
      apply map_modAt
      intro x; simp [conc, List.append_assoc]
  | diagnose i kw =>
    simp only [step, astep, hi, List.getElem?_map]
    cases hai : a[i]? with
    | none => simp [Rel, hk, hf, hi]
    | some p =>
      obtain ⟨ad, regs⟩ := p
      simp only [Option.map_some, usesModFn, usesModKw]
      have e1 : ((conc dk df (ad, regs)).addDefaults && (Bind.copy == Bind.alias)) = false := by
        cases (conc dk df (ad, regs)).addDefaults <;> rfl
      simp only [e1]
      refine ⟨⟨hk, hf, hi⟩, ?_⟩
      simp [conc]

theorem run_refines (dk : Dict) (df : List Nat) :
    ∀ (ops : List Op) (c : St) (a : ASt), Rel dk df c a →
      run ⟨.copy, .copy, false⟩ c ops = arun dk df a ops
  | [], _, _, _ => rfl
  | op :: ops, c, a, h => by
    have hs := step_sim dk df c a op h
    simp only [run, arun]
    rw [hs.2, run_refines dk df ops _ _ hs.1]

end PPVerif.DiagHeap
