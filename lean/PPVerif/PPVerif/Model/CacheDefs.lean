/-
  Cached state between calculations (property C09).  A calculation reads entries (lookups, internal ppc, options, in-service
  masks, result tables …): an entry that the call re-assigns first is computed from the current tables, any other entry is
  taken from the cache when present.  The result is a function of the tables and the entries that are used.
  Which entries are re-assigned is GENERATED (Generated/C09.lean).  Import-free.
-/
namespace PPVerif.Cache

structure Sys (K V T R : Type) where
  fresh : T → K → V                -- the entry as computed from the tables
  used : K → Bool                  -- entries the calculation reads
  result : T → (K → V) → R

variable {K V T R : Type}

/-- entries seen by a call -/
def entries (s : Sys K V T R) (resets : K → Bool) (cache : K → Option V) (t : T) : K → V :=
  fun k => if resets k then s.fresh t k else (cache k).getD (s.fresh t k)

def run (s : Sys K V T R) (resets : K → Bool) (cache : K → Option V) (t : T) : R × (K → Option V) :=
  (s.result t (entries s resets cache t), fun k => some (entries s resets cache t k))

/-- history: modifications of the tables and calculations, in any order -/
inductive Op (T : Type) | modify (f : T → T) | calc

def step (s : Sys K V T R) (resets : K → Bool) : (T × (K → Option V)) → Op T → (T × (K → Option V))
  | (t, c), .modify f => (f t, c)
  | (t, c), .calc => (t, (run s resets c t).2)

def after (s : Sys K V T R) (resets : K → Bool) (t0 : T) (ops : List (Op T)) : T × (K → Option V) :=
  ops.foldl (step s resets) (t0, fun _ => none)

end PPVerif.Cache
