/-
  M-TapTable: look-up of tap-dependent values in the transformer characteristic table (property C31).
  Mirrors build_branch.py `_calc_tap_from_dataframe` (table branch) and `_get_vk_values_from_table`:
    filter_df  = (id, step) of the table-dependent transformers
    filtered   = characteristic_table.merge(filter_df, on=[id, step])        -- pandas inner merge, left order
    mapping    = dict(zip(<key of filtered rows>, filtered[value]))            -- last writer wins
    value_i    = mapping.get(<key of transformer i>, 1)
  The key (id alone / (id, step)) is GENERATED from source.
-/
namespace PPVerif.TapTable

inductive KeyMode where
  | idOnly
  | idStep
  deriving DecidableEq, Repr

structure Row (V : Type) where
  id : Nat
  step : Int
  val : V

structure Tr where
  id : Nat
  pos : Int
  deriving DecidableEq, Repr

variable {V : Type}

def rowMatches (r : Row V) (t : Tr) : Bool := r.id == t.id && r.step == t.pos

/-- pandas inner merge on (id, step): one output row per matching (table row, transformer) pair -/
def merged (tab : List (Row V)) (trs : List Tr) : List (Row V) :=
  tab.flatMap (fun r => (trs.filter (rowMatches r)).map (fun _ => r))

/-- does dict key of row `r` equal the key transformer `t` asks for? -/
def keyEq (m : KeyMode) (r : Row V) (t : Tr) : Bool :=
  match m with
  | .idOnly => r.id == t.id
  | .idStep => r.id == t.id && r.step == t.pos

/-- `dict(zip(keys, vals)).get(key_t, default)`: the LAST merged row with the key wins -/
def dictGet (m : KeyMode) (rows : List (Row V)) (t : Tr) : Option V :=
  (rows.reverse.find? (fun r => keyEq m r t)).map (·.val)

def codeLookup (m : KeyMode) (tab : List (Row V)) (trs : List Tr) (t : Tr) (dflt : V) : V :=
  (dictGet m (merged tab trs) t).getD dflt

/-- specification: the table row with the transformer's own (id, tap position); default when there is none -/
def specLookup (tab : List (Row V)) (t : Tr) (dflt : V) : V :=
  ((tab.find? (fun r => rowMatches r t)).map (·.val)).getD dflt

/-- the table has at most one row per (id, step) -/
def UniqueKeys (tab : List (Row V)) : Prop :=
  tab.Pairwise (fun a b => ¬ (a.id = b.id ∧ a.step = b.step))

end PPVerif.TapTable
