/-
  Recycled power flow of a time series (property C12).  The internal ppc consists of parts; a part is a function of some
  element tables (its dependencies).  A recycled step recomputes the flagged parts from the current tables and keeps the
  other parts from the first step.  Which (table, column) gets which flags and which tables each part reads is GENERATED.
  Import-free.
-/
namespace PPVerif.Recycle

/-- tables: a valuation of table names; a part depends on the tables listed in `deps` -/
structure Part (V : Type) where
  deps : List String
  build : (String → V) → V

/-- the ppc of a step: every part, recomputed when flagged, otherwise the one of the first step -/
def recycled {V : Type} (parts : List (Part V)) (flag : Nat → Bool) (first now : String → V) : List V :=
  parts.zipIdx.map fun pi => if flag pi.2 then pi.1.build now else pi.1.build first

def fresh {V : Type} (parts : List (Part V)) (now : String → V) : List V := parts.map fun p => p.build now

end PPVerif.Recycle
