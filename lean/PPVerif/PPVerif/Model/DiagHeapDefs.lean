/-
  M-DiagHeap (definitions): which Python objects a `Diagnostic` instance shares with the module (property C30).
  Mirrors diagnostic/diagnostic.py: `__init__`, `register_function`, `diagnose_network` (argument assembly only).
-/
namespace PPVerif.DiagHeap

inductive Bind where
  | alias   -- `self.x = module_level_object`
  | copy    -- `self.x = dict(module_level_object)` / `list(...)` / literal
  deriving DecidableEq, Repr

structure Sem where
  kwInit : Bind
  fnInit : Bind
  stickyCall : Bool        -- `self.kwargs.update(kwargs)` (true) vs a per-call merged dict (false)
  deriving DecidableEq, Repr

/-- a Python dict restricted to string keys, as a function -/
abbrev Dict := String → Option Int

def Dict.empty : Dict := fun _ => none
/-- `{**d, **kw}` -/
def Dict.update (d kw : Dict) : Dict := fun k => match kw k with | some v => some v | none => d k

structure Inst where
  addDefaults : Bool
  kwOwn : Dict            -- the instance's own dict (used unless it aliases the module dict)
  fnOwn : List Nat        -- the instance's own function list

structure St where
  modKw : Dict
  modFn : List Nat
  insts : List Inst

inductive Op where
  | new (addDefaults : Bool)
  | register (i : Nat) (f : Nat)
  | diagnose (i : Nat) (kw : Dict)

/-- what one `diagnose_network` call works with: the function list and the argument dict -/
structure Obs where
  fns : List Nat
  args : Dict

def modAt {α} (f : α → α) : Nat → List α → List α
  | _, [] => []
  | 0, x :: xs => f x :: xs
  | n+1, x :: xs => x :: modAt f n xs

def usesModKw (s : Sem) (it : Inst) : Bool := it.addDefaults && s.kwInit == Bind.alias
def usesModFn (s : Sem) (it : Inst) : Bool := it.addDefaults && s.fnInit == Bind.alias

def step (s : Sem) (st : St) : Op → St × Option Obs
  | .new ad =>
      ({ st with insts := st.insts ++ [{ addDefaults := ad,
                                          kwOwn := if ad then st.modKw else Dict.empty,
                                          fnOwn := if ad then st.modFn else [] }] }, none)
  | .register i f =>
      match st.insts[i]? with
      | none => (st, none)
      | some it =>
        if usesModFn s it then ({ st with modFn := st.modFn ++ [f] }, none)
        else ({ st with insts := modAt (fun it => { it with fnOwn := it.fnOwn ++ [f] }) i st.insts }, none)
  | .diagnose i kw =>
      match st.insts[i]? with
      | none => (st, none)
      | some it =>
        let base := if usesModKw s it then st.modKw else it.kwOwn
        let fns := if usesModFn s it then st.modFn else it.fnOwn
        let merged := base.update kw
        let st' := if s.stickyCall then
            (if usesModKw s it then { st with modKw := merged }
             else { st with insts := modAt (fun it => { it with kwOwn := merged }) i st.insts })
          else st
        (st', some { fns := fns, args := merged })

def run (s : Sem) : St → List Op → List (Option Obs)
  | _, [] => []
  | st, op :: ops => let r := step s st op; r.2 :: run s r.1 ops

/-! abstract specification: an instance is (add_default_functions, functions registered on *it*) -/
abbrev ASt := List (Bool × List Nat)

def astep (dk : Dict) (df : List Nat) (a : ASt) : Op → ASt × Option Obs
  | .new ad => (a ++ [(ad, [])], none)
  | .register i f =>
      match a[i]? with
      | none => (a, none)
      | some _ => (modAt (fun p => (p.1, p.2 ++ [f])) i a, none)
  | .diagnose i kw =>
      match a[i]? with
      | none => (a, none)
      | some (ad, regs) =>
        (a, some { fns := (if ad then df else []) ++ regs,
                   args := (if ad then dk else Dict.empty).update kw })

def arun (dk : Dict) (df : List Nat) : ASt → List Op → List (Option Obs)
  | _, [] => []
  | a, op :: ops => let r := astep dk df a op; r.2 :: arun dk df r.1 ops

def init (dk : Dict) (df : List Nat) : St := { modKw := dk, modFn := df, insts := [] }

end PPVerif.DiagHeap
