/-
  M11 (control part): `run_control` (property C13).
   * `get_controller_order`: ascending unique levels, per level the in-service controllers of that level by ascending order
   * the loop of `control_implementation` over abstract controllers (is_converged / control_step) and an abstract
     evaluation function (the power flow), with the iteration cap
   * tap controller decision expressions are GENERATED (Generated/C13.lean)
  Import-free.
-/
namespace PPVerif.Ctrl

/-- one row of net.controller -/
structure Row where
  id : Nat
  levels : List Nat
  order : Nat
  inService : Bool
  deriving DecidableEq, Repr

/-- `sorted(set(np.concatenate(level)))` -/
def levelList (rows : List Row) : List Nat :=
  ((rows.flatMap (·.levels)).eraseDups).mergeSort (fun a b => decide (a ≤ b))

/-- controllers run in one level, in running order -/
def levelOrder (rows : List Row) (l : Nat) : List Row :=
  (rows.filter (fun r => r.inService && r.levels.contains l)).mergeSort (fun a b => decide (a.order ≤ b.order))

def controllerOrder (rows : List Row) : List (Nat × List Row) := (levelList rows).map (fun l => (l, levelOrder rows l))

/-! the loop -/
structure C (S : Type) where
  conv : S → Bool
  step : S → S

/-- `_control_step`: every controller in order; the ones that are not converged take a step; returns (state, all converged) -/
def sweep {S : Type} : List (C S) → S → S × Bool
  | [], s => (s, true)
  | c :: cs, s =>
    if c.conv s then sweep cs s
    else ((sweep cs (c.step s)).1, false)

/-- the while loop of one level: at most `fuel` sweeps (= max_iter + 1); `none` = ControllerNotConverged -/
def levelRun {S : Type} (pf : S → S) (cs : List (C S)) : Nat → S → Option S
  | 0, _ => none
  | n+1, s =>
    let r := sweep cs s
    if r.2 then some r.1 else levelRun pf cs n (pf r.1)

/-- all levels in sequence (check_each_level) -/
def runLevels {S : Type} (pf : S → S) (maxIter : Nat) : List (List (C S)) → S → Option S
  | [], s => some s
  | cs :: rest, s =>
    match levelRun pf cs (maxIter + 1) s with
    | none => none
    | some s' => runLevels pf maxIter rest s'

end PPVerif.Ctrl
