/-
  M-Options: precedence of explicit `runpp` arguments over stored user options (property C34).

  Mirrors  run.py:_passed_runpp_parameters  and the head/tail of  auxiliary.py:_init_runpp_options.
  The two filters are *generated from source* (`Generated/C34.lean`); this file only fixes how they are used.
  Maps are modelled as functions `K → Option V` (a Python dict restricted to the keys of interest).
-/
import PPVerif.Generated.C34

namespace PPVerif.Options
open PPVerif.Generated.C34

/-- One call `runpp(net, <named…>, **kw)` on a net with `user_pf_options = user`. -/
structure Call (K V : Type) where
  dflt  : K → Option V      -- signature default (some ⇔ `k` is a named parameter of runpp)
  named : K → Option V      -- named parameters the caller passed explicitly
  kw    : K → Option V      -- parameters the caller passed through **kwargs
  user  : K → Option V      -- net.user_pf_options
  userEmpty : Bool          -- "user_pf_options" not in net or len(...) == 0

variable {K V : Type} [DecidableEq V]

/-- Well-formed calls: what Python's calling convention guarantees. -/
def WF (c : Call K V) : Prop :=
  (∀ k, c.named k ≠ none → c.dflt k ≠ none) ∧
  (∀ k, c.kw k ≠ none → c.dflt k = none) ∧
  (c.userEmpty = true → ∀ k, c.user k = none)

/-- value of the local variable `k` inside `runpp` (named parameters only) -/
def localVal (c : Call K V) (k : K) : Option V :=
  match c.named k with
  | some v => some v
  | none => c.dflt k

/-- is `k` a key of the dict returned by `_passed_runpp_parameters` (when it is not `None`)? -/
def inPassed (c : Call K V) (k : K) : Bool :=
  ((c.dflt k).isSome && passedFilter true (decide (localVal c k = c.dflt k))) ||
  (kwargsMerged && (c.kw k).isSome)

/-- `overrule_options[k]` -/
def overrule (c : Call K V) (k : K) : Option V :=
  if noneWhenUserEmpty && c.userEmpty then none
  else if overruleKeep (inPassed c k) then c.user k else none

/-- the value of option `k` the calculation effectively works with
    (re-read keys before the decisions, every key after the final `_options.update(overrule_options)`) -/
def effCode (c : Call K V) (k : K) : Option V :=
  match overrule c k with
  | some u => some u
  | none =>
    match localVal c k with
    | some v => some v
    | none => c.kw k

/-- what the caller passed explicitly for `k`, by either route -/
def explicitArg (c : Call K V) (k : K) : Option V :=
  match c.named k with
  | some v => some v
  | none => c.kw k

/-- specification (property C34): explicit argument, else stored user option, else default -/
def effSpec (c : Call K V) (k : K) : Option V :=
  match explicitArg c k with
  | some v => some v
  | none =>
    match c.user k with
    | some u => some u
    | none => c.dflt k

/-- the one situation in which the code deviates: an explicit named argument equal to its default is masked by a
    different stored value -/
def Masked (c : Call K V) (k : K) : Prop :=
  match c.named k, c.dflt k, c.user k with
  | some v, some d, some u => v = d ∧ u ≠ v
  | _, _, _ => False

instance (c : Call K V) (k : K) : Decidable (Masked c k) := by
  unfold Masked; split <;> infer_instance

omit [DecidableEq V] in
theorem masked_iff (c : Call K V) (k : K) :
    Masked c k ↔ ∃ v u, c.named k = some v ∧ c.dflt k = some v ∧ c.user k = some u ∧ u ≠ v := by
  unfold Masked
  constructor
  · split
    · rename_i v d u hn hd hu
      rintro ⟨rfl, hne⟩
      exact ⟨v, u, hn, hd, hu, hne⟩
    · intro h; exact h.elim
  · rintro ⟨v, u, hn, hd, hu, hne⟩
    simp [hn, hd, hu, hne]

end PPVerif.Options
