/-
  M-Create: batch creation vs repeated single creation (property C24) and std-type application (C25).

  (A) rows built from a standard type: a create function copies the type's value of key `k` into column `k`
      for the keys in its key list (when the type defines them).  Mirrors create_line/create_lines,
      create_transformer/create_transformers, create_transformer3w/create_transformers3w (hand-written key lists,
      validated against the implementation with sentinel types on every run).
  (B) accept/reject: `_check_element`/`_check_multiple_elements`, `_get_index_with_check` /
      `_get_multiple_index_with_check`, `_cost_existance_check`/`_costs_existance_check`.
-/
namespace PPVerif.Create

/-! ### (A) std-type rows -/

abbrev StdType (V : Type) := String → Option V

/-- the part of a created row that comes from the standard type -/
def stdRow {V} (keys : List String) (ty : StdType V) (col : String) : Option V :=
  if col ∈ keys then ty col else none

structure Pair where
  singleKeys : List String
  batchKeys : List String

/-- keys copied by the single function but not by the batch function -/
def Pair.missing (p : Pair) : List String := p.singleKeys.filter (fun k => !p.batchKeys.contains k)
/-- keys copied by the batch function only -/
def Pair.extra (p : Pair) : List String := p.batchKeys.filter (fun k => !p.singleKeys.contains k)

def linePair : Pair :=
  { singleKeys := ["r_ohm_per_km", "x_ohm_per_km", "c_nf_per_km", "max_i_ka", "g_us_per_km", "type",
                   "r0_ohm_per_km", "x0_ohm_per_km", "c0_nf_per_km"],
    batchKeys  := ["r_ohm_per_km", "x_ohm_per_km", "c_nf_per_km", "max_i_ka", "g_us_per_km", "type",
                   "r0_ohm_per_km", "x0_ohm_per_km", "c0_nf_per_km"] }

def trafoTapKeys (s : String) : List String :=
  [s!"tap{s}_neutral", s!"tap{s}_max", s!"tap{s}_min", s!"tap{s}_side", s!"tap{s}_step_percent",
   s!"tap{s}_step_degree", s!"tap{s}_changer_type"]

def trafoPair : Pair :=
  { singleKeys := ["sn_mva", "vn_hv_kv", "vn_lv_kv", "vk_percent", "vkr_percent", "pfe_kw", "i0_percent",
                   "shift_degree", "vk0_percent", "vkr0_percent", "mag0_percent", "mag0_rx", "si0_hv_partial",
                   "vector_group"] ++ trafoTapKeys "" ++ trafoTapKeys "2",
    batchKeys  := ["i0_percent", "vk0_percent", "vkr0_percent", "mag0_percent", "mag0_rx", "si0_hv_partial",
                   "vector_group", "sn_mva", "vn_lv_kv", "vn_hv_kv", "vk_percent", "vkr_percent", "pfe_kw"] }

def trafo3wPair : Pair :=
  { singleKeys := ["sn_hv_mva", "sn_mv_mva", "sn_lv_mva", "vn_hv_kv", "vn_mv_kv", "vn_lv_kv", "vk_hv_percent",
                   "vk_mv_percent", "vk_lv_percent", "vkr_hv_percent", "vkr_mv_percent", "vkr_lv_percent",
                   "pfe_kw", "i0_percent", "shift_mv_degree", "shift_lv_degree", "tap_side", "tap_step_percent",
                   "tap_step_degree", "tap_neutral", "tap_max", "tap_min", "tap_changer_type"],
    batchKeys  := ["sn_hv_mva", "sn_mv_mva", "sn_lv_mva", "vn_hv_kv", "vn_mv_kv", "vn_lv_kv", "vk_hv_percent",
                   "vk_mv_percent", "vk_lv_percent", "vkr_hv_percent", "vkr_mv_percent", "vkr_lv_percent",
                   "pfe_kw", "i0_percent", "shift_mv_degree", "shift_lv_degree", "tap_side", "tap_step_percent",
                   "tap_step_degree", "tap_neutral", "tap_max", "tap_min", "tap_changer_type"] }

/-! ### (B) accept / reject -/

/-- one requested element: the nodes it attaches to and (optionally) an explicit index / cost key -/
structure Req (K : Type) where
  nodes : List Nat
  key : Option K

variable {K : Type} [DecidableEq K]

/-- sequence of single create calls: each call checks its nodes and its key against the current table,
    then inserts the key (a call without explicit key takes a fresh one and never collides) -/
def singleSeq (nodes : List Nat) : List K → List (Req K) → Bool
  | _, [] => true
  | existing, r :: rs =>
    r.nodes.all (· ∈ nodes) &&
    (match r.key with
     | none => singleSeq nodes existing rs
     | some k => !existing.contains k && singleSeq nodes (k :: existing) rs)

/-- the batch call: all nodes exist, explicit keys are pairwise distinct and none exists already -/
def batchAll (nodes : List Nat) (existing : List K) (rs : List (Req K)) : Bool :=
  rs.all (fun r => r.nodes.all (· ∈ nodes)) &&
  decide ((rs.filterMap (·.key)).Nodup) &&
  (rs.filterMap (·.key)).all (fun k => !existing.contains k)

end PPVerif.Create
