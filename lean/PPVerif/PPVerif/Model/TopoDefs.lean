/-
  M3 Topology: `create_nxgraph` as a function from the tables to a (directed-adjacency) graph (properties C26, C07).
  Mirrors topology/create_graph.py: per element table an `in_service` mask (table flag unless include_out_of_service,
  minus elements behind an open switch when respect_switches), `add_edges`, then: remaining buses added as nodes,
  nogobuses removed, adjacency entries LEAVING notravbuses removed (the code deletes `_adj[b][i]` only), out-of-service
  buses removed.  Bus / element indices are naturals; weights are carried as given.  Import-free.
-/
namespace PPVerif.Topo

inductive Kind where
  | line | impedance | tcsc | dcline | trafo | trafo3w | switch
  deriving DecidableEq, Repr

structure Br where
  kind : Kind          -- line, impedance, tcsc, dcline, trafo
  idx : Nat
  f : Nat
  t : Nat
  inService : Bool
  w : Nat              -- weight (length_km for lines, 0 otherwise unless trafo_length_km), as a scaled natural
  deriving DecidableEq, Repr

structure T3 where
  idx : Nat
  hv : Nat
  mv : Nat
  lv : Nat
  inService : Bool
  deriving DecidableEq, Repr

/-- switch element types -/
inductive SwT where
  | b | l | t | t3
  deriving DecidableEq, Repr

structure Sw where
  idx : Nat
  bus : Nat
  elem : Nat
  et : SwT
  closed : Bool
  deriving DecidableEq, Repr

structure Net where
  buses : List (Nat × Bool)      -- (index, in_service)
  brs : List Br
  t3s : List T3
  sws : List Sw

structure Opts where
  respect : Bool
  incl : Kind → Bool             -- include_lines / include_impedances / … / include_switches
  includeOOS : Bool
  nogo : List Nat
  notrav : List Nat
  trafoLen : Option Nat          -- trafo_length_km
  switchLen : Option Nat         -- switch_length_km

/-- directed adjacency entry u -> v with key (element kind, element index) and weight -/
structure Adj where
  u : Nat
  v : Nat
  kind : Kind
  idx : Nat
  w : Nat
  deriving DecidableEq, Repr

def openSw (net : Net) (et : SwT) (elem : Nat) : Bool :=
  net.sws.any (fun s => s.et == et && s.elem == elem && !s.closed)

def openT3 (net : Net) (elem bus : Nat) : Bool :=
  net.sws.any (fun s => s.et == SwT.t3 && s.elem == elem && s.bus == bus && !s.closed)

def swOf : Kind → Option SwT
  | .line => some .l
  | .trafo => some .t
  | _ => none

/-- mask of a two-terminal branch element, as computed before `add_edges` -/
def brMask (net : Net) (o : Opts) (b : Br) : Bool :=
  o.incl b.kind && (o.includeOOS || b.inService) &&
  !(o.respect && (match swOf b.kind with | some et => openSw net et b.idx | none => false))

def brWeight (o : Opts) (b : Br) : Nat :=
  if b.kind == Kind.trafo then (o.trafoLen.getD b.w) else b.w

def both (u v : Nat) (k : Kind) (i w : Nat) : List Adj := [⟨u, v, k, i, w⟩, ⟨v, u, k, i, w⟩]

def t3Pairs (t : T3) : List (Nat × Nat) := [(t.hv, t.mv), (t.hv, t.lv), (t.mv, t.lv)]

def t3Mask (net : Net) (o : Opts) (t : T3) (p : Nat × Nat) : Bool :=
  o.incl Kind.trafo3w && (o.includeOOS || t.inService) &&
  !(o.respect && (openT3 net t.idx p.1 || openT3 net t.idx p.2))

def swMask (o : Opts) (s : Sw) : Bool :=
  o.incl Kind.switch && s.et == SwT.b && (!o.respect || s.closed)

/-- all adjacency entries after the `add_edges` calls -/
def rawAdj (net : Net) (o : Opts) : List Adj :=
  (net.brs.filter (brMask net o)).flatMap (fun b => both b.f b.t b.kind b.idx (brWeight o b)) ++
  net.t3s.flatMap (fun t => ((t3Pairs t).filter (t3Mask net o t)).flatMap (fun p => both p.1 p.2 Kind.trafo3w t.idx (o.trafoLen.getD 0))) ++
  (net.sws.filter (swMask o)).flatMap (fun s => both s.bus s.elem Kind.switch s.idx (o.switchLen.getD 0))

/-- is node `b` removed at the end? -/
def removed (net : Net) (o : Opts) (b : Nat) : Bool :=
  o.nogo.contains b || (!o.includeOOS && net.buses.any (fun x => x.1 == b && !x.2))

/-- nodes of the final graph -/
def nodes (net : Net) (o : Opts) : List Nat :=
  ((net.buses.map (·.1)) ++ (rawAdj net o).map (·.u)).eraseDups.filter (fun b => !removed net o b)

/-- adjacency of the final graph -/
def adj (net : Net) (o : Opts) : List Adj :=
  (rawAdj net o).filter (fun a => !removed net o a.u && !removed net o a.v && !o.notrav.contains a.u)

/-! reachability by fuel-bounded search (for unsupplied_buses / connected components) -/

def stepReach (es : List Adj) (cur : List Nat) : List Nat :=
  (cur ++ (es.filter (fun a => cur.contains a.u)).map (·.v)).eraseDups

def reachN (es : List Adj) : Nat → List Nat → List Nat
  | 0, cur => cur
  | n+1, cur => reachN es n (stepReach es cur)

/-- buses reachable from `roots` (fuel = number of nodes suffices) -/
def reach (net : Net) (o : Opts) (roots : List Nat) : List Nat :=
  let ns := nodes net o
  reachN (adj net o) ns.length (roots.filter (fun r => ns.contains r))

/-- `unsupplied_buses`: nodes of the graph not connected to any slack bus -/
def unsupplied (net : Net) (o : Opts) (slacks : List Nat) : List Nat :=
  let r := reach net o slacks
  (nodes net o).filter (fun b => !r.contains b)

end PPVerif.Topo
