/-
  M11 (DER part): saturation logic of DERController (property C33).
  `_saturate`: (1) capability-area step: elements that are not `in_area` get q clipped to `q_flexibility(p, vm)`;
               (2) apparent-power step `_saturate_sn_mva_step` — GENERATED from source (Generated/C33.lean);
  `_determine_target_powers`: damping  new = cur + (target - cur) / damping_coef.
  Analytic areas: PQArea4120/4130 (in_area and q_flexibility as coded, incl. their different lower-band expressions),
  PQAreaSTATCOM, QV area via its flexibility, merged PQV area.   sqrt is an oracle function `sq`.
-/
import Mathlib.Algebra.Order.Field.Basic

namespace PPVerif.Der

variable {K : Type} [Field K] [LinearOrder K]

/-- np.clip(x, lo, hi) = minimum(maximum(x, lo), hi) -/
def clip (x lo hi : K) : K := min (max x lo) hi

/-- np.sign -/
def sgnK (x : K) : K := if 0 < x then 1 else if x < 0 then -1 else 0

/-- area step of `_saturate` for one element -/
def areaStep (inArea : Bool) (lo hi q : K) : K := if inArea then q else clip q lo hi

/-- damping step -/
def damp (coef cur target : K) : K := cur + (target - cur) / coef

/-! PQArea4120 (p0 < p1 the two active-power break points, minQ/maxQ, qUnder = q_max_under_p_point) -/
structure PQ4120 (K : Type) where
  p0 : K
  p1 : K
  minQ : K
  maxQ : K
  qUnder : K

def PQ4120.linInd (a : PQ4120 K) : K := (a.minQ + 1 / 10) / (a.p1 - a.p0)
def PQ4120.linCap (a : PQ4120 K) : K := (a.maxQ - 1 / 10) / (a.p1 - a.p0)

/-- `PQArea4120.in_area` as coded (the early returns only short-cut, the result is the conjunction) -/
def PQ4120.inArea (a : PQ4120 K) (p q : K) : Bool :=
  !(decide (p < a.p0) && (decide (q < -(1 / 20)) || decide (a.qUnder < q))) &&
  !(decide (a.p1 < p) && (decide (q < a.minQ) || decide (a.maxQ < q))) &&
  !(decide (q < -(1 / 10) - (p - a.p0) * a.linInd) || decide (1 / 10 + (p - a.p0) * a.linCap < q))

/-- `PQArea4120.q_flexibility` as coded (later assignments overwrite earlier ones) -/
def PQ4120.flex (a : PQ4120 K) (p : K) : K × K :=
  if p < a.p0 then (-(1 / 20), a.qUnder)
  else if p < a.p1 then (-(1 / 10) + (p - a.p0) * a.linInd, 1 / 10 + (p - a.p0) * a.linCap)
  else (a.minQ, a.maxQ)

/-- `BaseArea.in_area`: defined through the flexibility -/
def flexInArea (fl : K × K) (q : K) : Bool := decide (fl.1 ≤ q) && decide (q ≤ fl.2)

/-- merged flexibility of a PQV area (non-overlap is an error / midpoint fallback in the code: `none`) -/
def mergeFlex (a b : K × K) : Option (K × K) :=
  let lo := max a.1 b.1
  let hi := min a.2 b.2
  if hi < lo then none else some (lo, hi)

end PPVerif.Der
