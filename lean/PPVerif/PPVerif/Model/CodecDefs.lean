/-
  M14 Codec: the JSON envelope of pandapower's serialisation (property C20).
  Mirrors io_utils.py: `to_serializable` (singledispatch registry -> `with_signature` envelopes {"_module","_class",
  "_object"[, "dtype"]}), `PPJSONEncoder`, `pp_hook` + `FromSerializableRegistry` (registered handlers, generic `rest`:
  `getattr(import_module(_module), _class)(_object)`).  What each registered encoder puts into `_object` and what the
  numpy-bool decoder does are GENERATED from the source as expression strings and interpreted here (`paySem`, `boolSem`);
  an expression the interpreter does not know makes encode/decode return `none`.
  Floats are opaque literals: `float.__repr__` / `json.loads` round trip exactly (library contract), NaN / ±Infinity are
  written as the JSON extensions `NaN`, `Infinity`, `-Infinity`.  Import-free.
-/
namespace PPVerif.Codec

/-- Python values of the envelope universe -/
inductive PV where
  | none
  | bool (b : Bool)
  | int (z : Int)
  | float (lit : String)                    -- finite repr, or "nan" / "inf" / "-inf"
  | str (s : String)
  | list (l : List PV)
  | dict (kv : List (String × PV))
  | tuple (l : List PV)
  | set (l : List PV)
  | frozenset (l : List PV)
  | npint (cls : String) (z : Int)          -- numpy.int64, int32, uint32, …
  | npfloat (cls : String) (lit : String)   -- numpy.float64, float32 (finite or "nan")
  | npbool (b : Bool)
  | complex (repr : String)                 -- str(obj), e.g. "(3+4j)"
  deriving Repr

/-- JSON trees -/
inductive J where
  | null
  | bool (b : Bool)
  | int (z : Int)
  | float (lit : String)
  | str (s : String)
  | arr (l : List J)
  | obj (kv : List (String × J))
  deriving Repr

/-- what a registered encoder puts into `_object` -/
inductive Pay where
  | intOf | floatOrNanStr | boolStr | listOf | strOf
  deriving DecidableEq, Repr

def paySem (e : String) : Option Pay :=
  if e == "int(obj)" then some .intOf
  else if e == "float(obj)|str(obj)" then some .floatOrNanStr       -- `str(obj)` when isnan, else `float(obj)`
  else if e == "'true'ifobjelse'false'" then some .boolStr
  else if e == "list(obj)" then some .listOf
  else if e == "str(obj)" then some .strOf
  else none

/-- how the registered numpy-bool handler turns the payload into a bool -/
inductive BoolDec where
  | pyTruthy        -- bool(self.obj): any non-empty string is True
  | eqTrue          -- payload == 'true' (strings), truthiness otherwise
  deriving DecidableEq, Repr

def boolSem (e : String) : Option BoolDec :=
  if e == "bool(self.obj)" then some .pyTruthy
  else if e == "self.obj=='true'ifisinstance(self.obj,str)elsebool(self.obj)" then some .eqTrue
  else none

/-- the generated part of the registry -/
structure Reg where
  enc : List (String × String)      -- registered type ↦ payload expression (normalised text)
  popsDtype : List (String × Bool)  -- registered type ↦ does `d.pop('dtype')` need the key to exist (True = bare pop)?
  npBoolDec : String                -- return expression of the ('bool', 'numpy') handler

def Reg.pay (r : Reg) (ty : String) : Option Pay := (r.enc.lookup ty).bind paySem

/-- a bare `d.pop('dtype')` on an object without dtype attribute raises KeyError -/
def Reg.popOk (r : Reg) (ty : String) (hasDtype : Bool) : Bool :=
  match r.popsDtype.lookup ty with
  | some bare => !bare || hasDtype
  | none => true

def sig (m c : String) (o : J) : J := J.obj [("_module", J.str m), ("_class", J.str c), ("_object", o)]

def floatJ (lit : String) : J := J.float lit     -- NaN / Infinity written as JSON extension tokens by PPJSONEncoder

mutual
  /-- json.dumps(v, cls=PPJSONEncoder) as a tree; `none` = the encoder raises -/
  def encode (r : Reg) : PV → Option J
    | .none => some .null
    | .bool b => some (.bool b)
    | .int z => some (.int z)
    | .float l => some (floatJ l)
    | .str s => some (.str s)
    | .list l => (encodeList r l).map J.arr
    | .dict kv => (encodeKV r kv).map J.obj
    | .tuple l => if r.pay "tuple" == some .listOf then (encodeList r l).map (fun a => sig "builtins" "tuple" (.arr a)) else none
    | .set l => if r.pay "set" == some .listOf then (encodeList r l).map (fun a => sig "builtins" "set" (.arr a)) else none
    | .frozenset l => if r.pay "frozenset" == some .listOf then (encodeList r l).map (fun a => sig "builtins" "frozenset" (.arr a)) else none
    | .npint c z => if r.pay "numpy.integer" == some .intOf && r.popOk "numpy.integer" true then some (sig "numpy" c (.int z)) else none
    | .npfloat c l =>
      if r.pay "numpy.floating" == some .floatOrNanStr && r.popOk "numpy.floating" true then
        some (sig "numpy" c (if l == "nan" then .str "nan" else .float l))
      else none
    | .npbool b => if r.pay "numpy.bool_" == some .boolStr && r.popOk "numpy.bool_" true then
        some (sig "numpy" "bool" (.str (if b then "true" else "false"))) else none
    | .complex s => if r.pay "complex" == some .strOf && r.popOk "complex" false then some (sig "builtins" "complex" (.str s)) else none
  def encodeList (r : Reg) : List PV → Option (List J)
    | [] => some []
    | v :: vs => do let a ← encode r v; let b ← encodeList r vs; some (a :: b)
  def encodeKV (r : Reg) : List (String × PV) → Option (List (String × J))
    | [] => some []
    | (k, v) :: kvs => do let a ← encode r v; let b ← encodeKV r kvs; some ((k, a) :: b)
end

/-- numpy scalar classes the generic `rest` handler can rebuild with `class_(obj)` -/
def npIntClasses : List String := ["int64", "int32", "int16", "int8", "uint64", "uint32", "uint16", "uint8", "intc"]
def npFloatClasses : List String := ["float64", "float32", "float16"]

/-- the envelope of an already decoded dict (the object hook runs bottom-up: children first), if it is one -/
def envelope (kv : List (String × PV)) : Option (String × String × PV) :=
  match kv.lookup "_module", kv.lookup "_class", kv.lookup "_object" with
  | some (.str m), some (.str c), some o => some (m, c, o)
  | _, _, _ => none

/-- `pp_hook` on one decoded dict -/
def hook (r : Reg) (kv : List (String × PV)) : Option PV :=
  match envelope kv with
  | none => some (.dict kv)
  | some (m, c, p) =>
    if m == "builtins" && c == "tuple" then (match p with | .list l => some (.tuple l) | _ => none)
    else if m == "builtins" && c == "set" then (match p with | .list l => some (.set l) | _ => none)
    else if m == "builtins" && c == "frozenset" then (match p with | .list l => some (.frozenset l) | _ => none)
    else if m == "builtins" && c == "complex" then (match p with | .str s => some (.complex s) | _ => none)
    else if m == "numpy" && c == "bool" then
      (match boolSem r.npBoolDec, p with          -- the handler returns a builtin bool
       | some .pyTruthy, .str s => some (.bool (s != ""))
       | some .eqTrue, .str s => some (.bool (s == "true"))
       | some _, .bool b => some (.bool b)
       | _, _ => none)
    else if m == "numpy" && npIntClasses.contains c then (match p with | .int z => some (.npint c z) | _ => none)
    else if m == "numpy" && npFloatClasses.contains c then
      (match p with
       | .float l => some (.npfloat c l)
       | .str s => if s == "nan" then some (.npfloat c "nan") else none
       | _ => none)
    else none

mutual
  /-- json.loads(s, cls=PPJSONDecoder): object_hook = pp_hook, applied bottom-up -/
  def decode (r : Reg) : J → Option PV
    | .null => some .none
    | .bool b => some (.bool b)
    | .int z => some (.int z)
    | .float l => some (.float l)
    | .str s => some (.str s)
    | .arr l => (decodeList r l).map PV.list
    | .obj kv => (decodeKV r kv).bind (hook r)
  def decodeList (r : Reg) : List J → Option (List PV)
    | [] => some []
    | v :: vs => do let a ← decode r v; let b ← decodeList r vs; some (a :: b)
  def decodeKV (r : Reg) : List (String × J) → Option (List (String × PV))
    | [] => some []
    | (k, v) :: kvs => do let a ← decode r v; let b ← decodeKV r kvs; some ((k, a) :: b)
end

end PPVerif.Codec
