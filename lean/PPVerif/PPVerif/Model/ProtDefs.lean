/-
  M11 (protection part): decision logic of `Fuse.protection_function` and `OCRelay.protection_function` (property C29).
  The ordered stage lists of the relay types, the fuse's three regimes and the curve constants are GENERATED from
  fuse.py / ocrelay.py; this file interprets them.  Time `none` = `np.inf` (no trip).
-/
import Mathlib.Algebra.Order.Field.Basic

namespace PPVerif.Prot

variable {K : Type} [Field K] [LinearOrder K]

/-- `a ≤ b` on trip times with `none` = ∞ -/
def tle : Option K → Option K → Prop
  | _, none => True
  | none, some _ => False
  | some a, some b => a ≤ b

structure Res (K : Type) where
  tripped : Bool
  time : Option K

/-! ### fuse -/
inductive FuseRegime where
  | below      -- `i < i_start`  -> not tripped, inf
  | curve      -- `i <= i_stop`  -> tripped, characteristic(i)
  | above      -- else           -> tripped, 0
  deriving DecidableEq, Repr

/-- how the two boundary tests are written in the source: strict (`<`) or not (`<=`) -/
structure FuseCmp where
  belowStrict : Bool     -- `i < i_start` (true) or `i <= i_start` (false)
  curveStrict : Bool     -- `i < i_stop` (true) or `i <= i_stop` (false)
  deriving DecidableEq, Repr

def fuseEval (cmp : FuseCmp) (c : K → K) (iStart iStop : K) (i : K) : Res K :=
  if (if cmp.belowStrict then i < iStart else i ≤ iStart) then ⟨false, none⟩
  else if (if cmp.curveStrict then i < iStop else i ≤ iStop) then ⟨true, some (c i)⟩
  else ⟨true, some 0⟩

/-! ### over-current relay -/
inductive Thresh where
  | Igg | Ig | Is
  deriving DecidableEq, Repr

inductive TimeKind where
  | tgg | tg | idmt
  deriving DecidableEq, Repr

structure RelayP (K : Type) where
  Ig : K
  Igg : K
  Is : K
  tg : K
  tgg : K
  tms : K
  k : K
  tgrade : K

def thr (p : RelayP K) : Thresh → K
  | .Igg => p.Igg
  | .Ig => p.Ig
  | .Is => p.Is

/-- `(tms * k) / ((i / I_s) ** alpha - 1) + t_grade`, with `rho r = r ** alpha` supplied as an oracle function -/
def idmt (rho : K → K) (p : RelayP K) (i : K) : K := p.tms * p.k / (rho (i / p.Is) - 1) + p.tgrade

def stageTime (rho : K → K) (p : RelayP K) (i : K) : TimeKind → K
  | .tgg => p.tgg
  | .tg => p.tg
  | .idmt => idmt rho p i

/-- the if / elif chain `i_ka > threshold`: first matching stage decides; no stage -> not tripped, inf -/
def relayEval (rho : K → K) (p : RelayP K) (stages : List (Thresh × TimeKind)) (i : K) : Res K :=
  match stages.find? (fun st => decide (thr p st.1 < i)) with
  | some st => ⟨true, some (stageTime rho p i st.2)⟩
  | none => ⟨false, none⟩

end PPVerif.Prot
