/-
  M10 Interp: the interpolation rules behind pandapower's characteristics (property C32; reused by C29).

    Characteristic.__call__                      = numpy.interp(x, x_vals, y_vals)            -> `interpLin`
    SplineCharacteristic(interpolator_kind="Pchip") = scipy PchipInterpolator(x_vals, y_vals)  -> `pchip`
         (Fritsch–Carlson slopes as coded in scipy `_find_derivatives` / `_edge_case`, cubic Hermite pieces,
          extrapolating with the end pieces)
    LogSplineCharacteristic                      = the same in log10/log10 coordinates (the log/power link is an oracle)

  plus the object life cycle that decides "survives serialisation unchanged": attributes, the cached interpolator
  (`_interpolator`, excluded from JSON), rebuild on demand.   Every arithmetic step is rational, so the model runs at ℚ.
-/
import Mathlib.Algebra.Order.Field.Basic

namespace PPVerif.Interp

variable {K : Type} [Field K] [LinearOrder K]

/-- numpy.interp for increasing support abscissae: clamped outside, linear inside -/
def interpLin : List (K × K) → K → Option K
  | [], _ => none                                    -- numpy raises on empty support
  | [(_, y0)], _ => some y0
  | (x0, y0) :: (x1, y1) :: rest, x =>
    if x ≤ x0 then some y0
    else if x ≤ x1 then some (y0 + (y1 - y0) / (x1 - x0) * (x - x0))
    else interpLin ((x1, y1) :: rest) x

def sgn (a : K) : Int := if 0 < a then 1 else if a < 0 then -1 else 0

/-- scipy `_find_derivatives`, interior point between segments (hp, mp) and (hk, mk) -/
def interiorSlope (hp hk mp mk : K) : K :=
  if sgn mp ≠ sgn mk ∨ mk = 0 ∨ mp = 0 then 0
  else
    let w1 := 2 * hk + hp
    let w2 := hk + 2 * hp
    (w1 + w2) / (w1 / mp + w2 / mk)

/-- scipy `_edge_case` -/
def edgeSlope (h0 h1 m0 m1 : K) : K :=
  let d := ((2 * h0 + h1) * m0 - h0 * m1) / (h0 + h1)
  if sgn d ≠ sgn m0 then 0
  else if sgn m0 ≠ sgn m1 ∧ 3 * |m0| < |d| then 3 * m0
  else d

/-- (h_k, m_k) of consecutive support points -/
def diffs : List (K × K) → List (K × K)
  | (x0, y0) :: (x1, y1) :: rest => (x1 - x0, (y1 - y0) / (x1 - x0)) :: diffs ((x1, y1) :: rest)
  | _ => []

def interior : List (K × K) → List K
  | (hp, mp) :: (hk, mk) :: rest => interiorSlope hp hk mp mk :: interior ((hk, mk) :: rest)
  | _ => []

/-- the derivative at every support point -/
def slopes (pts : List (K × K)) : List K :=
  match diffs pts with
  | [] => []
  | [(_, m)] => [m, m]
  | (h0, m0) :: (h1, m1) :: rest =>
    let hm := (h0, m0) :: (h1, m1) :: rest
    let r := hm.reverse
    match r with
    | (hl, ml) :: (hl2, ml2) :: _ => edgeSlope h0 h1 m0 m1 :: interior hm ++ [edgeSlope hl hl2 ml ml2]
    | _ => []

structure Seg (K : Type) where
  x0 : K
  y0 : K
  x1 : K
  y1 : K
  d0 : K
  d1 : K

/-- cubic Hermite piece -/
def hermite (s : Seg K) (x : K) : K :=
  let h := s.x1 - s.x0
  let t := (x - s.x0) / h
  s.y0 * (2 * t ^ 3 - 3 * t ^ 2 + 1) + h * s.d0 * (t ^ 3 - 2 * t ^ 2 + t) +
    s.y1 * (3 * t ^ 2 - 2 * t ^ 3) + h * s.d1 * (t ^ 3 - t ^ 2)

def segs : List (K × K) → List K → List (Seg K)
  | (x0, y0) :: (x1, y1) :: rest, d0 :: d1 :: ds => ⟨x0, y0, x1, y1, d0, d1⟩ :: segs ((x1, y1) :: rest) (d1 :: ds)
  | _, _ => []

/-- piece responsible for `x` (first piece below the range, last piece above: scipy's extrapolate=True) -/
def pick : List (Seg K) → K → Option (Seg K)
  | [], _ => none
  | [s], _ => some s
  | s :: s' :: rest, x => if x ≤ s.x1 then some s else pick (s' :: rest) x

def pchip (pts : List (K × K)) (x : K) : Option K :=
  (pick (segs pts (slopes pts)) x).map (fun s => hermite s x)

/-! ### object life cycle (SplineCharacteristic): attributes, cached interpolator, JSON round trip -/

/-- what the interpolator is built from -/
structure Attrs (A : Type) where
  data : A            -- (x_vals, y_vals, interpolator_kind, kwargs)

/-- `cache = some a` : an interpolator built from attribute value `a` is stored in `_interpolator` -/
structure Obj (A : Type) where
  attrs : A
  cache : Option A

inductive Op (A : Type) where
  | call                 -- evaluate (builds the interpolator when there is none)
  | saveLoad             -- to_json / from_json
  | setAttrs (a : A)     -- assignment to x_vals / y_vals / kwargs from outside

/-- behaviour switches GENERATED from the source -/
structure Sem where
  cacheExcluded : Bool     -- `_interpolator` is in json_excludes (not serialised)
  getterPure : Bool        -- building the interpolator does not modify the attributes
  deriving DecidableEq, Repr

/-- what a call evaluates with -/
def evalWith {A : Type} (o : Obj A) : A := o.cache.getD o.attrs

/-- `mutf` models what an impure getter does to the attributes while building (identity when pure) -/
def stepObj {A : Type} (sem : Sem) (mutf : A → A) (o : Obj A) : Op A → Obj A
  | .call =>
    match o.cache with
    | some _ => o
    | none => { attrs := if sem.getterPure then o.attrs else mutf o.attrs, cache := some o.attrs }
  | .saveLoad => { attrs := o.attrs, cache := if sem.cacheExcluded then none else o.cache }
  | .setAttrs a => { attrs := a, cache := o.cache }

end PPVerif.Interp
