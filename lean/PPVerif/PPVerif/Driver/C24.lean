import PPVerif.Driver.Proto
import PPVerif.Model.Create
open PPVerif PPVerif.Proto PPVerif.Create

/-
  keys <line|trafo|trafo3w> <single|batch>
  rej <nNodes> n…  <nEx> e…  <nReq> { <nn> node… <key|-> }…        -> "<single> <batch>"
-/
def pairOf : String → Option Pair
  | "line" => some linePair | "trafo" => some trafoPair | "trafo3w" => some trafo3wPair | _ => none

partial def parseReqs : Nat → List String → Option (List (Req Nat) × List String)
  | 0, rest => some ([], rest)
  | n+1, rest => do
      let (ns, rest) ← takeList String.toNat? rest
      match rest with
      | k :: rest =>
        let key ← optNat? k
        let (rs, rest) ← parseReqs n rest
        some ({ nodes := ns, key := key } :: rs, rest)
      | [] => none

def step (line : String) : String :=
  match tokens line with
  | ["keys", p, which] =>
    match pairOf p with
    | some pr => " ".intercalate (if which == "single" then pr.singleKeys else pr.batchKeys)
    | none => "bad-op"
  | "rej" :: rest =>
    match takeList String.toNat? rest with
    | some (nodes, rest) =>
      match takeList String.toNat? rest with
      | some (ex, n :: rest) =>
        match n.toNat? with
        | some n =>
          match parseReqs n rest with
          | some (rs, []) => s!"{showBool (singleSeq nodes ex rs)} {showBool (batchAll nodes ex rs)}"
          | _ => "bad-op"
        | none => "bad-op"
      | _ => "bad-op"
    | none => "bad-op"
  | _ => "bad-op"

def main : IO Unit := run step
