import PPVerif.Driver.Proto
import PPVerif.Model.ProtDefs
import PPVerif.Generated.C29
import Mathlib.Algebra.Order.Field.Rat
open PPVerif PPVerif.Proto PPVerif.Prot PPVerif.Generated.C29

/-
  fuse <iStart> <iStop> <i> <c(i)>                                       -> "<tripped> <time|inf>"
  relay <DTOC|IDMT|IDTOC> Ig Igg Is tg tgg tms k tgrade <i> <rho(i/Is)>   -> "<tripped> <time|inf>"
  (the characteristic value resp. the power (i/Is)**alpha are oracle values computed by the implementation's libraries)
-/
def showRes (r : Res Rat) : String :=
  s!"{showBool r.tripped} {match r.time with | none => "inf" | some t => showRat t}"

def step (line : String) : String :=
  match tokens line with
  | ["fuse", a, b, i, c] =>
    match rat? a, rat? b, rat? i, rat? c with
    | some a, some b, some i, some c => showRes (fuseEval fuseCmp (fun _ => c) a b i)
    | _, _, _, _ => "bad-op"
  | "relay" :: typ :: rest =>
    match rest.mapM rat? with
    | some [ig, igg, is, tg, tgg, tms, k, tgrade, i, rho] =>
      let p : RelayP Rat := ⟨ig, igg, is, tg, tgg, tms, k, tgrade⟩
      let st := if typ == "DTOC" then some dtocStages else if typ == "IDMT" then some idmtStages
                else if typ == "IDTOC" then some idtocStages else none
      match st with
      | some st => showRes (relayEval (fun _ => rho) p st i)
      | none => "bad-op"
    | _ => "bad-op"
  | _ => "bad-op"

def main : IO Unit := run step
