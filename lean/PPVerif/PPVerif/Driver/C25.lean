import PPVerif.Driver.Proto
import PPVerif.Model.StdTypes
open PPVerif PPVerif.Proto PPVerif.StdTypes PPVerif.Create

/-
  reset | create <name> <data> <0|1> | copy <0|1> <n> name data … | delete <name> | rename <old> <new> | load <name>
  change <nCols> col… <nTy> k v … <nRow> k v … <nQ> col…        (stateless)
  keys calc line|trafo
-/
def dictOf (ps : List (String × Nat)) : String → Option Nat := fun k => ps.lookup k

def step (lib : Lib Nat) (line : String) : Lib Nat × String :=
  let apply (op : Op Nat) : Lib Nat × String :=
    match StdTypes.step lib op with
    | some l => (l, "ok")
    | none => (lib, "raise")
  match tokens line with
  | ["reset"] => (fun _ => none, "ok")
  | ["create", n, d, o] =>
    match d.toNat?, bool? o with
    | some d, some o => apply (.create n d o)
    | _, _ => (lib, "bad-op")
  | "copy" :: o :: rest =>
    match bool? o, takePairs (fun s => some s) String.toNat? rest with
    | some o, some (src, []) => apply (.copyFrom src o)
    | _, _ => (lib, "bad-op")
  | ["delete", n] => apply (.delete n)
  | ["rename", a, b] => apply (.rename a b)
  | ["load", n] => (lib, showOptNat (lib n))
  | "change" :: rest =>
    match takeList (fun s => some s) rest with
    | some (cols, rest) =>
      match takePairs (fun s => some s) String.toNat? rest with
      | some (ty, rest) =>
        match takePairs (fun s => some s) String.toNat? rest with
        | some (row, rest) =>
          match takeList (fun s => some s) rest with
          | some (qs, []) =>
            (lib, " ".intercalate (qs.map fun q => showOptNat (changeCode cols (dictOf ty) (dictOf row) q)))
          | _ => (lib, "bad-op")
        | none => (lib, "bad-op")
      | none => (lib, "bad-op")
    | none => (lib, "bad-op")
  | _ => (lib, "bad-op")

def main : IO Unit := runS (fun _ => none) step
