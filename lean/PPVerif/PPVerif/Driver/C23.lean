import PPVerif.Driver.Proto
import PPVerif.Generated.C23
import Mathlib.Algebra.Field.Rat
open PPVerif PPVerif.Proto PPVerif.Generated.C23

/-  f <name> <args…>  -> value of the generated function over Q ("bad-op" for unknown names / division by zero guards) -/
def step (line : String) : String :=
  match tokens line with
  | "f" :: name :: args =>
    match args.mapM rat? with
    | none => "bad-op"
    | some a =>
      match name, a with
      | "lineR", [r, l, p, vn, sn] => if vn == 0 || sn == 0 || p == 0 then "bad-op" else showRat (lineR r l p vn sn)
      | "lineG", [g, l, p, vn, sn] => if sn == 0 then "bad-op" else showRat (lineG g l p vn sn)
      | "impR", [rft, sni, sn] => if sni == 0 then "bad-op" else showRat (impR rft sni sn)
      | "impG", [gf, sni, sn] => if sn == 0 then "bad-op" else showRat (impG gf sni sn)
      | "xwardR", [r, vn, sn] => if vn == 0 || sn == 0 then "bad-op" else showRat (xwardR r vn sn)
      | "l2iR", [r, l, p, vn, sni] => if vn == 0 || sni == 0 || p == 0 then "bad-op" else showRat (l2iR r l p vn sni)
      | "i2lR", [rft, vn, sni] => if sni == 0 then "bad-op" else showRat (i2lR rft vn sni)
      | "xw2iR", [r, vn, sn] => if vn == 0 then "bad-op" else showRat (xw2iR r vn sn)
      | _, _ => "bad-op"
  | _ => "bad-op"

def main : IO Unit := run step
