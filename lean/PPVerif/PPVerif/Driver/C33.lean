import PPVerif.Driver.Proto
import PPVerif.Model.DerDefs
import PPVerif.Generated.C33
import Mathlib.Algebra.Order.Field.Rat
open PPVerif PPVerif.Proto PPVerif.Der PPVerif.Generated.C33

/-
  sn <q|p> <sat> <p> <q> <s>                      -> "<p'> <q'>"   (s = value of np.sqrt at the argument the branch uses)
  pq4120 <p0> <p1> <minQ> <maxQ> <qUnder> <p> <q> -> "<inArea> <lo> <hi>"
  area <inArea> <lo> <hi> <q>                     -> "<q'>"
  damp <coef> <cur> <target>                      -> "<new>"
-/
def step (line : String) : String :=
  match tokens line with
  | ["sn", prio, sat, p, q, s] =>
    match rat? sat, rat? p, rat? q, rat? s with
    | some sat, some p, some q, some s =>
      let r := if toSaturate sat p q then (if prio == "q" then satQPrio (fun _ => s) sat p q else satPPrio (fun _ => s) sat p q)
               else (p, q)
      s!"{showRat r.1} {showRat r.2}"
    | _, _, _, _ => "bad-op"
  | ["pq4120", p0, p1, mn, mx, qu, p, q] =>
    match [p0, p1, mn, mx, qu, p, q].mapM rat? with
    | some [p0, p1, mn, mx, qu, p, q] =>
      let a : PQ4120 Rat := ⟨p0, p1, mn, mx, qu⟩
      let f := a.flex p
      s!"{showBool (a.inArea p q)} {showRat f.1} {showRat f.2}"
    | _ => "bad-op"
  | ["area", ia, lo, hi, q] =>
    match bool? ia, rat? lo, rat? hi, rat? q with
    | some ia, some lo, some hi, some q => showRat (areaStep ia lo hi q)
    | _, _, _, _ => "bad-op"
  | ["damp", c, a, b] =>
    match rat? c, rat? a, rat? b with
    | some c, some a, some b => if c == 0 then "bad-op" else showRat (damp c a b)
    | _, _, _ => "bad-op"
  | _ => "bad-op"

def main : IO Unit := run step
