import PPVerif.Driver.Proto
import PPVerif.Model.FoldDefs
import PPVerif.Generated.C14
open PPVerif PPVerif.Proto PPVerif.Fold PPVerif.Generated.C14

/-
  fold <seq|par0|par1> <n> {caseId val ins base}…          ->  "<max> <min> <cause>"      (val: integer or "-" = NaN)
  flags <seq|par> <nLim> lim… <nCases> {caseId nVals val…}… ->  sorted flagged case ids ("-" when none)
  loop <seq|par> <nFlags> flag… <nIter> {i oc}…             ->  flags after the loop     (oc: ok|caught|raised)
-/
def optInt? (s : String) : Option (Option Int) := if s == "-" then some none else s.toInt?.map some
def showOptInt : Option Int → String
  | none => "-"
  | some z => toString z

partial def parseObs : Nat → List String → Option (List (Nat × Obs Int) × List String)
  | 0, rest => some ([], rest)
  | n+1, c :: v :: i :: b :: rest => do
      let c ← c.toNat?; let v ← optInt? v; let i ← bool? i; let b ← bool? b
      let (os, rest) ← parseObs n rest
      some ((c, ⟨v, i, b⟩) :: os, rest)
  | _, _ => none

partial def parseCases : Nat → List String → Option (List (Nat × List (Option Int)) × List String)
  | 0, rest => some ([], rest)
  | n+1, c :: rest => do
      let c ← c.toNat?
      let (vals, rest) ← takeList optInt? rest
      let (cs, rest) ← parseCases n rest
      some ((c, vals) :: cs, rest)
  | _, _ => none

def outcome? (s : String) : Option Outcome :=
  if s == "ok" then some .ok else if s == "caught" then some .caught else if s == "raised" then some .raised else none

def idLit : Int → Int := fun z => z

def step (line : String) : String :=
  match tokens line with
  | "fold" :: which :: n :: rest =>
    match n.toNat? with
    | some n =>
      match parseObs n rest with
      | some (l, []) =>
        let a : Option (Acc Int) :=
          if which == "seq" then some (run seqMaxMask seqWhere idLit false l init)
          else if which == "par0" then some (run parMaxMask parWhere idLit false l init)
          else if which == "par1" then some (run parMaxMask parWhere idLit true l init)
          else none
        match a with
        | some a => s!"{showOptInt a.max} {showOptInt a.min} {showOptNat a.cause}"
        | none => "bad-op"
      | _ => "bad-op"
    | none => "bad-op"
  | "flags" :: which :: rest =>
    match takeList optInt? rest with
    | some (lims, n :: rest) =>
      match n.toNat? with
      | some n =>
        match parseCases n rest with
        | some (cs, []) =>
          let fl := if which == "seq" then some (flagFold seqOver lims cs)
                    else if which == "par" then some (flagFold parOver lims cs) else none
          match fl with
          | some fl =>
            let s := (fl.toArray.qsort (· < ·)).toList.eraseDups
            if s.isEmpty then "-" else " ".intercalate (s.map toString)
          | none => "bad-op"
        | _ => "bad-op"
      | none => "bad-op"
    | _ => "bad-op"
  | "loop" :: which :: rest =>
    match takeList bool? rest with
    | some (flags, rest) =>
      match takePairs (fun s => s.toNat?) outcome? rest with
      | some (its, []) =>
        let m := if which == "seq" then some seqRestore else if which == "par" then some parRestore else none
        match m with
        | some m =>
          let f : Nat → Bool := fun j => flags.getD j false
          let g := loopRun m its f
          " ".intercalate ((List.range flags.length).map (fun j => showBool (g j)))
        | none => "bad-op"
      | _ => "bad-op"
    | none => "bad-op"
  | _ => "bad-op"

def main : IO Unit := run step
