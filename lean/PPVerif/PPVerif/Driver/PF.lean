import PPVerif.Driver.Proto
import PPVerif.Model.PFDefs
import Mathlib.Algebra.QuadraticAlgebra.Basic
import Mathlib.Algebra.Order.Field.Rat
open PPVerif PPVerif.Proto PPVerif.PF

/-
  network-level requests over the Gaussian rationals ℚ[i]:
  net <nBr> {f t yff.re yff.im yft.re yft.im ytf.re ytf.im ytt.re ytt.im}… <nN> {node v.re v.im ysh.re ysh.im}…
      -> per branch "sf.re sf.im st.re st.im", then per node "scalc.re scalc.im sshunt.re sshunt.im sbranches.re sbranches.im"
  zip <mean|abs|spec> <other> <vm> <n> {p ci cz}…   -> bus load under that law
-/
abbrev GQ := QuadraticAlgebra ℚ (-1) 0

def cx? (a b : String) : Option GQ := do some ⟨← rat? a, ← rat? b⟩
def showCx (z : GQ) : String := s!"{showRat z.re} {showRat z.im}"

partial def parseBrs : Nat → List String → Option (List (Branch GQ) × List String)
  | 0, r => some ([], r)
  | n+1, f :: t :: a :: b :: c :: d :: e :: g :: h :: i :: r => do
      let f ← f.toNat?; let t ← t.toNat?
      let br : Branch GQ := ⟨f, t, ← cx? a b, ← cx? c d, ← cx? e g, ← cx? h i⟩
      let (bs, r) ← parseBrs n r
      some (br :: bs, r)
  | _, _ => none

partial def parseNodes : Nat → List String → Option (List (Nat × GQ × GQ) × List String)
  | 0, r => some ([], r)
  | n+1, i :: a :: b :: c :: d :: r => do
      let i ← i.toNat?
      let (ns, r) ← parseNodes n r
      some ((i, ← cx? a b, ← cx? c d) :: ns, r)
  | _, _ => none

partial def parseLoads : Nat → List String → Option (List (ZipLoad Rat))
  | 0, [] => some []
  | n+1, a :: b :: c :: r => do
      let l : ZipLoad Rat := ⟨← rat? a, ← rat? b, ← rat? c⟩
      let ls ← parseLoads n r
      some (l :: ls)
  | _, _ => none

def step (line : String) : String :=
  match tokens line with
  | "net" :: n :: rest =>
    match n.toNat? with
    | some n => match parseBrs n rest with
      | some (brs, m :: rest) => match m.toNat? with
        | some m => match parseNodes m rest with
          | some (ns, []) =>
            let V : Nat → GQ := fun i => ((ns.find? (fun x => x.1 == i)).map (·.2.1)).getD 0
            let ysh : Nat → GQ := fun i => ((ns.find? (fun x => x.1 == i)).map (·.2.2)).getD 0
            let b := brs.map (fun br => s!"{showCx (sFrom br V)} {showCx (sTo br V)}")
            let nn := ns.map (fun x => s!"{showCx (sCalc brs ysh V x.1)} {showCx (sShunt ysh V x.1)} {showCx (sBranchesAt brs V x.1)}")
            " ".intercalate (b ++ nn)
          | _ => "bad-op"
        | none => "bad-op"
      | _ => "bad-op"
    | none => "bad-op"
  | "zip" :: law :: other :: vm :: n :: rest =>
    match rat? other, rat? vm, n.toNat? with
    | some o, some v, some n => match parseLoads n rest with
      | some ls =>
        if law == "mean" then (if ls.isEmpty then "bad-op" else showRat (busLoadMean ls o v))
        else if law == "abs" then showRat (busLoadAbs ls o v)
        else if law == "spec" then showRat (busLoadSpec ls o v) else "bad-op"
      | none => "bad-op"
    | _, _, _ => "bad-op"
  | _ => "bad-op"

def main : IO Unit := run step
