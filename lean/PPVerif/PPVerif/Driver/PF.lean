import PPVerif.Driver.Proto
import PPVerif.Model.ElemDefs
import Mathlib.Algebra.QuadraticAlgebra.Basic
import Mathlib.Tactic.Linarith
import Mathlib.Algebra.Order.Field.Rat
open PPVerif PPVerif.Proto PPVerif.PF PPVerif.Elem

/-
  network-level requests over the Gaussian rationals ℚ[i]:
  net <nBr> {f t yff.re yff.im yft.re yft.im ytf.re ytf.im ytt.re ytt.im}… <nN> {node v.re v.im ysh.re ysh.im}…
      -> per branch "sf.re sf.im st.re st.im", then per node "scalc.re scalc.im sshunt.re sshunt.im sbranches.re sbranches.im"
  zip <mean|abs|spec> <other> <vm> <n> {p ci cz}…   -> bus load under that law
  bry <zf> <zt> <ycf> <yct> <tap>   (5 complex numbers = 10 rationals)   -> yff yft ytf ytt
  wye <za> <zb> <y>                 (3 complex numbers)                   -> z yfHalf ytHalf
-/
abbrev GQ := QuadraticAlgebra ℚ (-1) 0
instance : Fact (∀ r : ℚ, r ^ 2 ≠ -1 + 0 * r) := ⟨fun r h => by nlinarith [sq_nonneg r]⟩

def cx? (a b : String) : Option GQ := do some ⟨← rat? a, ← rat? b⟩
def showCx (z : GQ) : String := s!"{showRat z.re} {showRat z.im}"

partial def parseBrs : Nat → List String → Option (List (Branch GQ) × List String)
  | 0, r => some ([], r)
  | n+1, f :: t :: a :: b :: c :: d :: e :: g :: h :: i :: r => do
      let f ← f.toNat?; let t ← t.toNat?
      let br : Branch GQ := ⟨f, t, ← cx? a b, ← cx? c d, ← cx? e g, ← cx? h i⟩
      let (bs, r) ← parseBrs n r
      some (br :: bs, r)
  | _, _ => none

partial def parseNodes : Nat → List String → Option (List (Nat × GQ × GQ) × List String)
  | 0, r => some ([], r)
  | n+1, i :: a :: b :: c :: d :: r => do
      let i ← i.toNat?
      let (ns, r) ← parseNodes n r
      some ((i, ← cx? a b, ← cx? c d) :: ns, r)
  | _, _ => none

partial def parseLoads : Nat → List String → Option (List (ZipLoad Rat))
  | 0, [] => some []
  | n+1, a :: b :: c :: r => do
      let l : ZipLoad Rat := ⟨← rat? a, ← rat? b, ← rat? c⟩
      let ls ← parseLoads n r
      some (l :: ls)
  | _, _ => none

def step (line : String) : String :=
  match tokens line with
  | "net" :: n :: rest =>
    match n.toNat? with
    | some n => match parseBrs n rest with
      | some (brs, m :: rest) => match m.toNat? with
        | some m => match parseNodes m rest with
          | some (ns, []) =>
            let V : Nat → GQ := fun i => ((ns.find? (fun x => x.1 == i)).map (·.2.1)).getD 0
            let ysh : Nat → GQ := fun i => ((ns.find? (fun x => x.1 == i)).map (·.2.2)).getD 0
            let b := brs.map (fun br => s!"{showCx (sFrom br V)} {showCx (sTo br V)}")
            let nn := ns.map (fun x => s!"{showCx (sCalc brs ysh V x.1)} {showCx (sShunt ysh V x.1)} {showCx (sBranchesAt brs V x.1)}")
            " ".intercalate (b ++ nn)
          | _ => "bad-op"
        | none => "bad-op"
      | _ => "bad-op"
    | none => "bad-op"
  | "zip" :: law :: other :: vm :: n :: rest =>
    match rat? other, rat? vm, n.toNat? with
    | some o, some v, some n => match parseLoads n rest with
      | some ls =>
        if law == "mean" then (if ls.isEmpty then "bad-op" else showRat (busLoadMean ls o v))
        else if law == "abs" then showRat (busLoadAbs ls o v)
        else if law == "spec" then showRat (busLoadSpec ls o v) else "bad-op"
      | none => "bad-op"
    | _, _, _ => "bad-op"
  | ["bry", a, b, c, d, e, f, g, h, i, j] =>
    match cx? a b, cx? c d, cx? e f, cx? g h, cx? i j with
    | some zf, some zt, some ycf, some yct, some tap =>
      if zf == 0 || zt == 0 || tap == 0 then "bad-op" else
      let br := branchY 0 1 (⟨zf, zt, ycf, yct, tap⟩ : BrPar GQ)
      s!"{showCx br.yff} {showCx br.yft} {showCx br.ytf} {showCx br.ytt}"
    | _, _, _, _, _ => "bad-op"
  | ["wye", a, b, c, d, e, f] =>
    match cx? a b, cx? c d, cx? e f with
    | some za, some zb, some y =>
      if za == 0 || zb == 0 || y == 0 then "bad-op" else
      let p := wyeDelta za zb y
      s!"{showCx p.z} {showCx p.yfHalf} {showCx p.ytHalf}"
    | _, _, _ => "bad-op"
  | _ => "bad-op"

def main : IO Unit := run step
