import PPVerif.Driver.Proto
import PPVerif.Model.CtrlDefs
import PPVerif.Generated.C13
open PPVerif PPVerif.Proto PPVerif.Ctrl PPVerif.Generated.C13

/-
  order <n> {id order inService nLevels level…}…      -> "lvl:id,id,… lvl:…"
  disc <dir> <vm|-> <lo> <hi> <tap> <tmin> <tmax>      -> "<increment> <converged>"
-/
def optRat? (s : String) : Option (Option Rat) := if s == "-" then some none else (rat? s).map some

partial def parseRows : Nat → List String → Option (List Row × List String)
  | 0, rest => some ([], rest)
  | n+1, i :: o :: s :: rest => do
      let i ← i.toNat?; let o ← o.toNat?; let s ← bool? s
      let (lv, rest) ← takeList (fun x => x.toNat?) rest
      let (rs, rest) ← parseRows n rest
      some (⟨i, lv, o, s⟩ :: rs, rest)
  | _, _ => none

def step (line : String) : String :=
  match tokens line with
  | "order" :: n :: rest =>
    match n.toNat? with
    | some n => match parseRows n rest with
      | some (rows, []) =>
        let parts := (controllerOrder rows).map (fun p => s!"{p.1}:{",".intercalate (p.2.map (fun r => toString r.id))}")
        if parts.isEmpty then "-" else " ".intercalate parts
      | _ => "bad-op"
    | none => "bad-op"
  | ["disc", d, vm, lo, hi, tap, tmin, tmax] =>
    match bool? d, optRat? vm, optRat? lo, optRat? hi, tap.toInt?, tmin.toInt?, tmax.toInt? with
    | some d, some vm, some lo, some hi, some tap, some tmin, some tmax =>
      s!"{increment d vm lo hi tap tmin tmax} {showBool (discreteConverged d vm lo hi tap tmin tmax)}"
    | _, _, _, _, _, _, _ => "bad-op"
  | _ => "bad-op"

def main : IO Unit := run step
