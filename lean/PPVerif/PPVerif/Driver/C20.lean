import PPVerif.Driver.Proto
import PPVerif.Model.CodecDefs
import PPVerif.Generated.C20
open PPVerif PPVerif.Proto PPVerif.Codec PPVerif.Generated.C20

/-
  prefix notation (strings hex-encoded, "-" = empty string):
    N | B 0/1 | I z | F lit | S hex | L n v… | D n {hexkey v}… | T n v… | E n v… | Z n v… | NI cls z | NF cls lit | NB 0/1 | C hex
  enc <v>  ->  JSON tree in the same notation (J: N B I F S L D)     | "raises"
  rt <v>   ->  decode(encode v) in the same notation                  | "raises"
-/
def hexVal (c : Char) : Option Nat :=
  if '0' ≤ c ∧ c ≤ '9' then some (c.toNat - '0'.toNat) else if 'a' ≤ c ∧ c ≤ 'f' then some (c.toNat - 'a'.toNat + 10) else none

partial def unhexBytes : List Char → Option (List UInt8)
  | [] => some []
  | a :: b :: rest => do
      let x ← hexVal a; let y ← hexVal b
      let r ← unhexBytes rest
      some (UInt8.ofNat (16 * x + y) :: r)
  | _ => none

def unhex (s : String) : Option String :=
  if s == "-" then some "" else do
    let bs ← unhexBytes s.toList
    String.fromUTF8? ⟨bs.toArray⟩

def hexDigit (n : Nat) : Char := if n < 10 then Char.ofNat ('0'.toNat + n) else Char.ofNat ('a'.toNat + n - 10)
def hex (s : String) : String :=
  if s == "" then "-" else
  String.ofList (s.toUTF8.toList.flatMap (fun b => [hexDigit (b.toNat / 16), hexDigit (b.toNat % 16)]))

mutual
  partial def parseV : List String → Option (PV × List String)
    | "N" :: r => some (.none, r)
    | "B" :: b :: r => do some (.bool (← bool? b), r)
    | "I" :: z :: r => do some (.int (← z.toInt?), r)
    | "F" :: l :: r => some (.float l, r)
    | "S" :: h :: r => do some (.str (← unhex h), r)
    | "C" :: h :: r => do some (.complex (← unhex h), r)
    | "NI" :: c :: z :: r => do some (.npint c (← z.toInt?), r)
    | "NF" :: c :: l :: r => some (.npfloat c l, r)
    | "NB" :: b :: r => do some (.npbool (← bool? b), r)
    | "L" :: n :: r => do let (l, r) ← parseVs (← n.toNat?) r; some (.list l, r)
    | "T" :: n :: r => do let (l, r) ← parseVs (← n.toNat?) r; some (.tuple l, r)
    | "E" :: n :: r => do let (l, r) ← parseVs (← n.toNat?) r; some (.set l, r)
    | "Z" :: n :: r => do let (l, r) ← parseVs (← n.toNat?) r; some (.frozenset l, r)
    | "D" :: n :: r => do let (l, r) ← parseKVs (← n.toNat?) r; some (.dict l, r)
    | _ => none
  partial def parseVs : Nat → List String → Option (List PV × List String)
    | 0, r => some ([], r)
    | n+1, r => do let (v, r) ← parseV r; let (vs, r) ← parseVs n r; some (v :: vs, r)
  partial def parseKVs : Nat → List String → Option (List (String × PV) × List String)
    | 0, r => some ([], r)
    | n+1, k :: r => do let k ← unhex k; let (v, r) ← parseV r; let (vs, r) ← parseKVs n r; some ((k, v) :: vs, r)
    | _, _ => none
end

mutual
  partial def showJ : J → String
    | .null => "N"
    | .bool b => s!"B {showBool b}"
    | .int z => s!"I {z}"
    | .float l => s!"F {l}"
    | .str s => s!"S {hex s}"
    | .arr l => s!"L {l.length}" ++ String.join (l.map (fun x => " " ++ showJ x))
    | .obj kv => s!"D {kv.length}" ++ String.join (kv.map (fun p => " " ++ hex p.1 ++ " " ++ showJ p.2))
end

mutual
  partial def showV : PV → String
    | .none => "N"
    | .bool b => s!"B {showBool b}"
    | .int z => s!"I {z}"
    | .float l => s!"F {l}"
    | .str s => s!"S {hex s}"
    | .complex s => s!"C {hex s}"
    | .npint c z => s!"NI {c} {z}"
    | .npfloat c l => s!"NF {c} {l}"
    | .npbool b => s!"NB {showBool b}"
    | .list l => s!"L {l.length}" ++ String.join (l.map (fun x => " " ++ showV x))
    | .tuple l => s!"T {l.length}" ++ String.join (l.map (fun x => " " ++ showV x))
    | .set l => s!"E {l.length}" ++ String.join (l.map (fun x => " " ++ showV x))
    | .frozenset l => s!"Z {l.length}" ++ String.join (l.map (fun x => " " ++ showV x))
    | .dict kv => s!"D {kv.length}" ++ String.join (kv.map (fun p => " " ++ hex p.1 ++ " " ++ showV p.2))
end

def step (line : String) : String :=
  match tokens line with
  | "enc" :: rest => match parseV rest with
    | some (v, []) => match encode reg v with
      | some j => showJ j
      | none => "raises"
    | _ => "bad-op"
  | "rt" :: rest => match parseV rest with
    | some (v, []) => match (encode reg v).bind (decode reg) with
      | some w => showV w
      | none => "raises"
    | _ => "bad-op"
  | _ => "bad-op"

def main : IO Unit := run step
