import PPVerif.Driver.Proto
import PPVerif.Model.DSlackDefs
import Mathlib.Algebra.Order.Field.Rat
import Mathlib.Algebra.Field.Rat
open PPVerif PPVerif.Proto PPVerif.DSlack

/-  bus <pbus> <n> {pset w ref}…   -> new PG of every generator of the bus -/
partial def parseG : Nat → List String → Option (List (G Rat) × List String)
  | 0, rest => some ([], rest)
  | n+1, p :: w :: r :: rest => do
      let p ← rat? p; let w ← rat? w; let r ← bool? r
      let (gs, rest) ← parseG n rest
      some (⟨p, w, r⟩ :: gs, rest)
  | _, _ => none

def step (line : String) : String :=
  match tokens line with
  | "bus" :: pb :: n :: rest =>
    match rat? pb, n.toNat? with
    | some pb, some n => match parseG n rest with
      | some (gs, []) => " ".intercalate (gs.map (fun g => showRat (result gs pb g)))
      | _ => "bad-op"
    | _, _ => "bad-op"
  | _ => "bad-op"

def main : IO Unit := run step
