import PPVerif.Driver.Proto
import PPVerif.Model.DiagHeapDefs
import PPVerif.Generated.C30
open PPVerif PPVerif.Proto PPVerif.DiagHeap

/-
  reset <nU> key…  <nKw> k v …  <nFn> f…      -- key universe, module default kwargs, module default functions
  new 0|1
  register i f
  diagnose i <n> k v …
  answers: `ok` | `none` | `fns <…> | args k=v …` (over the key universe)
-/
structure DS where
  uni : List String
  st : St

def dictOf (ps : List (String × Int)) : Dict := fun k => ps.lookup k

def showObs (uni : List String) : Option Obs → String
  | none => "none"
  | some o =>
    let fs := " ".intercalate (o.fns.map toString)
    let as := " ".intercalate (uni.filterMap fun k => (o.args k).map fun v => s!"{k}={v}")
    s!"fns {fs} | args {as}"

def step (d : DS) (line : String) : DS × String :=
  let sem := PPVerif.Generated.C30.codeSem
  match tokens line with
  | "reset" :: rest =>
    match takeList (fun s => some s) rest with
    | some (uni, rest) =>
      match takePairs (fun s => some s) int? rest with
      | some (kws, rest) =>
        match takeList String.toNat? rest with
        | some (fns, []) => ({ uni := uni, st := init (dictOf kws) fns }, "ok")
        | _ => (d, "bad-op")
      | none => (d, "bad-op")
    | none => (d, "bad-op")
  | ["new", b] =>
    match bool? b with
    | some b => let r := DiagHeap.step sem d.st (.new b); ({ d with st := r.1 }, "ok")
    | none => (d, "bad-op")
  | ["register", i, f] =>
    match i.toNat?, f.toNat? with
    | some i, some f => let r := DiagHeap.step sem d.st (.register i f); ({ d with st := r.1 }, "ok")
    | _, _ => (d, "bad-op")
  | "diagnose" :: i :: rest =>
    match i.toNat?, takePairs (fun s => some s) int? rest with
    | some i, some (kws, []) =>
      let r := DiagHeap.step sem d.st (.diagnose i (dictOf kws))
      ({ d with st := r.1 }, showObs d.uni r.2)
    | _, _ => (d, "bad-op")
  | _ => (d, "bad-op")

def main : IO Unit := runS { uni := [], st := init Dict.empty [] } step
