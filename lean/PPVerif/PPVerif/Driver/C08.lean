import PPVerif.Driver.Proto
import PPVerif.Model.GuardDefs
import PPVerif.Generated.C08
open PPVerif PPVerif.Proto PPVerif.Guard PPVerif.Generated.C08

/-  run <driver name> <ndc> <ok|raise|nc|add<j>> <n> label…  -> remaining rows of net.gen ("a" = auxiliary row) -/
def step (line : String) : String :=
  match tokens line with
  | "run" :: name :: ndc :: o :: rest =>
    match drivers.find? (fun d => d.name == name), ndc.toNat?, takeList (fun s => s.toNat?) rest with
    | some d, some ndc, some (labels, []) =>
      let out : Option Outcome := if o == "ok" then some .ok else if o == "raise" then some (.raiseAt 0)
                                  else if o == "nc" then some (.notConvergedAt 0)
                                  else if o.startsWith "add" then (o.drop 3).toNat?.map .raiseInAdd else none
      match out with
      | some out =>
        let rows := run d ndc (labels.map some) out
        if rows.isEmpty then "-" else " ".intercalate (rows.map fun r => match r with | some l => toString l | none => "a")
      | none => "bad-op"
    | _, _, _ => "bad-op"
  | _ => "bad-op"

def main : IO Unit := run step
