import PPVerif.Driver.Proto
import PPVerif.Model.Options
open PPVerif PPVerif.Proto PPVerif.Options

/-- request:  eff <dflt> <named> <kw> <user> <userEmpty>   (values are small naturals or `-`) -/
def step (line : String) : String :=
  match tokens line with
  | ["eff", d, n, k, u, e] =>
    match optNat? d, optNat? n, optNat? k, optNat? u, bool? e with
    | some d, some n, some k, some u, some e =>
      let c : Call Unit Nat := { dflt := fun _ => d, named := fun _ => n, kw := fun _ => k, user := fun _ => u,
                                 userEmpty := e }
      s!"{showOptNat (effCode c ())} {showOptNat (effSpec c ())} {showBool (decide (Masked c ()))}"
    | _, _, _, _, _ => "bad-op"
  | _ => "bad-op"

def main : IO Unit := run step
