import PPVerif.Driver.Proto
import PPVerif.Model.TapTableDefs
import PPVerif.Generated.C31
open PPVerif PPVerif.Proto PPVerif.TapTable

/-
  lookup <tap|vk> <nRows> {id step val}… <nTr> {id pos}… <qid> <qpos> <default>   ->  "<code> <spec>"
  (val/default rational; mode = the key mode found in the source for the ratio/angle resp. vk/vkr look-up)
-/
partial def parseRows : Nat → List String → Option (List (Row Rat) × List String)
  | 0, rest => some ([], rest)
  | n+1, a :: b :: c :: rest => do
      let i ← a.toNat?; let s ← b.toInt?; let v ← rat? c
      let (rs, rest) ← parseRows n rest
      some (⟨i, s, v⟩ :: rs, rest)
  | _, _ => none

partial def parseTrs : Nat → List String → Option (List Tr × List String)
  | 0, rest => some ([], rest)
  | n+1, a :: b :: rest => do
      let i ← a.toNat?; let p ← b.toInt?
      let (ts, rest) ← parseTrs n rest
      some (⟨i, p⟩ :: ts, rest)
  | _, _ => none

def step (line : String) : String :=
  match tokens line with
  | "lookup" :: which :: n :: rest =>
    match n.toNat? with
    | some n =>
      match parseRows n rest with
      | some (rows, m :: rest) =>
        match m.toNat? with
        | some m =>
          match parseTrs m rest with
          | some (trs, [qi, qp, d]) =>
            match qi.toNat?, qp.toInt?, rat? d with
            | some qi, some qp, some d =>
              let mode := if which == "vk" then PPVerif.Generated.C31.vkKeyMode else PPVerif.Generated.C31.tapKeyMode
              s!"{showRat (codeLookup mode rows trs ⟨qi, qp⟩ d)} {showRat (specLookup rows ⟨qi, qp⟩ d)}"
            | _, _, _ => "bad-op"
          | _ => "bad-op"
        | none => "bad-op"
      | _ => "bad-op"
    | none => "bad-op"
  | _ => "bad-op"

def main : IO Unit := run step
