import PPVerif.Driver.Proto
import PPVerif.Model.TopoDefs
open PPVerif PPVerif.Proto PPVerif.Topo

/-
  graph <opts> <net>           -> "u>v:kind:idx:w …  | node …"      (sorted; the directed adjacency of the final graph)
  unsup <opts> <net> <k> slack… -> sorted unsupplied buses
  opts = respect iLine iImp iTcsc iDc iTrafo iT3 iSw includeOOS <n nogo…> <n notrav…> <trafoLen|-> <switchLen|->
  net  = <nB> {idx ins}… <nR> {kind idx f t ins w}… <nT> {idx hv mv lv ins}… <nS> {idx bus elem et closed}…
-/
def kind? (s : String) : Option Kind :=
  match s with
  | "line" => some .line | "impedance" => some .impedance | "tcsc" => some .tcsc | "dcline" => some .dcline
  | "trafo" => some .trafo | "trafo3w" => some .trafo3w | "switch" => some .switch | _ => none
def showKind : Kind → String
  | .line => "line" | .impedance => "impedance" | .tcsc => "tcsc" | .dcline => "dcline" | .trafo => "trafo"
  | .trafo3w => "trafo3w" | .switch => "switch"
def swt? (s : String) : Option SwT :=
  match s with | "b" => some .b | "l" => some .l | "t" => some .t | "t3" => some .t3 | _ => none

partial def takeN {α} (k : Nat) (p : List String → Option α) : Nat → List String → Option (List α × List String)
  | 0, rest => some ([], rest)
  | n+1, rest => do
      if rest.length < k then none else
      let x ← p (rest.take k)
      let (xs, r) ← takeN k p n (rest.drop k)
      some (x :: xs, r)

def counted {α} (k : Nat) (p : List String → Option α) : List String → Option (List α × List String)
  | [] => none
  | n :: rest => do let n ← n.toNat?; takeN k p n rest

def pBus : List String → Option (Nat × Bool)
  | [a, b] => do some (← a.toNat?, ← bool? b)
  | _ => none
def pBr : List String → Option Br
  | [k, i, f, t, s, w] => do some ⟨← kind? k, ← i.toNat?, ← f.toNat?, ← t.toNat?, ← bool? s, ← w.toNat?⟩
  | _ => none
def pT3 : List String → Option T3
  | [i, a, b, c, s] => do some ⟨← i.toNat?, ← a.toNat?, ← b.toNat?, ← c.toNat?, ← bool? s⟩
  | _ => none
def pSw : List String → Option Sw
  | [i, b, e, t, c] => do some ⟨← i.toNat?, ← b.toNat?, ← e.toNat?, ← swt? t, ← bool? c⟩
  | _ => none

def parseNet (l : List String) : Option (Net × List String) := do
  let (bs, l) ← counted 2 pBus l
  let (rs, l) ← counted 6 pBr l
  let (ts, l) ← counted 5 pT3 l
  let (ss, l) ← counted 5 pSw l
  some (⟨bs, rs, ts, ss⟩, l)

def parseOpts : List String → Option (Opts × List String)
  | r :: a :: b :: c :: d :: e :: f :: g :: oos :: rest => do
      let r ← bool? r; let a ← bool? a; let b ← bool? b; let c ← bool? c; let d ← bool? d
      let e ← bool? e; let f ← bool? f; let g ← bool? g; let oos ← bool? oos
      let (nogo, rest) ← takeList (fun s => s.toNat?) rest
      let (notrav, rest) ← takeList (fun s => s.toNat?) rest
      match rest with
      | tl :: sl :: rest =>
        let tl ← optNat? tl; let sl ← optNat? sl
        let incl : Kind → Bool := fun k => match k with
          | .line => a | .impedance => b | .tcsc => c | .dcline => d | .trafo => e | .trafo3w => f | .switch => g
        some (⟨r, incl, oos, nogo, notrav, tl, sl⟩, rest)
      | _ => none
  | _ => none

def showAdj (a : Adj) : String := s!"{a.u}>{a.v}:{showKind a.kind}:{a.idx}:{a.w}"

def step (line : String) : String :=
  match tokens line with
  | "graph" :: rest =>
    match parseOpts rest with
    | some (o, rest) => match parseNet rest with
      | some (net, []) =>
        let es := ((adj net o).map showAdj).toArray.qsort (· < ·)
        let ns := (nodes net o).toArray.qsort (· < ·)
        s!"{" ".intercalate es.toList} | {" ".intercalate (ns.toList.map toString)}"
      | _ => "bad-op"
    | none => "bad-op"
  | "unsup" :: rest =>
    match parseOpts rest with
    | some (o, rest) => match parseNet rest with
      | some (net, rest) => match takeList (fun s => s.toNat?) rest with
        | some (sl, []) =>
          let u := (unsupplied net o sl).toArray.qsort (· < ·)
          if u.isEmpty then "-" else " ".intercalate (u.toList.map toString)
        | _ => "bad-op"
      | none => "bad-op"
    | none => "bad-op"
  | _ => "bad-op"

def main : IO Unit := run step
