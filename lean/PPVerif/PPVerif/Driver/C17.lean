import PPVerif.Driver.Proto
import PPVerif.Model.OpfCost
import Mathlib.Algebra.Field.Rat
open PPVerif PPVerif.Proto PPVerif.OpfCost PPVerif.Generated.C17

/-
  poly P3|Q3 s c2 c1 c0 | poly P2|Q2 s c1 c0 | linpwl s pmin pmax c1 c0 | sign P|Q|M kind
  pwl <0|1 neg> <n> lo up slope …
-/
def sr (r : Rat) := showRat r

partial def parseAreas : Nat → List String → Option (List (Area Rat))
  | 0, [] => some []
  | n+1, a :: b :: c :: rest => do
      let lo ← rat? a; let up ← rat? b; let sl ← rat? c
      let r ← parseAreas n rest
      some ((lo, up, sl) :: r)
  | _, _ => none

def step (line : String) : String :=
  match tokens line with
  | ["poly", w, s, a, b, c] =>
    match rat? s, rat? a, rat? b, rat? c with
    | some s, some a, some b, some c =>
      if w == "P3" then let r := polyRowP3 s a b c; s!"{sr r.1} {sr r.2.1} {sr r.2.2}"
      else if w == "Q3" then let r := polyRowQ3 s a b c; s!"{sr r.1} {sr r.2.1} {sr r.2.2}"
      else "bad-op"
    | _, _, _, _ => "bad-op"
  | ["poly", w, s, a, b] =>
    match rat? s, rat? a, rat? b with
    | some s, some a, some b =>
      if w == "P2" then let r := polyRowP2 s a b; s!"{sr r.1} {sr r.2}"
      else if w == "Q2" then let r := polyRowQ2 s a b; s!"{sr r.1} {sr r.2}"
      else "bad-op"
    | _, _, _ => "bad-op"
  | ["linpwl", s, a, b, c, d] =>
    match rat? s, rat? a, rat? b, rat? c, rat? d with
    | some s, some a, some b, some c, some d =>
      let r := linAsPwl s a b c d; s!"{sr r.1} {sr r.2.1} {sr r.2.2.1} {sr r.2.2.2}"
    | _, _, _, _, _ => "bad-op"
  | ["sign", w, kind] =>
    let l := if w == "P" then negKindsP else if w == "Q" then negKindsQ else negKindsMap
    sr (signOf (K := Rat) l kind)
  | "pwl" :: neg :: n :: rest =>
    match bool? neg, n.toNat? with
    | some neg, some n =>
      match parseAreas n rest with
      | some pts => " ".intercalate ((costsFromAreas pts neg).map fun xc => s!"{sr xc.1} {sr xc.2}")
      | none => "bad-op"
    | _, _ => "bad-op"
  | _ => "bad-op"

def main : IO Unit := run step
