import PPVerif.Driver.Proto
import PPVerif.Model.RelDefs
import PPVerif.Generated.C22
open PPVerif PPVerif.Proto PPVerif.Rel PPVerif.Generated.C22

/-
  <tables k name…> <rows n {t i}…> <refs m {src srcIdx dst target}…> <op…>
     op = reindex <t> <k> {old new}…      (update list of table t taken from the GENERATED reindexUpdates)
        | drop <k> {t i}…                 (with cascade)
        | fuse <t> <b1> <b2>
  -> "<ok 0|1> R {t i}… F {src srcIdx dst target}…"  (sorted)
-/
partial def pairs : Nat → List String → Option (List (Nat × Nat) × List String)
  | 0, rest => some ([], rest)
  | n+1, a :: b :: rest => do
      let a ← a.toNat?; let b ← b.toNat?
      let (ps, rest) ← pairs n rest
      some ((a, b) :: ps, rest)
  | _, _ => none

partial def quads : Nat → List String → Option (List Ref × List String)
  | 0, rest => some ([], rest)
  | n+1, a :: b :: c :: d :: rest => do
      let a ← a.toNat?; let b ← b.toNat?; let c ← c.toNat?; let d ← d.toNat?
      let (ps, rest) ← quads n rest
      some (⟨a, b, c, d⟩ :: ps, rest)
  | _, _ => none

def showNet (n : Net) : String :=
  let rs := (n.rows.mergeSort (fun a b => a.1 < b.1 || (a.1 == b.1 && a.2 ≤ b.2))).map (fun p => s!"{p.1} {p.2}")
  let key := fun (r : Ref) => [r.src, r.srcIdx, r.dst, r.target]
  let fs := (n.refs.mergeSort (fun a b => decide (key a ≤ key b))).map (fun r => s!"{r.src} {r.srcIdx} {r.dst} {r.target}")
  s!"{showBool (ok n)} R {" ".intercalate rs} F {" ".intercalate fs}"

def step (line : String) : String :=
  match tokens line with
  | "tables" :: k :: rest =>
    match k.toNat? with
    | none => "bad-op"
    | some k =>
      let names := rest.take k
      match rest.drop k with
      | "rows" :: n :: rest =>
        match n.toNat? >>= fun n => pairs n rest with
        | some (rows, "refs" :: m :: rest) =>
          match m.toNat? >>= fun m => quads m rest with
          | some (refs, op) =>
            let net : Net := ⟨rows, refs⟩
            match op with
            | "reindex" :: t :: k :: rest =>
              match t.toNat?, k.toNat? >>= fun k => pairs k rest with
              | some t, some (lk, []) =>
                let name := names.getD t ""
                let updNames := (reindexUpdates.lookup name).getD []
                let upd := fun (s : Nat) => updNames.contains (names.getD s "")
                let σ := fun (i : Nat) => ((lk.lookup i).getD i)
                showNet (reindexWith upd t σ net)
              | _, _ => "bad-op"
            | "drop" :: k :: rest =>
              match k.toNat? >>= fun k => pairs k rest with
              | some (d, []) => showNet (dropCascade d net)
              | _ => "bad-op"
            | ["fuse", t, b1, b2] =>
              match t.toNat?, b1.toNat?, b2.toNat? with
              | some t, some b1, some b2 => showNet (fuse t b1 b2 net)
              | _, _, _ => "bad-op"
            | _ => "bad-op"
          | none => "bad-op"
        | _ => "bad-op"
      | _ => "bad-op"
  | _ => "bad-op"

def main : IO Unit := run step
