import PPVerif.Driver.Proto
import PPVerif.Model.QLimDefs
import PPVerif.Generated.C04
import Mathlib.Algebra.Field.Rat
open PPVerif PPVerif.Proto PPVerif.QLim PPVerif.Generated.C04

/-
  qlim <n> {qmin qmax isRef on bus}… <r> {nlim q_0 … q_{n-1}}…   -> "<done|fuel> i:M i:m … | q_0 … q_{n-1} | pv-flags"
      (round table: the solver's answer is looked up by the size of the limited list; missing round = all 0)
  load <p> <s> <isv> <cz> <ci> <v>            -> loadP
  shunt <p> <isv> <step> <vb> <vn> <v>         -> "shuntP shuntGS"
-/
partial def parseGens : Nat → List String → Option (List Gen × List String)
  | 0, rest => some ([], rest)
  | n+1, a :: b :: r :: o :: bus :: rest => do
      let a ← a.toInt?; let b ← b.toInt?; let r ← bool? r; let o ← bool? o; let bus ← bus.toNat?
      let (gs, rest) ← parseGens n rest
      some (⟨a, b, r, o, bus⟩ :: gs, rest)
  | _, _ => none

partial def parseRounds (n : Nat) : Nat → List String → Option (List (Nat × List Int) × List String)
  | 0, rest => some ([], rest)
  | k+1, nl :: rest => do
      let nl ← nl.toNat?
      if rest.length < n then none else
      let qs ← (rest.take n).mapM (fun s => s.toInt?)
      let (rs, rest) ← parseRounds n k (rest.drop n)
      some ((nl, qs) :: rs, rest)
  | _, _ => none

def tableSolve (rounds : List (Nat × List Int)) (lim : Limited) (i : Nat) : Int :=
  match rounds.find? (fun r => r.1 == lim.length) with
  | some r => r.2.getD i 0
  | none => 0

def showLim (e : Nat × Lim) : String := s!"{e.1}:{match e.2 with | .atMax => "M" | .atMin => "m"}"

def step (line : String) : String :=
  match tokens line with
  | "qlim" :: n :: rest =>
    match n.toNat? with
    | some n => match parseGens n rest with
      | some (gens, r :: rest) =>
        match r.toNat? with
        | some r => match parseRounds n r rest with
          | some (rounds, []) =>
            let solve := tableSolve rounds
            match run law gens solve (gens.length + 1) [] with
            | some lim =>
              let rep := (List.range n).map (fun i => toString (report law gens solve lim i))
              let pv := (List.range n).map (fun i => match gens[i]? with | some g => showBool (pvBus gens lim g.bus) | none => "?")
              s!"done {" ".intercalate (lim.map showLim)} | {" ".intercalate rep} | {" ".intercalate pv}"
            | none => "fuel"
          | _ => "bad-op"
        | none => "bad-op"
      | _ => "bad-op"
    | none => "bad-op"
  | ["load", p, s, isv, cz, ci, v] =>
    match rat? p, rat? s, rat? isv, rat? cz, rat? ci, rat? v with
    | some p, some s, some isv, some cz, some ci, some v => showRat (loadP p s isv cz ci v)
    | _, _, _, _, _, _ => "bad-op"
  | ["shunt", p, isv, st, vb, vn, v] =>
    match rat? p, rat? isv, rat? st, rat? vb, rat? vn, rat? v with
    | some p, some isv, some st, some vb, some vn, some v =>
      if vn == 0 then "bad-op" else s!"{showRat (shuntP p isv st vb vn v)} {showRat (shuntGS p isv st vb vn)}"
    | _, _, _, _, _, _ => "bad-op"
  | _ => "bad-op"

def main : IO Unit := run step
