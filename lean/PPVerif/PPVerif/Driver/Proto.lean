/-
  Line protocol shared by all model drivers: one whitespace-separated request per line on stdin,
  one response line per request on stdout.  Unknown / malformed requests answer `bad-op`.
-/
namespace PPVerif.Proto

def tokens (line : String) : List String :=
  let step := fun (acc : List String × String) (c : Char) =>
    if c == ' ' || c == '\t' || c == '\n' || c == '\r' then
      (if acc.2 == "" then acc else (acc.2 :: acc.1, ""))
    else (acc.1, acc.2.push c)
  let (ws, cur) := line.toList.foldl step ([], "")
  (if cur == "" then ws else cur :: ws).reverse

/-- "-" ↦ none, decimal natural ↦ some -/
def optNat? (s : String) : Option (Option Nat) :=
  if s == "-" then some none else s.toNat?.map some

def showOptNat : Option Nat → String
  | none => "-"
  | some n => toString n

def int? (s : String) : Option Int := s.toInt?

/-- rationals: `p/q`, `p`, or finite decimals `-12.345`, `1e-3` is NOT accepted (Python sends p/q) -/
def rat? (s : String) : Option Rat :=
  match s.splitOn "/" with
  | [p, q] => do
      let p ← p.toInt?
      let q ← q.toNat?
      if q == 0 then none else some (mkRat p q)
  | [d] =>
    match d.splitOn "." with
    | [i] => (i.toInt?).map (fun z => (z : Rat))
    | [i, f] => do
        let neg := i.startsWith "-"
        let ip ← (if i == "-" || i == "" then some 0 else i.toInt?)
        let fp ← (if f == "" then some 0 else f.toNat?)
        let scale : Nat := 10 ^ f.length
        let mag : Rat := mkRat (Int.ofNat (ip.natAbs * scale + fp)) scale
        some (if neg then -mag else mag)
    | _ => none
  | _ => none

def showRat (r : Rat) : String :=
  if r.den == 1 then toString r.num else s!"{r.num}/{r.den}"

def bool? (s : String) : Option Bool :=
  if s == "1" || s == "T" then some true else if s == "0" || s == "F" then some false else none

def showBool (b : Bool) : String := if b then "1" else "0"

/-- read `n` then `n` items -/
def takeList {α} (p : String → Option α) : List String → Option (List α × List String)
  | [] => none
  | n :: rest => do
      let n ← n.toNat?
      if rest.length < n then none else
      let items ← (rest.take n).mapM p
      some (items, rest.drop n)

partial def loop (h : IO.FS.Stream) (step : String → String) : IO Unit := do
  let line ← h.getLine
  if line.isEmpty then return ()
  IO.println (step line)
  loop h step

def run (step : String → String) : IO Unit := do
  loop (← IO.getStdin) step

partial def loopS {σ} (h : IO.FS.Stream) (st : σ) (step : σ → String → σ × String) : IO Unit := do
  let line ← h.getLine
  if line.isEmpty then return ()
  let (st', out) := step st line
  IO.println out
  loopS h st' step

/-- stateful variant: the driver keeps a model state between request lines -/
def runS {σ} (init : σ) (step : σ → String → σ × String) : IO Unit := do
  loopS (← IO.getStdin) init step

/-- `n k1 v1 … kn vn` -/
def takePairs {α β} (p : String → Option α) (q : String → Option β) :
    List String → Option (List (α × β) × List String)
  | [] => none
  | n :: rest => do
      let n ← n.toNat?
      if rest.length < 2 * n then none else
      let rec go : Nat → List String → Option (List (α × β))
        | 0, _ => some []
        | k+1, a :: b :: tl => do
            let x ← p a; let y ← q b
            let r ← go k tl
            some ((x, y) :: r)
        | _, _ => none
      let items ← go n rest
      some (items, rest.drop (2 * n))

end PPVerif.Proto
