import PPVerif.Driver.Proto
import PPVerif.Model.GroupDefs
import PPVerif.Generated.C27
open PPVerif PPVerif.Proto PPVerif.Group

/-
  stateful:  reset | tbl <et> <n> {idx col ins}… | attach <gid> <et> <byCol> <n> elems… | detach <et> <n> elems… <all | k gids…>
             dropgroup <gid> | dropelems <fn> <et> <n> elems… | setservice <gid> <0|1>
             members <gid> <et> -> sorted ids | rows -> canonical dump | service <et> -> idx:flag …
-/
def sortDedup (l : List Nat) : List Nat := (l.toArray.qsort (· < ·)).toList.eraseDups
def showList (l : List Nat) : String := if l.isEmpty then "-" else " ".intercalate (l.map toString)

partial def parseElems : Nat → List String → Option (List Elem × List String)
  | 0, rest => some ([], rest)
  | n+1, a :: b :: c :: rest => do
      let i ← a.toNat?; let v ← b.toNat?; let s ← bool? c
      let (es, rest) ← parseElems n rest
      some (⟨i, v, s⟩ :: es, rest)
  | _, _ => none

def natList (l : List String) : Option (List Nat × List String) := takeList (fun s => s.toNat?) l

def empty : St := ⟨[], fun _ => []⟩

def step (st : St) (line : String) : St × String :=
  match tokens line with
  | ["reset"] => (empty, "ok")
  | "tbl" :: et :: n :: rest =>
    match et.toNat?, n.toNat? with
    | some et, some n => match parseElems n rest with
      | some (es, []) => ({ st with tbl := fun t => if t == et then es else st.tbl t }, "ok")
      | _ => (st, "bad-op")
    | _, _ => (st, "bad-op")
  | "attach" :: g :: et :: bc :: rest =>
    match g.toNat?, et.toNat?, bool? bc, natList rest with
    | some g, some et, some bc, some (el, []) => (attach st g et el bc, "ok")
    | _, _, _, _ => (st, "bad-op")
  | "detach" :: et :: rest =>
    match et.toNat?, natList rest with
    | some et, some (el, ["all"]) => (detach st et el (fun _ => true), "ok")
    | some et, some (el, rest2) => match natList rest2 with
      | some (gs, []) => (detach st et el (fun g => gs.contains g), "ok")
      | _ => (st, "bad-op")
    | _, _ => (st, "bad-op")
  | ["dropgroup", g] => match g.toNat? with
    | some g => (dropGroup st g, "ok")
    | none => (st, "bad-op")
  | "dropelems" :: fn :: et :: rest =>
    match et.toNat?, natList rest with
    | some et, some (el, []) =>
      match PPVerif.Generated.C27.detachBeforeDrop.find? (fun p => p.1 == fn) with
      | some p => (dropElems p.2 st et el, "ok")
      | none => (st, "bad-op")
    | _, _ => (st, "bad-op")
  | ["setservice", g, v] => match g.toNat?, bool? v with
    | some g, some v => (setService st g v, "ok")
    | _, _ => (st, "bad-op")
  | ["members", g, et] => match g.toNat?, et.toNat? with
    | some g, some et => (st, showList (sortDedup (membersOf st g et)))
    | _, _ => (st, "bad-op")
  | ["rows"] =>
    let rs := st.rows.map (fun r => s!"{r.gid}:{r.et}:{showBool r.byCol}:{",".intercalate ((sortDedup r.members).map toString)}")
    (st, if rs.isEmpty then "-" else " ".intercalate (rs.toArray.qsort (· < ·)).toList)
  | ["service", et] => match et.toNat? with
    | some et => (st, let l := (st.tbl et).map (fun e => s!"{e.idx}:{showBool e.inService}"); if l.isEmpty then "-" else " ".intercalate l)
    | none => (st, "bad-op")
  | _ => (st, "bad-op")

def main : IO Unit := runS empty step
