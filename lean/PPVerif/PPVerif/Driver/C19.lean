import PPVerif.Driver.Proto
import PPVerif.Model.MaskDefs
open PPVerif PPVerif.Proto PPVerif.Mask

/-  merge <n1> i… <n2> j…  -> "tot… | f1… | f2…" -/
def step (line : String) : String :=
  match tokens line with
  | "merge" :: rest =>
    match takeList (fun s => s.toNat?) rest with
    | some (m1, rest) =>
      match takeList (fun s => s.toNat?) rest with
      | some (m2, []) =>
        let (t, f1, f2) := mergeMask m1 m2
        s!"{" ".intercalate (t.map toString)} | {" ".intercalate (f1.map showBool)} | {" ".intercalate (f2.map showBool)}"
      | _ => "bad-op"
    | none => "bad-op"
  | _ => "bad-op"

def main : IO Unit := run step
