import PPVerif.Driver.Proto
import PPVerif.Model.InterpDefs
import Mathlib.Algebra.Order.Field.Rat
open PPVerif PPVerif.Proto PPVerif.Interp

/-
  lin <n> {x y}… <q>      -> value | "-"
  pchip <n> {x y}… <q>    -> value | "-"
  slopes <n> {x y}…       -> d_0 … d_{n-1}
-/
def showOptRat : Option Rat → String
  | none => "-"
  | some r => showRat r

def step (line : String) : String :=
  match tokens line with
  | "lin" :: rest =>
    match takePairs rat? rat? rest with
    | some (pts, [q]) => match rat? q with
      | some q => showOptRat (interpLin pts q)
      | none => "bad-op"
    | _ => "bad-op"
  | "pchip" :: rest =>
    match takePairs rat? rat? rest with
    | some (pts, [q]) => match rat? q with
      | some q => showOptRat (pchip pts q)
      | none => "bad-op"
    | _ => "bad-op"
  | "slopes" :: rest =>
    match takePairs rat? rat? rest with
    | some (pts, []) => " ".intercalate ((slopes pts).map showRat)
    | _ => "bad-op"
  | _ => "bad-op"

def main : IO Unit := run step
