/-
  Property C24 — creating elements in batch equals creating them one by one.
-/
import PPVerif.Model.Create

namespace PPVerif.C24
open PPVerif.Create

/-- rows built from a standard type agree on every column, for every standard type, iff the two key lists have
    the same members -/
theorem C24_std_rows_agree_iff {V : Type} [Inhabited V] (p : Pair) :
    (∀ (ty : StdType V) (col : String), stdRow p.singleKeys ty col = stdRow p.batchKeys ty col) ↔
    (∀ k, k ∈ p.singleKeys ↔ k ∈ p.batchKeys) := by
  constructor
  · intro h k
    have := h (fun _ => some default) k
    unfold stdRow at this
    by_cases h1 : k ∈ p.singleKeys <;> by_cases h2 : k ∈ p.batchKeys <;> simp_all
  · intro h ty col
    unfold stdRow
    by_cases h1 : col ∈ p.singleKeys
    · have h2 := (h col).mp h1; simp [h1, h2]
    · have h2 : col ∉ p.batchKeys := fun hh => h1 ((h col).mpr hh); simp [h1, h2]

/-- lines and three-winding transformers: the batch functions copy exactly the keys the single functions copy,
    so their std-type rows agree for **every** standard type -/
theorem C24_std_keys_covered_line {V : Type} (ty : StdType V) (col : String) :
    stdRow linePair.singleKeys ty col = stdRow linePair.batchKeys ty col := rfl

theorem C24_std_keys_covered_trafo3w {V : Type} (ty : StdType V) (col : String) :
    stdRow trafo3wPair.singleKeys ty col = stdRow trafo3wPair.batchKeys ty col := rfl

/-- two-winding transformers (KNOWN_FINDINGS key `row-diff:trafo:<col>`): the batch function misses exactly
    these fifteen keys … -/
theorem C24_trafo_missing_keys :
    trafoPair.missing = ["shift_degree", "tap_neutral", "tap_max", "tap_min", "tap_side", "tap_step_percent",
      "tap_step_degree", "tap_changer_type", "tap2_neutral", "tap2_max", "tap2_min", "tap2_side",
      "tap2_step_percent", "tap2_step_degree", "tap2_changer_type"] ∧ trafoPair.extra = [] := by decide

/-- … and agrees with the single function on every other column, for every standard type -/
theorem C24_std_rows_trafo_partial {V : Type} (ty : StdType V) (col : String)
    (h : col ∉ trafoPair.missing) :
    stdRow trafoPair.singleKeys ty col = stdRow trafoPair.batchKeys ty col := by
  unfold stdRow
  by_cases h1 : col ∈ trafoPair.singleKeys <;> by_cases h2 : col ∈ trafoPair.batchKeys <;> simp [h1, h2]
  · exfalso; apply h
    simp only [Pair.missing, List.mem_filter]
    exact ⟨h1, by simpa using h2⟩
  · exfalso
    have : col ∈ trafoPair.extra := by
      simp only [Pair.extra, List.mem_filter]; exact ⟨h2, by simpa using h1⟩
    rw [C24_trafo_missing_keys.2] at this; simp at this

/-- negation witness: a type with a phase shift — single creation yields 150°, batch creation nothing -/
theorem C24_witness_trafo_shift :
    stdRow trafoPair.singleKeys (fun k => if k = "shift_degree" then some 150 else none) "shift_degree" = some 150 ∧
    stdRow trafoPair.batchKeys (fun k => if k = "shift_degree" then some (150 : Nat) else none) "shift_degree" = none := by
  decide

variable {K : Type} [DecidableEq K]

/-- the batch call accepts exactly the argument vectors that the sequence of single calls accepts
    (non-existent nodes, duplicate keys inside the call, keys that exist already), for every table state and
    every number of elements.  (Sequences mixing explicit and automatic keys cannot be expressed in one batch call;
    for them the statement is about the model only.) -/
theorem C24_reject_iff (nodes : List Nat) (existing : List K) (rs : List (Req K)) :
    singleSeq nodes existing rs = batchAll nodes existing rs := by
  induction rs generalizing existing with
  | nil => simp [singleSeq, batchAll]
  | cons r rs ih =>
    cases hk : r.key with
    | none =>
      simp only [singleSeq, hk, ih, batchAll, List.all_cons, List.filterMap_cons]
      cases (r.nodes.all (· ∈ nodes)) <;> simp
    | some k =>
      simp only [singleSeq, hk, ih, batchAll, List.all_cons, List.filterMap_cons, List.nodup_cons]
      cases hn : (r.nodes.all (· ∈ nodes)) <;> simp
      cases he : existing.contains k <;> simp_all
      rw [Bool.eq_iff_iff]
      simp only [Bool.and_eq_true, List.all_eq_true, decide_eq_true_eq]
      constructor
      · rintro ⟨⟨h1, h2⟩, h3⟩
        refine ⟨⟨h1, ?_, h2⟩, ?_⟩
        · intro x hx hxk
          have := h3 x hx
          simp [hxk] at this
        · intro x hx
          have := h3 x hx
          cases hxk : x.key <;> simp_all
      · rintro ⟨⟨h1, h2, h3⟩, h4⟩
        refine ⟨⟨h1, h3⟩, ?_⟩
        intro x hx
        have := h4 x hx
        cases hxk : x.key with
        | none => simp
        | some k' =>
          simp only [hxk] at this ⊢
          have hne : k' ≠ k := fun e => h2 x hx (e ▸ hxk)
          simp_all

/-- non-vacuity: accepted and rejected instances of both kinds exist -/
example : singleSeq [1, 2] [7] [⟨[1], some 8⟩, ⟨[2, 1], some 9⟩] = true ∧
          singleSeq [1, 2] [7] [⟨[1], some 8⟩, ⟨[2], some 8⟩] = false ∧
          singleSeq [1, 2] [7] [⟨[3], some 8⟩] = false ∧
          singleSeq [1, 2] [7] [⟨[1], some 7⟩] = false := by decide

end PPVerif.C24
