/-
  C06 — all power flow algorithms and back-ends agree on the solution.
  (1) Radial networks: a voltage / branch-current pair is a fixed point of the backward/forward sweep
      (J_i = I_i + sum of J_c over the children c of i;  V_i = V_parent(i) − z_i·J_i) if and only if it satisfies Kirchhoff's
      current law at every non-root node with the branch currents given by Ohm's law — for every rooted tree (any parent
      function), every impedance ≠ 0 and every injection: the sweep solver and the nodal solvers have the same solutions.
  (2) generated facts: every documented algorithm name is dispatched; the fast single-slack result routine is selected
      only when its preconditions hold (one generator row, no voltage dependent loads, no distributed slack, no bus shunt
      conductance or susceptance); the sweep solver maps buses to matrix columns by position among the non-reference buses.
-/
import PPVerif.Generated.C06
import Mathlib.Algebra.Field.Defs
import Mathlib.Algebra.BigOperators.Group.List.Basic
import Mathlib.Tactic.FieldSimp
import Mathlib.Tactic.Ring

namespace PPVerif.Props.C06
open PPVerif.Generated.C06

section sweep
variable {K : Type} [Field K]

/-- children of node i among the nodes 1..n (parent function p; node 0 is the root) -/
def children (n : Nat) (p : Nat → Nat) (i : Nat) : List Nat := (List.range (n + 1)).filter (fun c => c ≠ 0 ∧ p c = i)

/-- backward sweep equation at node i: branch current into i = injection + branch currents into its children -/
def backward (n : Nat) (p : Nat → Nat) (I J : Nat → K) (i : Nat) : Prop :=
  J i = I i + ((children n p i).map J).sum
/-- forward sweep equation: voltage drop along the branch parent(i) → i -/
def forward (p : Nat → Nat) (z V J : Nat → K) (i : Nat) : Prop := V i = V (p i) - z i * J i

/-- Kirchhoff's current law at node i with Ohm's law on every branch -/
def kcl (n : Nat) (p : Nat → Nat) (z V I : Nat → K) (i : Nat) : Prop :=
  (V (p i) - V i) / z i = I i + ((children n p i).map (fun c => (V i - V c) / z c)).sum

theorem ohm_of_forward (p : Nat → Nat) (z V J : Nat → K) (i : Nat) (hz : z i ≠ 0) (h : forward p z V J i) :
    (V (p i) - V i) / z i = J i := by
  unfold forward at h
  rw [h]; field_simp; ring

/-- **sweep fixed point ⇒ nodal equations** -/
theorem C06_sweep_fixed_point_is_nodal_solution (n : Nat) (p : Nat → Nat) (z V I J : Nat → K)
    (hz : ∀ i, z i ≠ 0) (hf : ∀ i, i ≠ 0 → forward p z V J i) (hb : ∀ i, backward n p I J i) (i : Nat) (hi : i ≠ 0) :
    kcl n p z V I i := by
  unfold kcl
  rw [ohm_of_forward p z V J i (hz i) (hf i hi), hb i]
  congr 1
  apply congrArg
  apply List.map_congr_left
  intro c hc
  have hc' : c ≠ 0 ∧ p c = i := by
    simpa [children] using (List.mem_filter.1 hc).2
  have := ohm_of_forward p z V J c (hz c) (hf c hc'.1)
  rw [hc'.2] at this
  exact this.symm

/-- **nodal solution ⇒ sweep fixed point** (with the branch currents defined by Ohm's law) -/
theorem C06_nodal_solution_is_sweep_fixed_point (n : Nat) (p : Nat → Nat) (z V I : Nat → K)
    (hz : ∀ i, z i ≠ 0) (hk : ∀ i, i ≠ 0 → kcl n p z V I i) (i : Nat) (hi : i ≠ 0) :
    forward p z V (fun j => (V (p j) - V j) / z j) i ∧ backward n p I (fun j => (V (p j) - V j) / z j) i := by
  constructor
  · unfold forward; field_simp [hz i]; ring
  · unfold backward
    have := hk i hi
    unfold kcl at this
    show (V (p i) - V i) / z i = I i + ((children n p i).map (fun j => (V (p j) - V j) / z j)).sum
    rw [this]
    congr 1
    apply congrArg
    apply List.map_congr_left
    intro c hc
    have hc' : c ≠ 0 ∧ p c = i := by
      simpa [children] using (List.mem_filter.1 hc).2
    simp only [hc'.2]

/-- non-vacuity: a feeder 0 — 1 — 2 with a lateral 1 — 3 -/
example : children 3 (fun c => if c = 1 then 0 else 1) 1 = [2, 3] := by decide
end sweep

/-! ### generated facts -/
def documentedAlgorithms : List String := ["nr", "iwamoto_nr", "bfsw", "gs", "fdbx", "fdxb"]
theorem C06_every_algorithm_dispatched : documentedAlgorithms.all (fun a => (dispatch.lookup a).isSome) = true := by decide

/-- the fast result routine computes the slack power as losses + loads: it is only valid without bus shunts, with one
    generator row, without voltage dependent loads and without distributed slack -/
theorem C06_fast_routine_preconditions (oneGen vdl ds anyBS anyGS : Bool) (h : fastSelected oneGen vdl ds anyBS anyGS = true) :
    oneGen = true ∧ vdl = false ∧ ds = false ∧ anyBS = false ∧ anyGS = false := by
  cases oneGen <;> cases vdl <;> cases ds <;> cases anyBS <;> cases anyGS <;> simp_all [fastSelected]

theorem C06_bfsw_columns_by_position : bfswColumns = "position" := by decide

end PPVerif.Props.C06
