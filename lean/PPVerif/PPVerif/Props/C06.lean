/-
  C06 — all power flow algorithms and back-ends agree on the solution.
  (1) Radial networks: a voltage / branch-current pair is a fixed point of the backward/forward sweep
      (J_i = I_i + sum of J_c over the children c of i;  V_i = V_parent(i) − z_i·J_i) if and only if it satisfies Kirchhoff's
      current law at every non-root node with the branch currents given by Ohm's law — for every rooted tree (any parent
      function), every impedance ≠ 0 and every injection: the sweep solver and the nodal solvers have the same solutions.
  (2) Gauss-Seidel (update generated from gausspf), Newton-Raphson, Iwamoto and fast-decoupled steps are zero exactly when the
      power balance holds: all iterative solvers have the same fixed points.
  (3) generated facts: every documented algorithm name is dispatched; the fast single-slack result routine is selected
      only when its preconditions hold (one generator row, no voltage dependent loads, no distributed slack, no bus shunt
      conductance or susceptance); the sweep solver maps buses to matrix columns by position among the non-reference buses.
-/
import PPVerif.Generated.C06
import Mathlib.Algebra.Field.Defs
import Mathlib.Algebra.BigOperators.Group.List.Basic
import Mathlib.Tactic.FieldSimp
import Mathlib.Tactic.Ring
import Mathlib.Algebra.Star.Basic
import Mathlib.LinearAlgebra.Matrix.NonsingularInverse

namespace PPVerif.Props.C06
open PPVerif.Generated.C06

section sweep
variable {K : Type} [Field K]

/-- children of node i among the nodes 1..n (parent function p; node 0 is the root) -/
def children (n : Nat) (p : Nat → Nat) (i : Nat) : List Nat := (List.range (n + 1)).filter (fun c => c ≠ 0 ∧ p c = i)

/-- backward sweep equation at node i: branch current into i = injection + branch currents into its children -/
def backward (n : Nat) (p : Nat → Nat) (I J : Nat → K) (i : Nat) : Prop :=
  J i = I i + ((children n p i).map J).sum
/-- forward sweep equation: voltage drop along the branch parent(i) → i -/
def forward (p : Nat → Nat) (z V J : Nat → K) (i : Nat) : Prop := V i = V (p i) - z i * J i

/-- Kirchhoff's current law at node i with Ohm's law on every branch -/
def kcl (n : Nat) (p : Nat → Nat) (z V I : Nat → K) (i : Nat) : Prop :=
  (V (p i) - V i) / z i = I i + ((children n p i).map (fun c => (V i - V c) / z c)).sum

theorem ohm_of_forward (p : Nat → Nat) (z V J : Nat → K) (i : Nat) (hz : z i ≠ 0) (h : forward p z V J i) :
    (V (p i) - V i) / z i = J i := by
  unfold forward at h
  rw [h]; field_simp; ring

/-- **sweep fixed point ⇒ nodal equations** -/
theorem C06_sweep_fixed_point_is_nodal_solution (n : Nat) (p : Nat → Nat) (z V I J : Nat → K)
    (hz : ∀ i, z i ≠ 0) (hf : ∀ i, i ≠ 0 → forward p z V J i) (hb : ∀ i, backward n p I J i) (i : Nat) (hi : i ≠ 0) :
    kcl n p z V I i := by
  unfold kcl
  rw [ohm_of_forward p z V J i (hz i) (hf i hi), hb i]
  congr 1
  apply congrArg
  apply List.map_congr_left
  intro c hc
  have hc' : c ≠ 0 ∧ p c = i := by
    simpa [children] using (List.mem_filter.1 hc).2
  have := ohm_of_forward p z V J c (hz c) (hf c hc'.1)
  rw [hc'.2] at this
  exact this.symm

/-- **nodal solution ⇒ sweep fixed point** (with the branch currents defined by Ohm's law) -/
theorem C06_nodal_solution_is_sweep_fixed_point (n : Nat) (p : Nat → Nat) (z V I : Nat → K)
    (hz : ∀ i, z i ≠ 0) (hk : ∀ i, i ≠ 0 → kcl n p z V I i) (i : Nat) (hi : i ≠ 0) :
    forward p z V (fun j => (V (p j) - V j) / z j) i ∧ backward n p I (fun j => (V (p j) - V j) / z j) i := by
  constructor
  · unfold forward; field_simp [hz i]; ring
  · unfold backward
    have := hk i hi
    unfold kcl at this
    show (V (p i) - V i) / z i = I i + ((children n p i).map (fun j => (V (p j) - V j) / z j)).sum
    rw [this]
    congr 1
    apply congrArg
    apply List.map_congr_left
    intro c hc
    have hc' : c ≠ 0 ∧ p c = i := by
      simpa [children] using (List.mem_filter.1 hc).2
    simp only [hc'.2]

/-- non-vacuity: a feeder 0 — 1 — 2 with a lateral 1 — 3 -/
example : children 3 (fun c => if c = 1 then 0 else 1) 1 = [2, 3] := by decide
end sweep

/-! ### Gauss-Seidel, Newton-Raphson, fast-decoupled: a zero update is exactly a solved power balance -/
section fixedpoints
variable {K : Type} [Field K]

/-- **Gauss-Seidel**: the generated update leaves the voltage of bus k unchanged iff the nodal current balance
    (Ybus V)_k = conj(S_k / V_k) holds at k -/
theorem C06_gs_fixed_point (inj yv ykk vk : K) (hd : ykk ≠ 0) : gsStep inj yv ykk vk = vk ↔ yv = inj := by
  unfold gsStep
  constructor
  · intro h
    have h0 : (inj - yv) / ykk = 0 := by
      have := congrArg (fun t => t - vk) h
      simpa using this
    rcases div_eq_zero_iff.1 h0 with h1 | h1
    · exact (sub_eq_zero.1 h1).symm
    · exact absurd h1 hd
  · intro h; rw [h]; simp

/-- the current balance with inj = conj(S / V) is the power balance V · conj((Ybus V)_k) = S that gausspf, fdpf and newtonpf
    all test for convergence -/
theorem C06_current_balance_is_power_balance [StarRing K] (S V yv : K) (hV : V ≠ 0) (h : yv = star (S / V)) :
    V * star yv - S = 0 := by
  rw [h, star_star]; field_simp; ring

/-- **Newton-Raphson / fast-decoupled**: a step obtained by solving a linear system (Jacobian, B' or B'') with the
    mismatch as right-hand side is zero iff the mismatch is zero — for every invertible iteration matrix: the choice of the
    matrix (full Jacobian, Iwamoto's damped step, BX / XB approximations) changes the path, not the set of fixed points -/
theorem C06_linear_step_fixed_point {n : Type} [Fintype n] [DecidableEq n] (A : Matrix n n K) [Invertible A] (F : n → K) :
    (-(⅟A).mulVec F) = 0 ↔ F = 0 := by
  constructor
  · intro h
    have h1 : (⅟A).mulVec F = 0 := by simpa using h
    have := congrArg (fun v => A.mulVec v) h1
    simpa [Matrix.mulVec_mulVec, mul_invOf_self] using this
  · intro h; simp [h]

/-- a damped step (Iwamoto multiplier μ ≠ 0) has the same fixed points -/
theorem C06_damped_step_fixed_point {n : Type} [Fintype n] [DecidableEq n] (A : Matrix n n K) [Invertible A] (F : n → K)
    (mu : K) (hmu : mu ≠ 0) : mu • (-(⅟A).mulVec F) = 0 ↔ F = 0 := by
  rw [smul_eq_zero]
  constructor
  · rintro (h | h)
    · exact absurd h hmu
    · exact (C06_linear_step_fixed_point A F).1 h
  · intro h; exact Or.inr ((C06_linear_step_fixed_point A F).2 h)

theorem C06_generated_iteration_shapes :
    gsMismatchIsPowerBalance = true ∧
    fdSteps = ["dVa=-Bp_solver.solve(P)", "Va[pvpq]=Va[pvpq]+dVa", "dVm=-Bpp_solver.solve(Q)", "Vm[pq]=Vm[pq]+dVm",
               "mis=(V*conj(Ybus*V)-Sbus)/Vm", "P=mis[pvpq].real", "Q=mis[pq].imag"] := by decide
end fixedpoints

/-! ### generated facts -/
def documentedAlgorithms : List String := ["nr", "iwamoto_nr", "bfsw", "gs", "fdbx", "fdxb"]
theorem C06_every_algorithm_dispatched : documentedAlgorithms.all (fun a => (dispatch.lookup a).isSome) = true := by decide

/-- the fast result routine computes the slack power as losses + loads: it is only valid without bus shunts, with one
    generator row, without voltage dependent loads and without distributed slack -/
theorem C06_fast_routine_preconditions (oneGen vdl ds anyBS anyGS : Bool) (h : fastSelected oneGen vdl ds anyBS anyGS = true) :
    oneGen = true ∧ vdl = false ∧ ds = false ∧ anyBS = false ∧ anyGS = false := by
  cases oneGen <;> cases vdl <;> cases ds <;> cases anyBS <;> cases anyGS <;> simp_all [fastSelected]

theorem C06_bfsw_columns_by_position : bfswColumns = "position" := by decide

end PPVerif.Props.C06
