/-
  C08 — calculations never corrupt the user's network, even when they fail.
  (1) every safe driver (adds the auxiliary rows once inside its handler, cleans up on success, handler truncates to the
      original length) returns
      exactly the user's rows for every number of dclines, every user table and every way of ending (success, exception at
      any stage, non-convergence at any stage); the unguarded shapes lose user rows or keep auxiliary rows (witnesses);
  (2) every driver found in the source is safe (generated list, decide);
  (3) the statements on the calculation path that assign into input tables are exactly the reviewed ones, which only add
      new helper columns (generated list, decide).
-/
import PPVerif.Generated.C08
namespace PPVerif.Props.C08
open PPVerif.Guard PPVerif.Generated.C08

theorem cleanUp_addAux (ndc : Nat) (rows : Rows) : cleanUp ndc (addAux ndc rows) = rows := by
  unfold cleanUp addAux
  simp [List.take_append_of_le_length]

/-- **safe drivers restore the table** for every input and every outcome -/
theorem take_append_replicate (user : Rows) (k : Nat) : (user ++ List.replicate k none).take user.length = user := by
  simp

theorem C08_safe_driver_restores (d : Driver) (hs : safe d = true) (ndc : Nat) (user : Rows) (o : Outcome) :
    run d ndc user o = user := by
  unfold safe at hs
  simp only [Bool.or_eq_true, Bool.and_eq_true, beq_iff_eq, Bool.not_eq_eq_eq_not, Bool.not_true] at hs
  rcases hs with ⟨⟨⟨ha, hc⟩, hp⟩, ht⟩ | ⟨⟨ha, hc⟩, hp⟩
  · unfold run
    simp only [ha, List.range_one, List.foldl_cons, List.foldl_nil, hc, ↓reduceIte, hp, ht]
    cases o with
    | ok => exact cleanUp_addAux ndc user
    | raiseInAdd j => simp [handler]
    | raiseAt k => simp [handler, addAux]
    | notConvergedAt k =>
      simp only [↓reduceIte]
      rw [cleanUp_addAux]
      simp [handler]
  · unfold run
    simp only [ha, List.range_zero, List.foldl_nil, hc, hp]
    cases o with
    | ok => simp
    | raiseInAdd j => simp
    | raiseAt k => rfl
    | notConvergedAt k => simp [handler]

/-- an unconditional clean-up in the handler removes user rows after a non-convergence that already cleaned up -/
theorem C08_always_policy_loses_rows :
    run ⟨"x", 1, .always, true, true⟩ 1 [some 0, some 1, some 2] (.notConvergedAt 0) = [some 0] := by decide

/-- no handler: the auxiliary rows stay after an exception -/
theorem C08_no_handler_keeps_aux :
    run ⟨"x", 1, .none, true, false⟩ 1 [some 0] (.raiseAt 3) = [some 0, none, none] := by decide

/-- the row-count guard with the positional `_clean_up` removes a user row when the adding itself was interrupted after one
    row; adding outside of the handler keeps that row -/
theorem C08_row_guard_partial_add : run ⟨"x", 1, .rowGuard, true, true⟩ 1 [some 0, some 1] (.raiseInAdd 1) = [some 0] := by decide
theorem C08_add_outside_try : run ⟨"x", 1, .truncate, true, false⟩ 1 [some 0] (.raiseInAdd 1) = [some 0, none] := by decide

/-- adding twice and cleaning once keeps a pair; cleaning without adding removes user rows -/
theorem C08_double_add_keeps_aux : run ⟨"x", 2, .rowGuard, true, true⟩ 1 [some 0] .ok = [some 0, none, none] := by decide
theorem C08_clean_without_add_loses_rows : run ⟨"x", 0, .rowGuard, true, true⟩ 1 [some 0, some 1, some 2] .ok = [some 0] := by decide

/-- **every calculation driver in the source is safe** -/
theorem C08_all_drivers_safe : drivers.all safe = true := by decide

theorem C08_drivers_restore (d : Driver) (hd : d ∈ drivers) (ndc : Nat) (user : Rows) (o : Outcome) :
    run d ndc user o = user :=
  C08_safe_driver_restores d (List.all_eq_true.1 C08_all_drivers_safe d hd) ndc user o

/-- **assignments into input tables on the calculation path** are exactly the reviewed ones (new helper columns only:
    short-circuit data columns added when missing, zero-sequence helper columns of the transformer table) -/
def reviewedWrites : List String :=
  ["pd2ppc_zero.py:_add_trafo_sc_impedance_zero:trafo:trafo_df['_ppc_idx']",
   "pd2ppc_zero.py:_add_trafo_sc_impedance_zero:trafo:trafo_df['k_st']",
   "pd2ppc_zero.py:_add_trafo_sc_impedance_zero:trafo:trafo_df['xn_ohm']",
   "ppc_conversion.py:_check_sc_data_integrity:gen:net.gen[col]",
   "ppc_conversion.py:_check_sc_data_integrity:trafo:net.trafo[col]"]
theorem C08_table_writes_reviewed : tableWrites = reviewedWrites := by decide

end PPVerif.Props.C08
