/-
  C23 — result-preserving toolbox transformations.
  The per-unit parameters that build_branch.py derives from the tables and the conversion formulas of the toolbox are both
  GENERATED; the theorems state that the converted element has the same per-unit two-port parameters as the original, for
  all values:
    * line → impedance (replace_line_by_impedance) and impedance → line (replace_impedance_by_line), and the round trips;
    * xward internal branch → impedance (replace_xward_by_internal_elements);
    * merge_parallel_line: series and shunt parameters of the single line equal those of the parallel one;
    * ward → load + shunt (replace_ward_by_internal_elements) through the generated result laws of C04;
  and on the network model (PFDefs): merging disjoint networks / selecting an island leaves the injections of the own
  nodes unchanged; re-indexing, dropping inactive elements and splitting parallel lines are C05's theorems.
-/
import PPVerif.Generated.C23
import PPVerif.Generated.C04
import PPVerif.Props.C05
import Mathlib.Tactic.Ring
import Mathlib.Tactic.FieldSimp
import Mathlib.Data.Complex.Basic

namespace PPVerif.Props.C23
open PPVerif.Generated.C23 PPVerif.PF

section conv
variable {K : Type} [Field K]

/-- line → impedance: same per-unit series resistance / reactance -/
theorem C23_line_to_impedance (r l p vn sni sn : K) (hv : vn ≠ 0) (hs : sni ≠ 0) (hp : p ≠ 0) :
    impR (l2iR r l p vn sni) sni sn = lineR r l p vn sn := by
  unfold impR l2iR lineR; field_simp

/-- impedance → line (1 km, parallel 1): same per-unit series values -/
theorem C23_impedance_to_line (rft vn sni sn : K) (hv : vn ≠ 0) (hs : sni ≠ 0) :
    lineR (i2lR rft vn sni) 1 1 vn sn = impR rft sni sn := by
  unfold impR i2lR lineR; field_simp

/-- round trips on the table values -/
theorem C23_round_trip_impedance (rft vn sni : K) (hv : vn ≠ 0) (hs : sni ≠ 0) :
    l2iR (i2lR rft vn sni) 1 1 vn sni = rft := by
  unfold l2iR i2lR; field_simp

theorem C23_round_trip_line (r l p vn sni : K) (hv : vn ≠ 0) (hs : sni ≠ 0) (hp : p ≠ 0) :
    i2lR (l2iR r l p vn sni) vn sni = r * l / p := by
  unfold l2iR i2lR; field_simp

/-- what happens to a line's shunt admittance when the replacement is forced (only_valid_replace=False): the impedance
    carries the full line admittance on each side, twice what the line model puts there (documented as not result-equal) -/
theorem C23_line_to_impedance_shunt_doubled (g l p vn sni sn : K) (hv : vn ≠ 0) (hs : sni ≠ 0) (hn : sn ≠ 0) :
    impG (l2iG g l p vn sni) sni sn = 2 * lineG g l p vn sn := by
  unfold impG l2iG lineG; field_simp

/-- xward → internal elements: the impedance has the per-unit values of the xward's internal branch -/
theorem C23_xward_to_impedance (r vn sn : K) (hv : vn ≠ 0) (hn : sn ≠ 0) :
    impR (xw2iR r vn sn) sn sn = xwardR r vn sn := by
  unfold impR xw2iR xwardR; field_simp

/-- merge_parallel_line, shunt side and rating: p·g, p·c on a single line = g, c on p parallel lines -/
theorem C23_merge_parallel_shunt (g c l p vn sn f pi : K) :
    lineG (p * g) l 1 vn sn = lineG g l p vn sn ∧ lineB (p * c) l 1 vn sn f pi = lineB c l p vn sn f pi := by
  unfold lineG lineB; constructor <;> ring

/-- merge_parallel_line, series side: r/p, x/p on a single line = r, x on p parallel lines -/
theorem C23_merge_parallel_series (r l p vn sn : K) (hp : p ≠ 0) : lineR (r / p) l 1 vn sn = lineR r l p vn sn := by
  unfold lineR; field_simp

/-- ward → load + shunt: the generated load and shunt result laws add up to the ward law ps + pz·v² -/
theorem C23_ward_as_load_and_shunt (ps pz vb v : K) (hb : vb ≠ 0) :
    PPVerif.Generated.C04.loadP ps 1 1 0 0 v + PPVerif.Generated.C04.shuntP pz 1 1 vb vb v = ps + pz * v ^ 2 := by
  unfold PPVerif.Generated.C04.loadP PPVerif.Generated.C04.shuntP; field_simp; ring
end conv

/-- merge_parallel_line computes 1/(p·(1/z0)) with complex numbers and stores its real and imaginary parts: r/p and x/p -/
theorem C23_merge_parallel_complex (r x p : ℝ) (hp : p ≠ 0) (hz : (⟨r, x⟩ : ℂ) ≠ 0) :
    (1 / ((p : ℂ) * (1 / (⟨r, x⟩ : ℂ)))).re = r / p ∧ (1 / ((p : ℂ) * (1 / (⟨r, x⟩ : ℂ)))).im = x / p := by
  have hpc : (p : ℂ) ≠ 0 := by exact_mod_cast hp
  have h : 1 / ((p : ℂ) * (1 / (⟨r, x⟩ : ℂ))) = (⟨r, x⟩ : ℂ) / (p : ℂ) := by field_simp
  rw [h]
  constructor
  · rw [Complex.div_ofReal_re]
  · rw [Complex.div_ofReal_im]

section net
variable {R : Type} [CommRing R] [StarRing R]

/-- merging disjoint networks (merge_nets) / selecting an island (select_subnet): branches that do not touch node `i`
    contribute nothing to its injection -/
theorem C23_disjoint_union (brs other : List (Branch R)) (ysh : Nat → R) (V : Nat → R) (i : Nat)
    (h : ∀ b ∈ other, b.f ≠ i ∧ b.t ≠ i) : iBus (brs ++ other) ysh V i = iBus brs ysh V i := by
  unfold iBus
  rw [List.map_append, List.sum_append]
  have : (other.map fun b => (if b.f = i then iFrom b V else 0) + (if b.t = i then iTo b V else 0)).sum = 0 := by
    apply List.sum_eq_zero
    intro x hx
    rw [List.mem_map] at hx
    obtain ⟨b, hb, rfl⟩ := hx
    obtain ⟨h1, h2⟩ := h b hb
    simp [h1, h2]
  rw [this, add_zero]

/-- re-indexing (create_continuous_bus_index, reindex_buses), dropping inactive elements, one line for n parallel ones:
    C05's theorems apply verbatim -/
theorem C23_reindex (σ : Nat → Nat) (hσ : Function.Injective σ) (brs : List (Branch R)) (ysh ysh' : Nat → R)
    (V V' : Nat → R) (hV : ∀ j, V' (σ j) = V j) (hy : ∀ j, ysh' (σ j) = ysh j) (i : Nat) :
    iBus (brs.map (PPVerif.C05.relabelBr σ)) ysh' V' (σ i) = iBus brs ysh V i :=
  PPVerif.C05.C05_relabel σ hσ brs ysh ysh' V V' hV hy i

theorem C23_drop_inactive (brs : List (Branch R)) (f t : Nat) (ysh : Nat → R) (V : Nat → R) (i : Nat) :
    iBus brs ysh V i = iBus (⟨f, t, 0, 0, 0, 0⟩ :: brs) ysh V i :=
  (PPVerif.C05.C05_add_inert brs f t ysh V i).symm
end net

example : impR (l2iR (1/10 : ℚ) 10 2 110 50) 50 100 = lineR (1/10) 10 2 110 100 := by
  unfold impR l2iR lineR; norm_num

end PPVerif.Props.C23
