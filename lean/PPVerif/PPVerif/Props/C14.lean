/-
  Property C14 — contingency analysis reports the true extremes over all N-1 cases.
  The masks (`seqMaxMask`, `seqWhere`, `seqOver`) and the restore mode are regenerated from contingency.py.
-/
import PPVerif.Model.Fold
import PPVerif.Generated.C14

namespace PPVerif.C14
open PPVerif.Fold PPVerif.Generated.C14

/-- the code's aggregate of any case list (any number of cases, any values incl. NaN, any in-service pattern) -/
abbrev codeRun {K : Type} [LT K] [DecidableLT K] (lit : Int → K) (l : List (Nat × Obs K)) : Acc K :=
  run seqMaxMask seqWhere lit false l init

variable {K : Type} [LinearOrder K]

/-- the generated `max_mask` of `_update_contingency_results` is the specification mask on every reachable state -/
theorem C14_code_maxmask_eq_spec (lit : Int → K) (st ins base : Bool) (val cur : Option K)
    (h : st = false → cur = none) :
    seqMaxMask lit st false ins base val cur = specMax lit st false ins base val cur := by
  cases st
  · simp [h rfl, seqMaxMask, specMax, netFlag, valid, curOr]
  · simp [seqMaxMask, specMax, netFlag, valid, curOr]

/-- the generated `where=` mask of the fmax / fmin calls is "in service in this case and not NaN" -/
theorem C14_code_where_eq_spec (ins base : Bool) (val : Option K) :
    seqWhere false ins base val = specWhere false ins base val := by
  simp [seqWhere, specWhere, netFlag, valid]

theorem C14_code_run_eq_spec (lit : Int → K) (l : List (Nat × Obs K)) : codeRun lit l = runS lit false l init := by
  apply run_congr
  · intro st ins base val cur h; exact C14_code_maxmask_eq_spec lit st ins base val cur h
  · intro ins base val; exact C14_code_where_eq_spec ins base val
  · intro _; rfl

/-- max_<var> is an upper bound of the element's value in every case it is valid in (converged, element in service
    — its own outage excluded —, result not NaN) … -/
theorem C14_max_is_upper_bound (lit : Int → K) (l : List (Nat × Obs K)) (c : Nat) (o : Obs K) (v : K)
    (hc : (c, o) ∈ l) (hv : validVal o = some v) : ∃ m, (codeRun lit l).max = some m ∧ v ≤ m := by
  rw [C14_code_run_eq_spec]; exact (inv_run lit false l).max_ub (c, o) hc v hv

/-- … and is attained by one of them (so it is NaN exactly when there is no valid case) -/
theorem C14_max_is_attained (lit : Int → K) (l : List (Nat × Obs K)) (m : K) (h : (codeRun lit l).max = some m) :
    ∃ co ∈ l, validVal co.2 = some m := by
  rw [C14_code_run_eq_spec] at h; exact (inv_run lit false l).max_mem m h

theorem C14_min_is_lower_bound (lit : Int → K) (l : List (Nat × Obs K)) (c : Nat) (o : Obs K) (v : K)
    (hc : (c, o) ∈ l) (hv : validVal o = some v) : ∃ m, (codeRun lit l).min = some m ∧ m ≤ v := by
  rw [C14_code_run_eq_spec]; exact (inv_run lit false l).min_lb (c, o) hc v hv

theorem C14_min_is_attained (lit : Int → K) (l : List (Nat × Obs K)) (m : K) (h : (codeRun lit l).min = some m) :
    ∃ co ∈ l, validVal co.2 = some m := by
  rw [C14_code_run_eq_spec] at h; exact (inv_run lit false l).min_mem m h

theorem C14_max_nan_iff_no_valid_case (lit : Int → K) (l : List (Nat × Obs K)) :
    (codeRun lit l).max = none ↔ ∀ co ∈ l, validVal co.2 = none := by
  constructor
  · intro h co hco
    cases hv : validVal co.2 with
    | none => rfl
    | some v =>
      obtain ⟨m, hm, _⟩ := C14_max_is_upper_bound lit l co.1 co.2 v hco hv
      rw [h] at hm; cases hm
  · intro h
    cases hm : (codeRun lit l).max with
    | none => rfl
    | some m =>
      obtain ⟨co, hco, hv⟩ := C14_max_is_attained lit l m hm
      rw [h co hco] at hv; cases hv

/-- the recorded cause names a case that is in the list, in which the element is valid, and whose value IS the
    reported maximum -/
theorem C14_cause_attains_max (lit : Int → K) (l : List (Nat × Obs K)) (c : Nat)
    (h : (codeRun lit l).cause = some c) :
    ∃ o m, (c, o) ∈ l ∧ validVal o = some m ∧ (codeRun lit l).max = some m := by
  rw [C14_code_run_eq_spec] at h ⊢
  obtain ⟨hne, o, ho, hv⟩ := (inv_run lit false l).cause_att c h
  cases hm : (runS lit false l init).max with
  | none => exact absurd hm hne
  | some m => exact ⟨o, m, ho, by rw [hv, hm], rfl⟩

/-- a cause is recorded whenever a maximum is reported (no unwritten `np.empty` cell next to a finite maximum) -/
theorem C14_cause_recorded (lit : Int → K) (l : List (Nat × Obs K)) (h : (codeRun lit l).max ≠ none) :
    (codeRun lit l).cause ≠ none := by
  rw [C14_code_run_eq_spec] at h ⊢; exact (inv_run lit false l).cause_some h

/-- causes_overloading is set exactly for the cases in which some element's value exceeds its limit -/
theorem C14_causes_overloading_iff (limits : List (Option K)) (cases : List (Nat × List (Option K))) (c : Nat) :
    c ∈ flagFold seqOver limits cases ↔
      ∃ vals, (c, vals) ∈ cases ∧ ∃ p ∈ vals.zip limits, gtN p.1 p.2 = true := by
  have key : ∀ (fl : List Nat), c ∈ cases.foldl (fun fl x => if overloads seqOver x.2 limits then x.1 :: fl else fl) fl ↔
      (c ∈ fl ∨ ∃ vals, (c, vals) ∈ cases ∧ ∃ p ∈ vals.zip limits, gtN p.1 p.2 = true) := by
    induction cases with
    | nil => intro fl; simp
    | cons x xs ih =>
      intro fl
      simp only [List.foldl_cons, ih]
      by_cases ho : overloads seqOver x.2 limits = true
      · have ho' : ∃ p ∈ x.2.zip limits, gtN p.1 p.2 = true := by
          simpa [overloads, seqOver, List.any_eq_true] using ho
        simp only [ho, if_true, List.mem_cons]
        constructor
        · rintro ((rfl | h) | ⟨vals, hv, hp⟩)
          · exact Or.inr ⟨x.2, by simp, ho'⟩
          · exact Or.inl h
          · exact Or.inr ⟨vals, Or.inr hv, hp⟩
        · rintro (h | ⟨vals, (hv | hv), hp⟩)
          · exact Or.inl (Or.inr h)
          · left; left; cases hv; rfl
          · exact Or.inr ⟨vals, hv, hp⟩
      · have ho' : ¬ ∃ p ∈ x.2.zip limits, gtN p.1 p.2 = true := by
          simpa [overloads, seqOver, List.any_eq_true] using ho
        simp only [ho, List.mem_cons]
        constructor
        · rintro (h | ⟨vals, hv, hp⟩)
          · exact Or.inl h
          · exact Or.inr ⟨vals, Or.inr hv, hp⟩
        · rintro (h | ⟨vals, (hv | hv), hp⟩)
          · exact Or.inl h
          · exfalso; apply ho'; cases hv; exact hp
          · exact Or.inr ⟨vals, hv, hp⟩
  simpa [flagFold] using key []

/-- all in_service flags are restored after the N-1 loop, whatever each case evaluation does (succeeds, raises and
    is swallowed, raises and propagates out of run_contingency) -/
theorem C14_restore_in_service (l : List (Nat × Outcome)) (f : Nat → Bool) (j : Nat) :
    loopRun seqRestore l f j = f j := by
  induction l generalizing f with
  | nil => rfl
  | cons x xs ih =>
    obtain ⟨i, oc⟩ := x
    have hstep : ∀ j, (loopStep seqRestore i oc f).1 j = f j := by
      intro j
      unfold loopStep
      by_cases hf : f i = true
      · by_cases hj : j = i <;> simp [hf, seqRestore, restores, hj]
      · simp [hf]
    simp only [loopRun]
    split
    · rw [ih]; exact hstep j
    · exact hstep j

/-! ### the defect repaired by the `fix:` commit, as a witness: with the plain `val > current_max` mask (default -1)
    the element's own outage is recorded as the cause although it does not count for the maximum, and a later case
    that sets the maximum cannot replace it (`50 > NaN` is false) -/
theorem C14_witness_nan_running_max :
    let l : List (Nat × Obs Int) := [(7, ⟨some 0, false, false⟩), (3, ⟨some 50, true, true⟩)]
    (run oldMax specWhere (fun z => z) false l init).cause = some 7 ∧
    (run oldMax specWhere (fun z => z) false l init).max = some 50 ∧
    (codeRun (fun z => z) l).cause = some 3 := by decide

/-- the restore statement outside a `finally` clause loses the flag when an exception propagates -/
theorem C14_witness_restore_after_try :
    loopRun .afterTry [(2, .raised)] (fun _ => true) 2 = false ∧
    loopRun .inFinally [(2, .raised)] (fun _ => true) 2 = true := by decide

/-- non-vacuity: a case list with an own outage, a NaN result and two valid cases -/
example : (codeRun (fun z => z) ([(0, ⟨some 0, false, false⟩), (1, ⟨none, true, true⟩), (2, ⟨some 40, true, true⟩),
    (3, ⟨some 70, true, true⟩)] : List (Nat × Obs Int))).max = some 70 := by decide

end PPVerif.C14
