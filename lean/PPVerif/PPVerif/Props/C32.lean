/-
  Property C32 — characteristics interpolate through their support points, shape-preserving interpolation of
  monotone data stays between neighbouring support values, and the objects survive serialisation.
-/
import PPVerif.Model.InterpDefs
import PPVerif.Generated.C32
import Mathlib.Tactic.Ring
import Mathlib.Tactic.Linarith
import Mathlib.Tactic.FieldSimp
import Mathlib.Tactic.Positivity

namespace PPVerif.C32
open PPVerif.Interp

variable {K : Type} [Field K] [LinearOrder K] [IsStrictOrderedRing K]

/-- support abscissae strictly increasing -/
def Sorted (pts : List (K × K)) : Prop := pts.Pairwise (fun a b => a.1 < b.1)

/-! ### piecewise linear characteristic (`Characteristic.__call__` = numpy.interp) -/

theorem lin_head (x0 y0 : K) (rest : List (K × K)) (x : K) (h : x ≤ x0) :
    interpLin ((x0, y0) :: rest) x = some y0 := by
  cases rest with
  | nil => rfl
  | cons p rest => obtain ⟨x1, y1⟩ := p; simp [interpLin, h]

/-- the characteristic returns the given y value at each given x point (any number of support points) -/
theorem C32_lin_at_nodes (pts : List (K × K)) (hs : Sorted pts) (p : K × K) (hp : p ∈ pts) :
    interpLin pts p.1 = some p.2 := by
  induction pts with
  | nil => cases hp
  | cons q rest ih =>
    obtain ⟨x0, y0⟩ := q
    rcases List.mem_cons.mp hp with rfl | hmem
    · exact lin_head _ _ _ _ (le_refl _)
    · have hs' : Sorted rest := (List.pairwise_cons.mp hs).2
      have hlt : x0 < p.1 := (List.pairwise_cons.mp hs).1 p hmem
      cases rest with
      | nil => cases hmem
      | cons r rest' =>
        obtain ⟨x1, y1⟩ := r
        have hx01 : x0 < x1 := (List.pairwise_cons.mp hs).1 (x1, y1) (by simp)
        simp only [interpLin, not_le.mpr hlt, if_false]
        by_cases hle : p.1 ≤ x1
        · -- p is the point (x1, y1) itself (abscissae are strictly increasing)
          rcases List.mem_cons.mp hmem with rfl | hmem'
          · have : x1 - x0 ≠ 0 := sub_ne_zero.mpr (ne_of_gt hx01)
            simp only [le_refl, if_true]
            congr 1; field_simp; ring
          · have : x1 < p.1 := (List.pairwise_cons.mp hs').1 p hmem'
            exact absurd hle (not_le.mpr this)
        · simp only [hle, if_false]
          exact ih hs' hmem

/-- constant beyond the first support point … -/
theorem C32_lin_clamp_left (x0 y0 : K) (rest : List (K × K)) (x : K) (h : x ≤ x0) :
    interpLin ((x0, y0) :: rest) x = some y0 := lin_head x0 y0 rest x h

/-- … and beyond the last -/
theorem C32_lin_clamp_right (pts : List (K × K)) (hs : Sorted pts) (pl : K × K)
    (hl : pts.getLast? = some pl) (x : K) (h : pl.1 ≤ x) : interpLin pts x = some pl.2 := by
  induction pts with
  | nil => simp at hl
  | cons q rest ih =>
    obtain ⟨x0, y0⟩ := q
    cases rest with
    | nil => simp at hl; subst hl; rfl
    | cons r rest' =>
      obtain ⟨x1, y1⟩ := r
      have hs' : Sorted ((x1, y1) :: rest') := (List.pairwise_cons.mp hs).2
      have hl' : ((x1, y1) :: rest').getLast? = some pl := by simpa [List.getLast?_cons_cons] using hl
      have hmem : pl ∈ (x1, y1) :: rest' := List.mem_of_getLast? hl'
      have h0 : x0 < pl.1 := (List.pairwise_cons.mp hs).1 pl hmem
      have hx : ¬ x ≤ x0 := not_le.mpr (lt_of_lt_of_le h0 h)
      simp only [interpLin, hx, if_false]
      by_cases hle : x ≤ x1
      · -- then pl = (x1, y1) and x = x1
        rcases List.mem_cons.mp hmem with rfl | hm
        · have : x = x1 := le_antisymm hle h
          subst this
          have : x - x0 ≠ 0 := sub_ne_zero.mpr (ne_of_gt (lt_of_lt_of_le h0 (le_refl _)))
          simp only [le_refl, if_true]
          congr 1; field_simp; ring
        · have : x1 < pl.1 := (List.pairwise_cons.mp hs').1 pl hm
          exact absurd (le_trans h hle) (not_le.mpr this)
      · simp only [hle, if_false]
        exact ih hs' hl'

/-- between two neighbouring support points the value lies between the two support values — for ARBITRARY y data -/
theorem C32_lin_between (pre : List (K × K)) (x0 y0 x1 y1 : K) (rest : List (K × K))
    (hs : Sorted (pre ++ (x0, y0) :: (x1, y1) :: rest)) (x : K) (h0 : x0 < x) (h1 : x ≤ x1) :
    ∃ v, interpLin (pre ++ (x0, y0) :: (x1, y1) :: rest) x = some v ∧ min y0 y1 ≤ v ∧ v ≤ max y0 y1 := by
  induction pre with
  | nil =>
    have hx01 : x0 < x1 := lt_of_lt_of_le h0 h1
    have hd : 0 < x1 - x0 := sub_pos.mpr hx01
    refine ⟨y0 + (y1 - y0) / (x1 - x0) * (x - x0), by simp [interpLin, not_le.mpr h0, h1], ?_, ?_⟩
    · have ht0 : 0 ≤ (x - x0) / (x1 - x0) := div_nonneg (le_of_lt (sub_pos.mpr h0)) (le_of_lt hd)
      have ht1 : (x - x0) / (x1 - x0) ≤ 1 := (div_le_one hd).mpr (by linarith)
      have e : y0 + (y1 - y0) / (x1 - x0) * (x - x0) = y0 + (y1 - y0) * ((x - x0) / (x1 - x0)) := by
        field_simp
      rw [e]
      rcases le_total y0 y1 with hy | hy
      · rw [min_eq_left hy]; nlinarith
      · rw [min_eq_right hy]; nlinarith
    · have ht0 : 0 ≤ (x - x0) / (x1 - x0) := div_nonneg (le_of_lt (sub_pos.mpr h0)) (le_of_lt hd)
      have ht1 : (x - x0) / (x1 - x0) ≤ 1 := (div_le_one hd).mpr (by linarith)
      have e : y0 + (y1 - y0) / (x1 - x0) * (x - x0) = y0 + (y1 - y0) * ((x - x0) / (x1 - x0)) := by
        field_simp
      rw [e]
      rcases le_total y0 y1 with hy | hy
      · rw [max_eq_right hy]; nlinarith
      · rw [max_eq_left hy]; nlinarith
  | cons q pre ih =>
    obtain ⟨xq, yq⟩ := q
    have hs' := (List.pairwise_cons.mp hs).2
    have hq0 : xq < x0 := (List.pairwise_cons.mp hs).1 (x0, y0) (by simp)
    have hqx : ¬ x ≤ xq := not_le.mpr (lt_trans hq0 h0)
    obtain ⟨v, hv, hb⟩ := ih hs'
    refine ⟨v, ?_, hb⟩
    cases pre with
    | nil =>
      simp only [List.nil_append, List.cons_append, interpLin, hqx, if_false, not_le.mpr h0] at hv ⊢
      exact hv
    | cons r pre' =>
      obtain ⟨xr, yr⟩ := r
      have hr0 : xr < x0 := (List.pairwise_cons.mp hs').1 (x0, y0) (by simp)
      have : ¬ x ≤ xr := not_le.mpr (lt_trans hr0 h0)
      simp only [List.cons_append, interpLin, hqx, if_false, this] at hv ⊢
      exact hv

/-! ### shape-preserving cubic (`SplineCharacteristic(interpolator_kind="Pchip")`, scipy PCHIP) -/

/-- every Hermite piece passes through its two support points, whatever the slopes -/
theorem C32_hermite_at_nodes (s : Seg K) (h : s.x0 ≠ s.x1) :
    hermite s s.x0 = s.y0 ∧ hermite s s.x1 = s.y1 := by
  have hd : s.x1 - s.x0 ≠ 0 := sub_ne_zero.mpr (Ne.symm h)
  constructor
  · simp [hermite]
  · have : (s.x1 - s.x0) / (s.x1 - s.x0) = 1 := div_self hd
    simp only [hermite, this]; ring

/-- normalised form of a piece: p(x) − y0 = (y1 − y0)(3t² − 2t³) + h d0 t(1−t)² − h d1 t²(1−t) -/
theorem hermite_eq (s : Seg K) (x : K) :
    hermite s x = s.y0 + (s.y1 - s.y0) * (3 * ((x - s.x0) / (s.x1 - s.x0)) ^ 2 - 2 * ((x - s.x0) / (s.x1 - s.x0)) ^ 3)
      + (s.x1 - s.x0) * s.d0 * (((x - s.x0) / (s.x1 - s.x0)) * (1 - (x - s.x0) / (s.x1 - s.x0)) ^ 2)
      - (s.x1 - s.x0) * s.d1 * (((x - s.x0) / (s.x1 - s.x0)) ^ 2 * (1 - (x - s.x0) / (s.x1 - s.x0))) := by
  simp only [hermite]; ring

/-- Fritsch–Carlson: with end slopes between 0 and three times the secant slope, a piece over non-decreasing data
    stays between its two support values on its whole interval -/
theorem C32_hermite_in_range (s : Seg K) (hx : s.x0 < s.x1) (hy : s.y0 ≤ s.y1)
    (hd0 : 0 ≤ s.d0) (hd1 : 0 ≤ s.d1)
    (hb0 : (s.x1 - s.x0) * s.d0 ≤ 3 * (s.y1 - s.y0)) (hb1 : (s.x1 - s.x0) * s.d1 ≤ 3 * (s.y1 - s.y0))
    (x : K) (h0 : s.x0 ≤ x) (h1 : x ≤ s.x1) : s.y0 ≤ hermite s x ∧ hermite s x ≤ s.y1 := by
  have hh : 0 < s.x1 - s.x0 := sub_pos.mpr hx
  set t := (x - s.x0) / (s.x1 - s.x0) with ht
  have ht0 : 0 ≤ t := div_nonneg (sub_nonneg.mpr h0) (le_of_lt hh)
  have ht1 : t ≤ 1 := (div_le_one hh).mpr (by linarith)
  have hu : 0 ≤ 1 - t := by linarith
  rw [hermite_eq]
  set A := (s.x1 - s.x0) * s.d0 with hA
  set B := (s.x1 - s.x0) * s.d1 with hB
  set D := s.y1 - s.y0 with hD
  have hA0 : 0 ≤ A := mul_nonneg (le_of_lt hh) hd0
  have hB0 : 0 ≤ B := mul_nonneg (le_of_lt hh) hd1
  have hD0 : 0 ≤ D := sub_nonneg.mpr hy
  constructor
  · -- lower bound: D(3t²−2t³) + A t(1−t)² − B t²(1−t) ≥ D t³ ≥ 0      (uses B ≤ 3D, A ≥ 0)
    have e : s.y0 + D * (3 * t ^ 2 - 2 * t ^ 3) + A * (t * (1 - t) ^ 2) - B * (t ^ 2 * (1 - t)) - s.y0
        = D * t ^ 3 + A * (t * (1 - t) ^ 2) + (3 * D - B) * (t ^ 2 * (1 - t)) := by ring
    have p1 : 0 ≤ D * t ^ 3 := mul_nonneg hD0 (pow_nonneg ht0 3)
    have p2 : 0 ≤ A * (t * (1 - t) ^ 2) := mul_nonneg hA0 (mul_nonneg ht0 (sq_nonneg _))
    have p3 : 0 ≤ (3 * D - B) * (t ^ 2 * (1 - t)) := mul_nonneg (by linarith) (mul_nonneg (sq_nonneg _) hu)
    linarith
  · -- upper bound, symmetric (uses A ≤ 3D, B ≥ 0)
    have e : s.y1 - (s.y0 + D * (3 * t ^ 2 - 2 * t ^ 3) + A * (t * (1 - t) ^ 2) - B * (t ^ 2 * (1 - t)))
        = D * (1 - t) ^ 3 + B * (t ^ 2 * (1 - t)) + (3 * D - A) * (t * (1 - t) ^ 2) := by
      simp only [hD]; ring
    have p1 : 0 ≤ D * (1 - t) ^ 3 := mul_nonneg hD0 (pow_nonneg hu 3)
    have p2 : 0 ≤ B * (t ^ 2 * (1 - t)) := mul_nonneg hB0 (mul_nonneg (sq_nonneg _) hu)
    have p3 : 0 ≤ (3 * D - A) * (t * (1 - t) ^ 2) := mul_nonneg (by linarith) (mul_nonneg ht0 (sq_nonneg _))
    linarith

/-! within one piece the value is monotone, not only in range -/

def herm (a b t : K) : K := 3 * t ^ 2 - 2 * t ^ 3 + a * (t * (1 - t) ^ 2) - b * (t ^ 2 * (1 - t))

theorem cube_mono (s t : K) (h : s ≤ t) : s ^ 3 ≤ t ^ 3 := by
  have : t ^ 3 - s ^ 3 = (t - s) * ((t + s / 2) ^ 2 + 3 / 4 * s ^ 2) := by ring
  nlinarith [sq_nonneg (t + s / 2), sq_nonneg s, mul_nonneg (sub_nonneg.mpr h)
    (add_nonneg (sq_nonneg (t + s / 2)) (mul_nonneg (by norm_num : (0 : K) ≤ 3 / 4) (sq_nonneg s)))]

theorem herm_mono (a b s t : K) (ha0 : 0 ≤ a) (ha3 : a ≤ 3) (hb0 : 0 ≤ b) (hb3 : b ≤ 3)
    (hs : 0 ≤ s) (hst : s ≤ t) (ht : t ≤ 1) : herm a b s ≤ herm a b t := by
  have c03 : s ^ 3 ≤ t ^ 3 := cube_mono s t hst
  have c30 : (1 - t) ^ 3 ≤ (1 - s) ^ 3 := cube_mono _ _ (by linarith)
  have c33 : (2 * s - 1) ^ 3 ≤ (2 * t - 1) ^ 3 := cube_mono _ _ (by linarith)
  have c00 : 3 * s ^ 2 - 2 * s ^ 3 ≤ 3 * t ^ 2 - 2 * t ^ 3 := by
    have e : (3 * t ^ 2 - 2 * t ^ 3) - (3 * s ^ 2 - 2 * s ^ 3)
        = (t - s) * (3 * (t + s) - 2 * (t ^ 2 + t * s + s ^ 2)) := by ring
    have h1 : t ^ 2 ≤ t := by nlinarith
    have h2 : s ^ 2 ≤ s := by nlinarith
    have h3 : t * s ≤ s := by nlinarith
    have : 0 ≤ (t - s) * (3 * (t + s) - 2 * (t ^ 2 + t * s + s ^ 2)) := mul_nonneg (by linarith) (by nlinarith)
    linarith
  have e : herm a b t - herm a b s =
      (1 - a / 3) * (1 - b / 3) * ((3 * t ^ 2 - 2 * t ^ 3) - (3 * s ^ 2 - 2 * s ^ 3))
      + (a / 3) * (1 - b / 3) * ((1 - s) ^ 3 - (1 - t) ^ 3)
      + (1 - a / 3) * (b / 3) * (t ^ 3 - s ^ 3)
      + (a / 3) * (b / 3) * (((2 * t - 1) ^ 3 - (2 * s - 1) ^ 3) / 2) := by
    simp only [herm]; ring
  have ha : 0 ≤ a / 3 := by positivity
  have hb : 0 ≤ b / 3 := by positivity
  have ha' : 0 ≤ 1 - a / 3 := by linarith
  have hb' : 0 ≤ 1 - b / 3 := by linarith
  have p1 := mul_nonneg (mul_nonneg ha' hb') (sub_nonneg.mpr c00)
  have p2 := mul_nonneg (mul_nonneg ha hb') (sub_nonneg.mpr c30)
  have p3 := mul_nonneg (mul_nonneg ha' hb) (sub_nonneg.mpr c03)
  have p4 : 0 ≤ (a / 3) * (b / 3) * (((2 * t - 1) ^ 3 - (2 * s - 1) ^ 3) / 2) :=
    mul_nonneg (mul_nonneg ha hb) (by linarith)
  linarith

/-- Fritsch–Carlson, monotone form: under the same slope bounds a piece over non-decreasing data is non-decreasing on
    its whole interval (so the interpolant of monotone data is monotone, piece by piece) -/
theorem C32_hermite_monotone (s : Seg K) (hx : s.x0 < s.x1) (hy : s.y0 ≤ s.y1)
    (hd0 : 0 ≤ s.d0) (hd1 : 0 ≤ s.d1)
    (hb0 : (s.x1 - s.x0) * s.d0 ≤ 3 * (s.y1 - s.y0)) (hb1 : (s.x1 - s.x0) * s.d1 ≤ 3 * (s.y1 - s.y0))
    (x x' : K) (h0 : s.x0 ≤ x) (hxx : x ≤ x') (h1 : x' ≤ s.x1) : hermite s x ≤ hermite s x' := by
  have hh : 0 < s.x1 - s.x0 := sub_pos.mpr hx
  rcases lt_or_eq_of_le (sub_nonneg.mpr hy) with hD | hD
  · -- D > 0: normalise
    set D := s.y1 - s.y0 with hDdef
    have key : ∀ z, hermite s z = s.y0 + D * herm ((s.x1 - s.x0) * s.d0 / D) ((s.x1 - s.x0) * s.d1 / D)
        ((z - s.x0) / (s.x1 - s.x0)) := by
      intro z
      rw [hermite_eq]
      simp only [herm]
      have hDne : D ≠ 0 := ne_of_gt hD
      field_simp
      ring
    rw [key x, key x']
    have hm := herm_mono ((s.x1 - s.x0) * s.d0 / D) ((s.x1 - s.x0) * s.d1 / D)
      ((x - s.x0) / (s.x1 - s.x0)) ((x' - s.x0) / (s.x1 - s.x0))
      (div_nonneg (mul_nonneg (le_of_lt hh) hd0) (le_of_lt hD)) ((div_le_iff₀ hD).mpr hb0)
      (div_nonneg (mul_nonneg (le_of_lt hh) hd1) (le_of_lt hD)) ((div_le_iff₀ hD).mpr hb1)
      (div_nonneg (sub_nonneg.mpr h0) (le_of_lt hh))
      ((div_le_div_iff_of_pos_right hh).mpr (by linarith))
      ((div_le_one hh).mpr (by linarith))
    nlinarith [mul_le_mul_of_nonneg_left hm (le_of_lt hD)]
  · -- flat data: both slopes vanish, the piece is constant
    have hA : (s.x1 - s.x0) * s.d0 = 0 := le_antisymm (by linarith) (mul_nonneg (le_of_lt hh) hd0)
    have hB : (s.x1 - s.x0) * s.d1 = 0 := le_antisymm (by linarith) (mul_nonneg (le_of_lt hh) hd1)
    rw [hermite_eq, hermite_eq, hA, hB, ← hD]; simp

theorem sgn_pos {a : K} (h : 0 < a) : sgn a = 1 := by simp [sgn, h]
theorem sgn_zero : sgn (0 : K) = 0 := by simp [sgn]
theorem sgn_neg {a : K} (h : a < 0) : sgn a = -1 := by simp [sgn, h, not_lt.mpr (le_of_lt h)]

/-- the interior slope of scipy's PCHIP for non-decreasing data is between 0 and three times either neighbouring
    secant slope -/
theorem C32_interior_slope_bounds (hp hk mp mk : K) (hhp : 0 < hp) (hhk : 0 < hk) (hmp : 0 ≤ mp) (hmk : 0 ≤ mk) :
    0 ≤ interiorSlope hp hk mp mk ∧ interiorSlope hp hk mp mk ≤ 3 * mp ∧ interiorSlope hp hk mp mk ≤ 3 * mk := by
  unfold interiorSlope
  split
  · exact ⟨le_refl _, by linarith, by linarith⟩
  · rename_i hc
    simp only [not_or] at hc
    obtain ⟨_, hk0, hp0⟩ := hc
    have hmp' : 0 < mp := lt_of_le_of_ne hmp (Ne.symm hp0)
    have hmk' : 0 < mk := lt_of_le_of_ne hmk (Ne.symm hk0)
    have hw1 : 0 < 2 * hk + hp := by linarith
    have hw2 : 0 < hk + 2 * hp := by linarith
    have hden : 0 < (2 * hk + hp) / mp + (hk + 2 * hp) / mk := add_pos (div_pos hw1 hmp') (div_pos hw2 hmk')
    refine ⟨le_of_lt (div_pos (by linarith) hden), ?_, ?_⟩
    · rw [div_le_iff₀ hden]
      have e : 3 * mp * ((2 * hk + hp) / mp + (hk + 2 * hp) / mk)
          = 3 * (2 * hk + hp) + 3 * mp * ((hk + 2 * hp) / mk) := by field_simp
      rw [e]
      have : 0 ≤ 3 * mp * ((hk + 2 * hp) / mk) := by positivity
      linarith
    · rw [div_le_iff₀ hden]
      have e : 3 * mk * ((2 * hk + hp) / mp + (hk + 2 * hp) / mk)
          = 3 * mk * ((2 * hk + hp) / mp) + 3 * (hk + 2 * hp) := by field_simp
      rw [e]
      have : 0 ≤ 3 * mk * ((2 * hk + hp) / mp) := by positivity
      linarith

/-- the end slope (three-point rule with scipy's shape-preserving corrections) for non-decreasing data is between 0
    and three times the first secant slope -/
theorem C32_edge_slope_bounds (h0 h1 m0 m1 : K) (hh0 : 0 < h0) (hh1 : 0 < h1) (hm0 : 0 ≤ m0) (hm1 : 0 ≤ m1) :
    0 ≤ edgeSlope h0 h1 m0 m1 ∧ edgeSlope h0 h1 m0 m1 ≤ 3 * m0 := by
  unfold edgeSlope
  have hs : 0 < h0 + h1 := by linarith
  set d := ((2 * h0 + h1) * m0 - h0 * m1) / (h0 + h1) with hd
  have hdle : d ≤ 2 * m0 := by
    rw [hd, div_le_iff₀ hs]
    nlinarith [mul_nonneg (le_of_lt hh0) hm1, mul_nonneg (le_of_lt hh1) hm0]
  dsimp only
  by_cases hsg : sgn d ≠ sgn m0
  · rw [if_pos hsg]; exact ⟨le_refl _, by linarith⟩
  · rw [if_neg hsg]
    have hsg' : sgn d = sgn m0 := not_not.mp hsg
    have hd0 : 0 ≤ d := by
      rcases lt_or_ge d 0 with hlt | hge
      · rw [sgn_neg hlt] at hsg'
        rcases lt_or_eq_of_le hm0 with hpos | hz
        · rw [sgn_pos hpos] at hsg'; cases hsg'
        · rw [← hz, sgn_zero] at hsg'; cases hsg'
      · exact hge
    by_cases h2 : sgn m0 ≠ sgn m1 ∧ 3 * |m0| < |d|
    · rw [if_pos h2]; exact ⟨by linarith, le_refl _⟩
    · rw [if_neg h2]; exact ⟨hd0, by linarith⟩

/-- two support points: PCHIP degenerates to the straight line (both slopes = the secant slope) -/
theorem C32_two_points (x0 y0 x1 y1 : K) : slopes [(x0, y0), (x1, y1)] = [(y1 - y0) / (x1 - x0), (y1 - y0) / (x1 - x0)] := by
  simp [slopes, diffs]

/-! ### life cycle: what is evaluated after any sequence of calls and JSON round trips -/

/-- With the cached interpolator left out of the JSON and a getter that does not touch the attributes (both facts
    regenerated from characteristic.py), after any sequence of evaluations and save/load round trips on a fresh
    object the attributes are the original ones and every evaluation uses an interpolator built from them. -/
theorem C32_roundtrip_stable {A : Type} (mutf : A → A) (a : A) (ops : List (Op A))
    (hops : ∀ op ∈ ops, op = Op.call ∨ op = Op.saveLoad) :
    let o := ops.foldl (stepObj PPVerif.Generated.C32.sem mutf) ⟨a, none⟩
    o.attrs = a ∧ evalWith o = a := by
  have key : ∀ (ops : List (Op A)) (o : Obj A), (∀ op ∈ ops, op = Op.call ∨ op = Op.saveLoad) →
      o.attrs = a → (o.cache = none ∨ o.cache = some a) →
      (ops.foldl (stepObj PPVerif.Generated.C32.sem mutf) o).attrs = a ∧
      evalWith (ops.foldl (stepObj PPVerif.Generated.C32.sem mutf) o) = a := by
    intro ops
    induction ops with
    | nil =>
      intro o _ h1 h2
      rcases h2 with h2 | h2 <;> simp [evalWith, h1, h2]
    | cons op rest ih =>
      intro o hops h1 h2
      simp only [List.foldl_cons]
      apply ih _ (fun op' h' => hops op' (List.mem_cons_of_mem _ h'))
      · rcases hops op (by simp) with rfl | rfl
        · rcases h2 with h2 | h2 <;> simp [stepObj, h2, h1, PPVerif.Generated.C32.sem]
        · simp [stepObj, h1]
      · rcases hops op (by simp) with rfl | rfl
        · rcases h2 with h2 | h2 <;> simp [stepObj, h2, h1, PPVerif.Generated.C32.sem]
        · simp [stepObj, PPVerif.Generated.C32.sem]
  exact key ops ⟨a, none⟩ hops rfl (Or.inl rfl)

/-- witnesses: a serialised cache, or a getter that edits the attributes while building, are observable -/
theorem C32_witness_impure_getter :
    let sem : Sem := ⟨true, false⟩
    let o := [Op.call, Op.saveLoad, Op.call].foldl (stepObj sem (fun (_ : Nat) => 0)) ⟨7, none⟩
    evalWith o = 0 := by decide

theorem C32_witness_stale_cache :
    let sem : Sem := ⟨true, true⟩
    let o := [Op.call, Op.setAttrs 9, Op.call].foldl (stepObj sem (fun (n : Nat) => n)) ⟨7, none⟩
    evalWith o = 7 ∧ o.attrs = 9 := by decide

end PPVerif.C32
