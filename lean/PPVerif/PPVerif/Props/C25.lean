/-
  Property C25 — standard types are applied completely and consistently.
-/
import PPVerif.Model.StdTypes

namespace PPVerif.C25
open PPVerif.Create PPVerif.StdTypes

variable {D : Type}

/-- a type that was just created (overwrite, or name free) is returned unchanged by `load_std_type` -/
theorem C25_load_after_create (lib : Lib D) (n : String) (d : D) (o : Bool)
    (h : o = true ∨ lib n = none) : (create lib n d o) n = some d := by
  unfold create
  rcases h with h | h
  · simp [h]
  · simp [h]

/-- creating a type never changes another type -/
theorem C25_create_frame (lib : Lib D) (n m : String) (d : D) (o : Bool) (h : m ≠ n) :
    (create lib n d o) m = lib m := by
  unfold create; split <;> simp [h]

/-- without `overwrite` an existing type is kept -/
theorem C25_create_no_overwrite (lib : Lib D) (n : String) (d d' : D) (h : lib n = some d') :
    (create lib n d false) n = some d' := by
  unfold create; simp [h]

/-- a renamed type is returned unchanged under its new name, disappears under the old one,
    and all other types are untouched -/
theorem C25_rename_roundtrip (lib lib' : Lib D) (old new : String) (h : step lib (.rename old new) = some lib') :
    lib' new = lib old ∧ (old ≠ new → lib' old = none) ∧ ∀ m, m ≠ old → m ≠ new → lib' m = lib m := by
  unfold step at h
  cases ho : lib old with
  | none => simp [ho] at h
  | some d =>
    simp only [ho] at h
    split at h
    · simp at h
    · injection h with h; subst h
      refine ⟨by simp, ?_, ?_⟩
      · intro hne; simp [hne]
      · intro m h1 h2; simp [h1, h2]

/-- `copy_std_types` with overwrite: every type of the source library is returned unchanged by the target
    (for a source without duplicate names), for libraries of any size -/
theorem C25_copy_roundtrip (src : List (String × D)) (lib : Lib D) (hnd : (src.map (·.1)).Nodup) :
    ∀ nd ∈ src, (src.foldl (fun l nd => create l nd.1 nd.2 true) lib) nd.1 = some nd.2 := by
  induction src generalizing lib with
  | nil => intro nd h; simp at h
  | cons x xs ih =>
    intro nd hmem
    simp only [List.map_cons, List.nodup_cons] at hnd
    simp only [List.foldl_cons]
    rcases List.mem_cons.mp hmem with rfl | hin
    · -- the head: later creations have other names
      have key : ∀ (ys : List (String × D)) (l : Lib D), nd.1 ∉ ys.map (·.1) →
          (ys.foldl (fun l nd => create l nd.1 nd.2 true) l) nd.1 = l nd.1 := by
        intro ys
        induction ys with
        | nil => intro l _; rfl
        | cons y ys ihy =>
          intro l hnot
          simp only [List.map_cons, List.mem_cons, not_or] at hnot
          simp only [List.foldl_cons]
          rw [ihy _ hnot.2]
          exact C25_create_frame l y.1 nd.1 y.2 true hnot.1
      rw [key xs _ hnd.1]
      exact C25_load_after_create lib nd.1 nd.2 true (Or.inl rfl)
    · exact ih _ hnd.2 nd hin

/-- `change_std_type` as coded (only columns that already exist are set) meets the specification (every
    parameter defined by the type is set) **iff** every parameter of the type is a column or already has the
    type's value -/
theorem C25_change_eq_spec_iff {V : Type} (cols : List String) (ty : StdType V) (row : String → Option V) :
    (∀ c, changeCode cols ty row c = changeSpec ty row c) ↔
    (∀ c v, ty c = some v → c ∈ cols ∨ row c = some v) := by
  constructor
  · intro h c v hv
    have := h c
    unfold changeCode changeSpec at this
    by_cases hc : c ∈ cols
    · exact Or.inl hc
    · right; simp [hc, hv] at this; exact this
  · intro h c
    unfold changeCode changeSpec
    by_cases hc : c ∈ cols
    · simp [hc]
    · simp only [hc, if_false]
      cases hv : ty c with
      | none => rfl
      | some v =>
        rcases h c v hv with h1 | h1
        · exact absurd h1 hc
        · simp [h1]

/-- full statement under the hypothesis that all type parameters are columns -/
theorem C25_change_sets_all_partial {V : Type} (cols : List String) (ty : StdType V) (row : String → Option V)
    (h : ∀ c v, ty c = some v → c ∈ cols) (c : String) (v : V) (hv : ty c = some v) :
    changeCode cols ty row c = some v := by
  have := (C25_change_eq_spec_iff cols ty row).mpr (fun c v hv => Or.inl (h c v hv)) c
  rw [this]; unfold changeSpec; simp [hv]

/-- negation witness (KNOWN_FINDINGS key `change-missing-column`): a type defining `alpha` applied to a table
    without an `alpha` column leaves the element without it -/
theorem C25_witness_change_missing_column :
    changeCode ["r_ohm_per_km"] (fun k => if k = "alpha" then some 4 else if k = "r_ohm_per_km" then some 1 else none)
      (fun _ => none) "alpha" = none ∧
    changeSpec (fun k => if k = "alpha" then some (4 : Nat) else if k = "r_ohm_per_km" then some 1 else none)
      (fun _ => none) "alpha" = some 4 := by decide

/-- creation from a type sets every *calculation* parameter of lines that the type defines … except `alpha` and
    `endtemp_degree` (KNOWN_FINDINGS key `create-line-missing:<col>`) -/
def lineCalcKeys : List String :=
  ["r_ohm_per_km", "x_ohm_per_km", "c_nf_per_km", "g_us_per_km", "max_i_ka", "r0_ohm_per_km", "x0_ohm_per_km",
   "c0_nf_per_km", "alpha", "endtemp_degree"]

theorem C25_create_line_calc_keys :
    lineCalcKeys.filter (fun k => !linePair.singleKeys.contains k) = ["alpha", "endtemp_degree"] := by decide

def trafoCalcKeys : List String :=
  ["sn_mva", "vn_hv_kv", "vn_lv_kv", "vk_percent", "vkr_percent", "pfe_kw", "i0_percent", "shift_degree",
   "vk0_percent", "vkr0_percent", "mag0_percent", "mag0_rx", "si0_hv_partial", "vector_group"] ++
  trafoTapKeys "" ++ trafoTapKeys "2"

theorem C25_create_trafo_calc_keys :
    trafoCalcKeys.filter (fun k => !trafoPair.singleKeys.contains k) = [] := by decide

/-- so a transformer created from a type carries the type's value in every calculation column the type defines -/
theorem C25_create_trafo_sets_all {V : Type} (ty : StdType V) (c : String) (hc : c ∈ trafoCalcKeys) :
    stdRow trafoPair.singleKeys ty c = ty c := by
  have : c ∈ trafoPair.singleKeys := by
    have h := C25_create_trafo_calc_keys
    apply Decidable.byContradiction
    intro hn
    have : c ∈ trafoCalcKeys.filter (fun k => !trafoPair.singleKeys.contains k) := by
      simp only [List.mem_filter]; exact ⟨hc, by simpa using hn⟩
    rw [h] at this; simp at this
  unfold stdRow; simp [this]

/-- non-vacuity of the registry theorems -/
example : (run (fun _ => none) [.create "a" 1 true, .rename "a" "b", .create "a" 2 false,
                                 .copyFrom [("c", 3), ("a", 9)] false, .delete "c", .create "b" 7 false] : Lib Nat) "b" = some 1 ∧
          (run (fun _ => none) [.create "a" 1 true, .rename "a" "b", .create "a" 2 false,
                                 .copyFrom [("c", 3), ("a", 9)] false, .delete "c"] : Lib Nat) "a" = some 2 := by decide

end PPVerif.C25
