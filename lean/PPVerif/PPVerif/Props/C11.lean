/-
  C11 — three-phase power flow is consistent with the symmetric power flow.
  The rows of the transformation matrices of auxiliary.py are GENERATED with a = exp(j 120°), asq = exp(−j 120°) as symbols.
  For every field and every a, asq with  asq = a²,  a³ = 1,  1 + a + a² = 0:
    * phase → sequence → phase and sequence → phase → sequence are 3 × the identity (T012 carries the factor 1/3): the two
      transformations are inverse;
    * a symmetric three-phase set (V, a²V, aV) has only a positive-sequence component, equal to V; a pure positive-sequence
      quantity gives the phase values V, a²V, aV (equal magnitude, shifted by 0 / −120° / +120°);
    * power invariance (with conj a = a²): S_a + S_b + S_c = 3 (V0 conj I0 + V1 conj I1 + V2 conj I2); for a symmetric
      operating point every phase carries the positive-sequence power, one third of the three-phase power.
-/
import PPVerif.Generated.C11
import Mathlib.Tactic.Ring
import Mathlib.Tactic.LinearCombination
import Mathlib.Algebra.Star.Basic
import Mathlib.Algebra.CharZero.Defs
import Mathlib.Tactic.FieldSimp

namespace PPVerif.Props.C11
open PPVerif.Generated.C11

variable {K : Type} [Field K]

/-- **sequence → phase → sequence = 3·id** -/
theorem C11_seq_phase_seq (a asq x0 x1 x2 : K) (hs : asq = a ^ 2) (hc : a ^ 3 = 1) (h0 : 1 + a + a ^ 2 = 0) :
    sq0 a asq (phA a asq x0 x1 x2) (phB a asq x0 x1 x2) (phC a asq x0 x1 x2) = 3 * x0 ∧
    sq1 a asq (phA a asq x0 x1 x2) (phB a asq x0 x1 x2) (phC a asq x0 x1 x2) = 3 * x1 ∧
    sq2 a asq (phA a asq x0 x1 x2) (phB a asq x0 x1 x2) (phC a asq x0 x1 x2) = 3 * x2 := by
  subst hs
  unfold sq0 sq1 sq2 phA phB phC
  refine ⟨?_, ?_, ?_⟩
  · linear_combination (x1 + x2) * h0
  · linear_combination (2 * x1) * hc + (x0 + x2 * a ^ 2 - x2 * a + x2) * h0
  · linear_combination (2 * x2) * hc + (x0 + x1 * a ^ 2 - x1 * a + x1) * h0

/-- **phase → sequence → phase = 3·id** -/
theorem C11_phase_seq_phase (a asq x0 x1 x2 : K) (hs : asq = a ^ 2) (hc : a ^ 3 = 1) (h0 : 1 + a + a ^ 2 = 0) :
    phA a asq (sq0 a asq x0 x1 x2) (sq1 a asq x0 x1 x2) (sq2 a asq x0 x1 x2) = 3 * x0 ∧
    phB a asq (sq0 a asq x0 x1 x2) (sq1 a asq x0 x1 x2) (sq2 a asq x0 x1 x2) = 3 * x1 ∧
    phC a asq (sq0 a asq x0 x1 x2) (sq1 a asq x0 x1 x2) (sq2 a asq x0 x1 x2) = 3 * x2 := by
  subst hs
  unfold sq0 sq1 sq2 phA phB phC
  refine ⟨?_, ?_, ?_⟩
  · linear_combination (x1 + x2) * h0
  · linear_combination (2 * x1) * hc + (x0 + x2 * a ^ 2 - x2 * a + x2) * h0
  · linear_combination (2 * x2) * hc + (x0 + x1 * a ^ 2 - x1 * a + x1) * h0

/-- **a symmetric set (V, a²V, aV) has only a positive sequence** -/
theorem C11_symmetric_set (a asq v : K) (hs : asq = a ^ 2) (hc : a ^ 3 = 1) (h0 : 1 + a + a ^ 2 = 0) :
    sq0 a asq v (asq * v) (a * v) = 0 ∧ sq1 a asq v (asq * v) (a * v) = 3 * v ∧ sq2 a asq v (asq * v) (a * v) = 0 := by
  subst hs
  unfold sq0 sq1 sq2
  refine ⟨?_, ?_, ?_⟩
  · linear_combination v * h0
  · linear_combination (2 * v) * hc
  · linear_combination (v - v * a + v * a ^ 2) * h0

/-- **a positive-sequence quantity gives the phase values V, a²V, aV** -/
theorem C11_positive_sequence_phases (a asq v : K) :
    phA a asq 0 v 0 = v ∧ phB a asq 0 v 0 = asq * v ∧ phC a asq 0 v 0 = a * v := by
  unfold phA phB phC
  refine ⟨by ring, by ring, by ring⟩

/-- **sequence networks decouple for symmetric elements**: an element with equal self impedances zs and equal mutual
    impedances zm (lines, transformers, symmetric loads) maps zero / positive / negative sequence currents to voltage drops of
    the same sequence only, with z0 = zs + 2 zm and z1 = z2 = zs − zm — the reason runpp_3ph may solve three single-phase
    networks and the symmetric power flow only the positive-sequence one -/
theorem C11_sequence_decoupling (a asq zs zm ia ib ic : K) (hs : asq = a ^ 2) (h0 : 1 + a + a ^ 2 = 0) :
    sq0 a asq (zs * ia + zm * ib + zm * ic) (zm * ia + zs * ib + zm * ic) (zm * ia + zm * ib + zs * ic) =
      (zs + 2 * zm) * sq0 a asq ia ib ic ∧
    sq1 a asq (zs * ia + zm * ib + zm * ic) (zm * ia + zs * ib + zm * ic) (zm * ia + zm * ib + zs * ic) =
      (zs - zm) * sq1 a asq ia ib ic ∧
    sq2 a asq (zs * ia + zm * ib + zm * ic) (zm * ia + zs * ib + zm * ic) (zm * ia + zm * ib + zs * ic) =
      (zs - zm) * sq2 a asq ia ib ic := by
  subst hs
  unfold sq0 sq1 sq2
  refine ⟨by ring, ?_, ?_⟩
  · linear_combination (zm * (ia + ib + ic)) * h0
  · linear_combination (zm * (ia + ib + ic)) * h0

/-- self / mutual impedance from the zero and positive sequence data of the element tables (r0, x0 / r, x) and back -/
theorem C11_self_mutual_from_sequence [CharZero K] (z0 z1 : K) :
    ((z0 + 2 * z1) / 3) + 2 * ((z0 - z1) / 3) = z0 ∧ ((z0 + 2 * z1) / 3) - ((z0 - z1) / 3) = z1 := by
  constructor <;> ring

section power
variable [StarRing K]

/-- **power invariance** -/
theorem C11_power_invariance (a asq : K) (hs : asq = a ^ 2) (hc : a ^ 3 = 1) (h0 : 1 + a + a ^ 2 = 0) (hstar : star a = asq)
    (v0 v1 v2 i0 i1 i2 : K) :
    phA a asq v0 v1 v2 * star (phA a asq i0 i1 i2) + phB a asq v0 v1 v2 * star (phB a asq i0 i1 i2) +
      phC a asq v0 v1 v2 * star (phC a asq i0 i1 i2) = 3 * (v0 * star i0 + v1 * star i1 + v2 * star i2) := by
  have hstar2 : star asq = a := by rw [← hstar, star_star]
  unfold phA phB phC
  simp only [star_add, star_mul', star_one, hstar, hstar2, one_mul]
  subst hs
  linear_combination
    (v0 * star i1 + v0 * star i2 + v1 * star i0 + v2 * star i0 + v1 * star i2 * a + v2 * star i1 * a) * h0 +
    (2 * v1 * star i1 + 2 * v2 * star i2 + v1 * star i2 + v2 * star i1) * hc +
    ((a - 2) * (v1 * star i2 + v2 * star i1)) * hc

/-- **symmetric operation**: each phase carries the positive-sequence power v·conj i (one third of the total 3·v·conj i) -/
theorem C11_symmetric_third (a asq : K) (hs : asq = a ^ 2) (hc : a ^ 3 = 1) (hstar : star a = asq) (v i : K) :
    phA a asq 0 v 0 * star (phA a asq 0 i 0) = v * star i ∧
    phB a asq 0 v 0 * star (phB a asq 0 i 0) = v * star i ∧
    phC a asq 0 v 0 * star (phC a asq 0 i 0) = v * star i := by
  have hstar2 : star asq = a := by rw [← hstar, star_star]
  unfold phA phB phC
  simp only [star_add, star_mul', star_one, star_zero, hstar, hstar2, one_mul, mul_zero, add_zero, zero_add]
  subst hs
  refine ⟨trivial, ?_, ?_⟩ <;> linear_combination (v * star i) * hc
end power

end PPVerif.Props.C11
