/-
  Property C01 — Kirchhoff power balance at every bus.
-/
import PPVerif.Model.PFDefs
import PPVerif.Generated.C01
import Mathlib.Tactic.Ring
import Mathlib.Tactic.FieldSimp
import Mathlib.Tactic.LinearCombination
import Mathlib.Algebra.Order.Field.Rat

namespace PPVerif.C01
open PPVerif.PF

variable {R : Type} [CommRing R] [StarRing R]

/-- **Kirchhoff**: for every branch list (any size, parallel branches, self loops), every shunt vector and EVERY voltage
    vector, V_i·conj((Ybus·V)_i) is the sum of the branch terminal powers at i plus the power of the bus shunt -/
theorem C01_kirchhoff (brs : List (Branch R)) (ysh : Nat → R) (V : Nat → R) (i : Nat) :
    sCalc brs ysh V i = sBranchesAt brs V i + sShunt ysh V i := by
  unfold sCalc iBus sBranchesAt sShunt
  rw [star_add, mul_add]
  congr 1
  induction brs with
  | nil => simp
  | cons b bs ih =>
    simp only [List.map_cons, List.sum_cons, star_add, mul_add, ih]
    congr 1
    by_cases h1 : b.f = i <;> by_cases h2 : b.t = i <;> simp [h1, h2, sFrom, sTo, mul_add]

/-- **nodal balance = solver mismatch**: what the result tables say is missing at a node (generation − load − shunt −
    branch terminal powers) is exactly minus the power-flow mismatch evaluated with the same generation and load — for
    every voltage vector, converged or not.  So the reported balance is as good as the solver's tolerance, provided
    the solver and the result tables use the same load law -/
theorem C01_imbalance_eq_mismatch (brs : List (Branch R)) (ysh sGen sLoad : Nat → R) (V : Nat → R) (i : Nat) :
    imbalance brs ysh sGen sLoad V i = -(mismatch brs ysh (fun j => sGen j - sLoad j) V i) := by
  unfold imbalance mismatch
  rw [C01_kirchhoff]; ring

theorem C01_balance_of_solution (brs : List (Branch R)) (ysh sGen sLoad : Nat → R) (V : Nat → R) (i : Nat)
    (h : mismatch brs ysh (fun j => sGen j - sLoad j) V i = 0) : imbalance brs ysh sGen sLoad V i = 0 := by
  rw [C01_imbalance_eq_mismatch, h, neg_zero]

/-- if the solver used a DIFFERENT load than the result tables report, the balance is off by exactly the difference -/
theorem C01_imbalance_of_other_load (brs : List (Branch R)) (ysh sGen sLoad sLoadSolver : Nat → R) (V : Nat → R) (i : Nat)
    (h : mismatch brs ysh (fun j => sGen j - sLoadSolver j) V i = 0) :
    imbalance brs ysh sGen sLoad V i = sLoadSolver i - sLoad i := by
  have := C01_imbalance_eq_mismatch brs ysh sGen sLoad V i
  unfold mismatch at this h
  rw [this]
  have h' : sCalc brs ysh V i = sGen i - sLoadSolver i := by linear_combination h
  rw [h']; ring

/-! ### voltage-dependent loads: which bus load law agrees with the per-element (result table) law -/

variable {K : Type} [Field K]

theorem sum_zipElem (loads : List (ZipLoad K)) (vm : K) :
    (loads.map (zipElem · vm)).sum =
      (loads.map (·.p)).sum + (loads.map fun l => l.p * l.ci).sum * (vm - 1) + (loads.map fun l => l.p * l.cz).sum * (vm ^ 2 - 1) := by
  induction loads with
  | nil => simp
  | cons l ls ih =>
    simp only [List.map_cons, List.sum_cons]
    rw [ih]
    simp only [zipElem]; ring

/-- the law with absolute constant-current / constant-impedance parts (the code after the repair) IS the per-element
    law: any number of loads, any other constant-power elements at the bus, any voltage -/
theorem C01_abs_eq_spec (loads : List (ZipLoad K)) (other vm : K) :
    busLoadAbs loads other vm = busLoadSpec loads other vm := by
  unfold busLoadAbs busLoadSpec
  rw [sum_zipElem]; ring

/-- the law with bus-averaged fractions applied to the whole bus load (the code before the repair) agrees with the
    per-element law whenever the averaged coefficients reproduce the power-weighted ones … -/
theorem C01_mean_eq_spec_of_uniform (loads : List (ZipLoad K)) (other vm : K)
    (hi : (other + (loads.map (·.p)).sum) * ((loads.map (·.ci)).sum / loads.length) = (loads.map fun l => l.p * l.ci).sum)
    (hz : (other + (loads.map (·.p)).sum) * ((loads.map (·.cz)).sum / loads.length) = (loads.map fun l => l.p * l.cz).sum) :
    busLoadMean loads other vm = busLoadSpec loads other vm := by
  unfold busLoadMean busLoadSpec
  rw [sum_zipElem]
  linear_combination (vm - 1) * hi + (vm ^ 2 - 1) * hz

/-- … and only then: agreement at vm = 0 and vm = −1 already forces both coefficient conditions (2 ≠ 0) -/
theorem C01_mean_eq_spec_only_if (loads : List (ZipLoad K)) (other : K) (h2 : (2 : K) ≠ 0)
    (h0 : busLoadMean loads other 0 = busLoadSpec loads other 0)
    (h1 : busLoadMean loads other (-1) = busLoadSpec loads other (-1)) :
    (other + (loads.map (·.p)).sum) * ((loads.map (·.ci)).sum / loads.length) = (loads.map fun l => l.p * l.ci).sum ∧
    (other + (loads.map (·.p)).sum) * ((loads.map (·.cz)).sum / loads.length) = (loads.map fun l => l.p * l.cz).sum := by
  unfold busLoadMean busLoadSpec at h0 h1
  rw [sum_zipElem] at h0 h1
  set pd := other + (loads.map (·.p)).sum
  set ci := (loads.map (·.ci)).sum / (loads.length : K)
  set cz := (loads.map (·.cz)).sum / (loads.length : K)
  set ai := (loads.map fun l => l.p * l.ci).sum
  set az := (loads.map fun l => l.p * l.cz).sum
  -- h0: pd (1 - ci - cz) = pd - ai - az ;  h1: pd (1 - 2 ci) = pd - 2 ai
  have e1 : (2 : K) * (pd * ci - ai) = 0 := by linear_combination (-1 : K) * h1
  have hi : pd * ci = ai := by
    have := (mul_eq_zero.mp e1).resolve_left h2
    linear_combination this
  have hz : pd * cz = az := by linear_combination (-1 : K) * h0 - hi
  exact ⟨hi, hz⟩

/-- witnesses of the recorded/repaired defect: two loads with different fractions; a ZIP load next to a constant-power
    infeed — the averaged law misses the per-element law -/
theorem C01_witness_mixed_zip :
    busLoadMean [⟨3, 0, 1⟩, ⟨1, 0, 0⟩] (0 : ℚ) (103 / 100) ≠ busLoadSpec [⟨3, 0, 1⟩, ⟨1, 0, 0⟩] 0 (103 / 100) ∧
    busLoadMean [⟨2, 0, 1⟩] (-1 : ℚ) (103 / 100) ≠ busLoadSpec [⟨2, 0, 1⟩] (-1) (103 / 100) ∧
    busLoadAbs [⟨3, 0, 1⟩, ⟨1, 0, 0⟩] (0 : ℚ) (103 / 100) = busLoadSpec [⟨3, 0, 1⟩, ⟨1, 0, 0⟩] 0 (103 / 100) := by
  refine ⟨?_, ?_, ?_⟩ <;> norm_num [busLoadMean, busLoadSpec, busLoadAbs, zipElem]

/-- the result-table aggregation covers every element kind the solver's bus load is built from, and which of the three
    bus load laws the solver uses is regenerated from build_bus.py / makeSbus.py -/
theorem C01_aggregation_complete :
    (PPVerif.Generated.C01.ppcPqElements.all fun e => PPVerif.Generated.C01.resBusPqElements.contains e) = true ∧
    PPVerif.Generated.C01.zipLaw = "mean" := by decide

end PPVerif.C01
