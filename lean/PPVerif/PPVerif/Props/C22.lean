/-
  C22 — network edits never leave dangling references.
  Abstract relational model (Model/RelDefs.lean); the list of source tables that `reindex_elements` updates per element
  type and the schema of references are GENERATED (Generated/C22.lean).
-/
import PPVerif.Model.RelDefs
import PPVerif.Generated.C22
import Mathlib.Tactic.Linarith

namespace PPVerif.Props.C22
open PPVerif.Rel

theorem has_iff (n : Net) (t : T) (i : Nat) : has n t i = true ↔ (t, i) ∈ n.rows := by
  unfold has; simp

/-- **re-indexing, soundness**: if every reference into `t` comes from a table whose references the code updates, no
    reference dangles afterwards (for every relabelling σ) -/
theorem C22_reindex_sound (upd : T → Bool) (t : T) (σ : Nat → Nat) (n : Net) (h : ok n = true)
    (hu : ∀ r ∈ n.refs, r.dst = t → upd r.src = true) : ok (reindexWith upd t σ n) = true := by
  unfold ok at *
  rw [List.all_eq_true] at *
  intro r' hr'
  simp only [reindexWith, List.mem_map] at hr'
  obtain ⟨r, hr, rfl⟩ := hr'
  have h0 := h r hr
  simp only [Bool.and_eq_true, has_iff] at h0 ⊢
  obtain ⟨hs, ht⟩ := h0
  constructor
  · simp only [reindexWith, List.mem_map]
    by_cases hsrc : r.src = t
    · exact ⟨(r.src, r.srcIdx), hs, by simp [hsrc]⟩
    · exact ⟨(r.src, r.srcIdx), hs, by simp [hsrc]⟩
  · simp only [reindexWith, List.mem_map]
    by_cases hd : r.dst = t
    · have := hu r hr hd
      exact ⟨(r.dst, r.target), ht, by simp [hd, this]⟩
    · exact ⟨(r.dst, r.target), ht, by simp [hd]⟩

/-- **re-indexing, what goes wrong otherwise**: a reference into `t` from a table that is not updated dangles as soon as
    its old target label is not among the new labels -/
theorem C22_reindex_unsound (upd : T → Bool) (t : T) (σ : Nat → Nat) (n : Net) (r : Ref) (hr : r ∈ n.refs)
    (hd : r.dst = t) (hnu : upd r.src = false) (hgone : ∀ i, (t, i) ∈ n.rows → σ i ≠ r.target) :
    ok (reindexWith upd t σ n) = false := by
  unfold ok
  rw [List.all_eq_false]
  refine ⟨_, List.mem_map.2 ⟨r, hr, rfl⟩, ?_⟩
  simp only [hd, hnu, Bool.and_false, Bool.false_eq_true, ↓reduceIte, Bool.and_eq_true, not_and, has_iff]
  intro _ hmem
  simp only [reindexWith, List.mem_map] at hmem
  obtain ⟨p, hp, he⟩ := hmem
  by_cases hpt : p.1 = t
  · simp only [hpt, ↓reduceIte, Prod.mk.injEq, true_and] at he
    exact hgone p.2 (by rw [← hpt]; exact hp) he
  · simp only [hpt, ↓reduceIte] at he
    rw [he] at hpt; exact hpt rfl

/-! ### cascade -/

theorem srcOk_dropRows (d : List (T × Nat)) (n : Net) (h : srcOk n = true) : srcOk (dropRows d n) = true := by
  unfold srcOk at *
  rw [List.all_eq_true] at *
  intro r hr
  simp only [dropRows, List.mem_filter] at hr
  have := h r hr.1
  rw [has_iff] at this ⊢
  simp only [dropRows, List.mem_filter]
  exact ⟨this, hr.2⟩

theorem ok_of_no_orphans (n : Net) (hs : srcOk n = true) (ho : orphans n = []) : ok n = true := by
  unfold ok
  unfold srcOk at hs
  rw [List.all_eq_true] at *
  intro r hr
  simp only [Bool.and_eq_true]
  refine ⟨hs r hr, ?_⟩
  by_contra hc
  have : (r.src, r.srcIdx) ∈ orphans n := by
    unfold orphans
    exact List.mem_map.2 ⟨r, List.mem_filter.2 ⟨hr, by simpa using hc⟩, rfl⟩
  rw [ho] at this; cases this

theorem dropRows_length_lt (n : Net) (hs : srcOk n = true) (hne : orphans n ≠ []) :
    (dropRows (orphans n) n).rows.length < n.rows.length := by
  obtain ⟨p, hp⟩ := List.exists_mem_of_ne_nil _ hne
  have hrow : p ∈ n.rows := by
    unfold orphans at hp
    obtain ⟨r, hr, rfl⟩ := List.mem_map.1 hp
    have := (List.mem_filter.1 hr).1
    unfold srcOk at hs
    rw [List.all_eq_true] at hs
    exact (has_iff n _ _).1 (hs r this)
  simp only [dropRows]
  apply List.length_filter_lt_length_iff_exists.2
  exact ⟨p, hrow, by simp [hp]⟩

/-- **drop with cascade**: after the cascade has run (fuel = number of rows) nothing dangles -/
theorem cascade_ok : ∀ (fuel : Nat) (n : Net), srcOk n = true → n.rows.length ≤ fuel → ok (cascade fuel n) = true := by
  intro fuel
  induction fuel with
  | zero =>
    intro n hs hl
    unfold cascade
    have hr : n.rows = [] := List.eq_nil_of_length_eq_zero (Nat.le_zero.1 hl)
    apply ok_of_no_orphans n hs
    cases ho : orphans n with
    | nil => rfl
    | cons p ps =>
      have := dropRows_length_lt n hs (by rw [ho]; simp)
      rw [hr] at this; simp at this
  | succ k ih =>
    intro n hs hl
    unfold cascade
    split
    · rename_i he
      exact ok_of_no_orphans n hs (by simpa using he)
    · rename_i hne
      apply ih _ (srcOk_dropRows _ n hs)
      have := dropRows_length_lt n hs (by intro h; rw [h] at hne; simp at hne)
      omega

theorem C22_drop_cascade (d : List (T × Nat)) (n : Net) (h : srcOk n = true) : ok (dropCascade d n) = true := by
  unfold dropCascade
  apply cascade_ok _ _ (srcOk_dropRows d n h)
  simp only [dropRows]
  exact List.length_filter_le _ _

/-- **fuse**: redirecting the references of b2 to an existing b1 and dropping b2 leaves nothing dangling -/
theorem C22_fuse (t : T) (b1 b2 : Nat) (n : Net) (h : ok n = true) (h1 : (t, b1) ∈ n.rows) (hne : b1 ≠ b2) :
    ok (fuse t b1 b2 n) = true := by
  unfold ok at *
  rw [List.all_eq_true] at *
  intro r' hr'
  simp only [fuse, dropRows, List.mem_filter, List.mem_map] at hr'
  obtain ⟨⟨r, hr, rfl⟩, hkeep⟩ := hr'
  have h0 := h r hr
  simp only [Bool.and_eq_true, has_iff] at h0 ⊢
  obtain ⟨hs, ht⟩ := h0
  have hk : ¬r.src = t ∨ ¬r.srcIdx = b2 := by
    simpa [redirect] using hkeep
  simp only [fuse, dropRows, List.mem_filter, redirect]
  refine ⟨⟨hs, by simpa using hk⟩, ?_⟩
  by_cases hc : (r.dst = t && r.target = b2) = true
  · simp only [hc, ↓reduceIte]
    simp only [Bool.and_eq_true, decide_eq_true_eq] at hc
    rw [hc.1]
    exact ⟨h1, by simp [hne]⟩
  · simp only [hc, Bool.false_eq_true, ↓reduceIte]
    refine ⟨ht, ?_⟩
    simp only [Bool.and_eq_true, decide_eq_true_eq, not_and] at hc
    simp only [List.contains_cons, List.contains_nil, Bool.or_false, Bool.not_eq_eq_eq_not, Bool.not_true, beq_eq_false_iff_ne,
      ne_eq, Prod.mk.injEq, not_and]
    intro hd htb
    exact hc hd htb

/-- **create**: a new row referring to existing rows keeps the net free of dangling references -/
theorem C22_create (t : T) (i : Nat) (targets : List (T × Nat)) (n : Net) (h : ok n = true)
    (ht : ∀ p ∈ targets, p ∈ n.rows ∨ p = (t, i)) : ok (create t i targets n) = true := by
  unfold ok at *
  rw [List.all_eq_true] at *
  intro r hr
  simp only [create, List.mem_append, List.mem_map] at hr
  simp only [Bool.and_eq_true, has_iff, create, List.mem_cons]
  rcases hr with ⟨p, hp, rfl⟩ | hr
  · refine ⟨Or.inl rfl, ?_⟩
    rcases ht p hp with h1 | h1
    · exact Or.inr h1
    · left; rw [h1]
  · have := h r hr
    simp only [Bool.and_eq_true, has_iff] at this
    exact ⟨Or.inr this.1, Or.inr this.2⟩

/-- **merge_nets**: shifting the labels of the second net and taking the union keeps both free of dangling references -/
theorem C22_union (off : T → Nat) (a b : Net) (ha : ok a = true) (hb : ok b = true) : ok (union a (shift off b)) = true := by
  unfold ok at *
  rw [List.all_eq_true] at *
  intro r hr
  simp only [union, shift, List.mem_append, List.mem_map] at hr
  simp only [Bool.and_eq_true, has_iff, union, shift, List.mem_append, List.mem_map]
  rcases hr with hr | ⟨r0, hr0, rfl⟩
  · have := ha r hr
    simp only [Bool.and_eq_true, has_iff] at this
    exact ⟨Or.inl this.1, Or.inl this.2⟩
  · have := hb r0 hr0
    simp only [Bool.and_eq_true, has_iff] at this
    exact ⟨Or.inr ⟨_, this.1, rfl⟩, Or.inr ⟨_, this.2, rfl⟩⟩

/-! ### the generated instance: for every element type the code's update list covers every table that refers to it -/
open PPVerif.Generated.C22 in
theorem C22_reindex_lists_cover : ∀ p ∈ schemaRefs, (reindexUpdates.lookup p.2).getD [] |>.contains p.1 := by
  decide

/-- bus references: every table holding bus labels is updated by reindex_buses, except the recorded gaps (finding
    facts-bus-reference) -/
def recordedBusGaps : List String := ["svc", "ssc", "vsc", "tcsc"]
open PPVerif.Generated.C22 in
theorem C22_bus_lists_cover : ∀ s ∈ schemaBusRefs, (busUpdates.contains s || recordedBusGaps.contains s) = true := by
  decide

/-- non-vacuity: a trafo3w (table 2) with a t3 switch (table 9) — updated: fine, not updated: dangling -/
def exNet : Net := ⟨[(0, 1), (2, 5), (9, 0)], [⟨9, 0, 2, 5⟩, ⟨9, 0, 0, 1⟩, ⟨2, 5, 0, 1⟩]⟩
example : ok exNet = true ∧ ok (reindexWith (fun _ => true) 2 (· + 10) exNet) = true ∧
    ok (reindexWith (fun s => s != 9) 2 (· + 10) exNet) = false := by decide

end PPVerif.Props.C22
