/-
  Property C20 — saving and loading a network loses nothing (the JSON envelope part; pandas / Excel / SQLite / pickle
  codecs are library contracts exercised by the whole-net oracle).
-/
import PPVerif.Model.CodecDefs
import PPVerif.Generated.C20

namespace PPVerif.C20
open PPVerif.Codec PPVerif.Generated.C20

-- value-preserving normalisation: a numpy bool comes back as a builtin bool (equal value), everything else as itself
mutual
  def norm : PV → PV
    | .npbool b => .bool b
    | .list l => .list (normList l)
    | .dict kv => .dict (normKV kv)
    | .tuple l => .tuple (normList l)
    | .set l => .set (normList l)
    | .frozenset l => .frozenset (normList l)
    | v => v
  def normList : List PV → List PV
    | [] => []
    | v :: vs => norm v :: normList vs
  def normKV : List (String × PV) → List (String × PV)
    | [] => []
    | (k, v) :: kvs => (k, norm v) :: normKV kvs
end

-- well-formedness: what the real encoder/decoder can represent without ambiguity
mutual
  def WF : PV → Prop
    | .list l => WFList l
    | .dict kv => WFKV kv ∧ ¬ (∃ m c o, envelope (normKV kv) = some (m, c, o))   -- a user dict must not look like an envelope
    | .tuple l => WFList l
    | .set l => WFList l
    | .frozenset l => WFList l
    | .npint c _ => c ∈ npIntClasses
    | .npfloat c l => c ∈ npFloatClasses ∧ l ≠ "inf" ∧ l ≠ "-inf"
    | _ => True
  def WFList : List PV → Prop
    | [] => True
    | v :: vs => WF v ∧ WFList vs
  def WFKV : List (String × PV) → Prop
    | [] => True
    | (_, v) :: kvs => WF v ∧ WFKV kvs
end

/-- facts about the generated registry that the proof uses (checked by evaluation, not assumed) -/
theorem reg_facts :
    reg.pay "tuple" = some .listOf ∧ reg.pay "set" = some .listOf ∧ reg.pay "frozenset" = some .listOf ∧
    reg.pay "numpy.integer" = some .intOf ∧ reg.pay "numpy.floating" = some .floatOrNanStr ∧
    reg.pay "numpy.bool_" = some .boolStr ∧ reg.pay "complex" = some .strOf ∧
    reg.popOk "numpy.integer" true = true ∧ reg.popOk "numpy.floating" true = true ∧ reg.popOk "numpy.bool_" true = true ∧
    reg.popOk "complex" false = true ∧ boolSem reg.npBoolDec = some .eqTrue := by decide

theorem envelope_sig (m c : String) (o : PV) : envelope [("_module", PV.str m), ("_class", PV.str c), ("_object", o)] = some (m, c, o) := by
  simp [envelope, List.lookup]

mutual
  /-- **round trip of the envelope**: for every well-formed value (any nesting depth, any size)
      `json.loads(json.dumps(v, cls=PPJSONEncoder), cls=PPJSONDecoder)` is `v` again (numpy bools as builtin bools) -/
  theorem C20_decode_encode (v : PV) (h : WF v) : (encode reg v).bind (decode reg) = some (norm v) := by
    obtain ⟨p1, p2, p3, p4, p5, p6, p7, q1, q2, q3, q4, q5⟩ := reg_facts
    cases v with
    | none => simp [encode, decode, norm]
    | bool b => simp [encode, decode, norm]
    | int z => simp [encode, decode, norm]
    | float l => simp [encode, decode, norm, floatJ]
    | str s => simp [encode, decode, norm]
    | list l =>
      have ih := C20_list l (by simpa [WF] using h)
      simp only [encode, norm]
      cases he : encodeList reg l with
      | none => simp [he] at ih
      | some js => simp only [he, Option.bind_some] at ih; simp [decode, ih]
    | dict kv =>
      simp only [WF] at h
      have ih := C20_kv kv h.1
      simp only [encode, norm]
      cases he : encodeKV reg kv with
      | none => simp [he] at ih
      | some js =>
        simp only [he, Option.bind_some] at ih
        simp only [Option.map_some, Option.bind_some, decode, ih, hook]
        cases henv : envelope (normKV kv) with
        | none => rfl
        | some t => exact absurd ⟨t.1, t.2.1, t.2.2, henv⟩ h.2
    | tuple l =>
      have ih := C20_list l (by simpa [WF] using h)
      simp only [encode, norm, p1]
      cases he : encodeList reg l with
      | none => simp [he] at ih
      | some js =>
        simp only [he, Option.bind_some] at ih
        simp [sig, decode, decodeKV, ih, hook, envelope_sig]
    | set l =>
      have ih := C20_list l (by simpa [WF] using h)
      simp only [encode, norm, p2]
      cases he : encodeList reg l with
      | none => simp [he] at ih
      | some js =>
        simp only [he, Option.bind_some] at ih
        simp [sig, decode, decodeKV, ih, hook, envelope_sig]
    | frozenset l =>
      have ih := C20_list l (by simpa [WF] using h)
      simp only [encode, norm, p3]
      cases he : encodeList reg l with
      | none => simp [he] at ih
      | some js =>
        simp only [he, Option.bind_some] at ih
        simp [sig, decode, decodeKV, ih, hook, envelope_sig]
    | npint c z =>
      simp only [WF] at h
      have hc : npIntClasses.contains c = true := by simpa using h
      have hnb : ¬ c = "bool" := by
        intro hb; subst hb; simp [npIntClasses] at h
      simp [encode, p4, q1, sig, decode, decodeKV, hook, envelope_sig, norm]
      exact ⟨hnb, h⟩
    | npfloat c l =>
      simp only [WF] at h
      obtain ⟨hcl, _, _⟩ := h
      have hni : ¬ c ∈ npIntClasses := by
        simp only [npFloatClasses, List.mem_cons, List.mem_nil_iff, or_false] at hcl
        rcases hcl with rfl | rfl | rfl <;> decide
      have hnb : ¬ c = "bool" := by
        intro hb; subst hb; simp [npFloatClasses] at hcl
      by_cases hn : l = "nan"
      · subst hn
        simp [encode, p5, q2, sig, decode, decodeKV, hook, envelope_sig, norm, hnb, hni, hcl]
      · simp [encode, p5, q2, sig, decode, decodeKV, hook, envelope_sig, norm, hn, hnb, hni, hcl]
    | npbool b =>
      cases b <;> simp [encode, p6, q3, sig, decode, decodeKV, hook, envelope_sig, norm, q5]
    | complex s =>
      simp [encode, p7, q4, sig, decode, decodeKV, hook, envelope_sig, norm]
  theorem C20_list (l : List PV) (h : WFList l) : (encodeList reg l).bind (decodeList reg) = some (normList l) := by
    cases l with
    | nil => simp [encodeList, decodeList, normList]
    | cons v vs =>
      simp only [WFList] at h
      have h1 := C20_decode_encode v h.1
      have h2 := C20_list vs h.2
      simp only [encodeList, normList]
      cases he : encode reg v with
      | none => simp [he] at h1
      | some j =>
        cases hl : encodeList reg vs with
        | none => simp [hl] at h2
        | some js =>
          simp only [he, hl, Option.bind_some] at h1 h2
          simp [decodeList, h1, h2]
  theorem C20_kv (kv : List (String × PV)) (h : WFKV kv) : (encodeKV reg kv).bind (decodeKV reg) = some (normKV kv) := by
    cases kv with
    | nil => simp [encodeKV, decodeKV, normKV]
    | cons p ps =>
      obtain ⟨k, v⟩ := p
      simp only [WFKV] at h
      have h1 := C20_decode_encode v h.1
      have h2 := C20_kv ps h.2
      simp only [encodeKV, normKV]
      cases he : encode reg v with
      | none => simp [he] at h1
      | some j =>
        cases hl : encodeKV reg ps with
        | none => simp [hl] at h2
        | some js =>
          simp only [he, hl, Option.bind_some] at h1 h2
          simp [decodeKV, h1, h2]
end

/-- the repaired defects as witnesses: with `bool(self.obj)` a numpy False inside a tuple comes back True; with a bare
    `d.pop('dtype')` a complex value cannot be written -/
def oldReg : Reg := ⟨encTable, popTable, "bool(self.obj)"⟩
theorem C20_witness_np_false :
    ((encode oldReg (.tuple [.int 1, .npbool false])).bind (decode oldReg)).isSome = true ∧
    (match (encode oldReg (.npbool false)).bind (decode oldReg) with | some (.bool b) => b | _ => false) = true := by
  constructor <;> rfl

def oldReg2 : Reg := ⟨encTable, [("complex", true)], "bool(self.obj)"⟩
theorem C20_witness_complex : (encode oldReg2 (.complex "(3+4j)")).isNone = true := by rfl

/-- DataFrame serialisation facts the 1e-14 float bound of the property rests on -/
theorem C20_dataframe_facts : dfPrecision15 = true ∧ dfDtypeMapCondition = true := by decide

/-- non-vacuity: a nested well-formed value -/
example : WF (.dict [("opts", .tuple [.npint "int64" 3, .npfloat "float64" "nan", .set [.str "a"], .npbool false])]) := by
  simp [WF, WFKV, WFList, npIntClasses, npFloatClasses, envelope, normKV, List.lookup]

end PPVerif.C20
