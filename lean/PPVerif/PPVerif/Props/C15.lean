/-
  Property C15 — the multi-process contingency analysis equals the sequential one.
  `parMaxMask`, `parWhere`, `parOver`, `workerFlag`, `parRestore` are regenerated from contingency_parallel.py,
  `seq…` from contingency.py.
-/
import PPVerif.Model.Fold
import PPVerif.Generated.C14

namespace PPVerif.C15
open PPVerif.Fold PPVerif.Generated.C14

/-- aggregate computed by run_contingency_parallel: `par = true` for worker packs (n_procs > 1),
    `par = false` for its in-process loop (n_procs = 1) -/
abbrev parRun {K : Type} [LT K] [DecidableLT K] (lit : Int → K) (par : Bool) (l : List (Nat × Obs K)) : Acc K :=
  run parMaxMask parWhere lit par l init

/-- aggregate computed by the sequential run_contingency -/
abbrev seqRun {K : Type} [LT K] [DecidableLT K] (lit : Int → K) (l : List (Nat × Obs K)) : Acc K :=
  run seqMaxMask seqWhere lit false l init

variable {K : Type} [LinearOrder K]

theorem C15_par_maxmask_eq_spec (lit : Int → K) (par st ins base : Bool) (val cur : Option K)
    (h : st = false → cur = none) :
    parMaxMask lit st par ins base val cur = specMax lit st par ins base val cur := by
  cases st <;> cases par <;> simp_all [parMaxMask, specMax, netFlag, valid, curOr, workerFlag]

theorem C15_par_where_eq_spec (par ins base : Bool) (val : Option K) :
    parWhere par ins base val = specWhere par ins base val := by
  cases par <;> simp [parWhere, specWhere, netFlag, valid, workerFlag]

theorem C15_seq_maxmask_eq_spec (lit : Int → K) (st ins base : Bool) (val cur : Option K)
    (h : st = false → cur = none) :
    seqMaxMask lit st false ins base val cur = specMax lit st false ins base val cur := by
  cases st <;> simp_all [seqMaxMask, specMax, netFlag, valid, curOr]

theorem C15_seq_where_eq_spec (ins base : Bool) (val : Option K) :
    seqWhere false ins base val = specWhere false ins base val := by
  simp [seqWhere, specWhere, netFlag, valid]

theorem specRun_par_irrelevant (lit : Int → K) (par : Bool) (l : List (Nat × Obs K)) (a : Acc K) :
    runS lit par l a = runS lit false l a := by
  induction l generalizing a with
  | nil => rfl
  | cons x xs ih => simp only [runS, run, List.foldl_cons] at ih ⊢; exact ih _

/-- **parallel = sequential.**  Fed with the per-case results in task order (what `Pool.map` returns, whatever
    the completion order of the workers), the parallel aggregation yields exactly the sequential aggregate —
    maximum, minimum, recorded cause — for every case list, in the worker-pack path and in the in-process path. -/
theorem C15_par_eq_seq (lit : Int → K) (par : Bool) (l : List (Nat × Obs K)) : parRun lit par l = seqRun lit l := by
  have h1 : parRun lit par l = runS lit par l init := by
    apply run_congr
    · intro st ins base val cur h; exact C15_par_maxmask_eq_spec lit par st ins base val cur h
    · intro ins base val; exact C15_par_where_eq_spec par ins base val
    · intro _; rfl
  have h2 : seqRun lit l = runS lit false l init := by
    apply run_congr
    · intro st ins base val cur h; exact C15_seq_maxmask_eq_spec lit st ins base val cur h
    · intro ins base val; exact C15_seq_where_eq_spec ins base val
    · intro _; rfl
  rw [h1, h2, specRun_par_irrelevant]

/-- the overloading test is the same expression in both implementations -/
theorem C15_over_eq (val lim : Option K) : parOver val lim = seqOver val lim := by
  simp [parOver, seqOver]

/-- **any completion order.**  Maximum and minimum do not depend on the order in which the per-case results are
    folded (any permutation of the result list) -/
theorem C15_perm_invariant (lit : Int → K) (par : Bool) (l l' : List (Nat × Obs K)) (hp : l.Perm l') :
    (parRun lit par l).max = (parRun lit par l').max ∧ (parRun lit par l).min = (parRun lit par l').min := by
  have e : ∀ l, parRun lit par l = runS lit false l init := by
    intro l
    have := C15_par_eq_seq lit par l
    rw [this]
    apply run_congr
    · intro st ins base val cur h; exact C15_seq_maxmask_eq_spec lit st ins base val cur h
    · intro ins base val; exact C15_seq_where_eq_spec ins base val
    · intro _; rfl
  rw [e l, e l']
  have I := inv_run lit false l
  have I' := inv_run lit false l'
  constructor
  · cases h : (runS lit false l init).max with
    | none =>
      cases h' : (runS lit false l' init).max with
      | none => rfl
      | some m' =>
        obtain ⟨co, hco, hv⟩ := I'.max_mem m' h'
        obtain ⟨m, hm, _⟩ := I.max_ub co (hp.mem_iff.mpr hco) m' hv
        rw [h] at hm; cases hm
    | some m =>
      obtain ⟨co, hco, hv⟩ := I.max_mem m h
      obtain ⟨m', hm', hle⟩ := I'.max_ub co (hp.mem_iff.mp hco) m hv
      obtain ⟨co', hco', hv'⟩ := I'.max_mem m' hm'
      obtain ⟨m2, hm2, hle2⟩ := I.max_ub co' (hp.mem_iff.mpr hco') m' hv'
      rw [h] at hm2; cases hm2
      rw [hm', le_antisymm hle hle2]
  · cases h : (runS lit false l init).min with
    | none =>
      cases h' : (runS lit false l' init).min with
      | none => rfl
      | some m' =>
        obtain ⟨co, hco, hv⟩ := I'.min_mem m' h'
        obtain ⟨m, hm, _⟩ := I.min_lb co (hp.mem_iff.mpr hco) m' hv
        rw [h] at hm; cases hm
    | some m =>
      obtain ⟨co, hco, hv⟩ := I.min_mem m h
      obtain ⟨m', hm', hle⟩ := I'.min_lb co (hp.mem_iff.mp hco) m hv
      obtain ⟨co', hco', hv'⟩ := I'.min_mem m' hm'
      obtain ⟨m2, hm2, hle2⟩ := I.min_lb co' (hp.mem_iff.mpr hco') m' hv'
      rw [h] at hm2; cases hm2
      rw [hm', le_antisymm hle2 hle]

/-- under any order the recorded cause still names a valid case attaining the (order-independent) maximum -/
theorem C15_cause_valid_any_order (lit : Int → K) (par : Bool) (l : List (Nat × Obs K)) (c : Nat)
    (h : (parRun lit par l).cause = some c) :
    ∃ o m, (c, o) ∈ l ∧ validVal o = some m ∧ (parRun lit par l).max = some m := by
  have e : parRun lit par l = runS lit false l init := by
    rw [C15_par_eq_seq]
    apply run_congr
    · intro st ins base val cur h; exact C15_seq_maxmask_eq_spec lit st ins base val cur h
    · intro ins base val; exact C15_seq_where_eq_spec ins base val
    · intro _; rfl
  rw [e] at h ⊢
  obtain ⟨hne, o, ho, hv⟩ := (inv_run lit false l).cause_att c h
  cases hm : (runS lit false l init).max with
  | none => exact absurd hm hne
  | some m => exact ⟨o, m, ho, by rw [hv, hm], rfl⟩

/-- the in-process loop of run_contingency_parallel (n_procs = 1) restores all in_service flags on every path;
    the multi-process path only ever modifies copies -/
theorem C15_restore_in_service (l : List (Nat × Outcome)) (f : Nat → Bool) (j : Nat) :
    loopRun parRestore l f j = f j := by
  induction l generalizing f with
  | nil => rfl
  | cons x xs ih =>
    obtain ⟨i, oc⟩ := x
    have hstep : ∀ j, (loopStep parRestore i oc f).1 j = f j := by
      intro j
      unfold loopStep
      by_cases hf : f i = true
      · by_cases hj : j = i <;> simp [hf, parRestore, restores, hj]
      · simp [hf]
    simp only [loopRun]
    split
    · rw [ih]; exact hstep j
    · exact hstep j

/-! ### the repaired defect as a witness: with `where = ~isnan(val)` for worker packs the outaged element's own
    0 % loading enters its minimum; the sequential analysis reports 50 -/
theorem C15_witness_own_zero :
    let l : List (Nat × Obs Int) := [(7, ⟨some 0, false, true⟩), (3, ⟨some 50, true, true⟩)]
    (run specMax oldWherePar (fun z => z) true l init).min = some 0 ∧
    (seqRun (fun z => z) l).min = some 50 ∧ (parRun (fun z => z) true l).min = some 50 := by decide

/-- a worker that reported the caller's flags instead of its own copy's would reintroduce the defect -/
theorem C15_witness_base_flags :
    let l : List (Nat × Obs Int) := [(7, ⟨some 0, false, true⟩), (3, ⟨some 50, true, true⟩)]
    (run specMax (fun _ _ base val => valid base val) (fun z => z) true l init).min = some 0 := by decide

end PPVerif.C15
