/-
  C12 — time-series results equal a fresh power flow at every time step.
  (1) recycle model: if every part builds from its dependency tables only and every table that changed since the first
      step is a dependency of flagged parts only, the recycled ppc equals the freshly built one (all parts, any number);
  (2) generated facts: every (table, column) that ConstControl flags is read by the builders of the flagged part (decide):
      so hypothesis (1) holds for every controlled column; columns of tables outside the flagged parts are not recycled;
  (3) every (result table, variable) let through to batch reading is provided by the batch reader, and the reader handles
      several variables of one table (decide): run_timeseries records every requested variable.
-/
import PPVerif.Model.RecycleDefs
import PPVerif.Generated.C12
namespace PPVerif.Props.C12
open PPVerif.Recycle PPVerif.Generated.C12

variable {V : Type}

/-- a part only looks at its dependency tables -/
def Local (p : Part V) : Prop := ∀ a b : String → V, (∀ t ∈ p.deps, a t = b t) → p.build a = p.build b

theorem map_eq_map_zipIdx {α β : Type} (f : α → β) : ∀ (l : List α) (k : Nat),
    l.map f = (l.zipIdx k).map (fun pi => f pi.1) := by
  intro l
  induction l with
  | nil => intro k; rfl
  | cons a l ih => intro k; simp only [List.map_cons, List.zipIdx_cons]; rw [← ih (k + 1)]

/-- **recycling is exact**: unflagged parts have no dependency among the changed tables -/
theorem C12_recycled_eq_fresh (parts : List (Part V)) (flag : Nat → Bool) (first now : String → V)
    (hloc : ∀ p ∈ parts, Local p)
    (hcov : ∀ pi ∈ parts.zipIdx, flag pi.2 = false → ∀ t ∈ pi.1.deps, first t = now t) :
    recycled parts flag first now = fresh parts now := by
  unfold recycled fresh
  rw [map_eq_map_zipIdx (fun p : Part V => p.build now) parts 0]
  apply List.map_congr_left
  intro pi hpi
  cases hf : flag pi.2
  · simp only [Bool.false_eq_true, ↓reduceIte]
    have hp : pi.1 ∈ parts := by
      obtain ⟨p, i⟩ := pi
      rw [List.mem_zipIdx_iff_getElem?] at hpi
      exact List.mem_of_getElem? hpi
    exact hloc pi.1 hp first now (hcov pi hpi hf)
  · simp

/-- a changed dependency of an unflagged part makes the recycled step differ (witness: one part reading table "line") -/
theorem C12_stale_part_witness :
    recycled [(⟨["line"], fun tb => tb "line"⟩ : Part Nat)] (fun _ => false) (fun _ => 1) (fun _ => 2) ≠
      fresh [(⟨["line"], fun tb => tb "line"⟩ : Part Nat)] (fun _ => 2) := by decide

/-! ### generated facts -/
def partOf (i : Nat) : String := ["bus_pq", "trafo", "gen"].getD i ""
def depsOf (p : String) : List String := (partDeps.lookup p).getD []

/-- every controlled (table, column) that is recycled at all flags a part whose builders read that table, and only such
    parts need it: the table is a dependency of a flagged part -/
def flagOk (r : String × String × Option (Bool × Bool × Bool)) : Bool :=
  match r.2.2 with
  | none => true
  | some (b, t, g) =>
    (b && (depsOf "bus_pq").contains r.1) || (t && (depsOf "trafo").contains r.1) || (g && (depsOf "gen").contains r.1)
theorem C12_flags_cover_controlled_tables : recycleFlags.all flagOk = true := by decide

/-- tables that only the never-rebuilt parts read (lines, impedances, shunts, switches, buses) are never recycled -/
def neverRecycled : List String := ["line", "impedance", "shunt", "switch", "bus", "ward", "motor"]
theorem C12_other_tables_not_recycled :
    (recycleFlags.filter (fun r => neverRecycled.contains r.1)).all (fun r => r.2.2.isNone) = true := by decide

/-- batch reading: everything let through is provided; several variables per table are handled -/
theorem C12_batch_eligible_provided : batchEligible.all (fun p => batchProvided.contains p) = true := by decide
theorem C12_batch_chain : batchChainOk = true := by decide

end PPVerif.Props.C12
