/-
  C28 — grid equivalents reproduce the internal operating point.
  (1) Ward equivalent = Kron reduction, for matrices of any size over any field: if (V_i, V_e) solves the full nodal system
        Yii·V_i + Yie·V_e = I_i ,   Yei·V_i + Yee·V_e = I_e
      and Yee is invertible, then V_i solves the reduced system
        (Yii − Yie·Yee⁻¹·Yei)·V_i = I_i − Yie·Yee⁻¹·I_e
      (equivalent admittances between the boundary nodes plus equivalent current injections: the internal and boundary
      voltages are reproduced); conversely every solution of the reduced system extends to a solution of the full one.
  (2) generated fact: get_equivalent copies the caller's net before handing it to any helper.
-/
import PPVerif.Generated.C28
import Mathlib.LinearAlgebra.Matrix.NonsingularInverse

namespace PPVerif.Props.C28
open Matrix PPVerif.Generated.C28

variable {K : Type} [Field K] {ι ε : Type} [Fintype ι] [Fintype ε] [DecidableEq ι] [DecidableEq ε]

/-- **Kron reduction keeps the internal solution** -/
theorem C28_ward_reduction (Yii : Matrix ι ι K) (Yie : Matrix ι ε K) (Yei : Matrix ε ι K) (Yee : Matrix ε ε K)
    [Invertible Yee] (Vi Ii : ι → K) (Ve Ie : ε → K)
    (h1 : Yii *ᵥ Vi + Yie *ᵥ Ve = Ii) (h2 : Yei *ᵥ Vi + Yee *ᵥ Ve = Ie) :
    (Yii - Yie * ⅟Yee * Yei) *ᵥ Vi = Ii - (Yie * ⅟Yee) *ᵥ Ie := by
  have hVe : Ve = ⅟Yee *ᵥ (Ie - Yei *ᵥ Vi) := by
    have : Yee *ᵥ Ve = Ie - Yei *ᵥ Vi := by rw [← h2]; abel
    rw [← this, mulVec_mulVec, invOf_mul_self, one_mulVec]
  rw [← h1, hVe]
  simp only [sub_mulVec, mulVec_sub, mulVec_mulVec, Matrix.mul_assoc]
  abel

/-- **every reduced solution is the internal part of a full solution** -/
theorem C28_ward_extension (Yii : Matrix ι ι K) (Yie : Matrix ι ε K) (Yei : Matrix ε ι K) (Yee : Matrix ε ε K)
    [Invertible Yee] (Vi Ii : ι → K) (Ie : ε → K)
    (h : (Yii - Yie * ⅟Yee * Yei) *ᵥ Vi = Ii - (Yie * ⅟Yee) *ᵥ Ie) :
    Yii *ᵥ Vi + Yie *ᵥ (⅟Yee *ᵥ (Ie - Yei *ᵥ Vi)) = Ii ∧ Yei *ᵥ Vi + Yee *ᵥ (⅟Yee *ᵥ (Ie - Yei *ᵥ Vi)) = Ie := by
  constructor
  · have := h
    simp only [sub_mulVec, mulVec_sub, mulVec_mulVec, Matrix.mul_assoc] at this ⊢
    have h' : Ii = Yii *ᵥ Vi - (Yie * (⅟Yee * Yei)) *ᵥ Vi + (Yie * ⅟Yee) *ᵥ Ie := by
      rw [this]; abel
    rw [h']; abel
  · rw [mulVec_mulVec, mul_invOf_self, one_mulVec]; abel

/-- **exactly**: the internal / boundary voltages that can be completed to a solution of the full nodal system are the
    solutions of the reduced (ward equivalent) system — nothing is lost and nothing is added by the reduction -/
theorem C28_ward_iff (Yii : Matrix ι ι K) (Yie : Matrix ι ε K) (Yei : Matrix ε ι K) (Yee : Matrix ε ε K)
    [Invertible Yee] (Vi Ii : ι → K) (Ie : ε → K) :
    (∃ Ve : ε → K, Yii *ᵥ Vi + Yie *ᵥ Ve = Ii ∧ Yei *ᵥ Vi + Yee *ᵥ Ve = Ie) ↔
      (Yii - Yie * ⅟Yee * Yei) *ᵥ Vi = Ii - (Yie * ⅟Yee) *ᵥ Ie := by
  constructor
  · rintro ⟨Ve, h1, h2⟩
    exact C28_ward_reduction Yii Yie Yei Yee Vi Ii Ve Ie h1 h2
  · intro h
    exact ⟨_, C28_ward_extension Yii Yie Yei Yee Vi Ii Ie h⟩

/-- the external voltages are determined by the internal ones (the equivalent loses no information about the state) -/
theorem C28_external_determined (Yei : Matrix ε ι K) (Yee : Matrix ε ε K) [Invertible Yee] (Vi : ι → K) (Ve Ve' Ie : ε → K)
    (h : Yei *ᵥ Vi + Yee *ᵥ Ve = Ie) (h' : Yei *ᵥ Vi + Yee *ᵥ Ve' = Ie) : Ve = Ve' := by
  have e : Yee *ᵥ Ve = Yee *ᵥ Ve' := by
    have := h.trans h'.symm
    exact add_left_cancel this
  have := congrArg (fun v => ⅟Yee *ᵥ v) e
  simpa [mulVec_mulVec, invOf_mul_self] using this

/-- a second reduction step: reducing a system whose external part has no coupling to the kept part changes nothing -/
theorem C28_uncoupled_external (Yii : Matrix ι ι K) (Yei : Matrix ε ι K) (Yee : Matrix ε ε K) [Invertible Yee] :
    Yii - (0 : Matrix ι ε K) * ⅟Yee * Yei = Yii := by
  simp

theorem C28_original_copied_first : copiesBeforeUse = true := by decide

end PPVerif.Props.C28
