/-
  C19 — state estimation reproduces the true state from exact measurements.
  (1) weighted least squares with exact measurements (any number of measurements, any weights, any order, any redundancy):
      if the measurement matrix H has an invertible gain matrix G = Hᵀ W H (observability) and z = H x, then the normal
      equations give back x; at a point with zero residual the Gauss-Newton step is zero (the true state of the nonlinear
      estimator is a fixed point of the iteration); re-ordering the measurements does not change the gain matrix nor the
      right-hand side.
  (2) the mask merge: the rows picked by each Boolean mask are exactly the (sorted, distinct) requested positions.
  (3) generated facts about the source: mask construction and normal-equation step have the modelled shape.
-/
import PPVerif.Model.MaskDefs
import PPVerif.Generated.C19
import Mathlib.LinearAlgebra.Matrix.NonsingularInverse

namespace PPVerif.Props.C19
open Matrix PPVerif.Generated.C19 PPVerif.Mask

section wls
variable {K : Type} [Field K] {m n : Type} [Fintype m] [Fintype n] [DecidableEq m] [DecidableEq n]

/-- **exact measurements give back the state**, for every weight matrix W with invertible gain matrix -/
theorem C19_wls_exact (H : Matrix m n K) (W : Matrix m m K) [Invertible (Hᵀ * W * H)] (x : n → K) :
    ⅟(Hᵀ * W * H) *ᵥ ((Hᵀ * W) *ᵥ (H *ᵥ x)) = x := by
  rw [mulVec_mulVec, mulVec_mulVec]
  have h : ⅟(Hᵀ * W * H) * (Hᵀ * W) * H = ⅟(Hᵀ * W * H) * (Hᵀ * W * H) := by
    simp only [Matrix.mul_assoc]
  rw [h, invOf_mul_self, one_mulVec]

/-- **zero residual ⇒ zero step**: the true state is a fixed point of the Gauss-Newton iteration -/
theorem C19_fixed_point (H : Matrix m n K) (W : Matrix m m K) (Ginv : Matrix n n K) :
    Ginv *ᵥ ((Hᵀ * W) *ᵥ (0 : m → K)) = 0 := by
  simp

/-- **measurement order**: permuting the measurements (rows of H, rows and columns of W, entries of r) changes neither the
    gain matrix nor the right-hand side of the normal equations -/
theorem C19_order_independent (H : Matrix m n K) (W : Matrix m m K) (r : m → K) (σ : m ≃ m) :
    (H.submatrix σ id)ᵀ * (W.submatrix σ σ) * (H.submatrix σ id) = Hᵀ * W * H ∧
    ((H.submatrix σ id)ᵀ * (W.submatrix σ σ)) *ᵥ (r ∘ σ) = (Hᵀ * W) *ᵥ r := by
  constructor
  · rw [transpose_submatrix, submatrix_mul_equiv, submatrix_mul_equiv, submatrix_id_id]
  · rw [transpose_submatrix, submatrix_mul_equiv, submatrix_mulVec_equiv]
    simp [Function.comp_assoc]
end wls

/-! ### mask merge -/

theorem pick_flags (tot m : List Nat) : pick tot (flags tot m) = tot.filter (fun i => m.contains i) := by
  unfold pick flags
  induction tot with
  | nil => rfl
  | cons a t ih =>
    simp only [List.map_cons, List.zip_cons_cons, List.filter_cons]
    cases h : m.contains a
    · simp only [Bool.false_eq_true, ↓reduceIte]; exact ih
    · simp only [↓reduceIte, List.map_cons]; rw [ih]

theorem le_foldl_max (l : List Nat) : ∀ acc, acc ≤ l.foldl max acc ∧ ∀ x ∈ l, x ≤ l.foldl max acc := by
  induction l with
  | nil => intro acc; exact ⟨Nat.le_refl _, fun x hx => by cases hx⟩
  | cons a t ih =>
    intro acc
    obtain ⟨h1, h2⟩ := ih (max acc a)
    refine ⟨Nat.le_trans (Nat.le_max_left _ _) h1, ?_⟩
    intro x hx
    rcases List.mem_cons.1 hx with rfl | hx
    · exact Nat.le_trans (Nat.le_max_right _ _) h1
    · exact h2 x hx

theorem lt_bound (l : List Nat) (x : Nat) (hx : x ∈ l) : x < bound l := by
  unfold bound
  have := (le_foldl_max l 0).2 x hx
  omega

/-- **the picked rows are exactly the requested positions**: sorted, without duplicates, same members -/
theorem C19_mask_picks_requested (m1 m2 : List Nat) :
    let p := pick (mergeMask m1 m2).1 (mergeMask m1 m2).2.1
    (∀ i, i ∈ p ↔ i ∈ m1) ∧ p.Pairwise (· < ·) ∧ p.Nodup := by
  intro p
  have hp : p = (total m1 m2).filter (fun i => m1.contains i) := pick_flags _ _
  have hsorted : (total m1 m2).Pairwise (· < ·) := by
    unfold total
    exact (List.pairwise_lt_range).filter _
  refine ⟨?_, ?_, ?_⟩
  · intro i
    rw [hp, List.mem_filter]
    constructor
    · intro h; simpa using h.2
    · intro h
      refine ⟨?_, by simpa using h⟩
      unfold total
      rw [List.mem_filter, List.mem_range]
      exact ⟨lt_bound _ _ (List.mem_append_left _ h), by simp [h]⟩
  · rw [hp]; exact hsorted.filter _
  · rw [hp]
    exact ((hsorted.filter _).imp (fun h => Nat.ne_of_lt h))

example : mergeMask [4, 1, 4] [2, 1] = ([1, 2, 4], [true, false, true], [true, true, false]) := by decide

/-- the source has the modelled shape -/
theorem C19_source_shape : mergeTotal = "sorted-unique-union" ∧ mergeMember = "tot-in-input" ∧ wlsNormalEquations = true := by
  decide

end PPVerif.Props.C19
