/-
  Property C34 — explicit power-flow arguments take precedence over stored user options.
  Only property theorems, non-vacuity examples and negation witnesses live here.
-/
import PPVerif.Model.Options

namespace PPVerif.C34
open PPVerif.Options PPVerif.Generated.C34

variable {K V : Type} [DecidableEq V]

/-- Exact characterisation: the code gives option `k` the value the specification demands **iff** the call does
    not pass a named argument equal to its signature default while the net stores a different value. -/
theorem C34_code_eq_spec_iff (c : Call K V) (h : WF c) (k : K) :
    effCode c k = effSpec c k ↔ ¬ Masked c k := by
  obtain ⟨h1, h2, h3⟩ := h
  unfold effCode effSpec overrule inPassed explicitArg localVal Masked
  simp only [passedFilter, overruleKeep, noneWhenUserEmpty, kwargsMerged]
  have h1k := h1 k; have h2k := h2 k
  cases hn : c.named k <;> cases hd : c.dflt k <;> cases hk : c.kw k <;> cases hu : c.user k <;>
    cases he : c.userEmpty <;> simp_all
  all_goals first
    | (rename_i v d u; by_cases hvd : v = d <;> by_cases huv : u = v <;> simp_all <;> done)
    | (have := h3 k; simp_all)
    | skip
  all_goals (try (intro hh; simp_all))
  all_goals (try (rename_i v d u; have := h3 k; simp_all))

/-- C34 as stated (full strength) holds for every call outside the masked situation. -/
theorem C34_explicit_wins_partial (c : Call K V) (h : WF c) (k : K) (v : V)
    (hp : explicitArg c k = some v) (hm : ¬ Masked c k) : effCode c k = some v := by
  rw [(C34_code_eq_spec_iff c h k).mpr hm]
  unfold effSpec; rw [hp]

/-- Stored options apply to every argument that was not passed (proved for the code model, no side condition). -/
theorem C34_unpassed_take_user (c : Call K V) (h : WF c) (k : K) (u : V)
    (hp : explicitArg c k = none) (hu : c.user k = some u) : effCode c k = some u := by
  have hm : ¬ Masked c k := by
    rw [masked_iff]
    rintro ⟨v, _, hn, _⟩
    unfold explicitArg at hp; rw [hn] at hp; simp at hp
  rw [(C34_code_eq_spec_iff c h k).mpr hm]
  unfold effSpec; rw [hp]; simp [hu]

/-- Without stored options the defaults / explicit values are used untouched. -/
theorem C34_no_user_no_effect (c : Call K V) (h : WF c) (k : K) (hu : c.user k = none) :
    effCode c k = explicitArg c k ∨ (explicitArg c k = none ∧ effCode c k = c.dflt k) := by
  have hm : ¬ Masked c k := by rw [masked_iff]; rintro ⟨_, _, _, _, h', _⟩; simp [hu] at h'
  rw [(C34_code_eq_spec_iff c h k).mpr hm]
  unfold effSpec
  cases he : explicitArg c k <;> simp [hu]

/-- every option that `_init_runpp_options` uses for a decision before the final update is re-read from the
    overruling options first (finite, complete check over the generated lists) -/
theorem C34_rederived_complete :
    (∀ k ∈ decisionUses, k ∈ rereadKeys) ∧ earlyUses = [] ∧ kwargsGetAfterUpdate = true ∧
    finalUpdateIsOverrule = true := by decide

/-- every named parameter of runpp (other than run_control, consumed by runpp itself) reaches
    `_init_runpp_options` unchanged, and the passed-parameter dict is computed from `locals()` -/
theorem C34_named_forwarded :
    (∀ kv ∈ runppDefaults, kv.1 ∈ forwarded ∨ kv.1 = "run_control") ∧ passedFromLocals = true := by decide

/-! ### negation witness (KNOWN_FINDINGS key `C34|arg-equals-default`) and non-vacuity -/

/-- `runpp(net, tolerance_mva=1e-8)` with `user_pf_options = {tolerance_mva: 1e-3}`; values coded 0 ↦ 1e-8, 1 ↦ 1e-3 -/
def witness : Call String Nat where
  dflt  := fun k => if k = "tolerance_mva" then some 0 else none
  named := fun k => if k = "tolerance_mva" then some 0 else none
  kw    := fun _ => none
  user  := fun k => if k = "tolerance_mva" then some 1 else none
  userEmpty := false

theorem C34_witness_default_value :
    WF witness ∧ effSpec witness "tolerance_mva" = some 0 ∧ effCode witness "tolerance_mva" = some 1 := by
  refine ⟨⟨?_, ?_, ?_⟩, by decide, by decide⟩
  · intro k; simp only [witness]; split <;> simp
  · intro k; simp [witness]
  · intro h; simp [witness] at h

/-- a non-masked call that passes a non-default value: hypotheses of `C34_explicit_wins_partial` are satisfiable -/
def good : Call String Nat := { witness with named := fun k => if k = "tolerance_mva" then some 2 else none }

example : WF good ∧ explicitArg good "tolerance_mva" = some 2 ∧ ¬ Masked good "tolerance_mva" ∧
    effCode good "tolerance_mva" = some 2 := by
  refine ⟨⟨?_, ?_, ?_⟩, by decide, by decide, by decide⟩
  · intro k; simp only [good, witness]; split <;> simp
  · intro k; simp [good, witness]
  · intro h; simp [good, witness] at h

end PPVerif.C34
