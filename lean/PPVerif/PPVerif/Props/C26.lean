/-
  Property C26 — topology graphs represent exactly the energizing connections.
-/
import PPVerif.Model.TopoDefs
import PPVerif.Generated.C26

namespace PPVerif.C26
open PPVerif.Topo

/-- the code's shape, regenerated: which switch type interrupts which edge table, the (element, bus) matching of open
    trafo3w switches, removal order, and default (multi) graphs for distances and unsupplied buses -/
theorem C26_code_facts :
    PPVerif.Generated.C26.tables = [("line", "include_lines", some "l"), ("impedance", "include_impedances", none),
      ("tcsc", "include_tcsc", none), ("dcline", "include_dclines", none), ("trafo", "include_trafos", some "t"),
      ("trafo3w", "include_trafo3ws", some "t3")] ∧
    PPVerif.Generated.C26.removalOrder = ["nogo", "oos", "notrav"] ∧
    PPVerif.Generated.C26.graphCalls = [("calc_distance_to_bus", [("nogobuses", "nogobuses"), ("notravbuses", "notravbuses"),
      ("respect_switches", "respect_switches")]), ("unsupplied_buses", [("respect_switches", "respect_switches")])] := by decide

theorem mem_both (u v : Nat) (k : Kind) (i w : Nat) (a : Adj) :
    a ∈ both u v k i w ↔ a = ⟨u, v, k, i, w⟩ ∨ a = ⟨v, u, k, i, w⟩ := by simp [both]

/-- **edges, exactly**: an adjacency entry exists iff it comes from
    (1) an included two-terminal branch that is in service (or out-of-service elements are included) and — when switches
        are respected — has no open switch of its own type at it, or
    (2) a side pair of an included, in-service three-winding transformer with no open t3 switch of that transformer at
        either bus of the pair, or
    (3) a bus-bus switch that is closed (any, when switches are not respected),
    and neither endpoint is a nogo bus or (unless included) an out-of-service bus, and it does not leave a notrav bus -/
theorem C26_edges_exact (net : Net) (o : Opts) (a : Adj) :
    a ∈ adj net o ↔
      ((∃ b ∈ net.brs, brMask net o b = true ∧ (a = ⟨b.f, b.t, b.kind, b.idx, brWeight o b⟩ ∨ a = ⟨b.t, b.f, b.kind, b.idx, brWeight o b⟩)) ∨
       (∃ t ∈ net.t3s, ∃ p ∈ t3Pairs t, t3Mask net o t p = true ∧
          (a = ⟨p.1, p.2, Kind.trafo3w, t.idx, o.trafoLen.getD 0⟩ ∨ a = ⟨p.2, p.1, Kind.trafo3w, t.idx, o.trafoLen.getD 0⟩)) ∨
       (∃ s ∈ net.sws, swMask o s = true ∧
          (a = ⟨s.bus, s.elem, Kind.switch, s.idx, o.switchLen.getD 0⟩ ∨ a = ⟨s.elem, s.bus, Kind.switch, s.idx, o.switchLen.getD 0⟩))) ∧
      removed net o a.u = false ∧ removed net o a.v = false ∧ a.u ∉ o.notrav := by
  simp only [adj, rawAdj, List.mem_filter, List.mem_append, List.mem_flatMap, mem_both, Bool.and_eq_true,
    Bool.not_eq_true', List.contains_iff_mem, decide_eq_false_iff_not]
  constructor
  · rintro ⟨h, ⟨h1, h2⟩, h3⟩
    refine ⟨?_, h1, h2, by simpa using h3⟩
    rcases h with (⟨b, ⟨hb, hm⟩, he⟩ | ⟨t, ht, p, ⟨hp, hm⟩, he⟩) | ⟨s, ⟨hs, hm⟩, he⟩
    · exact Or.inl ⟨b, hb, hm, he⟩
    · exact Or.inr (Or.inl ⟨t, ht, p, hp, hm, he⟩)
    · exact Or.inr (Or.inr ⟨s, hs, hm, he⟩)
  · rintro ⟨h, h1, h2, h3⟩
    refine ⟨?_, ⟨h1, h2⟩, by simpa using h3⟩
    rcases h with ⟨b, hb, hm, he⟩ | ⟨t, ht, p, hp, hm, he⟩ | ⟨s, hs, hm, he⟩
    · exact Or.inl (Or.inl ⟨b, ⟨hb, hm⟩, he⟩)
    · exact Or.inl (Or.inr ⟨t, ht, p, ⟨hp, hm⟩, he⟩)
    · exact Or.inr ⟨s, ⟨hs, hm⟩, he⟩

/-- an open line / trafo switch interrupts the element when switches are respected, whatever else holds -/
theorem C26_open_switch_interrupts (net : Net) (o : Opts) (b : Br) (et : SwT) (hk : swOf b.kind = some et)
    (hr : o.respect = true) (hopen : ∃ s ∈ net.sws, s.et = et ∧ s.elem = b.idx ∧ s.closed = false) :
    brMask net o b = false := by
  obtain ⟨s, hs, h1, h2, h3⟩ := hopen
  have : openSw net et b.idx = true := by
    simp only [openSw, List.any_eq_true]
    exact ⟨s, hs, by simp [h1, h2, h3]⟩
  simp [brMask, hk, hr, this]

/-- an open t3 switch interrupts exactly the side pairs that touch ITS bus of ITS transformer -/
theorem C26_t3_switch_local (net : Net) (o : Opts) (t : T3) (p : Nat × Nat) (hr : o.respect = true) :
    t3Mask net o t p = true ↔
      o.incl Kind.trafo3w = true ∧ (o.includeOOS = true ∨ t.inService = true) ∧
      ¬ ∃ s ∈ net.sws, s.et = SwT.t3 ∧ s.elem = t.idx ∧ (s.bus = p.1 ∨ s.bus = p.2) ∧ s.closed = false := by
  simp only [t3Mask, hr, Bool.true_and, Bool.and_eq_true, Bool.or_eq_true, Bool.not_eq_true', Bool.or_eq_false_iff,
    openT3, List.any_eq_false, Bool.and_eq_true, beq_iff_eq, Bool.not_eq_true', not_and, Bool.not_eq_false]
  constructor
  · rintro ⟨⟨h1, h2⟩, h3, h4⟩
    refine ⟨h1, h2, ?_⟩
    rintro ⟨s, hs, he, hel, hb, hc⟩
    rcases hb with hb | hb
    · have := h3 s hs ⟨⟨he, hel⟩, hb⟩; simp [hc] at this
    · have := h4 s hs ⟨⟨he, hel⟩, hb⟩; simp [hc] at this
  · rintro ⟨h1, h2, h3⟩
    refine ⟨⟨h1, h2⟩, ?_, ?_⟩
    · intro s hs ⟨⟨he, hel⟩, hb⟩
      cases hc : s.closed with
      | true => rfl
      | false => exact absurd ⟨s, hs, he, hel, Or.inl hb, hc⟩ h3
    · intro s hs ⟨⟨he, hel⟩, hb⟩
      cases hc : s.closed with
      | true => rfl
      | false => exact absurd ⟨s, hs, he, hel, Or.inr hb, hc⟩ h3

/-- without notravbuses the adjacency is symmetric (an undirected graph) -/
theorem C26_symmetric (net : Net) (o : Opts) (hn : o.notrav = []) (a : Adj) (h : a ∈ adj net o) :
    ⟨a.v, a.u, a.kind, a.idx, a.w⟩ ∈ adj net o := by
  rw [C26_edges_exact] at h ⊢
  obtain ⟨h, h1, h2, _⟩ := h
  refine ⟨?_, h2, h1, by simp [hn]⟩
  rcases h with ⟨b, hb, hm, he⟩ | ⟨t, ht, p, hp, hm, he⟩ | ⟨s, hs, hm, he⟩
  · refine Or.inl ⟨b, hb, hm, ?_⟩
    rcases he with rfl | rfl
    · exact Or.inr rfl
    · exact Or.inl rfl
  · refine Or.inr (Or.inl ⟨t, ht, p, hp, hm, ?_⟩)
    rcases he with rfl | rfl
    · exact Or.inr rfl
    · exact Or.inl rfl
  · refine Or.inr (Or.inr ⟨s, hs, hm, ?_⟩)
    rcases he with rfl | rfl
    · exact Or.inr rfl
    · exact Or.inl rfl

/-- nodes of the graph: exactly the buses (and edge endpoints) that are not nogo and not out of service -/
theorem C26_nodes_exact (net : Net) (o : Opts) (b : Nat) :
    b ∈ nodes net o ↔ (b ∈ net.buses.map (·.1) ∨ b ∈ (rawAdj net o).map (·.u)) ∧ removed net o b = false := by
  simp [nodes, List.mem_filter, List.mem_eraseDups]

/-- edge weights handed to the shortest-path routine: line length, trafo_length_km / switch_length_km when given -/
theorem C26_weights (o : Opts) (b : Br) :
    brWeight o b = if b.kind = Kind.trafo then o.trafoLen.getD b.w else b.w := by
  simp [brWeight]

/-- path relation of the final graph -/
def Step (net : Net) (o : Opts) (x y : Nat) : Prop := ∃ a ∈ adj net o, a.u = x ∧ a.v = y

inductive Path (net : Net) (o : Opts) : Nat → Nat → Prop where
  | refl (x : Nat) : Path net o x x
  | tail {x y z : Nat} : Path net o x y → Step net o y z → Path net o x z

theorem reachN_sound (net : Net) (o : Opts) (roots : List Nat) (n : Nat) (cur : List Nat)
    (h : ∀ x ∈ cur, ∃ r ∈ roots, Path net o r x) : ∀ x ∈ reachN (adj net o) n cur, ∃ r ∈ roots, Path net o r x := by
  induction n generalizing cur with
  | zero => simpa [reachN] using h
  | succ n ih =>
    simp only [reachN]
    apply ih
    intro x hx
    simp only [stepReach, List.mem_eraseDups, List.mem_append, List.mem_map, List.mem_filter, List.contains_iff_mem] at hx
    rcases hx with hx | ⟨a, ⟨ha, hu⟩, rfl⟩
    · exact h x hx
    · obtain ⟨r, hr, hp⟩ := h a.u hu
      exact ⟨r, hr, Path.tail hp ⟨a, ha, rfl, rfl⟩⟩

/-- every bus the search reports as reachable IS connected to a root by a path of the graph (so a bus reported as
    supplied has a real energizing connection to a slack bus) -/
theorem C26_reach_sound (net : Net) (o : Opts) (roots : List Nat) (x : Nat) (h : x ∈ reach net o roots) :
    ∃ r ∈ roots, Path net o r x := by
  unfold reach at h
  apply reachN_sound net o roots _ _ _ x h
  intro y hy
  simp only [List.mem_filter] at hy
  exact ⟨y, hy.1, Path.refl y⟩

/-- non-vacuity / witness: a line behind an open switch is no edge, behind a closed one it is -/
example :
    let net : Net := ⟨[(0, true), (1, true)], [⟨Kind.line, 7, 0, 1, true, 3⟩], [], [⟨0, 0, 7, SwT.l, false⟩]⟩
    let o : Opts := ⟨true, fun _ => true, false, [], [], none, none⟩
    adj net o = [] ∧ adj net { o with respect := false } = [⟨0, 1, Kind.line, 7, 3⟩, ⟨1, 0, Kind.line, 7, 3⟩] := by decide

end PPVerif.C26
