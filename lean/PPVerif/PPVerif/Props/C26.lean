/-
  Property C26 — topology graphs represent exactly the energizing connections.
-/
import PPVerif.Model.TopoDefs
import PPVerif.Generated.C26
import Mathlib.Data.Finset.Card
import Mathlib.Data.List.Basic
import Mathlib.Data.Finset.Dedup

namespace PPVerif.C26
open PPVerif.Topo

/-- the code's shape, regenerated: which switch type interrupts which edge table, the (element, bus) matching of open
    trafo3w switches, removal order, and default (multi) graphs for distances and unsupplied buses -/
theorem C26_code_facts :
    PPVerif.Generated.C26.tables = [("line", "include_lines", some "l"), ("impedance", "include_impedances", none),
      ("tcsc", "include_tcsc", none), ("dcline", "include_dclines", none), ("trafo", "include_trafos", some "t"),
      ("trafo3w", "include_trafo3ws", some "t3")] ∧
    PPVerif.Generated.C26.removalOrder = ["nogo", "oos", "notrav"] ∧
    PPVerif.Generated.C26.graphCalls = [("calc_distance_to_bus", [("nogobuses", "nogobuses"), ("notravbuses", "notravbuses"),
      ("respect_switches", "respect_switches")]), ("unsupplied_buses", [("respect_switches", "respect_switches")])] := by decide

theorem mem_both (u v : Nat) (k : Kind) (i w : Nat) (a : Adj) :
    a ∈ both u v k i w ↔ a = ⟨u, v, k, i, w⟩ ∨ a = ⟨v, u, k, i, w⟩ := by simp [both]

/-- **edges, exactly**: an adjacency entry exists iff it comes from
    (1) an included two-terminal branch that is in service (or out-of-service elements are included) and — when switches
        are respected — has no open switch of its own type at it, or
    (2) a side pair of an included, in-service three-winding transformer with no open t3 switch of that transformer at
        either bus of the pair, or
    (3) a bus-bus switch that is closed (any, when switches are not respected),
    and neither endpoint is a nogo bus or (unless included) an out-of-service bus, and it does not leave a notrav bus -/
theorem C26_edges_exact (net : Net) (o : Opts) (a : Adj) :
    a ∈ adj net o ↔
      ((∃ b ∈ net.brs, brMask net o b = true ∧ (a = ⟨b.f, b.t, b.kind, b.idx, brWeight o b⟩ ∨ a = ⟨b.t, b.f, b.kind, b.idx, brWeight o b⟩)) ∨
       (∃ t ∈ net.t3s, ∃ p ∈ t3Pairs t, t3Mask net o t p = true ∧
          (a = ⟨p.1, p.2, Kind.trafo3w, t.idx, o.trafoLen.getD 0⟩ ∨ a = ⟨p.2, p.1, Kind.trafo3w, t.idx, o.trafoLen.getD 0⟩)) ∨
       (∃ s ∈ net.sws, swMask o s = true ∧
          (a = ⟨s.bus, s.elem, Kind.switch, s.idx, o.switchLen.getD 0⟩ ∨ a = ⟨s.elem, s.bus, Kind.switch, s.idx, o.switchLen.getD 0⟩))) ∧
      removed net o a.u = false ∧ removed net o a.v = false ∧ a.u ∉ o.notrav := by
  simp only [adj, rawAdj, List.mem_filter, List.mem_append, List.mem_flatMap, mem_both, Bool.and_eq_true,
    Bool.not_eq_true', List.contains_iff_mem, decide_eq_false_iff_not]
  constructor
  · rintro ⟨h, ⟨h1, h2⟩, h3⟩
    refine ⟨?_, h1, h2, by simpa using h3⟩
    rcases h with (⟨b, ⟨hb, hm⟩, he⟩ | ⟨t, ht, p, ⟨hp, hm⟩, he⟩) | ⟨s, ⟨hs, hm⟩, he⟩
    · exact Or.inl ⟨b, hb, hm, he⟩
    · exact Or.inr (Or.inl ⟨t, ht, p, hp, hm, he⟩)
    · exact Or.inr (Or.inr ⟨s, hs, hm, he⟩)
  · rintro ⟨h, h1, h2, h3⟩
    refine ⟨?_, ⟨h1, h2⟩, by simpa using h3⟩
    rcases h with ⟨b, hb, hm, he⟩ | ⟨t, ht, p, hp, hm, he⟩ | ⟨s, hs, hm, he⟩
    · exact Or.inl (Or.inl ⟨b, ⟨hb, hm⟩, he⟩)
    · exact Or.inl (Or.inr ⟨t, ht, p, ⟨hp, hm⟩, he⟩)
    · exact Or.inr ⟨s, ⟨hs, hm⟩, he⟩

/-- an open line / trafo switch interrupts the element when switches are respected, whatever else holds -/
theorem C26_open_switch_interrupts (net : Net) (o : Opts) (b : Br) (et : SwT) (hk : swOf b.kind = some et)
    (hr : o.respect = true) (hopen : ∃ s ∈ net.sws, s.et = et ∧ s.elem = b.idx ∧ s.closed = false) :
    brMask net o b = false := by
  obtain ⟨s, hs, h1, h2, h3⟩ := hopen
  have : openSw net et b.idx = true := by
    simp only [openSw, List.any_eq_true]
    exact ⟨s, hs, by simp [h1, h2, h3]⟩
  simp [brMask, hk, hr, this]

/-- an open t3 switch interrupts exactly the side pairs that touch ITS bus of ITS transformer -/
theorem C26_t3_switch_local (net : Net) (o : Opts) (t : T3) (p : Nat × Nat) (hr : o.respect = true) :
    t3Mask net o t p = true ↔
      o.incl Kind.trafo3w = true ∧ (o.includeOOS = true ∨ t.inService = true) ∧
      ¬ ∃ s ∈ net.sws, s.et = SwT.t3 ∧ s.elem = t.idx ∧ (s.bus = p.1 ∨ s.bus = p.2) ∧ s.closed = false := by
  simp only [t3Mask, hr, Bool.true_and, Bool.and_eq_true, Bool.or_eq_true, Bool.not_eq_true', Bool.or_eq_false_iff,
    openT3, List.any_eq_false, Bool.and_eq_true, beq_iff_eq, Bool.not_eq_true', not_and, Bool.not_eq_false]
  constructor
  · rintro ⟨⟨h1, h2⟩, h3, h4⟩
    refine ⟨h1, h2, ?_⟩
    rintro ⟨s, hs, he, hel, hb, hc⟩
    rcases hb with hb | hb
    · have := h3 s hs ⟨⟨he, hel⟩, hb⟩; simp [hc] at this
    · have := h4 s hs ⟨⟨he, hel⟩, hb⟩; simp [hc] at this
  · rintro ⟨h1, h2, h3⟩
    refine ⟨⟨h1, h2⟩, ?_, ?_⟩
    · intro s hs ⟨⟨he, hel⟩, hb⟩
      cases hc : s.closed with
      | true => rfl
      | false => exact absurd ⟨s, hs, he, hel, Or.inl hb, hc⟩ h3
    · intro s hs ⟨⟨he, hel⟩, hb⟩
      cases hc : s.closed with
      | true => rfl
      | false => exact absurd ⟨s, hs, he, hel, Or.inr hb, hc⟩ h3

/-- without notravbuses the adjacency is symmetric (an undirected graph) -/
theorem C26_symmetric (net : Net) (o : Opts) (hn : o.notrav = []) (a : Adj) (h : a ∈ adj net o) :
    ⟨a.v, a.u, a.kind, a.idx, a.w⟩ ∈ adj net o := by
  rw [C26_edges_exact] at h ⊢
  obtain ⟨h, h1, h2, _⟩ := h
  refine ⟨?_, h2, h1, by simp [hn]⟩
  rcases h with ⟨b, hb, hm, he⟩ | ⟨t, ht, p, hp, hm, he⟩ | ⟨s, hs, hm, he⟩
  · refine Or.inl ⟨b, hb, hm, ?_⟩
    rcases he with rfl | rfl
    · exact Or.inr rfl
    · exact Or.inl rfl
  · refine Or.inr (Or.inl ⟨t, ht, p, hp, hm, ?_⟩)
    rcases he with rfl | rfl
    · exact Or.inr rfl
    · exact Or.inl rfl
  · refine Or.inr (Or.inr ⟨s, hs, hm, ?_⟩)
    rcases he with rfl | rfl
    · exact Or.inr rfl
    · exact Or.inl rfl

/-- nodes of the graph: exactly the buses (and edge endpoints) that are not nogo and not out of service -/
theorem C26_nodes_exact (net : Net) (o : Opts) (b : Nat) :
    b ∈ nodes net o ↔ (b ∈ net.buses.map (·.1) ∨ b ∈ (rawAdj net o).map (·.u)) ∧ removed net o b = false := by
  simp [nodes, List.mem_filter, List.mem_eraseDups]

/-- edge weights handed to the shortest-path routine: line length, trafo_length_km / switch_length_km when given -/
theorem C26_weights (o : Opts) (b : Br) :
    brWeight o b = if b.kind = Kind.trafo then o.trafoLen.getD b.w else b.w := by
  simp [brWeight]

/-- path relation of the final graph -/
def Step (net : Net) (o : Opts) (x y : Nat) : Prop := ∃ a ∈ adj net o, a.u = x ∧ a.v = y

inductive Path (net : Net) (o : Opts) : Nat → Nat → Prop where
  | refl (x : Nat) : Path net o x x
  | tail {x y z : Nat} : Path net o x y → Step net o y z → Path net o x z

theorem reachN_sound (net : Net) (o : Opts) (roots : List Nat) (n : Nat) (cur : List Nat)
    (h : ∀ x ∈ cur, ∃ r ∈ roots, Path net o r x) : ∀ x ∈ reachN (adj net o) n cur, ∃ r ∈ roots, Path net o r x := by
  induction n generalizing cur with
  | zero => simpa [reachN] using h
  | succ n ih =>
    simp only [reachN]
    apply ih
    intro x hx
    simp only [stepReach, List.mem_eraseDups, List.mem_append, List.mem_map, List.mem_filter, List.contains_iff_mem] at hx
    rcases hx with hx | ⟨a, ⟨ha, hu⟩, rfl⟩
    · exact h x hx
    · obtain ⟨r, hr, hp⟩ := h a.u hu
      exact ⟨r, hr, Path.tail hp ⟨a, ha, rfl, rfl⟩⟩

/-- every bus the search reports as reachable IS connected to a root by a path of the graph (so a bus reported as
    supplied has a real energizing connection to a slack bus) -/
theorem C26_reach_sound (net : Net) (o : Opts) (roots : List Nat) (x : Nat) (h : x ∈ reach net o roots) :
    ∃ r ∈ roots, Path net o r x := by
  unfold reach at h
  apply reachN_sound net o roots _ _ _ x h
  intro y hy
  simp only [List.mem_filter] at hy
  exact ⟨y, hy.1, Path.refl y⟩

/-! ## completeness of the fuel-bounded search -/

theorem mem_stepReach (es : List Adj) (cur : List Nat) (x : Nat) :
    x ∈ stepReach es cur ↔ x ∈ cur ∨ ∃ a ∈ es, a.u ∈ cur ∧ a.v = x := by
  simp only [stepReach, List.mem_eraseDups, List.mem_append, List.mem_map, List.mem_filter, List.contains_iff_mem]
  constructor
  · rintro (h | ⟨a, ⟨ha, hu⟩, rfl⟩)
    · exact Or.inl h
    · exact Or.inr ⟨a, ha, hu, rfl⟩
  · rintro (h | ⟨a, ha, hu, rfl⟩)
    · exact Or.inl h
    · exact Or.inr ⟨a, ⟨ha, hu⟩, rfl⟩

theorem reachN_succ (es : List Adj) (n : Nat) (cur : List Nat) :
    reachN es (n + 1) cur = stepReach es (reachN es n cur) := by
  induction n generalizing cur with
  | zero => rfl
  | succ n ih => rw [reachN, ih]; rfl

def Closed (es : List Adj) (s : List Nat) : Prop := ∀ a ∈ es, a.u ∈ s → a.v ∈ s

theorem closed_step (es : List Adj) (s : List Nat) (h : Closed es s) (x : Nat) : x ∈ stepReach es s ↔ x ∈ s := by
  rw [mem_stepReach]
  constructor
  · rintro (h1 | ⟨a, ha, hu, rfl⟩)
    · exact h1
    · exact h a ha hu
  · exact Or.inl

theorem closed_stepReach (es : List Adj) (s : List Nat) (h : Closed es s) : Closed es (stepReach es s) := by
  intro a ha hu
  rw [closed_step es s h] at hu ⊢
  exact h a ha hu

/-- either the search has reached a fixed point after `k` rounds or it has found at least `k` new buses -/
theorem grow (es : List Adj) (cur : List Nat) (k : Nat) :
    Closed es (reachN es k cur) ∨ cur.toFinset.card + k ≤ (reachN es k cur).toFinset.card := by
  induction k with
  | zero => right; simp [reachN]
  | succ k ih =>
    by_cases hc : Closed es (reachN es k cur)
    · left; rw [reachN_succ]; exact closed_stepReach es _ hc
    · right
      rcases ih with ih | ih
      · exact absurd ih hc
      · unfold Closed at hc
        push Not at hc
        obtain ⟨a, ha, hu, hv⟩ := hc
        rw [reachN_succ]
        have hsub : (reachN es k cur).toFinset ⊂ (stepReach es (reachN es k cur)).toFinset := by
          rw [Finset.ssubset_iff_of_subset]
          · exact ⟨a.v, by simp only [List.mem_toFinset, mem_stepReach]; exact Or.inr ⟨a, ha, hu, rfl⟩, by simpa using hv⟩
          · intro x hx
            simp only [List.mem_toFinset, mem_stepReach] at hx ⊢
            exact Or.inl hx
        have := Finset.card_lt_card hsub
        omega

theorem reachN_sub (es : List Adj) (ns : List Nat) (he : ∀ a ∈ es, a.v ∈ ns) (k : Nat) (cur : List Nat) (hc : ∀ x ∈ cur, x ∈ ns) :
    ∀ x ∈ reachN es k cur, x ∈ ns := by
  induction k generalizing cur with
  | zero => simpa [reachN] using hc
  | succ k ih =>
    rw [reachN]
    apply ih
    intro x hx
    rw [mem_stepReach] at hx
    rcases hx with hx | ⟨a, ha, _, rfl⟩
    · exact hc x hx
    · exact he a ha

theorem reachN_mono (es : List Adj) (k : Nat) (cur : List Nat) : ∀ x ∈ cur, x ∈ reachN es k cur := by
  induction k generalizing cur with
  | zero => simp [reachN]
  | succ k ih =>
    intro x hx
    rw [reachN]
    exact ih _ x ((mem_stepReach es cur x).2 (Or.inl hx))

/-- with as many rounds as there are nodes the search result is closed under the edges -/
theorem reachN_closed (es : List Adj) (ns : List Nat) (he : ∀ a ∈ es, a.v ∈ ns) (cur : List Nat) (hc : ∀ x ∈ cur, x ∈ ns) :
    Closed es (reachN es ns.length cur) := by
  rcases grow es cur ns.length with h | h
  · exact h
  · cases cur with
    | nil =>
      have : ∀ k, reachN es k [] = [] := by
        intro k; induction k with
        | zero => rfl
        | succ k ih => rw [reachN]; simpa [stepReach] using ih
      rw [this]; intro a _ hu; simp at hu
    | cons c cs =>
      exfalso
      have h1 : (reachN es ns.length (c :: cs)).toFinset ⊆ ns.toFinset := by
        intro x hx
        simp only [List.mem_toFinset] at hx ⊢
        exact reachN_sub es ns he _ _ hc x hx
      have h2 := Finset.card_le_card h1
      have h3 : ns.toFinset.card ≤ ns.length := List.toFinset_card_le ns
      have h4 : 0 < (c :: cs).toFinset.card := by
        apply Finset.card_pos.2
        exact ⟨c, by simp⟩
      omega

theorem rawAdj_symm (net : Net) (o : Opts) (a : Adj) (h : a ∈ rawAdj net o) : ⟨a.v, a.u, a.kind, a.idx, a.w⟩ ∈ rawAdj net o := by
  simp only [rawAdj, List.mem_append, List.mem_flatMap, mem_both, List.mem_filter] at h ⊢
  rcases h with (⟨b, hb, he⟩ | ⟨t, ht, p, hp, he⟩) | ⟨s, hs, he⟩
  · refine Or.inl (Or.inl ⟨b, hb, ?_⟩)
    rcases he with rfl | rfl <;> simp
  · refine Or.inl (Or.inr ⟨t, ht, p, hp, ?_⟩)
    rcases he with rfl | rfl <;> simp
  · refine Or.inr ⟨s, hs, ?_⟩
    rcases he with rfl | rfl <;> simp

theorem adj_target_node (net : Net) (o : Opts) (a : Adj) (h : a ∈ adj net o) : a.v ∈ nodes net o := by
  simp only [adj, List.mem_filter, Bool.and_eq_true, Bool.not_eq_true'] at h
  rw [C26_nodes_exact]
  refine ⟨Or.inr ?_, h.2.1.2⟩
  exact List.mem_map.2 ⟨_, rawAdj_symm net o a h.1, rfl⟩

/-- **completeness of the search**: every bus connected by a path of the graph to a root that is a node is found -/
theorem C26_reach_complete (net : Net) (o : Opts) (roots : List Nat) (r x : Nat) (hr : r ∈ roots) (hn : r ∈ nodes net o)
    (hp : Path net o r x) : x ∈ reach net o roots := by
  unfold reach
  have hcl := reachN_closed (adj net o) (nodes net o) (adj_target_node net o)
    (roots.filter (fun r => (nodes net o).contains r)) (by intro y hy; simpa using (List.mem_filter.1 hy).2)
  induction hp with
  | refl => exact reachN_mono _ _ _ _ (List.mem_filter.2 ⟨hr, by simpa using hn⟩)
  | tail _ hs ih =>
    obtain ⟨a, ha, rfl, rfl⟩ := hs
    exact hcl a ha ih



/-- soundness with the root as a node of the graph -/
theorem reach_sound_node (net : Net) (o : Opts) (roots : List Nat) (x : Nat) (h : x ∈ reach net o roots) :
    ∃ r ∈ roots, r ∈ nodes net o ∧ Path net o r x := by
  unfold reach at h
  obtain ⟨r, hr, hp⟩ := reachN_sound net o (roots.filter (fun r => (nodes net o).contains r)) _ _
    (fun y hy => ⟨y, hy, Path.refl y⟩) x h
  rw [List.mem_filter] at hr
  exact ⟨r, hr.1, by simpa using hr.2, hp⟩

/-- **exactly**: the reported set is the set of graph nodes without an energizing path from a slack bus that is itself a node -/
theorem C26_unsupplied_exact (net : Net) (o : Opts) (slacks : List Nat) (b : Nat) :
    b ∈ unsupplied net o slacks ↔ b ∈ nodes net o ∧ ¬ ∃ r ∈ slacks, r ∈ nodes net o ∧ Path net o r b := by
  have hc : ∀ l : List Nat, (l.contains b = false) ↔ b ∉ l := by intro l; simp
  simp only [unsupplied, List.mem_filter, Bool.not_eq_true', hc]
  constructor
  · rintro ⟨hb, hr⟩
    refine ⟨hb, ?_⟩
    rintro ⟨r, hr1, hr2, hp⟩
    exact hr (C26_reach_complete net o slacks r b hr1 hr2 hp)
  · rintro ⟨hb, hn⟩
    exact ⟨hb, fun h => hn (reach_sound_node net o slacks b h)⟩



/-- **reach = exactly the path-connected set** (sound and complete) -/
theorem C26_reach_exact (net : Net) (o : Opts) (roots : List Nat) (x : Nat) :
    x ∈ reach net o roots ↔ ∃ r ∈ roots, r ∈ nodes net o ∧ Path net o r x := by
  constructor
  · exact reach_sound_node net o roots x
  · rintro ⟨r, hr, hn, hp⟩; exact C26_reach_complete net o roots r x hr hn hp

/-- non-vacuity / witness: a line behind an open switch is no edge, behind a closed one it is -/
example :
    let net : Net := ⟨[(0, true), (1, true)], [⟨Kind.line, 7, 0, 1, true, 3⟩], [], [⟨0, 0, 7, SwT.l, false⟩]⟩
    let o : Opts := ⟨true, fun _ => true, false, [], [], none, none⟩
    adj net o = [] ∧ adj net { o with respect := false } = [⟨0, 1, Kind.line, 7, 3⟩, ⟨1, 0, Kind.line, 7, 3⟩] := by decide

end PPVerif.C26
