/-
  C09 — calculation results do not depend on the history of the network object.
  (1) cache model: if every entry the calculation uses is re-assigned by the call, and the result depends on the used
      entries only, then after ANY history of modifications and calculations the next calculation gives the result of a
      calculation on a fresh copy of the current tables; one used entry that is not re-assigned is enough for a
      history-dependent result (witness);
  (2) the entries re-assigned by the source (generated) cover the entries a power flow reads (decide); the clean-up counts
      the auxiliary rows as they are created; the start vector from previous results is total.
-/
import PPVerif.Model.CacheDefs
import PPVerif.Generated.C09
namespace PPVerif.Props.C09
open PPVerif.Cache PPVerif.Generated.C09

variable {K V T R : Type}

theorem entries_eq_fresh (s : Sys K V T R) (resets : K → Bool) (cache : K → Option V) (t : T) (k : K) (h : resets k = true) :
    entries s resets cache t k = s.fresh t k := by
  unfold entries; simp [h]

/-- **one call**: the result does not depend on the cache -/
theorem C09_call_ignores_cache (s : Sys K V T R) (resets : K → Bool)
    (hcover : ∀ k, s.used k = true → resets k = true)
    (hdep : ∀ t e e', (∀ k, s.used k = true → e k = e' k) → s.result t e = s.result t e')
    (cache : K → Option V) (t : T) :
    (run s resets cache t).1 = (run s resets (fun _ => none) t).1 := by
  unfold run
  apply hdep
  intro k hk
  rw [entries_eq_fresh s resets cache t k (hcover k hk), entries_eq_fresh s resets _ t k (hcover k hk)]

theorem after_tables (s : Sys K V T R) (resets : K → Bool) (ops : List (Op T)) :
    ∀ (st : T × (K → Option V)), ((ops.foldl (step s resets) st).1) =
      ops.foldl (fun t o => match o with | .modify f => f t | .calc => t) st.1 := by
  induction ops with
  | nil => intro st; rfl
  | cons o ops ih =>
    intro st
    rw [List.foldl_cons, List.foldl_cons, ih]
    congr 1
    obtain ⟨t, c⟩ := st
    cases o <;> rfl

/-- **any history**: the calculation after an arbitrary sequence of modifications and calculations equals the calculation
    on a fresh copy (empty cache) of the current tables -/
theorem C09_history_independent (s : Sys K V T R) (resets : K → Bool)
    (hcover : ∀ k, s.used k = true → resets k = true)
    (hdep : ∀ t e e', (∀ k, s.used k = true → e k = e' k) → s.result t e = s.result t e')
    (t0 : T) (ops : List (Op T)) :
    (run s resets (after s resets t0 ops).2 (after s resets t0 ops).1).1 =
      (run s resets (fun _ => none) (after s resets t0 ops).1).1 :=
  C09_call_ignores_cache s resets hcover hdep _ _

/-- witness: one used entry that is not re-assigned makes the result depend on an earlier calculation -/
def exSys : Sys Unit Nat Nat Nat := ⟨fun t _ => t, fun _ => true, fun _ e => e ()⟩
theorem C09_stale_entry_witness :
    (run exSys (fun _ => false) (after exSys (fun _ => false) 1 [.calc, .modify (fun _ => 5)]).2 5).1 = 1 ∧
    (run exSys (fun _ => false) (fun _ => none) 5).1 = 5 := by decide

/-- **the source re-assigns what a power flow reads**: lookups, internal ppc, options, in-service masks, result tables -/
def usedKeys : List String := ["_pd2ppc_lookups", "_ppc", "_options", "_is_elements", "res_tables"]
theorem C09_resets_cover_used : usedKeys.all (fun k => resetKeys.contains k) = true := by decide
theorem C09_cleanup_counts_all : cleanCountsAll = true := by decide
theorem C09_start_vector_total : startVectorTotal = true := by decide

end PPVerif.Props.C09
