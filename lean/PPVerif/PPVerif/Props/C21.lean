/-
  C21 — PYPOWER / MATPOWER conversion round trip.
  Generated: the branch classification of from_ppc, its line / impedance formulas, the columns _ppc2mpc overwrites; the
  per-unit formulas of build_branch.py come from Generated/C23.lean.
  Theorems: every branch falls into exactly one class; a per-unit branch converted to a line (1 km, parallel 1) or to an
  impedance has the same per-unit series and shunt values when converted back by build_branch (for all values);
  _ppc2mpc only rewrites the ratio column.
-/
import PPVerif.Generated.C21
import PPVerif.Generated.C23
import PPVerif.Generated.C02
import Mathlib.Tactic.Linarith
import Mathlib.Analysis.Real.Sqrt
import Mathlib.Data.Real.Sign
import Mathlib.Tactic.Ring
import Mathlib.Tactic.FieldSimp
import Mathlib.Algebra.CharZero.Defs
import Mathlib.Tactic.NormNum

namespace PPVerif.Props.C21
open PPVerif.Generated.C21 PPVerif.Generated.C23

/-- **partition**: every ppc branch is exactly one of line / transformer / impedance -/
theorem C21_branch_classes_partition (eqV tap0 tap1 shift0 : Bool) :
    (isLine eqV tap0 tap1 shift0 && !isTrafo eqV tap0 tap1 shift0 && !isImpedance eqV tap0 tap1 shift0) ||
    (!isLine eqV tap0 tap1 shift0 && isTrafo eqV tap0 tap1 shift0 && !isImpedance eqV tap0 tap1 shift0) ||
    (!isLine eqV tap0 tap1 shift0 && !isTrafo eqV tap0 tap1 shift0 && isImpedance eqV tap0 tap1 shift0) = true := by
  cases eqV <;> cases tap0 <;> cases tap1 <;> cases shift0 <;> decide

/-- a phase-shifting branch is a transformer, whatever its ratio and voltages -/
theorem C21_shift_is_trafo (eqV tap0 tap1 : Bool) : isTrafo eqV tap0 tap1 false = true ∧ isLine eqV tap0 tap1 false = false := by
  cases eqV <;> cases tap0 <;> cases tap1 <;> decide

section formulas
variable {K : Type} [Field K] [CharZero K]

/-- line: series value, susceptance and conductance survive ppc → table → ppc -/
theorem C21_line_series (R vn sn : K) (hv : vn ≠ 0) (hs : sn ≠ 0) : lineR (lR R vn sn) 1 1 vn sn = R := by
  unfold lineR lR; field_simp

theorem C21_line_susceptance (B vn sn f pi : K) (hv : vn ≠ 0) (hs : sn ≠ 0) (hf : f ≠ 0) (hp : pi ≠ 0) :
    lineB (lC B vn sn f pi) 1 1 vn sn f pi = B := by
  unfold lineB lC; field_simp

theorem C21_line_conductance (G vn sn : K) (hv : vn ≠ 0) (hs : sn ≠ 0) : lineG (lG G vn sn) 1 1 vn sn = G := by
  unfold lineG lG; field_simp

/-- impedance: series value and shunt survive -/
theorem C21_impedance_series (R sn sni : K) (hs : sn ≠ 0) (hi : sni ≠ 0) : impR (iR R sn sni) sni sn = R := by
  unfold impR iR; field_simp

theorem C21_impedance_shunt (G sn sni : K) (hs : sn ≠ 0) (hi : sni ≠ 0) : impG (iG G sn sni) sni sn = G := by
  unfold impG iG; field_simp
end formulas

/-- `_ppc2mpc` rewrites only the ratio column (index 8 = TAP) of branches without transformer -/
theorem C21_mpc_touches_tap_only : mpcTouched = ["8"] := by decide

/-! ## transformers: from_ppc's vk / vkr (Generated.C21) fed to the power flow's `_calc_r_x_from_dataframe` (Generated.C02) -/
section trafo
open PPVerif.Generated.C02

/-- from_ppc → power flow: the transformer created from a per-unit branch (r, x), rated power snt, on a net with the same base
    power and with the bus voltage equal to the transformer's rated voltage, gets back exactly r as series resistance -/
theorem C21_trafo_r_round_trip (r snt sn vn : ℝ) (hs : snt ≠ 0) (hn : sn ≠ 0) (hv : vn ≠ 0) :
    trafoZsc (tVkr r snt sn) snt vn vn sn = r := by
  unfold trafoZsc tVkr; field_simp

theorem C21_trafo_z_round_trip (r x snt sn vn : ℝ) (hs : snt ≠ 0) (hn : sn ≠ 0) (hv : vn ≠ 0) :
    trafoZsc (tVk (Real.sign x) (Real.sqrt (r ^ 2 + x ^ 2)) snt sn) snt vn vn sn = Real.sign x * Real.sqrt (r ^ 2 + x ^ 2) := by
  unfold trafoZsc tVk; field_simp

/-- … and exactly x as series reactance (x ≠ 0): sign(z_sc) · sqrt(z_sc² − r_sc²) = x -/
theorem C21_trafo_x_round_trip (r x snt sn vn : ℝ) (hx : x ≠ 0) (hs : snt ≠ 0) (hn : sn ≠ 0) (hv : vn ≠ 0) :
    Real.sign (trafoZsc (tVk (Real.sign x) (Real.sqrt (r ^ 2 + x ^ 2)) snt sn) snt vn vn sn) *
      Real.sqrt ((trafoZsc (tVk (Real.sign x) (Real.sqrt (r ^ 2 + x ^ 2)) snt sn) snt vn vn sn) ^ 2 -
                 (trafoZsc (tVkr r snt sn) snt vn vn sn) ^ 2) = x := by
  rw [C21_trafo_z_round_trip r x snt sn vn hs hn hv, C21_trafo_r_round_trip r snt sn vn hs hn hv]
  have hpos : 0 < r ^ 2 + x ^ 2 := by positivity
  have hsq : 0 < Real.sqrt (r ^ 2 + x ^ 2) := Real.sqrt_pos.2 hpos
  have hss : Real.sqrt (r ^ 2 + x ^ 2) ^ 2 = r ^ 2 + x ^ 2 := Real.sq_sqrt hpos.le
  rcases lt_or_gt_of_ne hx with hneg | hposx
  · rw [Real.sign_of_neg hneg]
    have h1 : (-1 : ℝ) * Real.sqrt (r ^ 2 + x ^ 2) < 0 := by linarith
    rw [Real.sign_of_neg h1]
    have : ((-1 : ℝ) * Real.sqrt (r ^ 2 + x ^ 2)) ^ 2 - r ^ 2 = x ^ 2 := by rw [mul_pow, hss]; ring
    rw [this, Real.sqrt_sq_eq_abs, abs_of_neg hneg]; ring
  · rw [Real.sign_of_pos hposx]
    have h1 : 0 < (1 : ℝ) * Real.sqrt (r ^ 2 + x ^ 2) := by linarith
    rw [Real.sign_of_pos h1]
    have : ((1 : ℝ) * Real.sqrt (r ^ 2 + x ^ 2)) ^ 2 - r ^ 2 = x ^ 2 := by rw [mul_pow, hss]; ring
    rw [this, Real.sqrt_sq_eq_abs, abs_of_pos hposx]; ring
end trafo

end PPVerif.Props.C21
